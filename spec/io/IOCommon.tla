------------------------------ MODULE IOCommon ------------------------------
(* Helpers shared by LimitReader.tla and TruncWriter.tla (so that IOTrace.tla *)
(* can EXTEND both without clashing definitions).                             *)
EXTENDS Integers

Min(a, b) == IF a < b THEN a ELSE b
=============================================================================
