------------------------------ MODULE IOCommon ------------------------------
(* Helpers shared by LimitReader.tla and TruncWriter.tla (so that IOTrace.tla *)
(* can EXTEND both without clashing definitions).                             *)
EXTENDS Integers

Min(a, b) == IF a < b THEN a ELSE b

(* EXTREME LIMITS.  TLC integers are 32-bit, the Go limits are uint64 / uint:  *)
(* a limit >= HugeBase is SYMBOLIC - "larger than every total that can be     *)
(* reached" - and stands for one of math.MaxInt64-1, MaxInt64, MaxInt64+1,    *)
(* MaxUint64-1, MaxUint64 (HugeBase + 0..4; the harness substitutes the real  *)
(* constant).  Nothing in the specifications treats it specially: with such a *)
(* limit the reader / writer must behave exactly like the unlimited           *)
(* pass-through (every request min(len, remaining) = len, nothing dropped),   *)
(* which is what the ordinary arithmetic yields.                              *)
HugeBase == 1000000000
=============================================================================
