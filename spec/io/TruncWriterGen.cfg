SPECIFICATION WGSpec
CONSTANTS
  WLimits = {0, 1, 2, 3}
  WriteLens = {0, 1, 2, 4}
  WErrs = {"nil", "E1"}
  WMaxSteps = 4
  EmitAll = FALSE
INVARIANTS WEmit ForwardedPrefix ReportsLen
CHECK_DEADLOCK FALSE
