SPECIFICATION TSpec
CONSTANTS
  Limits = {}
  BufLens = {}
  StreamLens = {}
  RErrs = {"nil", "EOF", "E1", "E2", "E3"}
  RMaxSteps = 0
  WLimits = {}
  WriteLens = {}
  WErrs = {"nil", "E1", "E2", "E3"}
  WMaxSteps = 0
INVARIANTS RemInv RequestBounded ObtainedBounded DeliveredBounded PrefixDelivered ErrPassThrough LimitSticky OffInv TForwardedPrefix ReportsLen WErrPassThrough NoCallWhenFull
CHECK_DEADLOCK FALSE
