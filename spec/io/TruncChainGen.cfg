SPECIFICATION TGSpec
CONSTANTS
  TDepths = {2, 3}
  TLimits = {1, 2}
  TWriteLens = {0, 1, 3}
  TWErrs = {"nil", "E1"}
  TMaxSteps = 3
  EmitAll = FALSE
INVARIANTS TEmit TTypeOK2 TEachLevel TForwarded TReportsLen TErrPass
CHECK_DEADLOCK FALSE
