SPECIFICATION WSpec
CONSTANTS
  WLimits = {0, 1, 2, 3, 4}
  WriteLens = {0, 1, 2, 3, 4, 5}
  WErrs = {"nil", "E1", "E2"}
  WMaxSteps = 8
INVARIANTS WTypeOK OffInv ForwardedPrefix ReportsLen WErrPassThrough NoCallWhenFull
CHECK_DEADLOCK FALSE
