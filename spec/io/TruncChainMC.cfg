SPECIFICATION TSpec2
CONSTANTS
  TDepths = {2, 3}
  TLimits = {0, 1, 2, 3}
  TWriteLens = {0, 1, 2, 4}
  TWErrs = {"nil", "E1"}
  TMaxSteps = 4
INVARIANTS TTypeOK2 TEachLevel TForwarded TReportsLen TErrPass
CHECK_DEADLOCK FALSE
