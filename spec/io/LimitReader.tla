---------------------------- MODULE LimitReader ----------------------------
(* ioutil.LimitReader(r, n): the implementation-shaped state (lim, rem) of    *)
(* ioutil/limitedreader.go together with the abstract bookkeeping property    *)
(* C15 talks about (what r was asked for, what r handed out, what the caller  *)
(* got).  The wrapped reader r is ADVERSARIAL: a request for m bytes is       *)
(* answered with any (k, e), 0 <= k <= m, k limited only by what is left of   *)
(* r's stream, e \in RErrs ("nil", "EOF" or an injected error) - so (0, nil), *)
(* short reads, data+EOF, data+error and errors that go away again are all    *)
(* behaviours.  A reader that returns k > m or k < 0 breaks io.Reader's       *)
(* contract and is out of scope.                                              *)
(*                                                                            *)
(* Bytes are identified with their position in r's stream: the chunk handed   *)
(* out by one call is [from+1 .. from+k]; "the delivered bytes are a prefix   *)
(* of r's stream" then reads: every delivered chunk starts where the          *)
(* previously delivered ones ended.                                           *)
EXTENDS Integers, IOCommon

CONSTANTS Limits,      \* values of n chosen in Init
          BufLens,     \* len(p) of the caller's Read calls
          StreamLens,  \* lengths of r's stream chosen in Init
          RErrs,       \* error outcomes of r: "nil", "EOF", "E1", ...
          RMaxSteps    \* bound on the number of Read calls (model checking only)

VARIABLES lim,     \* Go: lr.limit
          rem,     \* Go: lr.n, "bytes still allowed"
          slen,    \* length of r's stream
          pos,     \* r's stream position = bytes r has handed out so far
          dl,      \* bytes delivered to the caller so far
          rlast,   \* description of the last Read call (see NoRead)
          rsteps

rvars == <<lim, rem, slen, pos, dl, rlast, rsteps>>

(* rlast: buf = len(p); called = r.Read was called; req = len of the slice    *)
(* passed to r; k, rerr = r's answer; n, err = what Read returned; elim = the *)
(* Limit field when err = "Limit"; from = stream offset of the first          *)
(* delivered byte.                                                            *)
NoRead == [buf |-> 0, called |-> FALSE, req |-> 0, k |-> 0, rerr |-> "nil",
           n |-> 0, err |-> "none", elim |-> 0, from |-> 0]

RNew(n, sl) ==
    /\ lim = n /\ rem = n /\ slen = sl
    /\ pos = 0 /\ dl = 0 /\ rlast = NoRead

RInit == /\ \E n \in Limits, sl \in StreamLens : RNew(n, sl)
         /\ rsteps = 0

(* `if lr.n == 0 { return 0, &LimitError{Limit: lr.limit} }` *)
ReadLimit(b) ==
    /\ rem = 0
    /\ rlast' = [buf |-> b, called |-> FALSE, req |-> 0, k |-> 0, rerr |-> "nil",
                 n |-> 0, err |-> "Limit", elim |-> lim, from |-> pos]
    /\ UNCHANGED <<lim, rem, slen, pos, dl>>

(* `l := min(len(p), lr.n); n, err = lr.r.Read(p[:l]); lr.n -= n; return n, err` *)
ReadThrough(b, k, e) ==
    /\ rem > 0
    /\ LET m == Min(b, rem) IN
         /\ k \in 0..Min(m, slen - pos)          \* r's answer: adversarial
         /\ e \in RErrs
         /\ rem' = rem - k
         /\ pos' = pos + k
         /\ dl' = dl + k
         /\ rlast' = [buf |-> b, called |-> TRUE, req |-> m, k |-> k, rerr |-> e,
                      n |-> k, err |-> e, elim |-> 0, from |-> pos]
    /\ UNCHANGED <<lim, slen>>

(* DRIVER MODES.  The reader is not only driven by direct Read calls: io.Copy, *)
(* io.CopyBuffer, io.CopyN, io.ReadAll (and whatever optional interface the   *)
(* object offers them: io.WriterTo, io.ByteReader, ...) pull from it with     *)
(* buffers of their own choosing, which the environment cannot see.  What it  *)
(* can see is the request that reaches r: DriverRead(m, k, e) is "some Read   *)
(* (or equivalent) asked r for m bytes and got (k, e)" - a ReadThrough step   *)
(* for SOME buffer length, so every invariant above applies unchanged: r is   *)
(* never given room for byte n+1 however the reader is driven, every byte r   *)
(* hands out is charged, and the direct Reads that follow find the state      *)
(* (rem) those requests left behind.  Reads that answer with the limit error  *)
(* inside a driver are invisible and change nothing.                          *)
DriverRead(m, k, e) == ReadThrough(m, k, e) /\ rlast'.req = m   \* a buffer of m bytes asks for m iff m <= rem

(* The wrapped reader need not be a fixed stream: a *bytes.Buffer the          *)
(* environment appends to between Reads, a pipe, a connection.  Grow(c): c    *)
(* more bytes become available.  The requirement does not change - never more *)
(* than n delivered, the limit error after n - and in particular the reader   *)
(* returned by LimitReader limits r even when r holds fewer than n bytes at   *)
(* the moment it is wrapped.                                                  *)
Grow(c) ==
    /\ slen' = slen + c
    /\ UNCHANGED <<lim, rem, pos, dl, rlast>>

Read(b) == ReadLimit(b) \/ \E k \in 0..b, e \in RErrs : ReadThrough(b, k, e)

RNext == /\ rsteps < RMaxSteps
         /\ rsteps' = rsteps + 1
         /\ \E b \in BufLens : Read(b)

RSpec == RInit /\ [][RNext]_rvars

(* The reader's state space is finite without the step counter: model         *)
(* checking with this VIEW and a large RMaxSteps is exhaustive over ALL call  *)
(* sequences, not just the short ones.                                        *)
RView == <<lim, rem, slen, pos, dl, rlast>>

----------------------------------------------------------------------------
(* Property C15, reader half.  dlBefore is what had been delivered when the   *)
(* last call started.                                                         *)
dlBefore == dl - rlast.n

RTypeOK == /\ lim \in Nat /\ rem \in 0..lim /\ pos \in 0..slen /\ dl \in Nat
           /\ rlast.req \in Nat /\ rlast.n \in Nat

(* The inductive invariant tying the Go field to the abstract counters. *)
RemInv == rem + dl = lim /\ dl = pos

(* "never requests more than n bytes in total from r": what r has already     *)
(* handed out plus what it is asked for now never exceeds n (so r is never    *)
(* given room for the (n+1)-th byte), and a request never exceeds the         *)
(* caller's buffer.                                                           *)
RequestBounded == rlast.called =>
    /\ rlast.req <= lim - dlBefore
    /\ (pos - rlast.k) + rlast.req <= lim
    /\ rlast.req <= rlast.buf
ObtainedBounded == pos <= lim

(* "never delivers more than n" *)
DeliveredBounded == dl <= lim /\ rlast.n <= rlast.buf

(* "the delivered bytes are a prefix of r's stream": nothing is skipped,      *)
(* dropped or repeated.                                                       *)
PrefixDelivered == /\ dl = pos
                   /\ (rlast.n > 0 => rlast.from = dlBefore)

(* "r's errors pass through" - together with r's byte count. *)
ErrPassThrough == rlast.called => (rlast.err = rlast.rerr /\ rlast.n = rlast.k)

(* "once n bytes have been delivered every further Read returns 0 bytes and a *)
(* *LimitError carrying n" - and r is left alone; before that the limit error *)
(* is never produced.                                                         *)
LimitSticky ==
    /\ (rlast.err = "Limit") <=> (rlast.err # "none" /\ dlBefore = lim)
    /\ (rlast.err = "Limit") => (~rlast.called /\ rlast.n = 0 /\ rlast.elim = lim)
    /\ (rlast.err \notin {"Limit", "none"}) => rlast.called
LimitForever == [][(dl = lim) => (dl' = lim /\ pos' = pos /\ rlast'.err = "Limit")]_rvars
=============================================================================
