-------------------------- MODULE TruncWriterGen --------------------------
(* Generator for TruncWriter: every path of exactly WMaxSteps Write calls     *)
(* (all lengths x all answers of the wrapped writer) with the predicted       *)
(* forwarded slice, reported count and error of every call.                   *)
EXTENDS TruncWriter, Sequences, Json, CSV

CONSTANT EmitAll

VARIABLE whist
wgvars == <<wvars, whist>>

WGInit == WInit /\ whist = <<>>
(* One step, compact: <<len, called, req, from, j, werr, n, err>>. *)
WStep(r) == <<r.len, IF r.called THEN 1 ELSE 0, r.req, r.from, r.j, r.werr, r.n, r.err>>
WGNext == WNext /\ whist' = Append(whist, WStep(wlast'))
WGSpec == WGInit /\ [][WGNext]_wgvars

WEmit == (~EmitAll /\ wsteps < WMaxSteps)
         \/ CSVWrite("%1$s", <<ToJson([lim |-> wlim, steps |-> whist])>>, "writer_vectors.ndjson")
=============================================================================
