-------------------------- MODULE LimitReaderGen --------------------------
(* Generator: every path of LimitReader (all Read sizes x all answers of the  *)
(* adversarial reader) of exactly RMaxSteps calls, emitted with what the      *)
(* specification predicts for every call.  Under -simulate: long random       *)
(* paths (every state is emitted, the Go side replays each prefix).           *)
EXTENDS LimitReader, Sequences, Json, CSV

CONSTANT EmitAll   \* TRUE: emit every state (simulation); FALSE: only complete paths

VARIABLE rhist
rgvars == <<rvars, rhist>>

RGInit == RInit /\ rhist = <<>>
(* One step, compact: <<buf, called, req, k, rerr, n, err, elim, from>>. *)
RStep(r) == <<r.buf, IF r.called THEN 1 ELSE 0, r.req, r.k, r.rerr, r.n, r.err, r.elim, r.from>>
RGNext == RNext /\ rhist' = Append(rhist, RStep(rlast'))
RGSpec == RGInit /\ [][RGNext]_rgvars

REmit == (~EmitAll /\ rsteps < RMaxSteps)
         \/ CSVWrite("%1$s", <<ToJson([lim |-> lim, slen |-> slen, steps |-> rhist])>>, "reader_vectors.ndjson")
=============================================================================
