----------------------------- MODULE LimitChain -----------------------------
(* COMPOSITION of ioutil.LimitReader: a chain of cL limited readers, level 1  *)
(* outermost, level i wrapping level i+1, level cL wrapping the adversarial   *)
(* source of LimitReader.tla - e.g. an overall budget over a header budget    *)
(* over the connection.  The caller reads through ANY level (interleaved      *)
(* reads through the outer and the inner readers).  Every level is the        *)
(* reader of LimitReader.tla; this module composes them:                      *)
(*                                                                            *)
(*   Read at level j with len(p) = b: the first level i >= j whose budget is  *)
(*   used up answers (0, *LimitError{clim[i]}) and nothing below it is        *)
(*   touched; if there is none the source is asked for                        *)
(*   min(b, crem[j], ..., crem[cL]) bytes, and its answer (k, e) goes up      *)
(*   unchanged while EVERY level j..cL is charged k.                          *)
(*                                                                            *)
(* So the source is never asked beyond any budget on the path, an inner       *)
(* reader's state advances by what is read through the outer ones, and an     *)
(* inner reader's *LimitError reaches the caller with the INNER limit.        *)
EXTENDS Integers, Sequences, IOCommon

CONSTANTS CDepths,    \* chain lengths chosen in Init
          CLimits,    \* limits of the levels
          CBufLens,   \* len(p) of the caller's Read calls
          CRErrs,     \* error outcomes of the source
          CSLen,      \* length of the source's stream
          CMaxSteps

VARIABLES cL,      \* number of levels
          clim,    \* clim[i]: limit of level i
          crem,    \* crem[i]: Go lr.n of level i
          cgot,    \* cgot[i]: bytes obtained through level i so far
          cpos,    \* the source's stream position
          clast,   \* description of the last Read
          csteps

cvars == <<cL, clim, crem, cgot, cpos, clast, csteps>>

(* clast: entry = level read through; stop = level that answered with its     *)
(* LimitError (0 = the source was reached); the rest as rlast in LimitReader. *)
NoCRead == [entry |-> 0, buf |-> 0, stop |-> 0, called |-> FALSE, req |-> 0, k |-> 0, rerr |-> "nil",
            n |-> 0, err |-> "none", elim |-> 0, from |-> 0]

CInit == /\ cL \in CDepths
         /\ clim \in [1..cL -> CLimits]
         /\ crem = clim
         /\ cgot = [i \in 1..cL |-> 0]
         /\ cpos = 0 /\ clast = NoCRead /\ csteps = 0

Exhausted(j) == {i \in j..cL : crem[i] = 0}
MinOf(S) == CHOOSE x \in S : \A y \in S : x <= y
RECURSIVE MinRem(_, _)
MinRem(j, b) == IF j > cL THEN b ELSE MinRem(j + 1, Min(b, crem[j]))

(* Some level from j inwards has used up its budget. *)
CReadLimit(j, b) ==
    /\ Exhausted(j) # {}
    /\ LET s == MinOf(Exhausted(j)) IN
         clast' = [entry |-> j, buf |-> b, stop |-> s, called |-> FALSE, req |-> 0, k |-> 0, rerr |-> "nil",
                   n |-> 0, err |-> "Limit", elim |-> clim[s], from |-> cpos]
    /\ UNCHANGED <<cL, clim, crem, cgot, cpos>>

(* The request reaches the source. *)
CReadThrough(j, b, k, e) ==
    /\ Exhausted(j) = {}
    /\ LET m == MinRem(j, b) IN
         /\ k \in 0..Min(m, CSLen - cpos)
         /\ e \in CRErrs
         /\ crem' = [i \in 1..cL |-> IF i >= j THEN crem[i] - k ELSE crem[i]]
         /\ cgot' = [i \in 1..cL |-> IF i >= j THEN cgot[i] + k ELSE cgot[i]]
         /\ cpos' = cpos + k
         /\ clast' = [entry |-> j, buf |-> b, stop |-> 0, called |-> TRUE, req |-> m, k |-> k, rerr |-> e,
                      n |-> k, err |-> e, elim |-> 0, from |-> cpos]
    /\ UNCHANGED <<cL, clim>>

CRead(j, b) == CReadLimit(j, b) \/ \E k \in 0..b, e \in CRErrs : CReadThrough(j, b, k, e)

CNext == /\ csteps < CMaxSteps
         /\ csteps' = csteps + 1
         /\ \E j \in 1..cL, b \in CBufLens : CRead(j, b)

CSpec == CInit /\ [][CNext]_cvars

----------------------------------------------------------------------------
CTypeOK == /\ \A i \in 1..cL : crem[i] \in 0..clim[i] /\ cgot[i] \in 0..clim[i]
           /\ cpos \in 0..CSLen

(* Every level keeps LimitReader's inductive invariant ... *)
CRemInv == \A i \in 1..cL : crem[i] + cgot[i] = clim[i]
(* ... an inner level has seen everything that was read through the levels    *)
(* around it (plus what was read through itself), and the innermost one is    *)
(* the source's position.                                                     *)
CInnerAdvances == /\ \A i \in 1..(cL - 1) : cgot[i] <= cgot[i + 1]
                  /\ cgot[cL] = cpos
                  /\ (clast.called => \A i \in clast.entry..cL : cgot[i] >= clast.k)

(* The source is never asked beyond ANY budget on the path. *)
CSourceBounded == clast.called =>
    /\ \A i \in clast.entry..cL : clast.req <= clim[i] - (cgot[i] - clast.k)
    /\ clast.req <= clast.buf
    /\ cpos <= clim[cL]

(* Errors pass through unchanged - the source's, and an inner level's         *)
(* *LimitError with the limit of THAT level (the outermost exhausted one on   *)
(* the path), which is produced exactly when such a level exists.             *)
CErrPassThrough ==
    /\ clast.called => (clast.err = clast.rerr /\ clast.n = clast.k /\ clast.stop = 0)
    /\ (clast.err = "Limit") =>
          /\ ~clast.called /\ clast.n = 0
          /\ clast.stop \in clast.entry..cL
          /\ crem[clast.stop] = 0 /\ clast.elim = clim[clast.stop]
          /\ \A i \in clast.entry..(clast.stop - 1) : crem[i] > 0
    /\ (clast.err \notin {"Limit", "none"}) => clast.called

(* The delivered bytes are the next bytes of the source's stream. *)
CPrefix == clast.n > 0 => clast.from = cpos - clast.n

CView == <<cL, clim, crem, cgot, cpos, clast>>
=============================================================================
