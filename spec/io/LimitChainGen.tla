--------------------------- MODULE LimitChainGen ---------------------------
(* Generator for LimitChain: every path of exactly CMaxSteps reads (through   *)
(* any level, every buffer size, every answer of the source) with the         *)
(* predicted outcome of each read.  Replayed on real nested readers:          *)
(* LimitReader over LimitReader (over LimitReader) over the scripted source.  *)
EXTENDS LimitChain, Json, CSV

CONSTANT EmitAll

VARIABLE chist
cgvars == <<cvars, chist>>

(* One step, compact: <<entry, buf, called, req, k, rerr, n, err, elim, from>>. *)
CStep(r) == <<r.entry, r.buf, IF r.called THEN 1 ELSE 0, r.req, r.k, r.rerr, r.n, r.err, r.elim, r.from>>

CGInit == CInit /\ chist = <<>>
CGNext == CNext /\ chist' = Append(chist, CStep(clast'))
CGSpec == CGInit /\ [][CGNext]_cgvars

CEmit == (~EmitAll /\ csteps < CMaxSteps)
         \/ CSVWrite("%1$s", <<ToJson([lims |-> clim, steps |-> chist])>>, "rchain_vectors.ndjson")
=============================================================================
