SPECIFICATION RGSpec
CONSTANTS
  Limits = {0, 1, 2, 3}
  BufLens = {0, 1, 2, 4}
  StreamLens = {6}
  RErrs = {"nil", "EOF", "E1"}
  RMaxSteps = 4
  EmitAll = FALSE
INVARIANTS REmit RemInv RequestBounded LimitSticky
CHECK_DEADLOCK FALSE
