----------------------------- MODULE TruncChain -----------------------------
(* COMPOSITION of ioutil.TruncatedWriter: a chain of tL truncating writers,   *)
(* level 1 outermost, level i writing into level i+1, level tL into the       *)
(* scripted writer of TruncWriter.tla.  The caller writes into ANY level.     *)
(* Every level is the writer of TruncWriter.tla:                              *)
(*                                                                            *)
(*   Write of b bytes at level j: level i (from j inwards) receives b_i       *)
(*   bytes; if nothing remains of its limit it reports b_i and nothing below  *)
(*   is touched; otherwise it passes the first min(b_i, remaining_i) bytes    *)
(*   on, advances by that many whatever happens below, and reports b_i with   *)
(*   the error from below.                                                    *)
(*                                                                            *)
(* So w receives the first min(b, remaining_j, ..., remaining_tL) bytes of    *)
(* the caller's slice iff no level on the path is full, the caller is always  *)
(* told b, and w's error reaches the caller iff w was reached.                *)
EXTENDS Integers, Sequences, IOCommon

CONSTANTS TDepths, TLimits, TWriteLens, TWErrs, TMaxSteps

VARIABLES tL,      \* number of levels
          tlim,    \* tlim[i]: limit of level i
          toff,    \* toff[i]: Go w.offset of level i
          tin,     \* tin[i]: bytes written INTO level i so far (by the caller or by level i-1)
          tglob,   \* bytes the caller has written so far, at any level (position in its data)
          tfwd,    \* bytes passed to w so far
          tlast,
          tsteps

tvars2 == <<tL, tlim, toff, tin, tglob, tfwd, tlast, tsteps>>

(* tlast: entry = level written into; stop = first full level on the path     *)
(* (0 = w was reached); req = bytes passed to w; from = position of the first *)
(* forwarded byte in the caller's data; j, werr = w's answer; n, err = result *)
NoTWrite == [entry |-> 0, len |-> 0, stop |-> 0, called |-> FALSE, req |-> 0, from |-> 0, j |-> 0,
             werr |-> "nil", n |-> 0, err |-> "none"]

TInit2 == /\ tL \in TDepths
          /\ tlim \in [1..tL -> TLimits]
          /\ toff = [i \in 1..tL |-> 0] /\ tin = [i \in 1..tL |-> 0]
          /\ tglob = 0 /\ tfwd = 0 /\ tlast = NoTWrite /\ tsteps = 0

(* Bytes arriving at level i for a write of b bytes at level j (i >= j),      *)
(* provided no level before i is full.                                        *)
RECURSIVE Arrive(_, _, _)
Arrive(j, b, i) == IF i = j THEN b ELSE Min(Arrive(j, b, i - 1), tlim[i - 1] - toff[i - 1])
Full(j) == {i \in j..tL : tlim[i] - toff[i] = 0}
TMinOf(S) == CHOOSE x \in S : \A y \in S : x <= y
(* Levels that are entered: j .. the first full one (inclusive), or all. *)
LastEntered(j) == IF Full(j) = {} THEN tL ELSE TMinOf(Full(j))

ReqOf(j, b) == IF Full(j) = {} THEN Min(Arrive(j, b, tL), tlim[tL] - toff[tL]) ELSE 0

TWrite(j, b, ans, e) ==
    /\ LET s == LastEntered(j)
           reached == Full(j) = {}
           req == IF reached THEN Min(Arrive(j, b, tL), tlim[tL] - toff[tL]) ELSE 0
       IN /\ (reached => ans \in 0..req /\ e \in TWErrs)
          /\ (~reached => ans = 0 /\ e = "nil")
          /\ tin' = [i \in 1..tL |-> IF i >= j /\ i <= s THEN tin[i] + Arrive(j, b, i) ELSE tin[i]]
          /\ toff' = [i \in 1..tL |-> IF i >= j /\ i <= s
                                        THEN toff[i] + Min(Arrive(j, b, i), tlim[i] - toff[i]) ELSE toff[i]]
          /\ tfwd' = tfwd + req
          /\ tglob' = tglob + b
          /\ tlast' = [entry |-> j, len |-> b, stop |-> IF reached THEN 0 ELSE s, called |-> reached, req |-> req,
                       from |-> tglob, j |-> ans, werr |-> e, n |-> b, err |-> e]
    /\ UNCHANGED <<tL, tlim>>

TNext2 == /\ tsteps < TMaxSteps
          /\ tsteps' = tsteps + 1
          \* w's count is ignored by the code (all values are explored in TruncWriter.tla): 0 or everything here
          /\ \E j \in 1..tL, b \in TWriteLens : \E ans \in {0, ReqOf(j, b)}, e \in TWErrs : TWrite(j, b, ans, e)

TSpec2 == TInit2 /\ [][TNext2]_tvars2

----------------------------------------------------------------------------
TTypeOK2 == \A i \in 1..tL : toff[i] \in 0..tlim[i]

(* Every level forwards exactly the first min(received, limit) bytes of what  *)
(* it received ...                                                            *)
TEachLevel == \A i \in 1..tL : toff[i] = Min(tin[i], tlim[i])
(* ... w has received what the innermost level forwarded, never more than any *)
(* single write offered, and always a prefix of the slice being written.      *)
TForwarded == /\ tfwd = toff[tL]
              /\ tlast.req <= tlast.len
              /\ (tlast.called /\ tlast.req > 0) => tlast.from = tglob - tlast.len
(* The caller is always told len(b). *)
TReportsLen == tlast.n = tlast.len
(* w is reached iff no level on the path was full; its error is the caller's. *)
TErrPass == tlast.err # "none" =>
               /\ tlast.err = (IF tlast.called THEN tlast.werr ELSE "nil")
               /\ (tlast.called <=> tlast.stop = 0)
=============================================================================
