---------------------------- MODULE TruncWriter ----------------------------
(* ioutil.TruncatedWriter(w, n): implementation-shaped state (wlim, off) of   *)
(* ioutil/truncwriter.go and the abstract counters of property C15 (total =   *)
(* length of the concatenation of all b's written so far, fwd = bytes passed  *)
(* on to w).  Bytes are identified with their position in the concatenated    *)
(* writes.  The wrapped writer answers a Write of m bytes with any (j, e),    *)
(* 0 <= j <= m, e \in WErrs: short writes and failures are behaviours.  The   *)
(* code ignores j, advances by what it FORWARDED and hands e to the caller    *)
(* together with len(b) (the statement: "always reports len(b)").             *)
EXTENDS Integers, IOCommon

CONSTANTS WLimits, WriteLens, WErrs, WMaxSteps

VARIABLES wlim,    \* Go: w.limit
          off,     \* Go: w.offset
          total,   \* length of the concatenated writes so far
          fwd,     \* number of bytes passed to the wrapped writer so far
          wlast,   \* description of the last Write call
          wsteps

wvars == <<wlim, off, total, fwd, wlast, wsteps>>

(* wlast: len = len(b); called = w.Write was called; req = len of the slice   *)
(* passed to w; from = offset of that slice in the concatenated writes; j,    *)
(* werr = w's answer; n, err = what Write returned.                           *)
NoWrite == [len |-> 0, called |-> FALSE, req |-> 0, from |-> 0, j |-> 0,
            werr |-> "nil", n |-> 0, err |-> "none"]

WNew(n) == wlim = n /\ off = 0 /\ total = 0 /\ fwd = 0 /\ wlast = NoWrite

WInit == /\ \E n \in WLimits : WNew(n)
         /\ wsteps = 0

(* `remaining := limit - offset; if remaining == 0 { return len(b), nil }` *)
WriteDropped(b) ==
    /\ wlim - off = 0
    /\ total' = total + b
    /\ wlast' = [len |-> b, called |-> FALSE, req |-> 0, from |-> total, j |-> 0,
                 werr |-> "nil", n |-> b, err |-> "nil"]
    /\ UNCHANGED <<wlim, off, fwd>>

(* `idx := min(len(b), remaining); _, err = w.w.Write(b[:idx]); offset += idx; return len(b), err` *)
WriteForward(b, j, e) ==
    /\ wlim - off > 0
    /\ LET idx == Min(b, wlim - off) IN
         /\ j \in 0..idx                          \* w's answer: adversarial, ignored
         /\ e \in WErrs
         /\ off' = off + idx
         /\ fwd' = fwd + idx
         /\ total' = total + b
         /\ wlast' = [len |-> b, called |-> TRUE, req |-> idx, from |-> total, j |-> j,
                      werr |-> e, n |-> b, err |-> e]
    /\ UNCHANGED wlim

(* DRIVER MODES.  io.Copy(tw, src), io.WriteString, fmt.Fprintf (and whatever  *)
(* optional interface the writer offers them: io.ReaderFrom, io.StringWriter, *)
(* ...) decide themselves how the data is cut into Write calls.  The          *)
(* environment sees the data being supplied (Supply) and the slices arriving  *)
(* at w: ForwardPending(p, j, e) is "the p supplied bytes not yet passed on   *)
(* are written".  The invariants apply as they are: w receives exactly the    *)
(* first min(total, n) bytes, in order, and nothing once the limit is used    *)
(* up.                                                                        *)
Supply(c) ==
    /\ total' = total + c
    /\ UNCHANGED <<wlim, off, fwd, wlast>>

ForwardPending(p, j, e) ==
    /\ p > 0 /\ wlim - off > 0
    /\ LET idx == Min(p, wlim - off) IN
         /\ j \in 0..idx /\ e \in WErrs
         /\ off' = off + idx
         /\ fwd' = fwd + idx
         /\ wlast' = [len |-> p, called |-> TRUE, req |-> idx, from |-> total - p, j |-> j,
                      werr |-> e, n |-> p, err |-> e]
    /\ UNCHANGED <<wlim, total>>

Write(b) == WriteDropped(b) \/ \E j \in 0..b, e \in WErrs : WriteForward(b, j, e)

WNext == /\ wsteps < WMaxSteps
         /\ wsteps' = wsteps + 1
         /\ \E b \in WriteLens : Write(b)

WSpec == WInit /\ [][WNext]_wvars

----------------------------------------------------------------------------
totalBefore == total - wlast.len
fwdBefore == fwd - wlast.req

WTypeOK == wlim \in Nat /\ off \in 0..wlim /\ total \in Nat /\ fwd \in Nat

OffInv == off = fwd

(* "forwards to w exactly the first min(total, n) bytes of the concatenated   *)
(* writes, in order": the count is right after every call, and every          *)
(* forwarded slice is the next piece of the concatenation (it starts at the   *)
(* current b, which is where the forwarded prefix ended).                     *)
ForwardedPrefix ==
    /\ fwd = Min(total, wlim)
    /\ (wlast.called /\ wlast.req > 0) => (wlast.from = fwdBefore /\ fwdBefore = totalBefore)
    /\ wlast.req <= wlast.len

(* "always reports len(b) bytes written" *)
ReportsLen == wlast.n = wlast.len

(* What the code does where the statement is silent: w's error is handed to   *)
(* the caller; w is not called at all once the limit has been used up.        *)
WErrPassThrough == wlast.err # "none" => wlast.err = (IF wlast.called THEN wlast.werr ELSE "nil")
NoCallWhenFull == wlast.err # "none" => (wlast.called <=> fwdBefore < wlim)
=============================================================================
