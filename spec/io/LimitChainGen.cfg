SPECIFICATION CGSpec
CONSTANTS
  CDepths = {2}
  CLimits = {0, 1, 2}
  CBufLens = {0, 1, 3}
  CRErrs = {"nil", "EOF"}
  CSLen = 6
  CMaxSteps = 4
  EmitAll = FALSE
INVARIANTS CEmit CRemInv CInnerAdvances CSourceBounded CErrPassThrough CPrefix
CHECK_DEADLOCK FALSE
