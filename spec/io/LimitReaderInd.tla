--------------------------- MODULE LimitReaderInd ---------------------------
(* Optional extra for property C15 (never decisive): the counter arithmetic   *)
(* of ioutil.LimitReader over UNBOUNDED integers, for Apalache.  IndInv is    *)
(* shown inductive (Init => IndInv; IndInv /\ Next => IndInv') and to imply   *)
(* Safety, which is the arithmetic core of C15: every request fits into what  *)
(* is left of the limit and nothing beyond the limit is ever delivered.       *)
(* Same actions as LimitReader.tla, reduced to the integer state.             *)
EXTENDS Integers

VARIABLES
    \* @type: Int;
    lim,
    \* @type: Int;
    rem,
    \* @type: Int;
    dl,
    \* @type: Int;
    req,
    \* @type: Bool;
    limited

Min(a, b) == IF a < b THEN a ELSE b

Init == /\ lim \in Nat /\ rem = lim /\ dl = 0 /\ req = 0 /\ limited = FALSE

\* @type: (Int) => Bool;
ReadLimit(b) == /\ rem = 0
                /\ limited' = TRUE /\ req' = 0
                /\ UNCHANGED <<lim, rem, dl>>

\* @type: (Int, Int) => Bool;
ReadThrough(b, k) == /\ rem > 0
                     /\ k >= 0 /\ k <= Min(b, rem)
                     /\ req' = Min(b, rem)
                     /\ rem' = rem - k
                     /\ dl' = dl + k
                     /\ limited' = FALSE
                     /\ UNCHANGED lim

Next == \E b \in Nat : ReadLimit(b) \/ \E k \in Nat : ReadThrough(b, k)

IndInv == /\ lim >= 0 /\ rem >= 0 /\ dl >= 0
          /\ rem + dl = lim
          /\ req >= 0 /\ req <= lim
          /\ (limited => dl = lim)

(* Any state satisfying the invariant (not only reachable ones). *)
IndInit == /\ lim \in Int /\ rem \in Int /\ dl \in Int /\ req \in Int /\ limited \in BOOLEAN
           /\ IndInv

Safety == /\ dl <= lim
          /\ req <= lim
          /\ (limited => dl = lim)
=============================================================================
