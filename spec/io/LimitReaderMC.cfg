SPECIFICATION RSpec
CONSTANTS
  Limits = {0, 1, 2, 3, 4}
  BufLens = {0, 1, 2, 3, 4, 5}
  StreamLens = {0, 1, 2, 3, 4, 5, 6}
  RErrs = {"nil", "EOF", "E1", "E2"}
  RMaxSteps = 1000
INVARIANTS RTypeOK RemInv RequestBounded ObtainedBounded DeliveredBounded PrefixDelivered ErrPassThrough LimitSticky
PROPERTY LimitForever
VIEW RView
CHECK_DEADLOCK FALSE
