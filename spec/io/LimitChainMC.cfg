SPECIFICATION CSpec
CONSTANTS
  CDepths = {2, 3}
  CLimits = {0, 1, 2, 3}
  CBufLens = {0, 1, 2, 4}
  CRErrs = {"nil", "EOF", "E1"}
  CSLen = 5
  CMaxSteps = 1000
INVARIANTS CTypeOK CRemInv CInnerAdvances CSourceBounded CErrPassThrough CPrefix
VIEW CView
CHECK_DEADLOCK FALSE
