------------------------------ MODULE IOTrace ------------------------------
(* Trace validation for property C15: an NDJSON log recorded from the real    *)
(* ioutil.LimitReader / ioutil.TruncatedWriter (driven far outside the model  *)
(* checking bounds: n up to 10^6, long random call sequences, scripted        *)
(* misbehaving readers/writers) must be a behaviour of LimitReader.tla /      *)
(* TruncWriter.tla: each logged call is matched by the spec action of the     *)
(* same name with the logged arguments and environment answer, and every      *)
(* logged observable (request passed down, bytes, count, error, Limit) must   *)
(* equal what the action yields.  The properties are re-checked as            *)
(* invariants over the recorded behaviour.                                    *)
EXTENDS LimitReader, TruncWriter, Sequences, Json

Trace == ndJsonDeserialize("io_trace.ndjson")

VARIABLE l
tvars == <<rvars, wvars, l>>

TInit == /\ RNew(0, 0) /\ rsteps = 0
         /\ WNew(0) /\ wsteps = 0
         /\ l = 1

Ev == Trace[l]

(* NB: never prime an expression that mentions Ev. *)
RObsOK(e) == /\ rlast'.called = e.called
             /\ rlast'.req = e.req
             /\ rlast'.n = e.n
             /\ rlast'.err = e.err
             /\ rlast'.elim = e.elim
             /\ (e.n > 0 => rlast'.from = e.from)
WObsOK(e) == /\ wlast'.called = e.called
             /\ wlast'.req = e.req
             /\ wlast'.n = e.n
             /\ wlast'.err = e.err
             /\ (e.req > 0 => wlast'.from = e.from)

TNewR == /\ Ev.op = "newr"
         /\ lim' = Ev.lim /\ rem' = Ev.lim /\ slen' = Ev.slen
         /\ pos' = 0 /\ dl' = 0 /\ rlast' = NoRead
         /\ UNCHANGED wvars
TRead == /\ Ev.op = "read"
         /\ (ReadLimit(Ev.buf) \/ ReadThrough(Ev.buf, Ev.k, Ev.rerr))
         /\ RObsOK(Ev)
         /\ UNCHANGED wvars
TNewW == /\ Ev.op = "neww"
         /\ wlim' = Ev.lim /\ off' = 0 /\ total' = 0 /\ fwd' = 0 /\ wlast' = NoWrite
         /\ UNCHANGED rvars
TWrite == /\ Ev.op = "write"
          /\ (WriteDropped(Ev.len) \/ WriteForward(Ev.len, Ev.j, Ev.werr))
          /\ WObsOK(Ev)
          /\ UNCHANGED rvars

TNext == /\ l <= Len(Trace)
         /\ l' = l + 1
         /\ (TNewR \/ TRead \/ TNewW \/ TWrite)
         /\ UNCHANGED <<rsteps, wsteps>>
TSpec == TInit /\ [][TNext]_tvars
=============================================================================
