------------------------------ MODULE IOTrace ------------------------------
(* Trace validation for property C15: an NDJSON log recorded from the real    *)
(* ioutil.LimitReader / ioutil.TruncatedWriter (driven far outside the model  *)
(* checking bounds: n up to 10^6, long random call sequences, scripted        *)
(* misbehaving readers/writers) must be a behaviour of LimitReader.tla /      *)
(* TruncWriter.tla: each logged call is matched by the spec action of the     *)
(* same name with the logged arguments and environment answer, and every      *)
(* logged observable (request passed down, bytes, count, error, Limit) must   *)
(* equal what the action yields.  The properties are re-checked as            *)
(* invariants over the recorded behaviour.                                    *)
EXTENDS LimitReader, TruncWriter, Sequences, Json

Trace == ndJsonDeserialize("io_trace.ndjson")

VARIABLES l,
          ddst,    \* reader driver modes: stream offset up to which the driver's destination has received data
          wpend    \* writer driver modes: bytes supplied by the source and not yet written through
tvars == <<rvars, wvars, l, ddst, wpend>>

TInit == /\ RNew(0, 0) /\ rsteps = 0
         /\ WNew(0) /\ wsteps = 0
         /\ l = 1 /\ ddst = 0 /\ wpend = 0

Ev == Trace[l]

(* NB: never prime an expression that mentions Ev. *)
RObsOK(e) == /\ rlast'.called = e.called
             /\ rlast'.req = e.req
             /\ rlast'.n = e.n
             /\ rlast'.err = e.err
             /\ rlast'.elim = e.elim
             /\ (e.n > 0 => rlast'.from = e.from)
WObsOK(e) == /\ wlast'.called = e.called
             /\ wlast'.req = e.req
             /\ wlast'.n = e.n
             /\ wlast'.err = e.err
             /\ (e.req > 0 => wlast'.from = e.from)

TNewR == /\ Ev.op = "newr"
         /\ lim' = Ev.lim /\ rem' = Ev.lim /\ slen' = Ev.slen
         /\ pos' = 0 /\ dl' = 0 /\ rlast' = NoRead
         /\ ddst' = 0
         /\ UNCHANGED <<wvars, wpend>>
TRead == /\ Ev.op = "read"
         /\ (ReadLimit(Ev.buf) \/ ReadThrough(Ev.buf, Ev.k, Ev.rerr))
         /\ RObsOK(Ev)
         /\ ddst' = dl'                     \* a direct Read hands its bytes to the caller
         /\ UNCHANGED <<wvars, wpend>>
TNewW == /\ Ev.op = "neww"
         /\ wlim' = Ev.lim /\ off' = 0 /\ total' = 0 /\ fwd' = 0 /\ wlast' = NoWrite
         /\ wpend' = 0
         /\ UNCHANGED <<rvars, ddst>>
TWrite == /\ Ev.op = "write"
          /\ wpend = 0
          /\ (WriteDropped(Ev.len) \/ WriteForward(Ev.len, Ev.j, Ev.werr))
          /\ WObsOK(Ev)
          /\ UNCHANGED <<rvars, ddst, wpend>>

(* --- the wrapped reader is a standard-library reader (a *bytes.Buffer that    *)
(* grows, *strings.Reader, *bytes.Reader, *bufio.Reader, a pipe): it cannot   *)
(* be scripted or intercepted, so its answer is what was observed - k bytes   *)
(* consumed from it, and the error Read came back with.                       *)
TGrow == /\ Ev.op = "grow"
         /\ Grow(Ev.len)
         /\ UNCHANGED <<wvars, ddst, wpend, rsteps>>
TSRead == /\ Ev.op = "sread"
          /\ \/ /\ ReadLimit(Ev.buf)
                /\ Ev.err = "Limit" /\ Ev.elim = lim /\ Ev.n = 0 /\ Ev.k = 0
             \/ /\ Ev.err # "Limit"
                /\ ReadThrough(Ev.buf, Ev.k, Ev.err)
                /\ Ev.n = Ev.k
                /\ (Ev.n > 0 => Ev.from = rlast'.from)
          /\ ddst' = dl'
          /\ UNCHANGED <<wvars, wpend>>

(* --- reader driven through io.Copy / CopyBuffer / CopyN / ReadAll / optional interfaces *)
(* a request that reached r during the driver call *)
TDrvReq == /\ Ev.op = "rreq"
           /\ DriverRead(Ev.req, Ev.k, Ev.rerr)
           /\ UNCHANGED <<wvars, ddst, wpend>>
(* the driver's destination received Ev.len bytes sitting at stream offset    *)
(* Ev.from: they must be the next bytes of r's stream and bytes the reader    *)
(* has actually delivered.                                                    *)
TDrvDst == /\ Ev.op = "dst"
           /\ Ev.from = ddst
           /\ ddst + Ev.len <= dl
           /\ ddst' = ddst + Ev.len
           /\ UNCHANGED <<rvars, wvars, wpend>>
(* the driver call returned: a limit error only with Limit = n and only once  *)
(* n bytes have been delivered; whatever was delivered and not passed on is   *)
(* dropped by the driver.                                                     *)
TDrvRet == /\ Ev.op = "dret"
           /\ (Ev.err = "Limit" => (Ev.elim = lim /\ dl = lim))
           \* r's error, the destination's, io.Copy's own short-write verdict, the limit - nothing of the reader's own
           /\ Ev.err \in RErrs \cup WErrs \cup {"ShortWrite", "Limit"}
           /\ ddst' = dl
           /\ UNCHANGED <<rvars, wvars, wpend>>

(* --- writer driven through io.Copy / WriteString / Fprintf / optional interfaces *)
TSupply == /\ Ev.op = "supply"
           /\ Supply(Ev.len)
           /\ wpend' = wpend + Ev.len
           /\ UNCHANGED <<rvars, ddst, wsteps>>
TWCall == /\ Ev.op = "wcall"
          /\ ForwardPending(wpend, Ev.j, Ev.werr)
          /\ wlast'.req = Ev.req
          /\ (Ev.req > 0 => wlast'.from = Ev.from)
          /\ wpend' = 0
          /\ UNCHANGED <<rvars, ddst, wsteps>>
(* the driver returned: everything supplied went through (or was dropped      *)
(* because the limit is used up), all of it is reported as written, w's error *)
(* is the driver's.                                                           *)
TCRet == /\ Ev.op = "cret"
         /\ (Ev.err = "nil" => (wpend = 0 \/ wlim - off = 0))
         /\ (Ev.err = "nil" => Ev.n = Ev.len)
         /\ (Ev.err \notin {"nil"} => Ev.err = wlast.err)
         /\ wpend' = 0
         /\ UNCHANGED <<rvars, wvars, ddst>>

TNext == /\ l <= Len(Trace)
         /\ l' = l + 1
         /\ (TNewR \/ TRead \/ TNewW \/ TWrite \/ TGrow \/ TSRead \/ TDrvReq \/ TDrvDst \/ TDrvRet \/ TSupply \/ TWCall \/ TCRet)
         /\ UNCHANGED <<rsteps, wsteps>>
(* ForwardedPrefix while data supplied by a driver is still on its way. *)
TForwardedPrefix == (wpend = 0 \/ wlim - off = 0) => fwd = Min(total, wlim)

TSpec == TInit /\ [][TNext]_tvars
=============================================================================
