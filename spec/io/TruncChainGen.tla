--------------------------- MODULE TruncChainGen ---------------------------
(* Generator for TruncChain: every path of exactly TMaxSteps writes (into any *)
(* level) with the predicted call of w and result of each write.  Replayed on *)
(* real nested writers: TruncatedWriter over TruncatedWriter (over ...).      *)
EXTENDS TruncChain, Json, CSV

CONSTANT EmitAll

VARIABLE thist
tgvars == <<tvars2, thist>>

(* One step, compact: <<entry, len, called, req, from, j, werr, n, err>>. *)
TStep(r) == <<r.entry, r.len, IF r.called THEN 1 ELSE 0, r.req, r.from, r.j, r.werr, r.n, r.err>>

TGInit == TInit2 /\ thist = <<>>
TGNext == TNext2 /\ thist' = Append(thist, TStep(tlast'))
TGSpec == TGInit /\ [][TGNext]_tgvars

TEmit == (~EmitAll /\ tsteps < TMaxSteps)
         \/ CSVWrite("%1$s", <<ToJson([lims |-> tlim, steps |-> thist])>>, "wchain_vectors.ndjson")
=============================================================================
