------------------------------ MODULE ArpaAddr ------------------------------
(* Enumerates a bounded family of net.IP values (4-byte, 16-byte, IPv4-mapped  *)
(* and near-mapped forms), checks the C04 round-trip lemmas on each and, as a *)
(* generator, emits one vector per address: the bytes handed to               *)
(* IPToReversedAddr, the canonical name the specification predicts, and the    *)
(* predicted IPFromReversedAddr result for every case / trailing-dot variant   *)
(* of that name.                                                              *)
EXTENDS Arpa, Json, CSV

CONSTANTS Bytes,      \* byte alphabet for IPv4 and the IPv6 positions
          MBytes,     \* byte alphabet for the mapped and nearly mapped forms
          Fills       \* background bytes of the IPv6 families

VARIABLE st           \* [kind, pos, fill, bs]; the address is complete when bs is full
avars == <<st>>

Kinds == {"v4", "m4", "near", "one", "pair"}
Need(k) == CASE k = "v4" -> 4 [] k = "m4" -> 4 [] k = "near" -> 3 [] k = "one" -> 1 [] k = "pair" -> 2

Init == \/ \E k \in {"v4", "m4", "near"} : st = [kind |-> k, pos |-> 0, fill |-> 0, bs |-> <<>>]
        \/ \E p \in 1..16, f \in Fills : st = [kind |-> "one", pos |-> p, fill |-> f, bs |-> <<>>]
        \/ \E p \in 1..15, f \in Fills : st = [kind |-> "pair", pos |-> p, fill |-> f, bs |-> <<>>]

Next == /\ Len(st.bs) < Need(st.kind)
        /\ \E b \in (IF st.kind \in {"m4", "near"} THEN MBytes ELSE Bytes) : st' = [st EXCEPT !.bs = Append(@, b)]

Spec == Init /\ [][Next]_avars

Complete == Len(st.bs) = Need(st.kind)

Zeros(n) == Force([i \in 1..n |-> 0], n)
(* "near": everything that looks almost like ::ffff:a.b.c.d but is not mapped, *)
(* so it must be encoded as IPv6: bs = <<b1, b11, b12>> with the IPv4 tail     *)
(* fixed; mapped exactly when b1 = 0, b11 = b12 = 255 (also exercised).        *)
Addr == CASE st.kind = "v4" -> st.bs
          [] st.kind = "m4" -> Zeros(10) \o <<255, 255>> \o st.bs
          [] st.kind = "near" -> <<st.bs[1]>> \o Zeros(9) \o <<st.bs[2], st.bs[3]>> \o <<1, 2, 3, 4>>
          [] st.kind = "one" -> Force([i \in 1..16 |-> IF i = st.pos THEN st.bs[1] ELSE st.fill], 16)
          [] st.kind = "pair" -> Force([i \in 1..16 |-> IF i = st.pos THEN st.bs[1]
                                                   ELSE IF i = st.pos + 1 THEN st.bs[2] ELSE st.fill], 16)

----------------------------------------------------------------------------
(* Variants of a canonical name. *)
MixLabel(l, li) == Force([i \in 1..Len(l) |-> IF (li + i) % 2 = 0 THEN Upper(l[i]) ELSE l[i]], Len(l))
Cased(n, mode) == CASE mode = "lower" -> n
                    [] mode = "upper" -> MapName(Upper, n)
                    [] mode = "mixed" -> Force([i \in 1..Len(n) |-> MixLabel(n[i], i)], Len(n))
RECURSIVE WithDots(_, _)
WithDots(n, d) == IF d = 0 THEN n ELSE WithDots(Dotted(n), d - 1)
Modes == <<"lower", "upper", "mixed">>
Variant(n, mode, d) == WithDots(Cased(n, mode), d)

(* Invariants (design lemmas of C04). *)
RoundTripOK == Complete => RoundTrip(Addr)
VariantsOK == Complete =>
    LET nm == EncodeIP(Addr) want == DecodeAddr(nm) IN
    /\ \A i \in 1..3, d \in 0..1 : DecodeAddr(Variant(nm, Modes[i], d)) = want
    /\ \A i \in 1..3 : ~DecodeAddr(Variant(nm, Modes[i], 2)).ok
    /\ AcceptedIsCanonical(nm)
    /\ FullIsPrefix(nm)
MappedIsV4 == (Complete /\ IsMapped(Addr)) => EncodeIP(Addr) = Encode4(SubSeq(Addr, 13, 16))

----------------------------------------------------------------------------
Res(r) == [ok |-> r.ok, fam |-> r.fam, bytes |-> Tup(r.bytes), bits |-> r.bits]
VecOf(nm) ==
       [ip |-> Tup(Addr),
        name |-> Render(nm),
        vars |-> Force([k \in 1..9 |->
                    LET mode == Modes[((k - 1) \div 3) + 1]
                        d == (k - 1) % 3
                        v == Variant(nm, mode, d)
                    IN [s |-> Render(v), r |-> Res(DecodeAddr(v))]], 9)]
Vec == VecOf(EncodeIP(Addr))
Emit == Complete => CSVWrite("%1$s", <<ToJson(Vec)>>, "addr_vectors.ndjson")

(* VariantsOK and Emit in one evaluation per address (what the checks run):   *)
(* the emitted predictions themselves are the ones the lemma is checked on.   *)
GenOK == Complete =>
    LET nm == EncodeIP(Addr)
        want == Res(DecodeAddr(nm))
        vec == VecOf(nm)
    IN /\ \A k \in 1..9 : IF (k - 1) % 3 < 2 THEN vec.vars[k].r = want ELSE ~vec.vars[k].r.ok
       /\ AcceptedIsCanonical(nm)
       /\ FullIsPrefix(nm)
       /\ CSVWrite("%1$s", <<ToJson(vec)>>, "addr_vectors.ndjson")
=============================================================================
