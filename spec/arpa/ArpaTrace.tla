----------------------------- MODULE ArpaTrace -----------------------------
(* Trace validation for the ARPA family.  Every line of arpa_trace.ndjson is   *)
(* one call made on the real code by the Go drivers (vh c04 record / vh c05    *)
(* record) with seeded random addresses and randomly edited names:             *)
(*   enc: IPToReversedAddr(ip) returned name                                   *)
(*   ip / pfx / ext: IPFromReversedAddr / PrefixFromReversedAddr /             *)
(*        ExtractReversedAddr(name) returned [ok, fam, bytes, bits]            *)
(* Names are logged as labels of character tokens (Arpa.tla's text model),     *)
(* `dom` is the verdict of netutil.ValidateDomainName on the dot-stripped      *)
(* string.  A line is accepted iff the observed result is the one the          *)
(* operators of Arpa.tla yield; the log is a behaviour iff all lines are.      *)
EXTENDS Arpa, Json

Trace == ndJsonDeserialize("arpa_trace.ndjson")

VARIABLE l
tvars == <<l>>

Observed(e) == [ok |-> e.ok, fam |-> e.fam, bytes |-> e.bytes, bits |-> e.bits]

Judge(e) ==
    CASE e.op = "enc" -> e.name = EncodeIP(e.ip)
      [] e.op = "ip"  -> Observed(e) = DecodeAddr(e.name)
      [] e.op = "pfx" -> Observed(e) = DecodePrefix(e.name)
      [] e.op = "ext" -> Observed(e) = Extract(e.name, e.dom)

TInit == l = 1
TNext == /\ l <= Len(Trace)
         /\ Judge(Trace[l])
         /\ l' = l + 1
TSpec == TInit /\ [][TNext]_tvars
=============================================================================
