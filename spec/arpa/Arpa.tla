------------------------------- MODULE Arpa -------------------------------
(* The reverse-DNS (ARPA) name codec of netutil/reversed.go as pure operators. *)
(*                                                                            *)
(* Text model.  A *name* is the sequence of its labels, exactly what          *)
(* strings.Split(s, ".") yields: "4.3.2.1.in-addr.arpa." is the 7 labels      *)
(* 4, 3, 2, 1, in-addr, arpa and the empty label; every string corresponds to *)
(* exactly one non-empty label sequence.  A *label* is a sequence of          *)
(* character tokens; an ASCII character is the one-character TLA+ string, any *)
(* other character is a symbolic token such as "<0130>" that none of the      *)
(* tables below knows (so it is neither a digit, nor a hex digit, nor subject *)
(* to case folding).  Numeric meaning (octet values, nibble values) is        *)
(* computed here, from the digits.                                            *)
(*                                                                            *)
(* Addresses are byte sequences of length 4 or 16.  A decoding result is the  *)
(* record [ok, fam, bytes, bits]; `None` is the rejection.                    *)
EXTENDS Integers, Sequences, FiniteSets, TLC

----------------------------------------------------------------------------
(* Characters *)
Digits       == <<"0", "1", "2", "3", "4", "5", "6", "7", "8", "9">>
HexLower     == Digits \o <<"a", "b", "c", "d", "e", "f">>
LowerLetters == <<"a", "b", "c", "d", "e", "f", "g", "h", "i", "j", "k", "l", "m",
                  "n", "o", "p", "q", "r", "s", "t", "u", "v", "w", "x", "y", "z">>
UpperLetters == <<"A", "B", "C", "D", "E", "F", "G", "H", "I", "J", "K", "L", "M",
                  "N", "O", "P", "Q", "R", "S", "T", "U", "V", "W", "X", "Y", "Z">>

RangeOf(s) == {s[i] : i \in DOMAIN s}
Pos(s, c)  == CHOOSE i \in DOMAIN s : s[i] = c

DigitSet == RangeOf(Digits)
HexSet   == RangeOf(HexLower)            \* lower case only: names are folded first
LowerSet == RangeOf(LowerLetters)
UpperSet == RangeOf(UpperLetters)

DigitVal == [c \in DigitSet |-> Pos(Digits, c) - 1]
HexVal   == [c \in HexSet |-> Pos(HexLower, c) - 1]
LowerMap == [c \in UpperSet |-> LowerLetters[Pos(UpperLetters, c)]]
UpperMap == [c \in LowerSet |-> UpperLetters[Pos(LowerLetters, c)]]

(* ASCII-only case mapping: every other token is left alone. *)
Lower(c) == IF c \in UpperSet THEN LowerMap[c] ELSE c
Upper(c) == IF c \in LowerSet THEN UpperMap[c] ELSE c

----------------------------------------------------------------------------
(* Labels and names *)
(* TLC evaluates [i \in 1..n |-> e] lazily, on every application; Force turns it *)
(* into a real tuple once. *)
Force(f, len) == SubSeq(f, 1, len)
MapLabel(F(_), l) == Force([i \in 1..Len(l) |-> F(l[i])], Len(l))
MapName(F(_), n)  == Force([i \in 1..Len(n) |-> MapLabel(F, n[i])], Len(n))

(* One trailing dot (= one empty last label) is not part of the name. *)
StripDot(n) == IF Len(n) > 1 /\ Len(n[Len(n)]) = 0 THEN SubSeq(n, 1, Len(n) - 1) ELSE n

(* Canon: strip ONE trailing dot, fold ASCII case. *)
Canon(n) == MapName(Lower, StripDot(n))

Suffix(n, i) == SubSeq(n, i, Len(n))
EndsWith(n, suf) == Len(n) >= Len(suf) /\ Suffix(n, Len(n) - Len(suf) + 1) = suf

V4Suf == << <<"i", "n", "-", "a", "d", "d", "r">>, <<"a", "r", "p", "a">> >>
V6Suf == << <<"i", "p", "6">>, <<"a", "r", "p", "a">> >>

AllDigits(l) == \A i \in 1..Len(l) : l[i] \in DigitSet

(* Value of a label of 1..3 decimal digits. *)
DecVal(l) == IF Len(l) = 1 THEN DigitVal[l[1]]
             ELSE IF Len(l) = 2 THEN 10 * DigitVal[l[1]] + DigitVal[l[2]]
             ELSE 100 * DigitVal[l[1]] + 10 * DigitVal[l[2]] + DigitVal[l[3]]

(* RFC 1035 s3.5 octet label: decimal 0..255 without leading zeros. *)
IsOctet(l) == /\ Len(l) \in 1..3
              /\ AllDigits(l)
              /\ (Len(l) > 1 => l[1] # "0")
              /\ DecVal(l) <= 255

(* RFC 3596 s2.5 nibble label: one hexadecimal digit (of a folded name). *)
IsNibble(l) == Len(l) = 1 /\ l[1] \in HexSet

----------------------------------------------------------------------------
(* Results *)
None == [ok |-> FALSE, fam |-> 0, bytes |-> <<>>, bits |-> 0]
Some(f, bs, nbits) == [ok |-> TRUE, fam |-> f, bytes |-> Force(bs, IF f = 4 THEN 4 ELSE 16), bits |-> nbits]
FullBits(f) == IF f = 4 THEN 32 ELSE 128

(* C05: k <= 4 octet labels + in-addr.arpa, or k <= 32 nibble labels +       *)
(* ip6.arpa; the labels are the leading octets (nibbles) in reverse order,    *)
(* everything after them is zero.  c is a folded, dot-stripped name.          *)
PrefixOfCanon(c) ==
    IF EndsWith(c, V4Suf) THEN
        LET k == Len(c) - 2 IN
        IF k <= 4 /\ \A i \in 1..k : IsOctet(c[i])
        THEN Some(4, [j \in 1..4 |-> IF j <= k THEN DecVal(c[k - j + 1]) ELSE 0], 8 * k)
        ELSE None
    ELSE IF EndsWith(c, V6Suf) THEN
        LET k == Len(c) - 2
            \* the q-th most significant nibble of the address
            Nib(q) == IF q <= k THEN HexVal[c[k - q + 1][1]] ELSE 0
        IN IF k <= 32 /\ \A i \in 1..k : IsNibble(c[i])
           THEN Some(6, [j \in 1..16 |-> 16 * Nib(2 * j - 1) + Nib(2 * j)], 4 * k)
           ELSE None
    ELSE None

DecodePrefix(n) == PrefixOfCanon(Canon(n))

(* C04: exactly the full canonical names decode to an address (written       *)
(* independently of PrefixOfCanon; FullIsPrefix below relates the two).       *)
AddrOfCanon(c) ==
    IF Len(c) = 6 /\ EndsWith(c, V4Suf) /\ \A i \in 1..4 : IsOctet(c[i])
    THEN Some(4, <<DecVal(c[4]), DecVal(c[3]), DecVal(c[2]), DecVal(c[1])>>, 32)
    ELSE IF Len(c) = 34 /\ EndsWith(c, V6Suf) /\ \A i \in 1..32 : IsNibble(c[i])
    THEN Some(6, [j \in 1..16 |-> 16 * HexVal[c[34 - 2 * j][1]] + HexVal[c[33 - 2 * j][1]]], 128)
    ELSE None

DecodeAddr(n) == AddrOfCanon(Canon(n))

(* C05: the prefix of the LONGEST label-aligned suffix that DecodePrefix      *)
(* accepts, provided the whole (dot-stripped) domain is a valid domain name.  *)
DecodingSuffixes(c) == {i \in 1..Len(c) : PrefixOfCanon(Suffix(c, i)).ok}
MinOf(S) == CHOOSE x \in S : \A y \in S : x <= y
ExtractOfCanon(c, domOK) ==
    LET cands == DecodingSuffixes(c)
    IN IF domOK /\ cands # {} THEN PrefixOfCanon(Suffix(c, MinOf(cands))) ELSE None
Extract(n, domOK) == ExtractOfCanon(Canon(n), domOK)

----------------------------------------------------------------------------
(* Encoders *)
Dec(b) == IF b < 10 THEN <<Digits[b + 1]>>
          ELSE IF b < 100 THEN <<Digits[(b \div 10) + 1], Digits[(b % 10) + 1]>>
          ELSE <<Digits[(b \div 100) + 1], Digits[((b \div 10) % 10) + 1], Digits[(b % 10) + 1]>>

Encode4(b) == <<Dec(b[4]), Dec(b[3]), Dec(b[2]), Dec(b[1])>> \o V4Suf

(* label m of the name (m = 1 first) is the nibble number 33-m counted from   *)
(* the most significant one: low nibble of the last byte first.               *)
NibbleOf(b, q) == IF q % 2 = 1 THEN b[(q + 1) \div 2] \div 16 ELSE b[q \div 2] % 16
Encode6(b) == Force([m \in 1..32 |-> <<HexLower[NibbleOf(b, 33 - m) + 1]>>], 32) \o V6Suf

IsMapped(b) == /\ Len(b) = 16
               /\ \A i \in 1..10 : b[i] = 0
               /\ b[11] = 255 /\ b[12] = 255
Unmap(b) == IF IsMapped(b) THEN SubSeq(b, 13, 16) ELSE b

(* net.IP argument of IPToReversedAddr: 4 bytes, or 16 bytes where the        *)
(* IPv4-mapped form is encoded as IPv4.                                       *)
EncodeIP(b) == LET u == Unmap(b) IN IF Len(u) = 4 THEN Encode4(u) ELSE Encode6(u)

(* netip.Addr result of IPFromReversedAddr: the family is part of the value.  *)
EncodeResult(r) == IF r.fam = 4 THEN Encode4(r.bytes) ELSE Encode6(r.bytes)

----------------------------------------------------------------------------
(* "Valid domain name" (netutil.ValidateDomainName) for all-ASCII names, n    *)
(* dot-stripped: 1..253 bytes, labels of 1..63 bytes, the last label a        *)
(* hostname label that is not all digits.  The harness consults the real      *)
(* function; this model is cross-checked against it on every ASCII vector.    *)
LetterOrDigit(c) == c \in LowerSet \/ c \in UpperSet \/ c \in DigitSet
NameBytes(n) == LET S[i \in 0..Len(n)] == IF i = 0 THEN 0 ELSE S[i - 1] + Len(n[i])
                IN S[Len(n)] + Len(n) - 1
TLDOK(l) == /\ Len(l) \in 1..63
            /\ LetterOrDigit(l[1]) /\ LetterOrDigit(l[Len(l)])
            /\ \A i \in 1..Len(l) : LetterOrDigit(l[i]) \/ l[i] = "-"
            /\ ~AllDigits(l)
DomainOK(n) == /\ NameBytes(n) \in 1..253
               /\ \A i \in 1..(Len(n) - 1) : Len(n[i]) \in 1..63
               /\ TLDOK(n[Len(n)])

IsAsciiChar(c) == c \in LowerSet \/ c \in UpperSet \/ c \in DigitSet
                  \/ c \in {"-", "_", "+", ":", " ", "*", "/", "%", "~", "!", "@", "#", "$", "="}
IsAsciiName(n) == \A i \in 1..Len(n) : \A j \in 1..Len(n[i]) : IsAsciiChar(n[i][j])
(* ValidateDomainName judges idna.ToASCII(name), which rewrites "xn--" labels; *)
(* the model above is only claimed for names without such labels. *)
HasAceLabel(n) == \E i \in 1..Len(n) : Len(n[i]) >= 4 /\ MapLabel(Lower, SubSeq(n[i], 1, 4)) = <<"x", "n", "-", "-">>

----------------------------------------------------------------------------
(* Properties of the codec itself, checked by TLC over bounded sets of        *)
(* addresses a (byte sequences) and names n (label sequences).                *)

(* C04 round trip: decoding the canonical name gives the address back. *)
RoundTrip(a) == LET r == DecodeAddr(EncodeIP(a)) IN
                r.ok /\ r.bytes = Unmap(a) /\ r.fam = (IF Len(Unmap(a)) = 4 THEN 4 ELSE 6)

(* The lemmas below are stated on a folded name c = Canon(n) and its three     *)
(* decodings a = AddrOfCanon(c), p = PrefixOfCanon(c), e = ExtractOfCanon(c,   *)
(* TRUE), so that a checker evaluates each of them once per name.              *)

(* C04 accepted language: whatever decodes is, folded and dot-stripped, the   *)
(* canonical name of the result. *)
AcceptedIsCanonicalC(c, a) == a.ok => EncodeResult(a) = c
AcceptedIsCanonical(n) == LET c == Canon(n) IN AcceptedIsCanonicalC(c, AddrOfCanon(c))

(* A full name is also a prefix name, of all the bits. *)
FullIsPrefixC(a, p) == /\ a.ok => p = a
                       /\ (p.ok /\ p.bits = FullBits(p.fam)) => a.ok
FullIsPrefix(n) == LET c == Canon(n) IN FullIsPrefixC(AddrOfCanon(c), PrefixOfCanon(c))

(* C05: host bits are zero (bit lengths are multiples of 4, so this is stated *)
(* on nibbles). *)
HostBitsZero(r) == r.ok => /\ r.bits % 4 = 0
                           /\ \A q \in ((r.bits \div 4) + 1)..(2 * Len(r.bytes)) : NibbleOf(r.bytes, q) = 0
PrefixShapeR(r) == /\ HostBitsZero(r)
                   /\ r.ok => /\ Len(r.bytes) = (IF r.fam = 4 THEN 4 ELSE 16)
                              /\ r.bits <= FullBits(r.fam)
                              /\ \A i \in 1..Len(r.bytes) : r.bytes[i] \in 0..255
PrefixShape(n) == PrefixShapeR(DecodePrefix(n))

(* C05: a name that is itself a prefix name extracts to its own prefix. *)
PrefixExtractsC(p, e) == p.ok => e = p
PrefixExtracts(n) == LET c == Canon(n) IN PrefixExtractsC(PrefixOfCanon(c), ExtractOfCanon(c, TRUE))

(* C05: extraction succeeds iff the domain is valid and some label-aligned    *)
(* suffix decodes; the result is the prefix of one of them and no longer      *)
(* suffix decodes. *)
ExtractSoundC(c, e) ==
    /\ e.ok <=> \E i \in 1..Len(c) : PrefixOfCanon(Suffix(c, i)).ok
    /\ e.ok => \E i \in 1..Len(c) :
                  /\ PrefixOfCanon(Suffix(c, i)) = e
                  /\ \A j \in 1..(i - 1) : ~PrefixOfCanon(Suffix(c, j)).ok
    /\ ~ExtractOfCanon(c, FALSE).ok
    /\ PrefixShapeR(e)
ExtractSound(n) == LET c == Canon(n) IN ExtractSoundC(c, ExtractOfCanon(c, TRUE))

AllLemmasC(c, a, p, e) == /\ AcceptedIsCanonicalC(c, a)
                          /\ FullIsPrefixC(a, p)
                          /\ PrefixShapeR(p)
                          /\ PrefixExtractsC(p, e)
                          /\ ExtractSoundC(c, e)

(* Case and one trailing dot never matter; a second trailing dot always does. *)
Dotted(n) == n \o << <<>> >>
VariantsAgree(n) ==
    LET up == MapName(Upper, n) lo == MapName(Lower, n) IN
    /\ DecodeAddr(up) = DecodeAddr(n) /\ DecodeAddr(lo) = DecodeAddr(n)
    /\ DecodePrefix(up) = DecodePrefix(n) /\ DecodePrefix(lo) = DecodePrefix(n)
    /\ Extract(up, TRUE) = Extract(n, TRUE) /\ Extract(lo, TRUE) = Extract(n, TRUE)
    /\ (Len(n[Len(n)]) > 0 =>
          /\ DecodeAddr(Dotted(n)) = DecodeAddr(n)
          /\ DecodePrefix(Dotted(n)) = DecodePrefix(n)
          /\ Extract(Dotted(n), TRUE) = Extract(n, TRUE)
          /\ ~DecodeAddr(Dotted(Dotted(n))).ok
          /\ ~DecodePrefix(Dotted(Dotted(n))).ok
          /\ ~Extract(Dotted(Dotted(n)), TRUE).ok)

----------------------------------------------------------------------------
(* Rendering for the generators: a name as one string, labels joined by ".". *)
RECURSIVE CatChars(_, _)
CatChars(l, i) == IF i > Len(l) THEN "" ELSE l[i] \o CatChars(l, i + 1)
RECURSIVE CatLabels(_, _)
CatLabels(n, i) == IF i > Len(n) THEN ""
                   ELSE IF i = Len(n) THEN CatChars(n[i], 1)
                   ELSE CatChars(n[i], 1) \o "." \o CatLabels(n, i + 1)
Render(n) == CatLabels(n, 1)

(* Results as plain tuples so that ToJson always prints arrays. *)
Tup(f) == Force(f, Len(f))
=============================================================================
