---------------------------- MODULE ArpaDecState ----------------------------
(* "No hidden state" for the DECODERS, across calls and across goroutines: the  *)
(* value returned by IPFromReversedAddr / PrefixFromReversedAddr /              *)
(* ExtractReversedAddr is a function of that call's argument only, whatever was *)
(* decoded before and whatever other processes decode at the same time.         *)
(*                                                                             *)
(* The decoders fold the case of their argument before parsing it.  Three       *)
(* designs of that step, each call being the separate memory accesses it        *)
(* consists of, interleaved freely between processes:                           *)
(*                                                                             *)
(*   "pure"       the folded name is a private value of the call (what /repo    *)
(*                does: a fresh string);                                        *)
(*   "pool"       the folded name is written into a buffer taken from a shared  *)
(*                pool, parsed from there, and the buffer is put back once;     *)
(*   "doubleput"  as "pool", but the not-an-ARPA-name path puts the buffer      *)
(*                back early AND the deferred put runs as well: the pool then   *)
(*                holds the buffer twice and hands it to two calls at once.     *)
(*                                                                             *)
(* Obligation (invariant):                                                      *)
(*   NoHiddenState   every completed call returned Extract of its own argument  *)
(* TLC proves it for "pure" and "pool" and must refute it for "doubleput": one  *)
(* process looks up the ordinary mixed-case name WWW.Example.COM, then two      *)
(* processes decode mixed-case ARPA names concurrently and one of them parses   *)
(* the other's name.  The harness replays that history on the real decoders     *)
(* (non-ARPA mixed-case warm-up, then result-checked concurrent decoding).      *)
EXTENDS Arpa

CONSTANTS Design,      \* "pure" | "pool" | "doubleput"
          Procs,
          MaxCalls,
          Bufs         \* buffer ids (at least as many as processes)

L(a) == <<a>>
ARPA_UP == <<"A", "R", "P", "A">>
Names == {
    <<L("1"), <<"I", "N", "-", "A", "D", "D", "R">>, ARPA_UP>>,                  \* 1.IN-ADDR.ARPA
    <<L("2"), <<"I", "n", "-", "A", "d", "d", "r">>, <<"A", "r", "p", "a">>>>,   \* 2.In-Addr.Arpa
    <<L("A"), <<"I", "P", "6">>, ARPA_UP>>,                                      \* A.IP6.ARPA
    <<<<"W", "W", "W">>, <<"E", "x", "a", "m", "p", "l", "e">>, <<"C", "O", "M">>>> \* WWW.Example.COM
}

VARIABLES free,      \* free[b]: how many times buffer b is in the pool
          content,   \* content[b]: the folded name last written into buffer b
          pc,        \* "idle" | "filled" | "parsed"
          cur,       \* cur[p] = [arg, b, res]
          done,
          calls
dvars == <<free, content, pc, cur, done, calls>>

NoCall == [arg |-> <<>>, b |-> 0, res |-> None]
Init == /\ free = [b \in Bufs |-> 0]
        /\ content = [b \in Bufs |-> <<>>]
        /\ pc = [p \in Procs |-> "idle"]
        /\ cur = [p \in Procs |-> NoCall]
        /\ done = {}
        /\ calls = [p \in Procs |-> 0]

Held(b) == \E p \in Procs : pc[p] # "idle" /\ cur[p].b = b
(* Get: a pooled buffer if there is one, else a newly allocated one. *)
CanGet(b) == \/ free[b] > 0
             \/ (\A x \in Bufs : free[x] = 0) /\ ~Held(b)

PureCall(p) == /\ Design = "pure"
               /\ pc[p] = "idle" /\ calls[p] < MaxCalls
               /\ calls' = [calls EXCEPT ![p] = @ + 1]
               /\ \E n \in Names : done' = done \cup {[arg |-> n, res |-> Extract(n, TRUE)]}
               /\ UNCHANGED <<free, content, pc, cur>>

(* fold the argument into a pooled buffer *)
Fill(p) == /\ Design # "pure"
           /\ pc[p] = "idle" /\ calls[p] < MaxCalls
           /\ calls' = [calls EXCEPT ![p] = @ + 1]
           /\ \E n \in Names, b \in Bufs :
                /\ CanGet(b)
                /\ free' = [free EXCEPT ![b] = IF @ > 0 THEN @ - 1 ELSE 0]
                /\ content' = [content EXCEPT ![b] = Canon(n)]
                /\ cur' = [cur EXCEPT ![p] = [arg |-> n, b |-> b, res |-> None]]
           /\ pc' = [pc EXCEPT ![p] = "filled"]
           /\ UNCHANGED done
(* parse what the buffer holds NOW; the non-ARPA path of "doubleput" puts early *)
Parse(p) == /\ pc[p] = "filled"
            /\ LET r == ExtractOfCanon(content[cur[p].b], TRUE) IN
               /\ cur' = [cur EXCEPT ![p].res = r]
               /\ free' = IF Design = "doubleput" /\ ~r.ok
                          THEN [free EXCEPT ![cur[p].b] = @ + 1] ELSE free
            /\ pc' = [pc EXCEPT ![p] = "parsed"]
            /\ UNCHANGED <<content, done, calls>>
(* the deferred put, and return *)
Return(p) == /\ pc[p] = "parsed"
             /\ free' = [free EXCEPT ![cur[p].b] = @ + 1]
             /\ done' = done \cup {[arg |-> cur[p].arg, res |-> cur[p].res]}
             /\ pc' = [pc EXCEPT ![p] = "idle"]
             /\ cur' = [cur EXCEPT ![p] = NoCall]
             /\ UNCHANGED <<content, calls>>

Next == \E p \in Procs : PureCall(p) \/ Fill(p) \/ Parse(p) \/ Return(p)
Spec == Init /\ [][Next]_dvars

NoHiddenState == \A r \in done : r.res = Extract(r.arg, TRUE)
(* a buffer is never in the pool more often than once, nor pooled while in use *)
PoolSound == \A b \in Bufs : free[b] <= 1 /\ (Held(b) => free[b] = 0)

ASSUME Design \in {"pure", "pool", "doubleput"}
=============================================================================
