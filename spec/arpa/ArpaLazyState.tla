--------------------------- MODULE ArpaLazyState ---------------------------
(* Cold start: lazily initialised package state is hidden state whose first-use *)
(* window exists once per process.  The decoders classify characters (hex       *)
(* nibble values); a design may build that table on first use:                  *)
(*                                                                             *)
(*   "static"     no lazy state: the classification is code (what /repo does);  *)
(*   "flaglast"   the table is built under a lock and the ready flag is set     *)
(*                AFTER the table is complete; callers that do not see the flag *)
(*                take the lock (sync.Once);                                    *)
(*   "flagfirst"  the ready flag is set BEFORE the table is filled, and callers *)
(*                that see the flag skip the lock: a call that overlaps the     *)
(*                first call of the process parses with a half-filled table     *)
(*                (zero entries decode junk as nibble 0, 0xff entries reject    *)
(*                valid digits), so its result is not determined by its         *)
(*                argument.                                                     *)
(*                                                                             *)
(* Obligation: NoHiddenState - every completed call returned Extract of its own *)
(* argument.  TLC proves it for "static" and "flaglast" and must refute it for  *)
(* "flagfirst" (two processes, one call each).  The harness replays the         *)
(* refuting history: fresh processes whose first ARPA calls are released by one *)
(* barrier (vh c04|c05 coldstart).                                              *)
EXTENDS Arpa

CONSTANTS Design,      \* "static" | "flaglast" | "flagfirst"
          Procs,
          MaxCalls

NIB == <<"i", "p", "6">>
ARPA == <<"a", "r", "p", "a">>
Names == { <<<<"a">>, <<"7">>, NIB, ARPA>>,        \* a.7.ip6.arpa     valid
           <<<<"z">>, <<"7">>, NIB, ARPA>>,        \* z.7.ip6.arpa     z is no nibble
           <<<<"-">>, NIB, ARPA>> }                \* -.ip6.arpa

VARIABLES ready,     \* the first-use flag
          filled,    \* the table is complete
          pc,        \* "idle" | "init"
          cur,       \* argument of the call in progress
          done,
          calls
lvars == <<ready, filled, pc, cur, done, calls>>

Init == /\ ready = FALSE /\ filled = FALSE
        /\ pc = [p \in Procs |-> "idle"]
        /\ cur = [p \in Procs |-> <<>>]
        /\ done = {}
        /\ calls = [p \in Procs |-> 0]

(* What parsing with an incomplete table may return: anything but the right answer is possible; *)
(* one wrong value is enough for the refutation. *)
Wrong(n) == LET r == Extract(n, TRUE) IN IF r.ok THEN None ELSE Some(6, [j \in 1..16 |-> 0], 4)
Parsed(n) == IF Design = "static" \/ filled THEN {Extract(n, TRUE)} ELSE {Extract(n, TRUE), Wrong(n)}

Begin(p) == /\ pc[p] = "idle" /\ calls[p] < MaxCalls
            /\ calls' = [calls EXCEPT ![p] = @ + 1]
            /\ \E n \in Names :
                 IF Design = "static" \/ ready
                 THEN \* fast path: no lock, read the table as it is now
                      /\ \E r \in Parsed(n) : done' = done \cup {[arg |-> n, res |-> r]}
                      /\ UNCHANGED <<ready, filled, pc, cur>>
                 ELSE \* slow path: take the lock (nobody else may be initialising)
                      /\ \A q \in Procs : pc[q] # "init"
                      /\ pc' = [pc EXCEPT ![p] = "init"]
                      /\ cur' = [cur EXCEPT ![p] = n]
                      /\ ready' = (Design = "flagfirst")       \* the flag goes up before the table is filled
                      /\ UNCHANGED <<filled, done>>
Finish(p) == /\ pc[p] = "init"
             /\ filled' = TRUE /\ ready' = TRUE
             /\ done' = done \cup {[arg |-> cur[p], res |-> Extract(cur[p], TRUE)]}
             /\ pc' = [pc EXCEPT ![p] = "idle"]
             /\ UNCHANGED <<cur, calls>>

Next == \E p \in Procs : Begin(p) \/ Finish(p)
Spec == Init /\ [][Next]_lvars

NoHiddenState == \A r \in done : r.res = Extract(r.arg, TRUE)
ASSUME Design \in {"static", "flaglast", "flagfirst"}
=============================================================================
