SPECIFICATION Spec
CONSTANTS
  Tier = "quick"
  Sides = {4, 6}
  WithLeads = TRUE
INVARIANTS GenOK
CHECK_DEADLOCK FALSE
