SPECIFICATION Spec
CONSTANTS
  Bytes = {0, 1, 9, 10, 15, 16, 99, 100, 171, 255}
  MBytes = {0, 1, 9, 10, 15, 16, 99, 100, 171, 255}
  Fills = {0, 171}
INVARIANTS RoundTripOK MappedIsV4 GenOK
CHECK_DEADLOCK FALSE
