------------------------------ MODULE ArpaNames ------------------------------
(* Enumerates ARPA-shaped names: [leading labels] ++ body ++ [long nibble run] *)
(* ++ suffix shape ++ trailing dots, where the body is EVERY label sequence    *)
(* over a label table up to a length bound (grown to the left, the direction   *)
(* in which the Go scanners walk).  Each state is one name.  As a model it     *)
(* checks the C04/C05 lemmas of Arpa.tla on every name; as a generator it      *)
(* emits the name together with the results the specification predicts for     *)
(* IPFromReversedAddr, PrefixFromReversedAddr and ExtractReversedAddr.         *)
EXTENDS Arpa, Json, CSV

CONSTANTS Tier,        \* "mini" | "quick" | "thorough"
          Sides,       \* subset of {4, 6}
          WithLeads    \* BOOLEAN: also the configurations with leading labels

VARIABLES cf,          \* configuration record chosen in Init, constant afterwards
          body         \* label sequence, grows to the left
nvars == <<cf, body>>

----------------------------------------------------------------------------
(* Label tables *)
L1(a) == <<a>>
L2(a, b) == <<a, b>>
L3(a, b, c) == <<a, b, c>>
L4(a, b, c, d) == <<a, b, c, d>>
Rep(c, n) == Force([i \in 1..n |-> c], n)

T4Small == {L1("0"), L2("1", "0"), L3("2", "5", "5"), L2("0", "0"), L3("2", "5", "6"), L1("x")}
T4Core == T4Small \cup {L1("7"), L2("9", "9"), L2("0", "1"), L3("0", "0", "7"), L1("a"), L2("+", "1")}
T4Medium == T4Small \cup {L1("7"), L3("1", "0", "0"), L2("0", "1"), L1("a")}
T4More == T4Core \cup {L3("1", "0", "0"), L3("0", "0", "0"), L3("3", "0", "0"), L3("9", "9", "9"),
                       L4("1", "0", "0", "0"), L4("0", "2", "5", "5"), L1("f"), L2("1", "a"),
                       L2("-", "1"), L3("1", "_", "0"), <<>>, L1("-"),
                       <<":", ":", "f", "f", "f", "f", ":", "1">>, L2("2", "5")}

(* IPv6-literal-shaped labels: ':' and '%' are legal in domain-name labels, and a  *)
(* body such as ::ffff:4.3.2.1, ::ffff:4.3.2.1%eth0 or 0:0:0:0:0:ffff:403:201 is   *)
(* what an address parser behind the IPv4 decoder would take for 4.3.2.1.         *)
T4Lit == {L1("4"), L1("1"),
          <<":", ":", "f", "f", "f", "f", ":", "4">>,
          <<"1", "%", "e", "t", "h", "0">>,
          <<"0", ":", "0", ":", "0", ":", "0", ":", "0", ":", "f", "f", "f", "f", ":", "4", "0", "3", ":", "2", "0", "1">>,
          <<":", ":", "f", "f", "f", "f", ":", "4", "0", "3", ":", "2", "0", "1">>}
T6Lit == {L1("4"), L1("a"), <<":", ":", "a">>, <<"a", "%", "e", "t", "h", "0">>, <<":", ":">>, <<"a", ":", "b">>}

(* The root-suffix labels themselves as ordinary alphabet members: names in which *)
(* in-addr / ip6 / arpa occur in the middle, twice, or in the wrong order.         *)
TRoots == {L1("4"), L1("a"), <<"i", "n", "-", "a", "d", "d", "r">>, <<"i", "p", "6">>, <<"a", "r", "p", "a">>,
           <<"A", "R", "P", "A">>, <<"e", "v", "i", "l">>}

T6Small == {L1("0"), L1("a"), L1("F"), L1("g"), L2("a", "b"), L2("1", "0")}
T6Core == T6Small \cup {L1("7"), L1("f"), L1("A"), L1("x"), L2("a", "a"), L1("-"), L3("a", "b", "c")}
T6Medium == T6Small \cup {L1("7"), L1("f"), L1("x"), L2("a", "a")}
T6More == T6Core \cup {L2("1", "a"), L1("9"), L1("c"), L2("0", "0"), L1("_"), <<>>, L1("G"),
                       L3("a", "b", "c"), L2("x", "a"), L3("2", "5", "5"), L1(":"), L2("0", "x")}

Table(side, tab) ==
    CASE tab = "small" -> IF side = 4 THEN T4Small ELSE T6Small
      [] tab = "core" -> IF side = 4 THEN T4Core ELSE T6Core
      [] tab = "medium" -> IF side = 4 THEN T4Medium ELSE T6Medium
      [] tab = "more" -> IF side = 4 THEN T4More ELSE T6More
      [] tab = "lit" -> IF side = 4 THEN T4Lit ELSE T6Lit
      [] tab = "roots" -> TRoots

----------------------------------------------------------------------------
(* Suffix shapes.  Shape 1 of each side is the true suffix. *)
INADDR == <<"i", "n", "-", "a", "d", "d", "r">>
ARPA == <<"a", "r", "p", "a">>
IP6 == <<"i", "p", "6">>
COM == <<"c", "o", "m">>
EXAMPLE == <<"E", "x", "a", "m", "p", "l", "e">>       \* an ordinary name in mixed case (DNS 0x20)
EVIL == <<"e", "v", "i", "l">>
(* a genuinely non-ASCII label, U+00E4 r p a, and its correct ACE form *)
AUML_RPA == <<"<00E4>", "r", "p", "a">>
ACE_AUML_RPA == <<"x", "n", "-", "-", "r", "p", "a", "-", "p", "l", "a">>

(* ACE alias of an all-ASCII label l: "xn--" l "-" is what idna.ToASCII /       *)
(* ToUnicode map back to l itself (Punycode with an empty non-basic part).  It  *)
(* is a different DNS name, so it is never an octet, a nibble or a suffix      *)
(* label. *)
Ace(l) == <<"x", "n", "-", "-">> \o l \o <<"-">>
(* the j-th label from the right (1 = last) in its ACE-alias form *)
AceAt(n, j) == IF j = 0 \/ j > Len(n) THEN n
               ELSE [n EXCEPT ![Len(n) - j + 1] = Ace(@)]
Shapes4 == <<
    <<INADDR, ARPA>>,
    <<MapLabel(Upper, INADDR), MapLabel(Upper, ARPA)>>,
    <<<<"I", "n", "-", "a", "D", "D", "r">>, <<"a", "R", "p", "A">>>>,
    <<<<"x">> \o INADDR, ARPA>>,
    <<<<"1">> \o INADDR, ARPA>>,
    <<INADDR>>,
    <<ARPA>>,
    <<INADDR, COM>>,
    <<<<"<0130>">> \o Tail(INADDR), ARPA>>,
    <<<<"<0131>">> \o Tail(INADDR), ARPA>>,
    <<<<"<0130>">> \o Tail(MapLabel(Upper, INADDR)), MapLabel(Upper, ARPA)>>,
    <<INADDR, ARPA \o <<"<212A>">>>>,
    <<INADDR, ARPA, <<"x">>>>,
    <<INADDR, <<"x">>, ARPA>>,
    <<IP6, ARPA>>,
    <<>>,
    <<INADDR, AUML_RPA>>,
    <<INADDR, ACE_AUML_RPA>>,
    <<<<"i", "n", "<000D>", "a", "d", "d", "r">>, ARPA>>,
    <<<<"1", "<000E>">> \o INADDR, ARPA>>,
    <<INADDR \o <<"<000E>">> \o ARPA>>,
    <<INADDR, <<"a", "r", "p", "<0001>">>>>,
    <<EXAMPLE, MapLabel(Upper, COM)>> >>
Shapes6 == <<
    <<IP6, ARPA>>,
    <<MapLabel(Upper, IP6), MapLabel(Upper, ARPA)>>,
    <<<<"i", "P", "6">>, <<"A", "r", "P", "a">>>>,
    <<<<"x">> \o IP6, ARPA>>,
    <<<<"a">> \o IP6, ARPA>>,
    <<IP6>>,
    <<ARPA>>,
    <<IP6, COM>>,
    <<<<"<0130>">> \o Tail(IP6), ARPA>>,
    <<<<"<0131>">> \o Tail(IP6), ARPA>>,
    <<<<"<0130>">> \o Tail(MapLabel(Upper, IP6)), MapLabel(Upper, ARPA)>>,
    <<IP6, ARPA \o <<"<212A>">>>>,
    <<IP6, ARPA, <<"x">>>>,
    <<IP6, <<"x">>, ARPA>>,
    <<INADDR, ARPA>>,
    <<>>,
    <<IP6, AUML_RPA>>,
    <<IP6, ACE_AUML_RPA>>,
    <<<<"i", "p", "<0016>">>, ARPA>>,
    <<<<"a", "<000E>">> \o IP6, ARPA>>,
    <<IP6 \o <<"<000E>">> \o ARPA>>,
    <<<<"<0009>", "p", "6">>, ARPA>>,
    <<EXAMPLE, MapLabel(Upper, COM)>> >>
Shapes(side) == IF side = 4 THEN Shapes4 ELSE Shapes6
NShapes == 23

(* Leading labels for extraction.  Lead 1 is "none". *)
X63 == Rep("x", 63)
Leads == <<
    <<>>,
    <<L1("x")>>,
    <<L3("f", "o", "o"), L4("_", "s", "r", "v")>>,
    <<L1("1")>>,
    <<L1("a"), L1("b")>>,
    <<<<>>>>,
    <<L1("x"), <<>>>>,
    <<X63>>,
    <<X63 \o <<"x">>>>,
    <<X63, X63, X63, Rep("y", 46)>>,
    <<X63, X63, X63, Rep("y", 45)>>,
    <<L1("<00E9>")>>,
    <<L1("<212A>")>>,
    <<L1("1"), INADDR, ARPA>>,
    <<L1("1"), IP6, ARPA>>,
    <<L2("*", "x"), L1("2")>>,
    <<<<"x", "n", "-", "-", "9", "c", "a">>>>,
    <<Ace(L1("1"))>> >>
NLeads == 18

(* Middles: label sequences between the address part and the final suffix shape, *)
(* so that a complete (or partial) ARPA name is followed by further labels and by *)
(* a second root suffix: 4.3.2.1.in-addr.arpa.in-addr.arpa,                        *)
(* 4.3.2.1.in-addr.arpa.evil.example.in-addr.arpa, ....ip6.arpa.in-addr.arpa.      *)
(* Mid 1 is "none".                                                                *)
Mids == <<
    <<>>,
    <<INADDR, ARPA>>,
    <<IP6, ARPA>>,
    <<INADDR, ARPA, EVIL, MapLabel(Lower, EXAMPLE)>>,
    <<IP6, ARPA, EVIL>>,
    <<MapLabel(Upper, INADDR), MapLabel(Upper, ARPA)>>,
    <<INADDR, ARPA, L1("1")>>,
    <<IP6, ARPA, L1("a")>>,
    <<INADDR>>,
    <<ARPA>>,
    <<IP6>>,
    <<ARPA, INADDR>> >>
NMids == 12

(* Long nibble runs: label i of a run is the nibble (7i mod 16) so that a      *)
(* shifted or swapped position changes the value; position bp (if any) holds   *)
(* the label bl instead. *)
RunLabel(i) == <<HexLower[((7 * i) % 16) + 1]>>
Run(n, bp, bl) == Force([i \in 1..n |-> IF i = bp THEN bl ELSE RunLabel(i)], n)

----------------------------------------------------------------------------
Cfg(side, shape, lead, dots, tab, max, bn, bp, bl) ==
    [side |-> side, shape |-> shape, lead |-> lead, dots |-> dots, tab |-> tab, max |-> max,
     bn |-> bn, bp |-> bp, bl |-> bl, ace |-> 0, mid |-> 1]
WithAce(c, j) == [c EXCEPT !.ace = j]
WithMid(c, m) == [c EXCEPT !.mid = m]
Plain(side, shape, lead, dots, tab, max) == Cfg(side, shape, lead, dots, tab, max, 0, 0, <<>>)

(* Bounds per tier: the wide table up to WideMax labels, the reduced one up to *)
(* DeepMax, the variant configurations (shapes, dots, leads) up to VarMax.     *)
WideTab == CASE Tier = "thorough" -> "more" [] Tier = "quick" -> "core" [] OTHER -> "small"
DeepTab == CASE Tier = "thorough" -> "medium" [] OTHER -> "small"
WideMax == IF Tier = "mini" THEN 3 ELSE 4
DeepMax == IF Tier = "mini" THEN 3 ELSE 5
RunLens == IF Tier = "mini" THEN {32} ELSE 28..34
VarMax == CASE Tier = "thorough" -> 3 [] Tier = "quick" -> 2 [] OTHER -> 1
VarTab == IF Tier = "mini" THEN "small" ELSE "core"

LeadSet == IF WithLeads THEN 2..NLeads ELSE {}

Configs(side) ==
    \* every body up to length 4 (wide table) and 5 (reduced table) before the true suffix
    {Plain(side, 1, 1, 0, WideTab, WideMax), Plain(side, 1, 1, 0, DeepTab, DeepMax)}
    \* every other suffix shape, and one / two trailing dots
    \cup {Plain(side, sh, 1, 0, VarTab, VarMax) : sh \in 2..NShapes}
    \cup {Plain(side, sh, 1, d, VarTab, VarMax) : sh \in {1, 2, 9}, d \in 1..2}
    \* leading labels (extraction)
    \cup {Plain(side, 1, ld, 0, VarTab, VarMax) : ld \in LeadSet}
    \cup {Plain(side, sh, ld, d, "small", 2) : sh \in {2, 4}, ld \in LeadSet \cap {2, 6, 10, 11, 14}, d \in 0..1}
    \* the root-suffix labels as ordinary labels: every sequence over the roots table ...
    \cup {Plain(side, sh, 1, 0, "roots", IF Tier = "mini" THEN 2 ELSE 4) : sh \in {1, 16}}
    \* ... and ARPA names (partial: enumerated bodies) followed by a middle and a second suffix
    \cup {WithMid(Plain(side, sh, ld, 0, "small", VarMax), m) :
             sh \in {1, 15}, ld \in {1} \cup (LeadSet \cap {2}), m \in 2..NMids}
    \* IPv6-literal-shaped bodies (mapped, zoned, fully expanded) before the suffix
    \cup {Plain(side, sh, 1, d, "lit", IF side = 4 THEN 4 ELSE 2) : sh \in {1, 2}, d \in 0..1}
    \* ACE aliases: each of the last labels (suffix labels and the body labels next to them)
    \* replaced by its "xn--<label>-" form
    \cup {WithAce(Plain(side, sh, ld, d, VarTab, VarMax), j) :
             sh \in {1, 2}, ld \in {1} \cup (LeadSet \cap {2}), d \in 0..1, j \in 1..(2 + VarMax)}
    \* long nibble runs: every body up to 4 labels before a 30-run (lengths 30..34) ...
    \cup (IF side = 6 THEN
            {Cfg(6, 1, 1, 0, DeepTab, WideMax, 30, 0, <<>>)}
            \cup {Cfg(6, 1, 1, 0, "small", 3, 29, 0, <<>>)}
            \* ... each position of a run of 28..34 replaced by each table label ...
            \cup UNION {{Cfg(6, 1, 1, 0, "small", 0, n, p, l) : p \in 1..n, l \in Table(6, WideTab)} : n \in RunLens}
            \* ... and runs under the other shapes, dots and leads
            \cup {Cfg(6, sh, 1, d, "small", 1, n, 0, <<>>) : sh \in {1, 2, 3, 4, 9, 15}, d \in 0..2, n \in 30..33}
            \cup {Cfg(6, 1, ld, 0, "small", 1, n, 0, <<>>) : ld \in LeadSet, n \in 30..33}
            \* full 32-nibble (and 31/33) names followed by a middle and a second suffix
            \cup {WithMid(Cfg(6, sh, 1, d, "small", 1, n, 0, <<>>), m) : sh \in {1, 15}, d \in 0..1, n \in 31..32, m \in 2..NMids}
            \cup UNION {{WithAce(Cfg(6, 1, 1, d, "small", 1, n, 0, <<>>), j) :
                           j \in {1, 2, 3, 4, 18, n + 1, n + 2, n + 3}, d \in 0..1} : n \in 31..32}
          ELSE
            \* four octets with more in front: longest-suffix logic of extraction
            {Cfg(4, 1, 1, 0, DeepTab, 3, 3, 0, <<>>)}
            \* ... and full four-octet names before every shape, with and without a dot
            \cup {Cfg(4, sh, 1, d, "small", 1, 3, 0, <<>>) : sh \in 2..NShapes, d \in 0..1}
            \cup {WithAce(Cfg(4, 1, 1, d, "small", 1, 3, 0, <<>>), j) : j \in 1..6, d \in 0..1}
            \* full four-octet names followed by a middle and a second suffix
            \cup {WithMid(Cfg(4, sh, 1, d, "small", 1, 3, 0, <<>>), m) : sh \in {1, 15}, d \in 0..1, m \in 2..NMids})

(* For side 4 the "run" is a fixed tail of bn octet labels 1.2.3 ... *)
Base(c) == IF c.bn = 0 THEN <<>>
           ELSE IF c.side = 6 THEN Run(c.bn, c.bp, c.bl)
           ELSE Force([i \in 1..c.bn |-> <<Digits[i + 1]>>], c.bn)

(* The root state only chooses a configuration (so that TLC's workers share    *)
(* the expensive configurations); it is not a name. *)
Root == Plain(0, 1, 1, 0, "small", 0)
IsName == cf.side # 0

Init == cf = Root /\ body = <<>>

Next == \/ /\ cf = Root
           /\ \E side \in Sides : cf' \in Configs(side)
           /\ UNCHANGED body
        \/ /\ IsName
           /\ Len(body) < cf.max
           /\ \E l \in Table(cf.side, cf.tab) : body' = <<l>> \o body
           /\ UNCHANGED cf

Spec == Init /\ [][Next]_nvars

RECURSIVE AddDots(_, _)
AddDots(n, d) == IF d = 0 THEN n ELSE AddDots(Dotted(n), d - 1)
Name == LET core == Leads[cf.lead] \o AceAt(body \o Base(cf) \o Mids[cf.mid] \o Shapes(cf.side)[cf.shape], cf.ace)
        IN AddDots(IF Len(core) = 0 THEN << <<>> >> ELSE core, cf.dots)

----------------------------------------------------------------------------
(* Lemmas, per name *)
Lemmas == IsName =>
          LET c == Canon(Name) IN AllLemmasC(c, AddrOfCanon(c), PrefixOfCanon(c), ExtractOfCanon(c, TRUE))
Variants == IsName => VariantsAgree(Name)

----------------------------------------------------------------------------
Res(r) == [ok |-> r.ok, fam |-> r.fam, bytes |-> Tup(r.bytes), bits |-> r.bits]
VecOf(n, a, p, e) ==
       [name |-> n,                \* labels as character tokens; the harness joins them
        ip |-> Res(a),
        pfx |-> Res(p),
        ext |-> Res(e),            \* if the domain is valid (see dom)
        dom |-> DomainOK(StripDot(n)),
        ascii |-> IsAsciiName(n) /\ ~HasAceLabel(n)]
Vec == LET n == Name c == Canon(n) IN VecOf(n, AddrOfCanon(c), PrefixOfCanon(c), ExtractOfCanon(c, TRUE))
Emit == IsName => CSVWrite("%1$s", <<ToJson(Vec)>>, "name_vectors.ndjson")

(* Lemmas and Emit in one evaluation per name (what the checks run). *)
GenOK == IsName =>
         LET n == Name
             c == Canon(n)
             a == AddrOfCanon(c)
             p == PrefixOfCanon(c)
             e == ExtractOfCanon(c, TRUE)
         IN /\ AllLemmasC(c, a, p, e)
            /\ CSVWrite("%1$s", <<ToJson(VecOf(n, a, p, e))>>, "name_vectors.ndjson")
=============================================================================
