----------------------------- MODULE ArpaState -----------------------------
(* "The codec is a function of its arguments: no hidden state, and the results *)
(* of earlier calls never change."                                             *)
(*                                                                            *)
(* IPToReversedAddr takes a net.IP, i.e. a slice whose backing array belongs   *)
(* to the caller, who is free to change it in place between two calls (walk a  *)
(* subnet by bumping the last byte of one buffer).  Four designs of the        *)
(* function are modelled:                                                      *)
(*                                                                            *)
(*   "none"    no state at all: the name is computed from the bytes (what      *)
(*             /repo does);                                                    *)
(*   "copy"    a one-entry memo whose key is a private COPY of the bytes and   *)
(*             whose (key, name) pair is published atomically;                 *)
(*   "alias"   a one-entry memo whose key is the normalised argument slice     *)
(*             itself, which shares its backing array with the caller's        *)
(*             buffer: when the caller changes the buffer, the key changes     *)
(*             with it;                                                        *)
(*   "unsync"  a memo with a private copy of the key, but key and name are two *)
(*             package-level words read and written in separate steps, without *)
(*             synchronisation (key first, then name);                         *)
(*   "split"   the same two words as two ATOMIC cells (no data race), the name *)
(*             published before the key "so that whoever sees the key sees a   *)
(*             name": the pair is still not published atomically.              *)
(*                                                                            *)
(* Every process owns one buffer (buf[p], 4 bytes) and alternates between      *)
(* changing its last byte in place and calling the function on it.  `done`     *)
(* collects, per completed call, the bytes the buffer held when the call was   *)
(* made and the name that was returned; returned names are values and stay in  *)
(* `done` forever.                                                             *)
(*                                                                            *)
(* Obligation (invariant):                                                     *)
(*   NoHiddenState   every completed call returned EncodeIP of the bytes its   *)
(*                   argument held at the time of the call                     *)
(* The obligation quantifies over the calls of ALL processes: a return value    *)
(* is a function of that call's argument only, whatever other processes do.    *)
(* TLC proves it for "none" and "copy" and must refute it for "alias" (one     *)
(* process, two calls: encode 10.0.0.1, bump to 10.0.0.2, encode again -> the  *)
(* name of 10.0.0.1) and for "unsync" and "split" (two processes: a hit on the *)
(* key returns the name another process has just stored for ITS address).  The orchestrator runs  *)
(* the last two configurations expecting the violation; the harness replays    *)
(* the refuting histories (buffer-reusing walks, goroutines under -race) on    *)
(* the real function.                                                          *)
EXTENDS Arpa

CONSTANTS Design,      \* "none" | "copy" | "alias" | "unsync" | "split"
          Procs,       \* process ids (each owns the buffer of the same id)
          MaxCalls,    \* calls per process
          LastBytes    \* values the last byte of a buffer may take

VARIABLES buf,     \* buf[p]: the caller-owned backing array of process p
          memo,    \* [valid, ref, val, name]: ref = p when the key IS buf[p] (aliased), 0 when val is a private copy
          pc,      \* pc[p]: "idle" | "hit" | "miss" | "stored"   (only "unsync" uses the last three)
          arg,     \* arg[p]: the bytes the argument held when the call in progress was made
          done,    \* completed calls [arg, res]
          calls
svars == <<buf, memo, pc, arg, done, calls>>

Base3 == <<10, 0, 0>>
NoMemo == [valid |-> FALSE, ref |-> 0, val |-> <<>>, name |-> <<>>]

Init == /\ buf \in [Procs -> {Base3 \o <<b>> : b \in LastBytes}]
        /\ memo = NoMemo
        /\ pc = [p \in Procs |-> "idle"]
        /\ arg = [p \in Procs |-> <<>>]
        /\ done = {}
        /\ calls = [p \in Procs |-> 0]

(* What comparing the memo key with something reads NOW. *)
KeyNow == IF memo.ref = 0 THEN memo.val ELSE buf[memo.ref]
Hit(p) == memo.valid /\ KeyNow = buf[p]

Completed(p, bytes, res) == done' = done \cup {[arg |-> bytes, res |-> res]}

(* The caller changes its buffer in place (between its own calls). *)
Mutate(p) == /\ pc[p] = "idle"
             /\ \E b \in LastBytes : b # buf[p][4] /\ buf' = [buf EXCEPT ![p][4] = b]
             /\ UNCHANGED <<memo, pc, arg, done, calls>>

(* One atomic call: designs "none", "copy", "alias". *)
AtomicCall(p) ==
    /\ Design \in {"none", "copy", "alias"}
    /\ pc[p] = "idle" /\ calls[p] < MaxCalls
    /\ calls' = [calls EXCEPT ![p] = @ + 1]
    /\ IF Design = "none" THEN
           /\ Completed(p, buf[p], EncodeIP(buf[p]))
           /\ UNCHANGED memo
       ELSE IF Hit(p) THEN
           /\ Completed(p, buf[p], memo.name)
           /\ UNCHANGED memo
       ELSE
           /\ Completed(p, buf[p], EncodeIP(buf[p]))
           /\ memo' = IF Design = "alias"
                      THEN [valid |-> TRUE, ref |-> p, val |-> <<>>, name |-> EncodeIP(buf[p])]
                      ELSE [valid |-> TRUE, ref |-> 0, val |-> buf[p], name |-> EncodeIP(buf[p])]
    /\ UNCHANGED <<buf, pc, arg>>

(* "unsync": look the key up, then read the name; or store the key, then the name. *)
Lookup(p) == /\ Design \in {"unsync", "split"}
             /\ pc[p] = "idle" /\ calls[p] < MaxCalls
             /\ calls' = [calls EXCEPT ![p] = @ + 1]
             /\ arg' = [arg EXCEPT ![p] = buf[p]]
             /\ pc' = [pc EXCEPT ![p] = IF Hit(p) THEN "hit" ELSE "miss"]
             /\ UNCHANGED <<buf, memo, done>>
ReadName(p) == /\ pc[p] = "hit"
               /\ Completed(p, arg[p], memo.name)
               /\ pc' = [pc EXCEPT ![p] = "idle"]
               /\ UNCHANGED <<buf, memo, arg, calls>>
StoreKey(p) == /\ pc[p] = "miss" /\ Design = "unsync"
               /\ memo' = [memo EXCEPT !.valid = TRUE, !.ref = 0, !.val = arg[p]]
               /\ pc' = [pc EXCEPT ![p] = "stored"]
               /\ UNCHANGED <<buf, arg, done, calls>>
StoreName(p) == /\ pc[p] = "stored" /\ Design = "unsync"
                /\ memo' = [memo EXCEPT !.name = EncodeIP(arg[p])]
                /\ Completed(p, arg[p], EncodeIP(arg[p]))
                /\ pc' = [pc EXCEPT ![p] = "idle"]
                /\ UNCHANGED <<buf, arg, calls>>
(* "split": the name first, then the key. *)
PublishName(p) == /\ pc[p] = "miss" /\ Design = "split"
                  /\ memo' = [memo EXCEPT !.name = EncodeIP(arg[p])]
                  /\ pc' = [pc EXCEPT ![p] = "stored"]
                  /\ UNCHANGED <<buf, arg, done, calls>>
PublishKey(p) == /\ pc[p] = "stored" /\ Design = "split"
                 /\ memo' = [memo EXCEPT !.valid = TRUE, !.ref = 0, !.val = arg[p]]
                 /\ Completed(p, arg[p], EncodeIP(arg[p]))
                 /\ pc' = [pc EXCEPT ![p] = "idle"]
                 /\ UNCHANGED <<buf, arg, calls>>

Next == \E p \in Procs : \/ Mutate(p) \/ AtomicCall(p) \/ Lookup(p) \/ ReadName(p)
                          \/ StoreKey(p) \/ StoreName(p) \/ PublishName(p) \/ PublishKey(p)
Spec == Init /\ [][Next]_svars

NoHiddenState == \A r \in done : r.res = EncodeIP(r.arg)
(* Results are values: a completed call stays as it was (done only grows). *)
ResultsStable == [][done \subseteq done']_svars

ASSUME Design \in {"none", "copy", "alias", "unsync", "split"}
=============================================================================
