SPECIFICATION Spec
CONSTANTS
  MaxLen = 5
  BruteLen = 0
INVARIANTS Emit
CHECK_DEADLOCK FALSE
