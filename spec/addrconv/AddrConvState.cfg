SPECIFICATION Spec
CONSTANTS
  Design = "private"
  Procs = {1, 2}
  MaxCalls = 2
  Args <- AllArgs
INVARIANTS GlobalsUntouched NoHiddenState
CHECK_DEADLOCK FALSE
