----------------------------- MODULE AddrConvMC -----------------------------
(* Design lemmas behind "the prefix contains exactly the addresses the        *)
(* net.IPNet contains", proved by TLC on toy addresses that are 8 bits wide   *)
(* (one byte), with the very operators used for the real widths:              *)
(*   1. for every network byte, every contiguous mask /0../8 and every probe: *)
(*      first-k-bits-equal (netip.Prefix.Contains)  <=>  masked-equal         *)
(*      (net.IPNet.Contains)  ;                  2^8 x 9 x 2^8 cases         *)
(*   2. a mask byte is Canonical exactly when it is one of the nine CIDR      *)
(*      masks, and Ones gives its length;                                     *)
(*   3. for a non-contiguous mask NO prefix length has the same membership,   *)
(*      whatever the network: rejecting is the only correct conversion.       *)
EXTENDS AddrConv

CONSTANT ToyNets          \* network bytes used in lemma 3

CIDR(k) == 256 - Pow2(8 - k)            \* the byte with k leading ones
AllNets == 0..255                       \* ToyNets for the thorough tier
FewNets == {0, 85, 129, 170, 255}       \* ToyNets for the quick tier
VARIABLE cur
(* 32 groups of 8 byte values as initial states, so that TLC's workers share  *)
(* the cases.                                                                 *)
Init == \E g \in 0..31 : cur = [kind |-> "grp", n |-> g, k |-> 0]
Next == /\ cur.kind = "grp"
        /\ \E n \in (8 * cur.n)..(8 * cur.n + 7) :
             \/ \E k \in 0..8 : cur' = [kind |-> "pfx", n |-> n, k |-> k]
             \/ cur' = [kind |-> "mask", n |-> n, k |-> 0]
Spec == Init /\ [][Next]_cur

ContiguousMembership == cur.kind = "pfx" =>
    /\ Canonical(Mk(<<CIDR(cur.k)>>)) /\ Ones(Mk(<<CIDR(cur.k)>>)) = cur.k
    /\ \A x \in 0..255 :
         PrefixContains(<<cur.n>>, cur.k, <<x>>) = MaskedEqual(<<cur.n>>, <<CIDR(cur.k)>>, <<x>>)
CanonicalIsCIDR == cur.kind = "mask" =>
    (Canonical(Mk(<<cur.n>>)) = (\E k \in 0..8 : cur.n = CIDR(k)))
(* A witness is always found among the single-bit flips of the network byte   *)
(* (bit i flipped: inside the /k prefix iff i >= k, inside the masked set iff  *)
(* mask bit i is 0).                                                           *)
FlipByte(n, i) == LET w == Pow2(7 - i) IN IF (n \div w) % 2 = 1 THEN n - w ELSE n + w
NoPrefixForHoles == (cur.kind = "mask" /\ ~Canonical(Mk(<<cur.n>>))) =>
    \A n \in ToyNets : \A k \in 0..8 : \E x \in {FlipByte(n, i) : i \in 0..7} :
        PrefixContains(<<n>>, k, <<x>>) # MaskedEqual(<<n>>, <<cur.n>>, <<x>>)
(* And8 is bitwise AND.                                                       *)
AndOK == cur.kind = "mask" =>
    /\ And8(cur.n, 255) = cur.n /\ And8(cur.n, 0) = 0 /\ And8(cur.n, cur.n) = cur.n
    /\ \A y \in {1, 2, 4, 8, 16, 32, 64, 128} : And8(cur.n, y) = ((cur.n \div y) % 2) * y
=============================================================================
