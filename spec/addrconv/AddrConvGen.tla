----------------------------- MODULE AddrConvGen -----------------------------
(* Generator: every combination of                                            *)
(*   net.IP shape x byte fill            (nil, empty, 4, 16 plain / mapped /  *)
(*                                        almost-mapped, wrong lengths)       *)
(*   net.IPMask pattern                  (nil, empty, every contiguous mask   *)
(*                                        of 4 and 16 bytes, holes, wrong     *)
(*                                        lengths)                            *)
(*   net.Addr kind x zone x port                                              *)
(* each emitted with what AddrConv.tla predicts for IPToAddr (both            *)
(* families), IPToAddrNoMapped, IPNetToPrefix (both families),                *)
(* IPNetToPrefixNoMapped and NetAddrToAddrPort, and with the flags saying     *)
(* where the property compares subnet membership.                             *)
EXTENDS AddrConv, Json, CSV

CONSTANTS K16,        \* lengths of the contiguous 16-byte masks to enumerate (subset of 0..128);
                      \* the lengths net.ParseCIDR gives an IPv4-mapped network (96..128) always are
          LemmaBits   \* IPv6 prefix lengths on which MembershipLemma is evaluated

Rep(n, v) == [i \in 1..n |-> v]
(* net.ParseCIDR("::ffff:a.b.c.d/k"), 96 <= k <= 128, yields a 16-byte mapped  *)
(* IP with a 16-byte mask; an IPNet built from net.IPv4(...) or a 4-byte IP   *)
(* with net.CIDRMask(k, 128) is the same shape for the conversions.           *)
ParseCIDRKs == 96..128
AllK16 == 0..128                  \* K16 for the thorough tier
QuickK16 == {0, 1, 7, 8, 9, 16, 31, 32, 33, 63, 64, 65, 79, 80, 81, 88, 95, 96, 97, 100, 104, 112, 119,
             120, 121, 127, 128}  \* K16 for the quick tier
V4s == {<<0, 0, 0, 0>>, <<255, 255, 255, 255>>, <<1, 2, 3, 4>>, <<192, 168, 7, 130>>,
        <<10, 0, 0, 1>>, <<127, 255, 0, 128>>}
Mapped == {Pfx4in6 \o v : v \in V4s}
V6s == {Rep(16, 0), Rep(15, 0) \o <<1>>, Rep(16, 255),
        <<32, 1, 13, 184, 0, 0, 0, 0, 0, 0, 0, 0, 0, 0, 0, 1>>,            \* 2001:db8::1
        <<254, 128, 0, 0, 0, 0, 0, 0, 0, 0, 0, 0, 0, 0, 0, 1>>,            \* fe80::1
        <<18, 52, 0, 0, 0, 0, 0, 0, 0, 0, 0, 0, 0, 0, 86, 120>>,           \* 1234::5678
        Rep(10, 0) \o <<255, 254, 1, 2, 3, 4>>,                            \* almost mapped
        Rep(10, 0) \o <<0, 255, 1, 2, 3, 4>>,
        Rep(10, 0) \o <<255, 0, 1, 2, 3, 4>>,
        Rep(9, 0) \o <<1, 255, 255, 1, 2, 3, 4>>,
        <<128>> \o Rep(9, 0) \o <<255, 255, 1, 2, 3, 4>>,
        Rep(12, 0) \o <<1, 2, 3, 4>>}                                      \* IPv4-compatible, not mapped
BadLen == {<<1>>, <<1, 2, 3>>, <<1, 2, 3, 4, 5>>, Rep(8, 1), Pfx4in6, Rep(12, 0), Rep(15, 0),
           Pfx4in6 \o <<1, 2, 3>>, Pfx4in6 \o <<1, 2, 3, 4, 5>>, Rep(17, 0), Rep(20, 7), Rep(32, 0)}
(* The values of the standard library's exported net.IP variables: the harness *)
(* also passes the variables themselves (see "no hidden state" in AddrConv).   *)
GlobalVals == {StdGlobals[n] : n \in StdGlobalNames}
IPs == {NilSeq, Mk(<<>>)} \cup {Mk(b) : b \in V4s \cup Mapped \cup V6s \cup BadLen \cup GlobalVals}

(* The n-byte mask with k leading ones.                                       *)
CIDRMask(k, n) == [i \in 1..n |-> IF 8 * i <= k THEN 255
                                  ELSE IF 8 * (i - 1) >= k THEN 0
                                  ELSE 256 - Pow2(8 - (k - 8 * (i - 1)))]
Holes4 == {<<255, 0, 255, 0>>, <<0, 255, 255, 255>>, <<255, 254, 255, 0>>, <<127, 255, 255, 255>>,
           <<255, 255, 255, 1>>, <<128, 0, 0, 1>>, <<255, 255, 0, 255>>, <<0, 0, 0, 1>>,
           <<255, 255, 253, 0>>, <<255, 255, 255, 253>>, <<85, 85, 85, 85>>, <<255, 255, 128, 128>>,
           <<255, 255, 255, 250>>, <<0, 0, 1, 0>>}
Holes16 == {Rep(12, 255) \o h : h \in Holes4} \cup {h \o Rep(12, 0) : h \in Holes4}
           \cup {Rep(12, 0) \o h : h \in Holes4 \cup {<<255, 255, 255, 0>>, <<255, 255, 255, 255>>}}
           \cup {[Rep(16, 255) EXCEPT ![8] = 254], [Rep(16, 0) EXCEPT ![16] = 1],
                 [CIDRMask(64, 16) EXCEPT ![9] = 1], [CIDRMask(120, 16) EXCEPT ![1] = 127]}
WrongLens == {1, 3, 5, 8, 12, 15, 17, 20}
WrongLen == UNION {{CIDRMask(k, n) : k \in {0, 1, 8, 24, 32, 8 * n - 1, 8 * n} \cap 0..(8 * n)}
                   \cup {[Rep(n, 255) EXCEPT ![1] = 254], [Rep(n, 0) EXCEPT ![n] = 1]} : n \in WrongLens}
Masks == {NilSeq, Mk(<<>>)}
         \cup {Mk(CIDRMask(k, 4)) : k \in 0..32} \cup {Mk(CIDRMask(k, 16)) : k \in K16 \cup ParseCIDRKs}
         \cup {Mk(b) : b \in Holes4 \cup Holes16 \cup WrongLen}

Kinds == {"tcp", "udp", "apcustom", "ip", "custom", "niltcp", "niludp"}
ZoneNames == {"", "eth0"}
Ports == {0, 53, 65535}

VARIABLE st
Init == \E ip \in IPs : st = [t |-> "ip", ip |-> ip]
Next == /\ st.t = "ip"
        /\ \/ \E m \in Masks : st' = [t |-> "net", ip |-> st.ip, mask |-> m]
           \/ \E k \in Kinds, z \in ZoneNames, p \in Ports :
                 st' = [t |-> "na", ip |-> st.ip, kind |-> k, zone |-> z, port |-> p]
Spec == Init /\ [][Next]_st

R4 == IPToAddr(st.ip, "v4")
R6 == IPToAddr(st.ip, "v6")
RN == IPToAddrNoMapped(st.ip)
P4 == IPNetToPrefix(st.ip, st.mask, "v4")
P6 == IPNetToPrefix(st.ip, st.mask, "v6")
PN == IPNetToPrefixNoMapped(st.ip, st.mask)
AP == NetAddrToAddrPort(st.kind, st.ip, st.zone, st.port)
D4 == PrefixDemand(st.ip, st.mask, "v4")
D6 == PrefixDemand(st.ip, st.mask, "v6")
DN == PrefixDemandNoMapped(st.ip, st.mask)

(* The predictions satisfy what the property demands.                         *)
ConvLemma == st.t = "ip" =>
    ConvOK(st.ip, "v4", R4) /\ ConvOK(st.ip, "v6", R6) /\ NoMappedOK(st.ip, RN)
AddrPortLemma == st.t = "na" =>
    /\ AddrPortOK(st.kind, st.ip, st.zone, st.port, AP)
    /\ AddrPortMeets(st.kind, st.ip, AP, AP)
(* A prefix is produced only from a convertible address and a canonical mask, *)
(* with exactly the mask's length; holes and nil are never widened.           *)
PrefixLemma == st.t = "net" =>
    /\ \A q \in {<<P4, R4>>, <<P6, R6>>, <<PN, RN>>} :
         /\ q[1].ok => (q[2].ok /\ Canonical(st.mask) /\ q[1].bits = Ones(st.mask)
                        /\ q[1].b = q[2].b /\ q[1].fam = q[2].fam /\ q[1].bits <= 8 * Len(q[1].b))
         /\ (q[2].ok /\ Canonical(st.mask) /\ Ones(st.mask) <= 8 * Len(q[2].b)) => q[1].ok
    /\ ~Canonical(st.mask) => ~P4.ok /\ ~P6.ok /\ ~PN.ok
    \* the model of the code meets the demand, and membership is compared exactly where acceptance is demanded
    /\ \A q \in {<<P4, D4>>, <<P6, D6>>, <<PN, DN>>} :
         /\ PrefixMeets(q[2], q[1], q[1])
         /\ (q[2] = "accept") = MembershipCompared(st.ip, st.mask, q[1])
    \* the model of the code never returns a mapped result from the NoMapped variant
    /\ PrefixMeetsNoMapped(DN, PN, st.ip, PN)
(* Spec-level membership at the real widths: on the single-bit flips of the   *)
(* address (and the address itself) first-bits-equal and the model of         *)
(* net.IPNet.Contains agree wherever the property compares them.              *)
FlipBit(b, i) == LET k == (i \div 8) + 1
                     w == Pow2(7 - (i % 8))
                 IN [b EXCEPT ![k] = IF (@ \div w) % 2 = 1 THEN @ - w ELSE @ + w]
MembershipLemma == st.t = "net" =>
    \A p \in {P4, P6, PN} :
        (MembershipCompared(st.ip, st.mask, p) /\ (p.fam = "v4" \/ p.bits \in LemmaBits)) =>
            \A x \in {p.b} \cup {FlipBit(p.b, i) : i \in 0..(8 * Len(p.b) - 1)} :
                ProbeCompared(st.ip, p, x) =>
                    PrefixContains(p.b, p.bits, x) = IPNetContains(st.ip, st.mask, x)

Cmp(p, d) == [must |-> d, v4 |-> Has4(st.ip), cmp |-> MembershipCompared(st.ip, st.mask, p),
              skip4in6 |-> p.ok /\ p.fam = "v6" /\ ~NetIsV4(st.ip)]
Gl == GlobalsWithValue(st.ip.b)
Out == CASE st.t = "ip"  -> [t |-> "ip", ip |-> st.ip, globals |-> Gl, r4 |-> R4, r6 |-> R6, rn |-> RN]
         [] st.t = "net" -> [t |-> "net", ip |-> st.ip, globals |-> Gl, mask |-> st.mask,
                             p4 |-> P4, p6 |-> P6, pn |-> PN, c4 |-> Cmp(P4, D4), c6 |-> Cmp(P6, D6), cn |-> Cmp(PN, DN)]
         [] st.t = "na"  -> [t |-> "na", ip |-> st.ip, globals |-> Gl, kind |-> st.kind, zone |-> st.zone, port |-> st.port,
                             ap |-> AP, must |-> AddrPortDemand(st.kind, st.ip), v4 |-> Has4(st.ip)]
Emit == CSVWrite("%1$s", <<ToJson(Out)>>, "conv_vectors.ndjson")
=============================================================================
