SPECIFICATION Spec
CONSTANTS
  MaxLen = 4
  BruteLen = 4
INVARIANTS SortedOK Unique SwapInvariant OrderedIsFixpoint
CHECK_DEADLOCK FALSE
