---------------------------- MODULE PreferSortGen ----------------------------
(* Generator: every sequence over the seven-address universe up to MaxLen,    *)
(* with the order both comparators must produce (as indices into the          *)
(* universe; distinct indices are distinct addresses, so the expected         *)
(* sequence is unique).  The universe and the pairwise "less" tables are      *)
(* exported once as JSON.                                                     *)
EXTENDS PreferSortMC, CSV

IdxOf(v) == CHOOSE i \in DOMAIN Univ : Univ[i] = v
SortedIdx(p, t) == LET r == Sorted(p, Vals(t)) IN [i \in DOMAIN r |-> IdxOf(r[i])]
LessTable(p) == [i \in DOMAIN Univ |-> [j \in DOMAIN Univ |-> Less(p, Univ[i], Univ[j])]]
ASSUME JsonSerialize("sort_universe.json",
                     [univ |-> Univ, less4 |-> LessTable("v4"), less6 |-> LessTable("v6")])

Emit == CSVWrite("%1$s", <<ToJson([in |-> s, v4 |-> SortedIdx("v4", s), v6 |-> SortedIdx("v6", s)])>>,
                 "sort_vectors.ndjson")
=============================================================================
