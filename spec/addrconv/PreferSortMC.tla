---------------------------- MODULE PreferSortMC ----------------------------
(* TLC proves over the seven-address universe (two IPv4, two IPv6, one        *)
(* IPv4-mapped IPv6, one zoned IPv6, the zero Addr) that Less is a strict     *)
(* total order on distinct values and that, for every sequence up to MaxLen,  *)
(* Sorted(s) is an ordered permutation of s and the ONLY ordered permutation  *)
(* of s - so the outcome of slices.SortFunc is determined although that sort  *)
(* is not stable.                                                             *)
EXTENDS PreferSort, Json

CONSTANTS MaxLen,     \* sequences up to this length
          BruteLen    \* uniqueness by brute force over all permutations up to this length

A(fam, b, zone) == [fam |-> fam, b |-> b, zone |-> zone]
Univ == <<
    A("v4", <<10, 0, 0, 2>>, 0),
    A("v4", <<200, 0, 0, 1>>, 0),
    A("v6", <<32, 1, 13, 184, 0, 0, 0, 0, 0, 0, 0, 0, 0, 0, 0, 1>>, 0),           \* 2001:db8::1
    A("v6", <<254, 128, 0, 0, 0, 0, 0, 0, 0, 0, 0, 0, 0, 0, 0, 1>>, 0),           \* fe80::1
    A("v6", <<0, 0, 0, 0, 0, 0, 0, 0, 0, 0, 255, 255, 10, 0, 0, 2>>, 0),          \* ::ffff:10.0.0.2
    A("v6", <<254, 128, 0, 0, 0, 0, 0, 0, 0, 0, 0, 0, 0, 0, 0, 1>>, 1),           \* fe80::1%zone1
    A("none", <<>>, 0) >>
USet == {Univ[i] : i \in DOMAIN Univ}
ASSUME Cardinality(USet) = Len(Univ)
ASSUME Irreflexive(USet) /\ Transitive(USet) /\ TotalOnDistinct(USet) /\ Asymmetric(USet) /\ Layered(USet)

VARIABLE s           \* a sequence of indices into Univ
Vals(t) == [i \in DOMAIN t |-> Univ[t[i]]]
Init == s = <<>>
Next == Len(s) < MaxLen /\ \E i \in DOMAIN Univ : s' = Append(s, i)
Spec == Init /\ [][Next]_s

SortedOK == \A p \in Prefs :
    LET r == Sorted(p, Vals(s)) IN Ordered(p, r) /\ IsPermutation(Vals(s), r)
(* Uniqueness, by brute force for short sequences: every ordered             *)
(* rearrangement of s equals Sorted(s).                                       *)
Perms(n) == {f \in [1..n -> 1..n] : \A i, j \in 1..n : i # j => f[i] # f[j]}
PermsTab == [n \in 0..BruteLen |-> Perms(n)]          \* evaluated once
Unique == Len(s) <= BruteLen =>
    \A p \in Prefs : \A f \in PermsTab[Len(s)] :
        LET t == [i \in 1..Len(s) |-> Univ[s[f[i]]]] IN
        Ordered(p, t) => t = Sorted(p, Vals(s))
(* Uniqueness for every length, by two local lemmas: Sorted is invariant      *)
(* under swapping neighbours (so under every permutation), and an ordered     *)
(* sequence is a fixpoint.  Hence an ordered permutation t of s satisfies     *)
(* t = Sorted(t) = Sorted(s).                                                 *)
SwapAt(t, i) == [k \in DOMAIN t |-> IF k = i THEN t[i + 1] ELSE IF k = i + 1 THEN t[i] ELSE t[k]]
SwapInvariant == \A p \in Prefs : \A i \in 1..(Len(s) - 1) :
    Sorted(p, Vals(SwapAt(s, i))) = Sorted(p, Vals(s))
OrderedIsFixpoint == \A p \in Prefs : Ordered(p, Vals(s)) => Sorted(p, Vals(s)) = Vals(s)
=============================================================================
