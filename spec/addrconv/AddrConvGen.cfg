SPECIFICATION Spec
CONSTANTS
  K16 <- QuickK16
  LemmaBits = {0, 64, 96, 120, 128}
INVARIANTS Emit ConvLemma AddrPortLemma PrefixLemma MembershipLemma
CHECK_DEADLOCK FALSE
