------------------------------ MODULE AddrConv ------------------------------
(* netutil.IPToAddr, IPToAddrNoMapped, IPNetToPrefix, IPNetToPrefixNoMapped   *)
(* and NetAddrToAddrPort (netutil/addrconv.go): what each must return for     *)
(* every shape of net.IP / net.IPMask / net.Addr.                             *)
(*                                                                            *)
(* net.IP and net.IPMask are byte sequences of any length, or nil:            *)
(*     [nil |-> BOOLEAN, b |-> Seq(0..255)]        (nil => b = <<>>)          *)
(* A netip.Addr is [fam, b, zone]: fam "v4" (4 bytes), "v6" (16 bytes, this   *)
(* includes ::ffff:a.b.c.d) or "none" (the zero Addr).  A conversion result   *)
(* is the record plus ok (FALSE = rejected: error / invalid value).           *)
EXTENDS Integers, Sequences, FiniteSets, TLC

Pow2(n) == 2 ^ n
NilSeq == [nil |-> TRUE, b |-> <<>>]
Mk(b)  == [nil |-> FALSE, b |-> b]

(* ------------------------------------------------ net.IP normalisation *)
Pfx4in6 == <<0, 0, 0, 0, 0, 0, 0, 0, 0, 0, 255, 255>>
Is4in6(b) == Len(b) = 16 /\ SubSeq(b, 1, 12) = Pfx4in6
(* ip.To4() # nil, and its value.                                            *)
Has4(ip) == Len(ip.b) = 4 \/ Is4in6(ip.b)
To4(ip)  == IF Len(ip.b) = 4 THEN ip.b ELSE SubSeq(ip.b, 13, 16)
(* ip.To16() # nil, and its value.                                           *)
Has16(ip) == Len(ip.b) \in {4, 16}
To16(ip)  == IF Len(ip.b) = 4 THEN Pfx4in6 \o ip.b ELSE ip.b
(* The address a net.IP denotes, independent of its 4- or 16-byte form.      *)
Canon(b) == IF Len(b) = 4 THEN Pfx4in6 \o b ELSE b

(* --------------------------------------------------------------- results *)
Reject == [ok |-> FALSE, fam |-> "none", b |-> <<>>, zone |-> ""]
Accept(fam, b) == [ok |-> TRUE, fam |-> fam, b |-> b, zone |-> ""]
FamLen(fam) == IF fam = "v4" THEN 4 ELSE 16

(* IPToAddr(ip, fam): nil is rejected; IPv4 wants an IPv4 address in either   *)
(* form and yields its 4 bytes; IPv6 takes the 16-byte form (a 4-byte ip is   *)
(* its IPv4-mapped address, as the example in the package shows).             *)
IPToAddr(ip, fam) ==
    IF ip.nil THEN Reject
    ELSE IF fam = "v4" THEN (IF Has4(ip) THEN Accept("v4", To4(ip)) ELSE Reject)
    ELSE (IF Has16(ip) THEN Accept("v6", To16(ip)) ELSE Reject)

(* IPToAddrNoMapped(ip): every IPv4 address, mapped or not, becomes IPv4;     *)
(* everything else must be a 16-byte IPv6 address.                            *)
IPToAddrNoMapped(ip) ==
    IF Has4(ip) THEN Accept("v4", To4(ip))
    ELSE IF ~ip.nil /\ Len(ip.b) = 16 THEN Accept("v6", ip.b)
    ELSE Reject

(* What the property demands of an IPToAddr* result r for input ip.          *)
IsAddrOfFam(ip, fam) == ~ip.nil /\ (IF fam = "v4" THEN Has4(ip) ELSE Has16(ip))
ConvOK(ip, fam, r) ==
    IF IsAddrOfFam(ip, fam)
    THEN r.ok /\ r.fam = fam /\ Len(r.b) = FamLen(fam) /\ Canon(r.b) = Canon(ip.b) /\ r.zone = ""
    ELSE ~r.ok
NoMappedOK(ip, r) ==
    IF ~ip.nil /\ Has16(ip)
    THEN /\ r.ok /\ Canon(r.b) = Canon(ip.b) /\ r.zone = ""
         /\ r.fam = (IF Has4(ip) THEN "v4" ELSE "v6")       \* never a mapped result
         /\ Len(r.b) = FamLen(r.fam)
    ELSE ~r.ok

(* ----------------------------------------------------------------- masks *)
Bit(b, i) == (b[(i \div 8) + 1] \div Pow2(7 - (i % 8))) % 2      \* bit 0 = msb of byte 1
NBits(b) == 8 * Len(b)
(* Number of leading one bits: the position of the first zero bit.            *)
LeadingOnes(b) == LET zeros == {i \in 0..(NBits(b) - 1) : Bit(b, i) = 0} IN
                  IF zeros = {} THEN NBits(b)
                  ELSE CHOOSE i \in zeros : \A j \in zeros : i <= j
(* A contiguous run of ones followed by zeros.                                *)
Contiguous(b) == \A i \in LeadingOnes(b)..(NBits(b) - 1) : Bit(b, i) = 0
(* A mask IPNetToPrefix may convert: net.IPMask.Size() = (ones, bits) with    *)
(* bits > 0.  nil, empty and non-contiguous masks have no prefix length.      *)
Canonical(m) == ~m.nil /\ Len(m.b) > 0 /\ Contiguous(m.b)
Ones(m) == LeadingOnes(m.b)

RejectP == [ok |-> FALSE, fam |-> "none", b |-> <<>>, bits |-> 0]
AcceptP(fam, b, bits) == [ok |-> TRUE, fam |-> fam, b |-> b, bits |-> bits]

(* IPNetToPrefix(&net.IPNet{IP: ip, Mask: m}, fam).  The address is converted *)
(* like IPToAddr and is not masked (netip.PrefixFrom keeps it).               *)
IPNetToPrefix(ip, m, fam) ==
    LET a == IPToAddr(ip, fam) IN
    IF ~a.ok THEN RejectP
    ELSE IF ~Canonical(m) THEN RejectP
    ELSE IF Ones(m) > 8 * Len(a.b) THEN RejectP
    ELSE AcceptP(a.fam, a.b, Ones(m))
IPNetToPrefixNoMapped(ip, m) ==
    IF Has4(ip) THEN IPNetToPrefix(Mk(To4(ip)), m, "v4") ELSE IPNetToPrefix(ip, m, "v6")

(* ------------------------------------------------------------ membership *)
(* netip.Prefix.Contains for a zone-less address x of family fam.            *)
PrefixContains(pb, bits, x) ==
    Len(x) = Len(pb) /\ \A i \in 0..(bits - 1) : Bit(x, i) = Bit(pb, i)

RECURSIVE AndBits(_, _, _)
AndBits(x, y, k) == IF k = 0 THEN 0
                    ELSE 2 * AndBits(x \div 2, y \div 2, k - 1) + (x % 2) * (y % 2)
And8(x, y) == AndBits(x, y, 8)
MaskedEqual(nn, m, x) == Len(x) = Len(nn) /\ Len(m) = Len(nn)
                         /\ \A k \in 1..Len(nn) : And8(nn[k], m[k]) = And8(x[k], m[k])

(* net.IPNet.Contains, as in package net (networkNumberAndMask): an IP       *)
(* that has an IPv4 form makes the network an IPv4 network, a 16-byte mask on *)
(* it is cut to its last four bytes, and an IPv4-mapped probe is an IPv4      *)
(* probe.                                                                     *)
NetIsV4(ip) == Has4(ip)
NetNumber(ip) == IF Has4(ip) THEN To4(ip) ELSE ip.b
NetMaskOK(ip, m) == /\ (Has4(ip) \/ Len(ip.b) = 16)
                    /\ \/ Len(m.b) = 4 /\ Len(NetNumber(ip)) = 4
                       \/ Len(m.b) = 16
NetMask(ip, m) == IF Len(m.b) = 16 /\ Len(NetNumber(ip)) = 4 THEN SubSeq(m.b, 13, 16) ELSE m.b
IPNetContains(ip, m, x) ==
    LET xx == IF Has4(Mk(x)) THEN To4(Mk(x)) ELSE x IN
    /\ NetMaskOK(ip, m)
    /\ MaskedEqual(NetNumber(ip), NetMask(ip, m), xx)

(* What the property demands of IPNetToPrefix(&net.IPNet{ip, m}, fam):        *)
(*   "reject"  the IP is not an address of the family, or the mask is nil,    *)
(*             empty or not a contiguous run of ones (never widened);         *)
(*   "accept"  canonical mask as long as the converted address: the prefix    *)
(*             must have the mask's length and the address's network bits     *)
(*             (host bits are not constrained) and the same membership as the *)
(*             net.IPNet;                                                      *)
(*   "free"    canonical mask of another length than the converted address    *)
(*             (the property makes no claim; IPNetToPrefix above models what  *)
(*             the code does), and one more case where net.IPNet and netip    *)
(*             disagree about what the address IS, not about the subnet:      *)
(*             package net sees every ::ffff:a.b.c.d as the IPv4 address      *)
(*             a.b.c.d, so an IPv4-mapped network converted to IPv6 with      *)
(*             fewer than 96 mask bits is "all of IPv4" for net but a genuine *)
(*             IPv6 block for netip.                                          *)
PrefixDemand(ip, m, fam) ==
    LET a == IPToAddr(ip, fam) IN
    IF ~a.ok \/ ~Canonical(m) THEN "reject"
    ELSE IF Len(m.b) = Len(a.b) /\ ~(a.fam = "v6" /\ NetIsV4(ip) /\ Ones(m) < 96) THEN "accept"
    ELSE "free"
PrefixDemandNoMapped(ip, m) ==
    IF Has4(ip) THEN PrefixDemand(Mk(To4(ip)), m, "v4") ELSE PrefixDemand(ip, m, "v6")
(* r (observed) meets demand d, e being the model's result.                   *)
SameNetBits(x, y, bits) == Len(x) = Len(y) /\ \A i \in 0..(bits - 1) : Bit(x, i) = Bit(y, i)
PrefixMeets(d, e, r) ==
    CASE d = "reject" -> ~r.ok
      [] d = "accept" -> r.ok /\ e.ok /\ r.fam = e.fam /\ r.bits = e.bits /\ SameNetBits(r.b, e.b, e.bits)
      [] OTHER -> TRUE
(* The unmapped family.  Whatever class a call falls into, a SUCCESSFUL result  *)
(* of the NoMapped functions and of NetAddrToAddrPort is never an IPv4-mapped   *)
(* IPv6 address, and for an input that has an IPv4 form (To4() # nil) it is an  *)
(* IPv4 result ("the result has the unmapped family"); rejecting stays          *)
(* acceptable in the "free" class.  E.g. what net.ParseCIDR("::ffff:1.2.3.0/    *)
(* 120") yields - mapped IP, 16-byte mask - may be rejected by                  *)
(* IPNetToPrefixNoMapped but must not come back as ::ffff:1.2.3.0/120.          *)
UnmappedOK(ip, r) == r.ok => (~Is4in6(r.b) /\ (Has4(ip) => r.fam = "v4" /\ Len(r.b) = 4))
PrefixMeetsNoMapped(d, e, ip, r) == PrefixMeets(d, e, r) /\ UnmappedOK(ip, r)

(* Membership is compared exactly for the "accept" class, on probes of the    *)
(* prefix's family; an IPv4-mapped probe is left out against a genuine IPv6   *)
(* network (net.IPNet treats the probe as IPv4 and never finds it inside).    *)
MembershipCompared(ip, m, p) ==
    /\ p.ok /\ ~m.nil /\ Len(m.b) = Len(p.b)
    /\ ~(p.fam = "v6" /\ NetIsV4(ip) /\ p.bits < 96)
ProbeCompared(ip, p, x) ==
    /\ Len(x) = Len(p.b)
    /\ ~(p.fam = "v6" /\ ~NetIsV4(ip) /\ Is4in6(x))

(* --------------------------------------------------- NetAddrToAddrPort *)
(* kinds: "tcp", "udp" (net.TCPAddr and net.UDPAddr), "apcustom" (a custom    *)
(* net.Addr with an AddrPort method built like the std ones), "ip"            *)
(* (net.IPAddr: no port), "custom" (a net.Addr without AddrPort), "niltcp",   *)
(* "niludp" (typed nil pointers).  zone is "" or a name; port 0..65535.       *)
RejectAP == [ok |-> FALSE, fam |-> "none", b |-> <<>>, zone |-> "", port |-> 0]
HasAddrPort(kind) == kind \in {"tcp", "udp", "apcustom"}
NetAddrToAddrPort(kind, ip, zone, port) ==
    IF ~HasAddrPort(kind) THEN RejectAP
    ELSE IF Len(ip.b) = 4 THEN [ok |-> TRUE, fam |-> "v4", b |-> ip.b, zone |-> "", port |-> port]
    ELSE IF Is4in6(ip.b) THEN [ok |-> TRUE, fam |-> "v4", b |-> SubSeq(ip.b, 13, 16), zone |-> "", port |-> port]
    ELSE IF Len(ip.b) = 16 THEN [ok |-> TRUE, fam |-> "v6", b |-> ip.b, zone |-> zone, port |-> port]
    ELSE RejectAP
(* What the property demands: same address bytes, unmapped family, zone (IPv4 *)
(* addresses have none) and port; anything that is not an address rejected.   *)
(* Kinds without an AddrPort method carry no port: "free" (the code returns   *)
(* the zero AddrPort), but whatever is returned must not change the address.  *)
AddrPortDemand(kind, ip) ==
    IF HasAddrPort(kind) THEN (IF Has16(ip) THEN "accept" ELSE "reject")
    ELSE IF kind \in {"niltcp", "niludp"} THEN "reject"
    ELSE "free"
AddrPortMeets(kind, ip, e, r) ==
    LET d == AddrPortDemand(kind, ip) IN
    CASE d = "reject" -> ~r.ok
      [] d = "accept" -> r = e
      [] OTHER -> r.ok => ~Is4in6(r.b) /\ (kind = "ip" => (Has16(ip) /\ Canon(r.b) = Canon(ip.b) /\ Len(r.b) = FamLen(r.fam)
                                           /\ r.fam = (IF Has4(ip) THEN "v4" ELSE "v6")))
AddrPortOK(kind, ip, zone, port, r) ==
    IF HasAddrPort(kind) /\ Has16(ip)
    THEN /\ r.ok /\ Canon(r.b) = Canon(ip.b) /\ r.port = port
         /\ r.fam = (IF Has4(ip) THEN "v4" ELSE "v6") /\ Len(r.b) = FamLen(r.fam)
         /\ r.zone = (IF r.fam = "v6" THEN zone ELSE "")
    ELSE ~r.ok

(* ------------------------------------------------------------ no hidden state *)
(* The conversions are functions of their arguments: the result of a call     *)
(* depends on the VALUE of its arguments only - not on earlier or concurrent  *)
(* calls - and no call modifies its arguments or any value it does not own.   *)
(* The standard library's exported net.IP variables are such values; anyone   *)
(* may pass them in, and they must still hold these bytes afterwards          *)
(* (AddrConvState.tla shows how a conversion that appends to a slice of one   *)
(* of them breaks both obligations).                                          *)
G16(hi, lo) == <<hi \div 256, hi % 256, 0, 0, 0, 0, 0, 0, 0, 0, 0, 0, 0, 0, lo \div 256, lo % 256>>
StdGlobals == [
    IPv4zero                   |-> Pfx4in6 \o <<0, 0, 0, 0>>,
    IPv4bcast                  |-> Pfx4in6 \o <<255, 255, 255, 255>>,
    IPv4allsys                 |-> Pfx4in6 \o <<224, 0, 0, 1>>,
    IPv4allrouter              |-> Pfx4in6 \o <<224, 0, 0, 2>>,
    IPv6zero                   |-> G16(0, 0),
    IPv6unspecified            |-> G16(0, 0),
    IPv6loopback               |-> G16(0, 1),
    IPv6interfacelocalallnodes |-> G16(65281, 1),        \* ff01::1
    IPv6linklocalallnodes      |-> G16(65282, 1),        \* ff02::1
    IPv6linklocalallrouters    |-> G16(65282, 2)]        \* ff02::2
StdGlobalNames == DOMAIN StdGlobals
(* The names of the globals holding exactly these bytes.                      *)
GlobalsWithValue(b) == {n \in StdGlobalNames : StdGlobals[n] = b}
=============================================================================
