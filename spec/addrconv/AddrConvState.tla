---------------------------- MODULE AddrConvState ----------------------------
(* "Conversions are functions of their arguments: no hidden state."           *)
(*                                                                            *)
(* IPToAddr(ip, IPv6) has to produce the 16-byte IPv4-mapped form of a 4-byte *)
(* ip.  Two designs of that step are modelled, both as the two memory         *)
(* accesses they consist of (build the 16 bytes, then read them back into the *)
(* netip.Addr), interleaved freely between processes:                         *)
(*                                                                            *)
(*   "private"  the 16 bytes are built in a fresh buffer owned by the call    *)
(*              (net.IP.To16);                                                *)
(*   "shared"   the 16 bytes are built by appending the 4 address bytes to a  *)
(*              12-byte slice of a package-level value whose backing array is *)
(*              16 bytes long - append(net.IPv4zero[:12], ip...) - so the     *)
(*              address lands in the last four bytes of the GLOBAL            *)
(*              net.IPv4zero and the returned slice aliases it.               *)
(*                                                                            *)
(* cell is that global memory: the last four bytes of net.IPv4zero.  A caller *)
(* may pass net.IPv4zero itself as an argument (argument "zero"): what the    *)
(* call then reads is whatever the cell holds at that moment, what the caller *)
(* means is 0.0.0.0.                                                          *)
(*                                                                            *)
(* Obligations (invariants):                                                  *)
(*   GlobalsUntouched   cell = <<0, 0, 0, 0>>                                 *)
(*   NoHiddenState      every completed call returned IPToAddr of the         *)
(*                      declared value of its argument                        *)
(* TLC proves both for "private" and must refute both for "shared" (the       *)
(* orchestrator runs the second configuration expecting the violation): a     *)
(* sequential history IPToAddr(9.8.7.6, v6); IPToAddr(net.IPv4zero, v4)       *)
(* returns 9.8.7.6, and two concurrent calls return each other's address.     *)
EXTENDS AddrConv

CONSTANTS Design,      \* "private" or "shared"
          Procs,       \* process ids
          MaxCalls,    \* calls per process
          Args         \* the arguments offered to the calls (subset of ArgIds)

Zero4 == <<0, 0, 0, 0>>
(* Arguments: three caller-owned values and the global.                       *)
ArgIds == {"a", "b", "six", "zero"}
Declared(arg) == CASE arg = "a"    -> Mk(<<9, 8, 7, 6>>)
                   [] arg = "b"    -> Mk(<<1, 2, 3, 4>>)
                   [] arg = "six"  -> Mk(<<32, 1, 13, 184, 0, 0, 0, 0, 0, 0, 0, 0, 0, 0, 0, 1>>)
                   [] arg = "zero" -> Mk(StdGlobals.IPv4zero)
Fams == {"v4", "v6"}

VARIABLES cell,     \* last four bytes of the global net.IPv4zero
          pc,       \* pc[p]: "idle" or "built" (16 bytes built, not yet read back)
          cur,      \* cur[p]: the call in progress [arg, fam, where]; where = "cell" or a private buffer
          done,     \* set of completed calls [arg, fam, res]
          calls     \* calls[p]: number of calls started
vars == <<cell, pc, cur, done, calls>>

(* What a call reads when it dereferences its argument now.                   *)
Actual(arg) == IF arg = "zero" THEN Mk(Pfx4in6 \o cell) ELSE Declared(arg)

Idle == [arg |-> "a", fam |-> "v4", buf |-> <<>>, shared |-> FALSE]
Init == /\ cell = Zero4
        /\ pc = [p \in Procs |-> "idle"]
        /\ cur = [p \in Procs |-> Idle]
        /\ done = {}
        /\ calls = [p \in Procs |-> 0]

(* A call that needs no mapped form: one atomic read of the argument.         *)
Direct(p, arg, fam) ==
    /\ ~(fam = "v6" /\ Len(Actual(arg).b) = 4)
    /\ done' = done \cup {[arg |-> arg, fam |-> fam, res |-> IPToAddr(Actual(arg), fam)]}
    /\ UNCHANGED <<cell, pc, cur>>
(* IPToAddr(4 bytes, IPv6), first half: build the mapped form.                *)
Build(p, arg, fam) ==
    /\ fam = "v6" /\ Len(Actual(arg).b) = 4
    /\ pc' = [pc EXCEPT ![p] = "built"]
    /\ IF Design = "shared"
       THEN /\ cell' = Actual(arg).b                       \* append writes into net.IPv4zero's array
            /\ cur' = [cur EXCEPT ![p] = [arg |-> arg, fam |-> fam, buf |-> <<>>, shared |-> TRUE]]
       ELSE /\ cur' = [cur EXCEPT ![p] = [arg |-> arg, fam |-> fam, buf |-> Pfx4in6 \o Actual(arg).b,
                                          shared |-> FALSE]]
            /\ UNCHANGED cell
    /\ UNCHANGED done
Start(p) == /\ pc[p] = "idle" /\ calls[p] < MaxCalls
            /\ calls' = [calls EXCEPT ![p] = @ + 1]
            /\ \E arg \in Args, fam \in Fams : Direct(p, arg, fam) \/ Build(p, arg, fam)
(* Second half: netip.AddrFromSlice reads the 16 bytes back.                  *)
Finish(p) == /\ pc[p] = "built"
             /\ LET bytes == IF cur[p].shared THEN Pfx4in6 \o cell ELSE cur[p].buf IN
                done' = done \cup {[arg |-> cur[p].arg, fam |-> cur[p].fam, res |-> Accept("v6", bytes)]}
             /\ pc' = [pc EXCEPT ![p] = "idle"]
             /\ cur' = [cur EXCEPT ![p] = Idle]
             /\ UNCHANGED <<cell, calls>>
Next == \E p \in Procs : Start(p) \/ Finish(p)
Spec == Init /\ [][Next]_vars

GlobalsUntouched == cell = Zero4
NoHiddenState == \A r \in done : r.res = IPToAddr(Declared(r.arg), r.fam)
ASSUME Args \subseteq ArgIds /\ Design \in {"private", "shared"}
AllArgs == ArgIds
OwnArgs == {"a", "b"}          \* caller-owned values only: a refutation needs two processes
=============================================================================
