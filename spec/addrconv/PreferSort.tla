----------------------------- MODULE PreferSort -----------------------------
(* netutil.PreferIPv4 / PreferIPv6 (netutil/sort.go) as orders for            *)
(* slices.SortFunc: valid addresses of the preferred family ascending, then   *)
(* valid addresses of the other family ascending, then invalid addresses.     *)
(*                                                                            *)
(* An address is [fam, b, zone]: fam "v4" | "v6" | "none" (the zero Addr),    *)
(* b its bytes, zone a number (0 = no zone; zone names are ordered like       *)
(* their numbers).  ::ffff:a.b.c.d is an IPv6 address (Is4 is false, Is6 is   *)
(* true).  "Ascending" is netip.Addr.Compare: shorter family first, then the  *)
(* bytes as an unsigned big-endian number, then the zone.                     *)
EXTENDS Integers, Sequences, FiniteSets, TLC

RECURSIVE LexLessFrom(_, _, _)
LexLessFrom(x, y, k) == IF k > Len(x) \/ k > Len(y) THEN Len(x) < Len(y)
                        ELSE IF x[k] # y[k] THEN x[k] < y[k]
                        ELSE LexLessFrom(x, y, k + 1)
LexLess(x, y) == LexLessFrom(x, y, 1)

Valid(a) == a.fam # "none"
(* netip.Addr.Compare(a, b) < 0 for valid a, b.                               *)
AddrLess(a, b) == \/ Len(a.b) < Len(b.b)
                  \/ Len(a.b) = Len(b.b) /\ LexLess(a.b, b.b)
                  \/ a.b = b.b /\ a.zone < b.zone

Prefs == {"v4", "v6"}
(* 0: preferred family, 1: the other family, 2: invalid.                      *)
Class(pref, a) == IF ~Valid(a) THEN 2 ELSE IF a.fam = pref THEN 0 ELSE 1
(* The strict order the sorted slice must follow.                             *)
Less(pref, a, b) == \/ Class(pref, a) < Class(pref, b)
                    \/ Class(pref, a) = Class(pref, b) /\ Valid(a) /\ AddrLess(a, b)

(* Declarative: s is ordered for pref.                                        *)
Ordered(pref, s) == \A i, j \in DOMAIN s : i < j => ~Less(pref, s[j], s[i])
IsPermutation(s, t) == /\ Len(s) = Len(t)
                       /\ \A x \in {s[i] : i \in DOMAIN s} \cup {t[i] : i \in DOMAIN t} :
                            Cardinality({i \in DOMAIN s : s[i] = x}) = Cardinality({i \in DOMAIN t : t[i] = x})

(* Constructive: insertion sort (stable; equal elements are identical values, *)
(* so stability is not observable).                                           *)
RECURSIVE Insert(_, _, _)
Insert(pref, x, s) == IF s = <<>> THEN <<x>>
                      ELSE IF Less(pref, x, Head(s)) THEN <<x>> \o s
                      ELSE <<Head(s)>> \o Insert(pref, x, Tail(s))
RECURSIVE SortFrom(_, _, _)
SortFrom(pref, s, acc) == IF s = <<>> THEN acc ELSE SortFrom(pref, Tail(s), Insert(pref, Head(s), acc))
Sorted(pref, s) == SortFrom(pref, s, <<>>)

(* Order lemmas over a set U of addresses.                                    *)
Irreflexive(U) == \A p \in Prefs : \A a \in U : ~Less(p, a, a)
Transitive(U) == \A p \in Prefs : \A a, b, c \in U : Less(p, a, b) /\ Less(p, b, c) => Less(p, a, c)
(* Incomparable elements are the same value (all invalid addresses are the    *)
(* zero Addr): the order is total on distinct values, so the sorted sequence  *)
(* is unique.                                                                 *)
TotalOnDistinct(U) == \A p \in Prefs : \A a, b \in U : a = b \/ Less(p, a, b) \/ Less(p, b, a)
Asymmetric(U) == \A p \in Prefs : \A a, b \in U : ~(Less(p, a, b) /\ Less(p, b, a))
Layered(U) == \A p \in Prefs : \A a, b \in U :
    /\ (Valid(a) /\ ~Valid(b)) => Less(p, a, b)
    /\ (Valid(a) /\ Valid(b) /\ a.fam = p /\ b.fam # p) => Less(p, a, b)
=============================================================================
