---------------------------- MODULE AddrConvTrace ----------------------------
(* Trace validation for C12: seeded random net.IP / net.IPNet / net.Addr /    *)
(* []netip.Addr values recorded together with what the real functions         *)
(* returned.  A line is accepted iff every recorded result is the one         *)
(* AddrConv.tla / PreferSort.tla prescribe and, where the property compares   *)
(* subnet membership, the real netip.Prefix.Contains and the real             *)
(* net.IPNet.Contains agreed on every recorded probe.                         *)
(*                                                                            *)
(*   [t |-> "ip",   ip, r4, r6, rn]                                           *)
(*   [t |-> "net",  ip, mask, calls: <<[fam, r, probes: <<[x, pc, nc]>>]>>]   *)
(*   [t |-> "na",   kind, ip, zone, port, r]                                  *)
(*   [t |-> "sort", in, o4, o6]                                               *)
(*   [t |-> "globals", vals]    what the standard library's exported net.IP   *)
(*                              variables hold at that point of the run; some *)
(*                              of the inputs above ARE those variables,      *)
(*                              logged with the value they are declared with  *)
EXTENDS AddrConv, PreferSort, Json

Trace == ndJsonDeserialize("conv_trace.ndjson")
VARIABLE l
Ev == Trace[l]

IpOK == /\ Ev.r4 = IPToAddr(Ev.ip, "v4")
        /\ Ev.r6 = IPToAddr(Ev.ip, "v6")
        /\ Ev.rn = IPToAddrNoMapped(Ev.ip)
Expected(c) == IF c.fam = "n" THEN IPNetToPrefixNoMapped(Ev.ip, Ev.mask)
               ELSE IPNetToPrefix(Ev.ip, Ev.mask, c.fam)
Demand(c) == IF c.fam = "n" THEN PrefixDemandNoMapped(Ev.ip, Ev.mask)
             ELSE PrefixDemand(Ev.ip, Ev.mask, c.fam)
NetOK == \A k \in DOMAIN Ev.calls :
    LET c == Ev.calls[k] IN
    /\ c.fam \in {"v4", "v6", "n"}
    /\ PrefixMeets(Demand(c), Expected(c), c.r)
    /\ c.fam = "n" => UnmappedOK(Ev.ip, c.r)
    /\ (Demand(c) = "accept" /\ MembershipCompared(Ev.ip, Ev.mask, c.r)) =>
         \A j \in DOMAIN c.probes :
             ProbeCompared(Ev.ip, c.r, c.probes[j].x) => (c.probes[j].pc = c.probes[j].nc)
NaOK == AddrPortMeets(Ev.kind, Ev.ip, NetAddrToAddrPort(Ev.kind, Ev.ip, Ev.zone, Ev.port), Ev.r)
SortOK == Ev.o4 = Sorted("v4", Ev.in) /\ Ev.o6 = Sorted("v6", Ev.in)

(* No hidden state: the std globals still hold their declared bytes.          *)
GlobalsOK == /\ DOMAIN Ev.vals = StdGlobalNames
             /\ \A n \in StdGlobalNames : Ev.vals[n] = StdGlobals[n]

TInit == l = 1
TNext == /\ l <= Len(Trace)
         /\ CASE Ev.t = "ip" -> IpOK
              [] Ev.t = "net" -> NetOK
              [] Ev.t = "na" -> NaOK
              [] Ev.t = "sort" -> SortOK
              [] Ev.t = "globals" -> GlobalsOK
              [] OTHER -> FALSE
         /\ l' = l + 1
TSpec == TInit /\ [][TNext]_l

(* The specification's models of the two standard-library Contains methods    *)
(* must reproduce every recorded observation of them; a failure here is a     *)
(* specification error (reported as a checker error), not a violation.        *)
RefModelsOK == (l <= Len(Trace) /\ Ev.t = "net") =>
    \A k \in DOMAIN Ev.calls :
        LET c == Ev.calls[k] IN
        \A j \in DOMAIN c.probes :
            /\ c.probes[j].nc = IPNetContains(Ev.ip, Ev.mask, c.probes[j].x)
            /\ (c.r.ok /\ c.r.bits >= 0) => c.probes[j].pc = PrefixContains(c.r.b, c.r.bits, c.probes[j].x)
(* The sorted order is also checked declaratively.                            *)
SortModelOK == (l <= Len(Trace) /\ Ev.t = "sort") =>
    \A p \in Prefs : Ordered(p, Sorted(p, Ev.in)) /\ IsPermutation(Ev.in, Sorted(p, Ev.in))
=============================================================================
