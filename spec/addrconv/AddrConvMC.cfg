SPECIFICATION Spec
CONSTANTS
  ToyNets <- FewNets
INVARIANTS ContiguousMembership CanonicalIsCIDR NoPrefixForHoles AndOK
CHECK_DEADLOCK FALSE
