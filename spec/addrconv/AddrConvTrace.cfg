SPECIFICATION TSpec
INVARIANTS RefModelsOK SortModelOK
CHECK_DEADLOCK FALSE
