--------------------------- MODULE ServiceMiscGen ---------------------------
(* Generator: every sequence of calls of ServiceMisc.tla up to MaxOps with,   *)
(* per call, the observation the specification predicts.  One line per state  *)
(* (all prefixes).                                                            *)
EXTENDS ServiceMiscMC, Json, CSV

VARIABLE mhist
mgvars == <<mvars, mhist>>

MGInit == MInit /\ mhist = <<>>
MGNext == /\ nops < MaxOps /\ nops' = nops + 1
          /\ \E o \in Ops : Do(o) /\ mhist' = Append(mhist, [op |-> o, obs |-> obs'])
MGSpec == MGInit /\ [][MGNext]_mgvars

MEmit == CSVWrite("%1$s", <<ToJson([msg |-> msg, hmin |-> hmin, steps |-> mhist])>>, "service_vectors.ndjson")
=============================================================================
