------------------------------ MODULE Schedule ------------------------------
(* timeutil schedules (timeutil/schedule.go) and clocks (timeutil/clock.go).  *)
(*                                                                            *)
(*   Schedule.UntilNext(now) "returns the duration left until the next time   *)
(*   when a task should be performed ... d must not be negative."             *)
(*                                                                            *)
(*   ConstSchedule      UntilNext "always returns the original interval";     *)
(*                      NewConstSchedule: "ivl must be positive" (panics).    *)
(*   CronSchedule       adapter: cron.Schedule.Next(now) - now, and because   *)
(*                      of the interface contract never negative (a           *)
(*                      cron.Schedule that finds no time returns the zero     *)
(*                      time, which lies before now); NewCronSchedule(nil)    *)
(*                      panics.                                               *)
(*   RandomizedSchedule "adds a random value between minAdd and maxAdd to the *)
(*                      result of sched"; "sched and r must not be nil.  max  *)
(*                      must be greater than min" (panics otherwise).  The    *)
(*                      doc does not say whether maxAdd itself can be added;  *)
(*                      the code draws k = r.Int64N(max - min), k in          *)
(*                      [0, max-min), and returns max(base + min + k, 0): the *)
(*                      interval is half open, [base+min, base+max), clamped  *)
(*                      at 0.  The model takes k as the environment's choice  *)
(*                      (the harness scripts the rand.Source so that Int64N   *)
(*                      yields exactly k; math/rand/v2 is the trusted         *)
(*                      reference for the mapping raw draw -> k).             *)
(*                                                                            *)
(* Durations and instants do not fit TLC's 32-bit integers in nanoseconds:    *)
(* both are pairs <<s, ns>> = s seconds + ns nanoseconds, 0 <= ns < 10^9 (s   *)
(* may be negative: <<-1, 999999999>> is -1 ns).  An instant is the duration  *)
(* since the Unix epoch.                                                      *)
(*                                                                            *)
(* State machine: a worker that repeatedly asks its schedule with the clock's *)
(* current time and sleeps the answer (what service.RefreshWorker does; C18   *)
(* models the worker with an abstract schedule, this module is that           *)
(* schedule).  The sleep is never negative and the fake clock, advanced by    *)
(* the sleeps, never goes back.                                               *)
EXTENDS Integers, Sequences, FiniteSets

NS == 1000000000

Norm(s, ns) == <<s + (ns \div NS), ns % NS>>
DAdd(a, b)  == Norm(a[1] + b[1], a[2] + b[2])
DNeg(a)     == Norm(-a[1], -a[2])
DSub(a, b)  == DAdd(a, DNeg(b))
DLt(a, b)   == a[1] < b[1] \/ (a[1] = b[1] /\ a[2] < b[2])
DLe(a, b)   == a = b \/ DLt(a, b)
Zero        == <<0, 0>>
OneNs       == <<0, 1>>
Sec(s)      == <<s, 0>>
Clamp0(a)   == IF DLt(a, Zero) THEN Zero ELSE a
IsDur(a)    == a[1] \in Int /\ a[2] \in 0..(NS - 1)

----------------------------------------------------------------------------
(* Schedule descriptions.                                                     *)
(*   [kind |-> "const",   ivl]        timeutil.NewConstSchedule(ivl)          *)
(*   [kind |-> "aligned", p]          NewCronSchedule(cron "*/p * * * * *"    *)
(*                                    or, p = 60m, "0 */m * * * *"): the next *)
(*                                    multiple of p seconds strictly after    *)
(*                                    the second now lies in (p | 3600)       *)
(*   [kind |-> "every",   d]          NewCronSchedule(cron.Every(d seconds)): *)
(*                                    now + d, rounded down to the second     *)
(*   [kind |-> "fakecron"]            NewCronSchedule over a scripted         *)
(*                                    cron.Schedule: Next(now) = now + delta, *)
(*                                    delta chosen by the environment (may be *)
(*                                    negative: a time in the past / the zero *)
(*                                    time)                                   *)
(*   [kind |-> "fake"]                a scripted timeutil.Schedule returning  *)
(*                                    delta as is (base of a randomized one)  *)
(*   [kind |-> "rand", inner, min, max]  NewRandomizedSchedule(inner, r, min, max) *)
(* nilsched / nilrand / nilcron flags describe constructor calls with a nil   *)
(* argument.                                                                  *)

AlignedNext(p, now) == Sec((now[1] \div p + 1) * p)
EveryNext(d, now)   == Sec(now[1] + d)

(* The answer of a non-randomized schedule; delta is the environment's choice *)
(* for the scripted kinds and ignored otherwise.                              *)
InnerUntil(c, now, delta) ==
    CASE c.kind = "const"    -> c.ivl
      [] c.kind = "aligned"  -> Clamp0(DSub(AlignedNext(c.p, now), now))
      [] c.kind = "every"    -> Clamp0(DSub(EveryNext(c.d, now), now))
      [] c.kind = "fakecron" -> Clamp0(delta)
      [] c.kind = "fake"     -> delta

DrawRange(c) == DSub(c.max, c.min)
DrawOK(c, k) == DLe(Zero, k) /\ DLt(k, DrawRange(c))

(* UntilNext(now) of schedule c, with the environment's choices for this      *)
(* call: delta (scripted inner schedule) and k (the random draw).             *)
Until(c, now, delta, k) ==
    IF c.kind = "rand"
      THEN Clamp0(DAdd(DAdd(InnerUntil(c.inner, now, delta), c.min), k))
      ELSE InnerUntil(c, now, delta)

Base(c, now, delta) == IF c.kind = "rand" THEN InnerUntil(c.inner, now, delta) ELSE InnerUntil(c, now, delta)

(* Constructors: does the documented precondition fail (the code panics)?     *)
NewPanics(c) ==
    CASE c.kind = "const" -> ~DLt(Zero, c.ivl)
      [] c.kind = "nilcron" -> TRUE
      [] c.kind = "rand" -> c.nilsched \/ c.nilrand \/ ~DLt(c.min, c.max)
      [] OTHER -> FALSE

----------------------------------------------------------------------------
(* The worker. *)
CONSTANTS Configs,     \* schedule descriptions (valid and invalid ones)
          Starts,      \* initial clock readings
          MaxSteps,
          Deltas,      \* choices of the scripted inner schedules
          DrawsOf(_, _)  \* DrawsOf(c, base): the draws explored for a randomized schedule

VARIABLES cfg, now, n, last
svars == <<cfg, now, n, last>>

NoStep == [delta |-> Zero, k |-> Zero, base |-> Zero, d |-> Zero, at |-> Zero]

SInit == /\ cfg \in Configs /\ now \in Starts /\ n = 0 /\ last = NoStep

Scripted(c) == c.kind \in {"fakecron", "fake"} \/ (c.kind = "rand" /\ c.inner.kind \in {"fakecron", "fake"})

(* One round: ask with the clock's current time, sleep the answer. *)
Step(delta, k) ==
    /\ ~NewPanics(cfg)
    /\ LET d == Until(cfg, now, delta, k) IN
         /\ last' = [delta |-> delta, k |-> k, base |-> Base(cfg, now, delta), d |-> d, at |-> now]
         /\ now' = DAdd(now, d)
    /\ n' = n + 1
    /\ UNCHANGED cfg

SNext == /\ n < MaxSteps
         /\ \E delta \in (IF Scripted(cfg) THEN Deltas ELSE {Zero}) :
              \E k \in (IF cfg.kind = "rand" THEN DrawsOf(cfg, Base(cfg, now, delta)) ELSE {Zero}) :
                 Step(delta, k)

SSpec == SInit /\ [][SNext]_svars

----------------------------------------------------------------------------
(* Properties. *)
STypeOK == IsDur(now) /\ IsDur(last.d) /\ n \in 0..MaxSteps

(* "d must not be negative": for every schedule of the library, whatever the  *)
(* wrapped cron schedule answers and whatever is drawn.  (A scripted          *)
(* timeutil.Schedule is the caller's and outside the claim unless wrapped.)   *)
NonNegativeSleep == (n > 0 /\ cfg.kind # "fake") => DLe(Zero, last.d)

(* ConstSchedule: always the interval. *)
ConstIsInterval == (n > 0 /\ cfg.kind = "const") => last.d = cfg.ivl

(* Cron kinds: the sleep ends exactly at the cron time (strictly later than   *)
(* now), on a whole second.                                                   *)
CronLands == (n > 0 /\ cfg.kind \in {"aligned", "every"}) =>
                /\ DLt(Zero, last.d) /\ now[2] = 0
                /\ cfg.kind = "aligned" => (now[1] % cfg.p = 0 /\ DLe(last.d, Sec(cfg.p)))
                /\ cfg.kind = "every" => (DLe(last.d, Sec(cfg.d)) /\ DLt(Sec(cfg.d - 1), last.d))

(* RandomizedSchedule: base + min <= d < base + max, except that negative     *)
(* values are replaced by 0.                                                  *)
RandWithin == (n > 0 /\ cfg.kind = "rand") =>
    LET lo == DAdd(last.base, cfg.min)
        hi == DAdd(last.base, cfg.max)
    IN  /\ DrawOK(cfg, last.k)
        /\ DLe(Clamp0(lo), last.d)
        /\ DLt(Zero, last.d) => (DLe(lo, last.d) /\ DLt(last.d, hi))
        /\ last.d = Zero => DLe(lo, Zero)

(* The clock advanced by the sleeps never goes back. *)
ClockMonotone == [][DLe(now, now')]_svars
SleepIsAdvance == n > 0 => now = DAdd(last.at, last.d)
=============================================================================
