SPECIFICATION PSpec
CONSTANTS
  Holders = {1, 2}
  MaxObjs = 3
  SliceLens <- MCSliceLens
  CtxKinds = {"live", "canceled", "expired"}
  NumTypes <- MCNumTypes
  MaxOps = 7
INVARIANTS PTypeOK SingleOwner FreeNotHeld GetResult FreshOnlyByGet SemaNeverBlocks
CHECK_DEADLOCK FALSE
