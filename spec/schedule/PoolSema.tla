------------------------------ MODULE PoolSema ------------------------------
(* syncutil.Pool / NewSlicePool (syncutil/pool.go), syncutil.EmptySemaphore   *)
(* (syncutil/sema.go), mathutil.BoolToNumber (mathutil/mathutil.go).          *)
(*                                                                            *)
(*   Pool      "the strongly typed version of sync.Pool"; NewPool: "newFunc   *)
(*             must not be nil" (panics).  Get "selects an arbitrary item     *)
(*             from the pool, removes it from the pool, and returns it" - or, *)
(*             as sync.Pool does, returns a fresh one from newFunc; which of  *)
(*             the two is not the caller's choice: the model gives the SET of *)
(*             allowed results.  Never nil (nobody puts nil here), never an   *)
(*             object somebody currently holds, never an object the pool was  *)
(*             never given.  Put "adds v to the pool", the contents untouched *)
(*             (a slice shortened by its holder comes back shortened).        *)
(*   NewSlicePool(l)  fresh objects are pointers to slices of length l        *)
(*   EmptySemaphore   "has no limit": Acquire "always returns nil" - whatever *)
(*             the context's state and however many acquisitions are          *)
(*             outstanding; Release does nothing (also without Acquire)       *)
(*   BoolToNumber     "returns 1 if cond is true and 0 otherwise", for every  *)
(*             number type                                                    *)
(*                                                                            *)
(* Histories are sequential; two holders make "held by someone else"          *)
(* expressible.  A run is in one mode (pool / sema / math).                   *)
EXTENDS Integers, Sequences, FiniteSets

CONSTANTS Holders,     \* e.g. {1, 2}
          MaxObjs,     \* objects per run (fresh + foreign)
          SliceLens,   \* lengths for NewSlicePool; -1 stands for a plain NewPool of structs
          CtxKinds,    \* {"live", "canceled", "expired"}
          NumTypes,    \* names of the number types BoolToNumber is instantiated with
          MaxOps

VARIABLES mode,    \* "pool", "sema", "math", "nilfunc"
          sl,      \* NewSlicePool length of this run's pool, -1 = NewPool of structs
          free,    \* objects lying in the pool
          held,    \* held[p]
          nobj,    \* objects so far: ids 1..nobj
          len,     \* len[o]: length of the slice o points to (0 for structs)
          fresh,   \* objects that came from newFunc
          out,     \* acquisitions minus releases of the EmptySemaphore (may be negative)
          pobs,    \* observation of the latest call
          nops

pvars == <<mode, sl, free, held, nobj, len, fresh, out, pobs, nops>>

NoPObs == [ret |-> "none", obj |-> 0, new |-> FALSE, allowed |-> {}, len |-> 0]

PInit == /\ mode \in {"pool", "sema", "math", "nilfunc"}
         /\ sl \in (IF mode = "pool" THEN SliceLens ELSE {-1})
         /\ free = {} /\ held = [p \in Holders |-> {}] /\ nobj = 0 /\ len = <<>> /\ fresh = {}
         /\ out = 0 /\ pobs = NoPObs /\ nops = 0

FreshLen == IF sl < 0 THEN 0 ELSE sl

(* What Get may return now: any idle object, or a fresh one. *)
Allowed == free

(* Get returns the idle object o ... *)
GetIdle(p, o) ==
    /\ mode = "pool" /\ o \in free
    /\ free' = free \ {o}
    /\ held' = [held EXCEPT ![p] = @ \cup {o}]
    /\ pobs' = [ret |-> "obj", obj |-> o, new |-> FALSE, allowed |-> Allowed, len |-> len[o]]
    /\ UNCHANGED <<mode, sl, nobj, len, fresh, out>>
(* ... or a new one from newFunc, which it may do even when idle objects exist. *)
GetNew(p) ==
    /\ mode = "pool" /\ nobj < MaxObjs
    /\ nobj' = nobj + 1
    /\ held' = [held EXCEPT ![p] = @ \cup {nobj + 1}]
    /\ len' = Append(len, FreshLen)
    /\ fresh' = fresh \cup {nobj + 1}
    /\ pobs' = [ret |-> "obj", obj |-> nobj + 1, new |-> TRUE, allowed |-> Allowed, len |-> FreshLen]
    /\ UNCHANGED <<mode, sl, free, out>>
(* Put gives up ownership. *)
Put(p, o) ==
    /\ mode = "pool" /\ o \in held[p]
    /\ held' = [held EXCEPT ![p] = @ \ {o}]
    /\ free' = free \cup {o}
    /\ pobs' = [NoPObs EXCEPT !.obj = o]
    /\ UNCHANGED <<mode, sl, nobj, len, fresh, out>>
(* The holder makes an object of its own and puts it (sync.Pool takes any). *)
PutForeign(p, n) ==
    /\ mode = "pool" /\ nobj < MaxObjs
    /\ nobj' = nobj + 1
    /\ len' = Append(len, n)
    /\ free' = free \cup {nobj + 1}
    /\ pobs' = [NoPObs EXCEPT !.obj = nobj + 1, !.len = n]
    /\ UNCHANGED <<mode, sl, held, fresh, out>>
(* The holder shortens its slice to length 0 (the usual reset before a Put). *)
Shrink(p, o) ==
    /\ mode = "pool" /\ sl >= 0 /\ o \in held[p] /\ len[o] > 0
    /\ len' = [len EXCEPT ![o] = 0]
    /\ pobs' = [NoPObs EXCEPT !.obj = o]
    /\ UNCHANGED <<mode, sl, free, held, nobj, fresh, out>>

(* NewPool(nil) *)
NewPoolNil ==
    /\ mode = "nilfunc" /\ nops = 0
    /\ pobs' = [NoPObs EXCEPT !.ret = "panic"]
    /\ UNCHANGED <<mode, sl, free, held, nobj, len, fresh, out>>

(* EmptySemaphore: never disabled, never an error. *)
Acquire(k) ==
    /\ mode = "sema"
    /\ out' = out + 1
    /\ pobs' = [NoPObs EXCEPT !.ret = "nil"]
    /\ UNCHANGED <<mode, sl, free, held, nobj, len, fresh>>
Release ==
    /\ mode = "sema"
    /\ out' = out - 1
    /\ pobs' = NoPObs
    /\ UNCHANGED <<mode, sl, free, held, nobj, len, fresh>>

(* BoolToNumber[T](b) *)
BoolToNumber(b) == IF b THEN 1 ELSE 0
B2N(t, b) ==
    /\ mode = "math"
    /\ pobs' = [NoPObs EXCEPT !.ret = "num", !.obj = BoolToNumber(b)]
    /\ UNCHANGED <<mode, sl, free, held, nobj, len, fresh, out>>

PDo(o) ==
    CASE o[1] = "get"        -> (IF o[3] = 0 THEN GetNew(o[2]) ELSE GetIdle(o[2], o[3]))
      [] o[1] = "put"        -> Put(o[2], o[3])
      [] o[1] = "putforeign" -> PutForeign(o[2], o[3])
      [] o[1] = "shrink"     -> Shrink(o[2], o[3])
      [] o[1] = "newpoolnil" -> NewPoolNil
      [] o[1] = "acquire"    -> Acquire(o[2])
      [] o[1] = "release"    -> Release
      [] o[1] = "b2n"        -> B2N(o[2], o[3])

POps ==
    {<<"get", p, o>> : p \in Holders, o \in free \cup {0}}
    \cup {<<"put", p, o>> : p \in Holders, o \in 1..nobj}
    \cup {<<"putforeign", p, n>> : p \in Holders, n \in {0, 3}}
    \cup {<<"shrink", p, o>> : p \in Holders, o \in 1..nobj}
    \cup {<<"newpoolnil">>, <<"release">>}
    \cup {<<"acquire", k>> : k \in CtxKinds}
    \cup {<<"b2n", t, b>> : t \in NumTypes, b \in BOOLEAN}

PNext == /\ nops < (IF mode = "math" THEN 1 ELSE MaxOps) /\ nops' = nops + 1
         /\ \E o \in POps : PDo(o)
PSpec == PInit /\ [][PNext]_pvars

----------------------------------------------------------------------------
(* Properties. *)
Owners(o) == {p \in Holders : o \in held[p]}
PTypeOK == free \subseteq 1..nobj /\ \A p \in Holders : held[p] \subseteq 1..nobj /\ Len(len) = nobj
(* an object is owned by at most one holder between Get and Put *)
SingleOwner == \A o \in 1..nobj : Cardinality(Owners(o)) <= 1
FreeNotHeld == \A o \in free : Owners(o) = {}
(* Get never returns nil, never a held object: it returns an idle one or a   *)
(* fresh one, and a fresh one of a slice pool has the pool's length.          *)
GetResult == pobs.ret = "obj" =>
    /\ pobs.obj >= 1
    /\ pobs.new => (pobs.obj \notin pobs.allowed /\ pobs.len = FreshLen)
    /\ ~pobs.new => pobs.obj \in pobs.allowed
(* Only newFunc makes objects on the pool's side. *)
FreshOnlyByGet == fresh \subseteq 1..nobj
(* The semaphore has no limit in either direction. *)
SemaNeverBlocks == mode = "sema" => (ENABLED Acquire("live") /\ ENABLED Release)
=============================================================================
