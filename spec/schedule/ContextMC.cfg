SPECIFICATION CSpec
CONSTANTS
  MaxNew = 3
  Kinds = {"long", "short", "expired", "empty"}
  MaxOps = 6
INVARIANTS CTypeOK TreeClosed EmptyIsParent AtCreation
PROPERTIES FirstCauseWins OnlyBelow RootOnlyByRoot
CHECK_DEADLOCK FALSE
