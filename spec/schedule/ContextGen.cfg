SPECIFICATION CGSpec
CONSTANTS
  MaxNew = 3
  Kinds = {"long", "short", "expired", "empty"}
  MaxOps = 4
INVARIANTS CEmit CTypeOK TreeClosed EmptyIsParent AtCreation
PROPERTIES FirstCauseWins OnlyBelow RootOnlyByRoot
CHECK_DEADLOCK FALSE
