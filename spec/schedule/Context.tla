------------------------------ MODULE Context ------------------------------
(* contextutil.Constructor implementations (contextutil/contextutil.go).      *)
(*                                                                            *)
(*   Constructor.New "returns a new context based on parent as well as a      *)
(*   cancel function.  parent, ctx, and cancel must not be nil."              *)
(*   EmptyConstructor   "returns the parent context and an empty              *)
(*                      context.CancelFunc": the very same context, and       *)
(*                      calling cancel cancels nothing.                       *)
(*   TimeoutConstructor "returns a context with the given timeout" and "the   *)
(*                      corresponding cancelation function": a child that     *)
(*                      becomes done when (a) its cancel is called, (b) its   *)
(*                      parent becomes done, (c) the timeout elapses -        *)
(*                      whichever happens first decides Err(): Canceled for   *)
(*                      (a), the parent's Err for (b), DeadlineExceeded for   *)
(*                      (c).  A timeout <= 0 yields a context that is done    *)
(*                      from the start.                                       *)
(*                                                                            *)
(* Contexts form a tree.  Node 0 is the root (a cancellable context owned by  *)
(* the environment).  Every New call is a handle h = 1, 2, ...: kind[h] is    *)
(* the constructor used ("long": timeout far away, never elapses in a run;    *)
(* "short": a timeout that may elapse at any moment, action Elapse;           *)
(* "expired": timeout <= 0; "empty": EmptyConstructor), par[h] the handle     *)
(* whose context was given as parent (0 = root).  A timeout handle owns node  *)
(* h; an empty handle denotes its parent's node.                              *)
EXTENDS Integers, Sequences, FiniteSets

CONSTANTS MaxNew,      \* New calls per run
          Kinds,       \* subset of {"long", "short", "expired", "empty"}
          MaxOps

VARIABLES nh,     \* handles created
          kind,   \* kind[h]
          par,    \* par[h]
          st,     \* st[n], n \in 0..nh: "live", "canceled", "deadline" (for empty handles unused, kept "alias")
          op,     \* the latest operation (observation variable)
          nops

cvars == <<nh, kind, par, st, op, nops>>

Handles == 1..nh
IsTimeout(h) == kind[h] # "empty"

(* The node a handle's context is. *)
RECURSIVE NodeOf(_)
NodeOf(h) == IF h = 0 THEN 0 ELSE IF IsTimeout(h) THEN h ELSE NodeOf(par[h])

(* The parent node of a timeout node. *)
NodePar(n) == NodeOf(par[n])

RECURSIVE IsAncOrSelf(_, _)
IsAncOrSelf(a, n) == n = a \/ (n # 0 /\ IsAncOrSelf(a, NodePar(n)))

Nodes == {0} \cup {h \in Handles : IsTimeout(h)}
Below(a) == {n \in Nodes : IsAncOrSelf(a, n)}

(* Node a becomes done with err e: so does every live node below it. *)
Finish(a, e) == [n \in DOMAIN st |-> IF n \in Below(a) /\ st[n] = "live" THEN e ELSE st[n]]

CInit == /\ nh = 0 /\ kind = <<>> /\ par = <<>> /\ st = [n \in {0} |-> "live"]
         /\ op = [type |-> "init", h |-> 0] /\ nops = 0

(* c.New(ctx of handle p) *)
New(k, p) ==
    /\ nh < MaxNew /\ p \in 0..nh
    /\ nh' = nh + 1
    /\ kind' = Append(kind, k)
    /\ par' = Append(par, p)
    /\ LET ps == st[NodeOf(p)] IN
       st' = [n \in 0..(nh + 1) |->
                IF n <= nh THEN st[n]
                ELSE IF k = "empty" THEN "alias"
                ELSE IF ps # "live" THEN ps              \* (b) at once: the parent is already done
                ELSE IF k = "expired" THEN "deadline"    \* (c) at once
                ELSE "live"]
    /\ op' = [type |-> "new", h |-> nh + 1]

(* The cancel function of handle h; as often as one likes. *)
Cancel(h) ==
    /\ h \in Handles
    /\ st' = IF IsTimeout(h) THEN Finish(h, "canceled") ELSE st
    /\ op' = [type |-> "cancel", h |-> h]
    /\ UNCHANGED <<nh, kind, par>>

(* The environment cancels the root. *)
CancelRoot ==
    /\ st' = Finish(0, "canceled")
    /\ op' = [type |-> "cancelroot", h |-> 0]
    /\ UNCHANGED <<nh, kind, par>>

(* The timeout of a short handle elapses. *)
Elapse(h) ==
    /\ h \in Handles /\ kind[h] = "short" /\ st[h] = "live"
    /\ st' = Finish(h, "deadline")
    /\ op' = [type |-> "elapse", h |-> h]
    /\ UNCHANGED <<nh, kind, par>>

CNext == /\ nops < MaxOps /\ nops' = nops + 1
         /\ \/ \E k \in Kinds : \E p \in 0..nh : New(k, p)
            \/ \E h \in Handles : Cancel(h)
            \/ CancelRoot
            \/ \E h \in Handles : Elapse(h)

CSpec == CInit /\ [][CNext]_cvars

----------------------------------------------------------------------------
(* What a caller can see of handle h. *)
Err(h) == st[NodeOf(h)]                 \* "live" = ctx.Err() is nil
Done(h) == Err(h) # "live"
SameAsParent(h) == ~IsTimeout(h)        \* the returned context IS the parent
(* Deadline() reports a deadline iff a timeout constructor is involved; the   *)
(* harness checks its value with the wall clock: it is the parent's deadline  *)
(* or lies between (time before New) + timeout and (time after New) + timeout, *)
(* and is never later than the parent's.                                      *)
HasDeadline(h) == NodeOf(h) # 0

Obs(h) == [done |-> Done(h), err |-> Err(h), same |-> SameAsParent(h), hasdl |-> HasDeadline(h)]

----------------------------------------------------------------------------
(* Properties. *)
CTypeOK == /\ nh \in 0..MaxNew /\ DOMAIN st = 0..nh
           /\ \A h \in Handles : par[h] \in 0..(h - 1)
           /\ \A n \in Nodes : st[n] \in {"live", "canceled", "deadline"}

(* (b): a done parent has only done children. *)
TreeClosed == \A n \in Nodes \ {0} : st[NodePar(n)] # "live" => st[n] # "live"

(* EmptyConstructor: the parent itself. *)
EmptyIsParent == \A h \in Handles : ~IsTimeout(h) => (NodeOf(h) = NodeOf(par[h]) /\ Err(h) = Err(par[h]))

(* The first cause decides; a done context stays done with the same Err. *)
FirstCauseWins == [][\A n \in Nodes : st[n] # "live" => st'[n] = st[n]]_cvars

(* Nothing propagates upwards or sideways: an operation on handle h changes   *)
(* only nodes below h's own node; an empty cancel changes nothing; New        *)
(* changes no existing context.                                               *)
OnlyBelow == [][\A n \in Nodes :
                   st'[n] # st[n] =>
                      /\ op'.type \in {"cancel", "elapse", "cancelroot"}
                      /\ (op'.type = "cancel" => IsTimeout(op'.h))
                      /\ IsAncOrSelf(IF op'.type = "cancelroot" THEN 0 ELSE op'.h, n)]_cvars

(* The root is done only if the environment cancelled it. *)
RootOnlyByRoot == [][st[0] = "live" /\ st'[0] # "live" => op'.type = "cancelroot"]_cvars

(* An expired constructor yields a done context; a long one a live context    *)
(* iff the parent is live.                                                    *)
AtCreation == op.type = "new" =>
    LET h == op.h IN
      /\ kind[h] = "expired" => Done(h)
      /\ kind[h] \in {"long", "short"} => (Done(h) <=> Done(par[h]))
      /\ (Done(h) /\ Done(par[h])) => Err(h) = Err(par[h])
=============================================================================
