------------------------------ MODULE PoolSemaMC ------------------------------
(* Constants a .cfg file cannot express. *)
EXTENDS PoolSema
MCSliceLens == {-1, 0, 5}
MCNumTypes == {"int", "int8", "int16", "int32", "int64", "uint", "uint8", "uint16", "uint32", "uint64", "uintptr",
               "float32", "float64", "named-int", "named-float64", "duration"}
=============================================================================
