---------------------------- MODULE ContextTrace ----------------------------
(* Trace validation for the contextutil constructors: logs of seeded random   *)
(* real runs (trees of up to 8 contexts, constructors nested in any way,      *)
(* real timeouts of a few milliseconds that fire while the run goes on) must  *)
(* be behaviours of Context.tla.                                              *)
(*   run                       a new root                                     *)
(*   new kind p / cancel h / cancelroot     the operations                    *)
(*   wait h                    the harness blocked until handle h was done    *)
(*   obs root obs[]            a consistent snapshot of Err()/Done()/identity *)
(*                             /Deadline() of the root and of every handle    *)
(* A timeout elapsing is not an event the harness performs: Elapse is a       *)
(* silent step, so acceptance is judged by the high-water mark of the trace   *)
(* index (TLC register 1).                                                    *)
EXTENDS Context, Json, TLC

Trace == ndJsonDeserialize("context_trace.ndjson")

VARIABLE l
tvars == <<cvars, l>>

Ev == Trace[l]

Mark(k) == TLCSet(1, IF TLCGet(1) < k THEN k ELSE TLCGet(1))

TInit == CInit /\ l = 1 /\ TLCSet(1, 0)

TRun == /\ Ev.ev = "run"
        /\ nh' = 0 /\ kind' = <<>> /\ par' = <<>> /\ st' = [n \in {0} |-> "live"]
        /\ op' = [type |-> "init", h |-> 0]
TNew == Ev.ev = "new" /\ New(Ev.kind, Ev.p)
TCancel == Ev.ev = "cancel" /\ Cancel(Ev.h)
TCancelRoot == Ev.ev = "cancelroot" /\ CancelRoot
TWait == Ev.ev = "wait" /\ UNCHANGED <<nh, kind, par, st, op>>
TObs == /\ Ev.ev = "obs"
        /\ st[0] = Ev.root
        /\ Len(Ev.obs) = nh
        /\ \A h \in Handles : Obs(h) = Ev.obs[h]
        /\ UNCHANGED <<nh, kind, par, st, op>>

TLogged == /\ l <= Len(Trace)
           /\ (TRun \/ TNew \/ TCancel \/ TCancelRoot \/ TWait \/ TObs)
           /\ l' = l + 1
           /\ Mark(l)
           /\ UNCHANGED nops
TSilent == /\ l <= Len(Trace)
           /\ \E h \in Handles : Elapse(h)
           /\ UNCHANGED <<l, nops>>

TNext == TLogged \/ TSilent
TSpec == TInit /\ [][TNext]_tvars

Post == PrintT("HWM " \o ToString(TLCGet(1)))
=============================================================================
