---------------------------- MODULE ServiceMisc ----------------------------
(* The small adapters of package service (service/service.go,                 *)
(* errorhandler.go, refresh.go).                                              *)
(*                                                                            *)
(*   Empty             "does nothing and returns nil"                         *)
(*   ShutdownService   Start "always returns nil" (and does not touch the     *)
(*                     Shutdowner); Shutdown is the Shutdowner's Shutdown:    *)
(*                     called once per call with the caller's context, its    *)
(*                     error returned as is (a panic passes through);         *)
(*                     NewShutdownService: "s must not be nil" (panics)       *)
(*   ErrorHandlerFunc  calls the function with the same context and error     *)
(*   IgnoreErrorHandler "ignores all errors"                                  *)
(*   SlogErrorHandler  "logs errors": one record per Handle, at the level the *)
(*                     Leveler reports at that moment, with the message given *)
(*                     to the constructor and the error under the key         *)
(*                     slogutil.KeyError = "err"; the caller's context goes   *)
(*                     to the slog.Handler; as with any slog.Logger nothing   *)
(*                     is logged when the handler is not enabled for the      *)
(*                     level; NewSlogErrorHandler: "l and lvl must not be     *)
(*                     nil" (panics)                                          *)
(*   RefresherFunc     calls the function with the same context, returns its  *)
(*                     error; EmptyRefresher "returns nil immediately"        *)
(*                                                                            *)
(* A world holds one of each; contexts and errors are identities (ids).  The  *)
(* observation variable obs says, for the latest call, what was returned and  *)
(* which calls reached the recording fakes (Shutdowner, function behind       *)
(* ErrorHandlerFunc / RefresherFunc, slog.Handler).                           *)
EXTENDS Integers, Sequences

CONSTANTS Ctxs,        \* context identities
          Errs,        \* error identities, e.g. {"e1", "e2"}
          Levels,      \* values the Leveler may report (slog levels)
          HMins,       \* minimum level of the recording slog.Handler, chosen in Init
          Msgs,        \* message given to NewSlogErrorHandler, chosen in Init
          MaxOps

KeyError == "err"     \* slogutil.KeyError

VARIABLES msg, hmin,  \* the world's constants
          lv,         \* what the Leveler (a slog.LevelVar) reports now
          nshut,      \* Shutdown calls made on the ShutdownService
          dcount,     \* calls the Shutdowner has received
          nrec,       \* records the slog.Handler has received
          nenabled,   \* Handle calls on the SlogErrorHandler at a level the slog.Handler is enabled for
          obs, nops

mvars == <<msg, hmin, lv, nshut, dcount, nrec, nenabled, obs, nops>>

NoObs == [ret |-> "none", dcalls |-> <<>>, fcalls |-> <<>>, rcalls |-> <<>>, recs |-> <<>>]
Ret(r) == [NoObs EXCEPT !.ret = r]

MInit == /\ msg \in Msgs /\ hmin \in HMins /\ lv = 0
         /\ nshut = 0 /\ dcount = 0 /\ nrec = 0 /\ nenabled = 0
         /\ obs = NoObs /\ nops = 0

Same == UNCHANGED <<msg, hmin>>

(* service.Empty *)
EmptyStart(c) == obs' = Ret("nil") /\ UNCHANGED <<lv, nshut, dcount, nrec, nenabled>> /\ Same
EmptyShutdown(c) == obs' = Ret("nil") /\ UNCHANGED <<lv, nshut, dcount, nrec, nenabled>> /\ Same

(* ShutdownService.Start: nil, the Shutdowner is not involved. *)
SvcStart(c) == obs' = Ret("nil") /\ UNCHANGED <<lv, nshut, dcount, nrec, nenabled>> /\ Same

(* ShutdownService.Shutdown(c) with a Shutdowner whose outcome is o: an     *)
(* error id, "nil" or "panic".                                                *)
SvcShutdown(c, o) ==
    /\ obs' = [NoObs EXCEPT !.ret = o, !.dcalls = <<c>>]
    /\ nshut' = nshut + 1 /\ dcount' = dcount + 1
    /\ UNCHANGED <<lv, nrec, nenabled>> /\ Same

(* Constructors with nil arguments. *)
NewShutdownService(nilarg) ==
    /\ obs' = Ret(IF nilarg THEN "panic" ELSE "ok")
    /\ UNCHANGED <<lv, nshut, dcount, nrec, nenabled>> /\ Same
NewSlogErrorHandler(nillogger, nillevel) ==
    /\ obs' = Ret(IF nillogger \/ nillevel THEN "panic" ELSE "ok")
    /\ UNCHANGED <<lv, nshut, dcount, nrec, nenabled>> /\ Same

(* The application changes the level (slog.LevelVar.Set). *)
SetLevel(v) == /\ lv' = v /\ obs' = Ret("none")
               /\ UNCHANGED <<nshut, dcount, nrec, nenabled>> /\ Same

(* ErrorHandler.Handle(c, e) *)
HandleFunc(c, e) == obs' = [NoObs EXCEPT !.fcalls = <<<<c, e>>>>]
                    /\ UNCHANGED <<lv, nshut, dcount, nrec, nenabled>> /\ Same
HandleIgnore(c, e) == obs' = NoObs /\ UNCHANGED <<lv, nshut, dcount, nrec, nenabled>> /\ Same
HandleSlog(c, e) ==
    /\ IF lv >= hmin
         THEN /\ obs' = [NoObs EXCEPT !.recs = <<[level |-> lv, msg |-> msg, key |-> KeyError, err |-> e, ctx |-> c]>>]
              /\ nrec' = nrec + 1 /\ nenabled' = nenabled + 1
         ELSE /\ obs' = NoObs /\ UNCHANGED <<nrec, nenabled>>
    /\ UNCHANGED <<lv, nshut, dcount>> /\ Same

(* Refresher.Refresh(c) *)
RefreshFunc(c, o) == obs' = [NoObs EXCEPT !.ret = o, !.rcalls = <<c>>]
                     /\ UNCHANGED <<lv, nshut, dcount, nrec, nenabled>> /\ Same
RefreshEmpty(c) == obs' = Ret("nil") /\ UNCHANGED <<lv, nshut, dcount, nrec, nenabled>> /\ Same

Outcomes == Errs \cup {"nil", "panic"}

(* The operation named by a tuple; used by the model, the generator and the   *)
(* trace module alike.                                                        *)
Do(o) ==
    CASE o[1] = "empty.start"    -> EmptyStart(o[2])
      [] o[1] = "empty.shutdown" -> EmptyShutdown(o[2])
      [] o[1] = "svc.start"      -> SvcStart(o[2])
      [] o[1] = "svc.shutdown"   -> SvcShutdown(o[2], o[3])
      [] o[1] = "new.svc"        -> NewShutdownService(o[2])
      [] o[1] = "new.slog"       -> NewSlogErrorHandler(o[2], o[3])
      [] o[1] = "setlevel"       -> SetLevel(o[2])
      [] o[1] = "handle.func"    -> HandleFunc(o[2], o[3])
      [] o[1] = "handle.ignore"  -> HandleIgnore(o[2], o[3])
      [] o[1] = "handle.slog"    -> HandleSlog(o[2], o[3])
      [] o[1] = "refresh.func"   -> RefreshFunc(o[2], o[3])
      [] o[1] = "refresh.empty"  -> RefreshEmpty(o[2])

Ops ==
    {<<t, c>> : t \in {"empty.start", "empty.shutdown", "svc.start", "refresh.empty"}, c \in Ctxs}
    \cup {<<"svc.shutdown", c, o>> : c \in Ctxs, o \in Outcomes}
    \cup {<<"refresh.func", c, o>> : c \in Ctxs, o \in Outcomes}
    \cup {<<"new.svc", b>> : b \in BOOLEAN}
    \cup {<<"new.slog", a, b>> : a \in BOOLEAN, b \in BOOLEAN}
    \cup {<<"setlevel", v>> : v \in Levels}
    \cup {<<t, c, e>> : t \in {"handle.func", "handle.ignore", "handle.slog"}, c \in Ctxs, e \in Errs}

MNext == nops < MaxOps /\ nops' = nops + 1 /\ \E o \in Ops : Do(o)
MSpec == MInit /\ [][MNext]_mvars

----------------------------------------------------------------------------
(* Properties. *)
MTypeOK == lv \in Levels \cup {0} /\ dcount \in 0..MaxOps /\ nrec \in 0..MaxOps

(* The Shutdowner is called exactly once per Shutdown and never by Start. *)
DelegatesExactlyOnce == dcount = nshut

(* One record per enabled Handle, none otherwise. *)
OneRecordPerHandle == nrec = nenabled

(* A record carries the level at the time of the call, the constructor's      *)
(* message and the error under "err".                                         *)
RecordShape == \A i \in 1..Len(obs.recs) :
                  /\ obs.recs[i].level = lv /\ obs.recs[i].level >= hmin
                  /\ obs.recs[i].msg = msg /\ obs.recs[i].key = KeyError
                  /\ Len(obs.recs) = 1

(* Only a Shutdown reaches the Shutdowner, only an ErrorHandlerFunc the       *)
(* function, ...: at most one fake is reached per call.                       *)
OneFakePerCall == Len(obs.dcalls) + Len(obs.fcalls) + Len(obs.rcalls) + Len(obs.recs) <= 1
=============================================================================
