SPECIFICATION TSpec
CONSTANTS
  Ctxs = {1}
  Errs = {"e1"}
  Levels <- TraceLevels
  HMins <- MCHMins
  Msgs = {""}
  MaxOps = 1000000
INVARIANTS DelegatesExactlyOnce OneRecordPerHandle RecordShape OneFakePerCall
CHECK_DEADLOCK FALSE
