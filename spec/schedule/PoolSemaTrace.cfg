SPECIFICATION TSpec
CONSTANTS
  Holders = {1, 2}
  MaxObjs = 1000000
  SliceLens <- MCSliceLens
  CtxKinds = {"live", "canceled", "expired"}
  NumTypes <- MCNumTypes
  MaxOps = 1000000
INVARIANTS SingleOwner FreeNotHeld GetResult
CHECK_DEADLOCK FALSE
