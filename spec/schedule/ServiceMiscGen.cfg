SPECIFICATION MGSpec
CONSTANTS
  Ctxs = {1, 2}
  Errs = {"e1", "e2"}
  Levels <- MCLevels
  HMins <- MCHMins
  Msgs = {"", "refresh failed"}
  MaxOps = 2
INVARIANTS MEmit MTypeOK DelegatesExactlyOnce OneRecordPerHandle RecordShape OneFakePerCall
CHECK_DEADLOCK FALSE
