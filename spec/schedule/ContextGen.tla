----------------------------- MODULE ContextGen -----------------------------
(* Generator: every sequence of New / cancel / cancel-root / elapse           *)
(* operations of Context.tla up to MaxOps, with what the specification says   *)
(* every handle shows afterwards.  One line per state (all prefixes).         *)
EXTENDS Context, Json, CSV

VARIABLE chist
cgvars == <<cvars, chist>>

CGInit == CInit /\ chist = <<>>
CGNext == /\ nops < MaxOps /\ nops' = nops + 1
          /\ \/ \E k \in Kinds : \E p \in 0..nh : New(k, p) /\ chist' = Append(chist, <<"new", k, p>>)
             \/ \E h \in Handles : Cancel(h) /\ chist' = Append(chist, <<"cancel", h>>)
             \/ CancelRoot /\ chist' = Append(chist, <<"cancelroot">>)
             \/ \E h \in Handles : Elapse(h) /\ chist' = Append(chist, <<"elapse", h>>)
CGSpec == CGInit /\ [][CGNext]_cgvars

CEmit == CSVWrite("%1$s", <<ToJson([ops |-> chist, root |-> st[0], obs |-> [h \in Handles |-> Obs(h)]])>>,
                  "context_vectors.ndjson")
=============================================================================
