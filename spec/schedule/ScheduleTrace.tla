---------------------------- MODULE ScheduleTrace ----------------------------
(* Trace validation for the timeutil schedules and SystemClock: the log of    *)
(* seeded random real runs (random intervals / ranges / cron periods / clock  *)
(* readings far outside the generator's constants, draws from a real PCG      *)
(* source mapped to k by math/rand/v2 itself) must be a behaviour of the      *)
(* worker of Schedule.tla.                                                    *)
(*   new   cfg, start          a schedule is constructed, the fake clock set  *)
(*   step  delta, k, d, now    UntilNext(clock) returned d with the scripted  *)
(*                             answer delta and the draw k; the clock was     *)
(*                             advanced by d and now reads `now`              *)
(*   now   t                   SystemClock.Now() (as time since the run's     *)
(*                             start, monotonic)                              *)
(*   after d, t0, t1           <-SystemClock.After(d): asked at t0, received  *)
(*                             at t1                                          *)
EXTENDS ScheduleMC, Json, TLC

Trace == ndJsonDeserialize("schedule_trace.ndjson")

VARIABLES l, clk
tvars == <<svars, l, clk>>

Ev == Trace[l]

TInit == /\ cfg = [kind |-> "none"] /\ now = Zero /\ n = 0 /\ last = NoStep
         /\ l = 1 /\ clk = Zero

TNew == /\ Ev.ev = "new"
        /\ ~NewPanics(Ev.cfg)
        /\ cfg' = Ev.cfg /\ now' = Ev.start /\ n' = 0 /\ last' = NoStep
        /\ UNCHANGED clk

TStep == /\ Ev.ev = "step"
         /\ cfg.kind = "rand" => DrawOK(cfg, Ev.k)
         /\ Step(Ev.delta, Ev.k)
         /\ last'.d = Ev.d
         /\ now' = Ev.now
         /\ UNCHANGED clk

(* SystemClock: readings never go back; After(d) delivers no earlier than d   *)
(* after it was asked.                                                        *)
TNow == /\ Ev.ev = "now"
        /\ DLe(clk, Ev.t)
        /\ clk' = Ev.t
        /\ UNCHANGED svars

TAfter == /\ Ev.ev = "after"
          /\ DLe(clk, Ev.t0)
          /\ DLe(DAdd(Ev.t0, Ev.d), Ev.t1)
          /\ clk' = Ev.t1
          /\ UNCHANGED svars

TNext == /\ l <= Len(Trace)
         /\ l' = l + 1
         /\ (TNew \/ TStep \/ TNow \/ TAfter)
TSpec == TInit /\ [][TNext]_tvars
=============================================================================
