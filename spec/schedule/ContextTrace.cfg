SPECIFICATION TSpec
CONSTANTS
  MaxNew = 1000000
  Kinds = {"long", "short", "expired", "empty"}
  MaxOps = 1000000
INVARIANTS TreeClosed EmptyIsParent
POSTCONDITION Post
CHECK_DEADLOCK FALSE
