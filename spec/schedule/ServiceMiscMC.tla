---------------------------- MODULE ServiceMiscMC ----------------------------
(* Constants for ServiceMisc.tla that a .cfg file cannot express (negative    *)
(* numbers): slog levels Debug = -4, a custom level 2, Error = 8; a recording *)
(* slog.Handler enabled from Debug or from Warn.                              *)
EXTENDS ServiceMisc

MCLevels == {-4, 2, 8}
MCHMins  == {-4, 4}
TraceLevels == -100..100
=============================================================================
