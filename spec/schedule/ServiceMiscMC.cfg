SPECIFICATION MSpec
CONSTANTS
  Ctxs = {1, 2}
  Errs = {"e1", "e2"}
  Levels <- MCLevels
  HMins <- MCHMins
  Msgs = {"", "refresh failed"}
  MaxOps = 5
INVARIANTS MTypeOK DelegatesExactlyOnce OneRecordPerHandle RecordShape OneFakePerCall
CHECK_DEADLOCK FALSE
