---------------------------- MODULE PoolSemaTrace ----------------------------
(* Trace validation for syncutil.Pool / NewSlicePool / EmptySemaphore: seeded *)
(* random sequential real runs (hundreds of calls, up to 24 objects in        *)
(* flight, garbage collections in between so that the pool really drops       *)
(* objects) must be behaviours of PoolSema.tla.  Object ids are assigned by   *)
(* the harness per distinct pointer in order of first appearance; a Get that  *)
(* returns a pointer never seen is logged as ["get", p, 0].                   *)
(*   world mode sl                 a new pool / semaphore                     *)
(*   call  op ret obj len          one call and what was observed             *)
EXTENDS PoolSemaMC, Json, TLC

Trace == ndJsonDeserialize("pool_trace.ndjson")

VARIABLE l
tvars == <<pvars, l>>

Ev == Trace[l]

TInit == /\ mode = "none" /\ sl = -1 /\ free = {} /\ held = [p \in Holders |-> {}] /\ nobj = 0 /\ len = <<>>
         /\ fresh = {} /\ out = 0 /\ pobs = NoPObs /\ nops = 0 /\ l = 1

TWorld == /\ Ev.ev = "world"
          /\ mode' = Ev.mode /\ sl' = Ev.sl
          /\ free' = {} /\ held' = [p \in Holders |-> {}] /\ nobj' = 0 /\ len' = <<>> /\ fresh' = {}
          /\ out' = 0 /\ pobs' = NoPObs

TCall == /\ Ev.ev = "call"
         /\ PDo(Ev.op)
         /\ pobs'.ret = Ev.ret /\ pobs'.obj = Ev.obj /\ pobs'.len = Ev.len

TNext == /\ l <= Len(Trace)
         /\ l' = l + 1
         /\ (TWorld \/ TCall)
         /\ UNCHANGED nops
TSpec == TInit /\ [][TNext]_tvars
=============================================================================
