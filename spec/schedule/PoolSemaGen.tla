----------------------------- MODULE PoolSemaGen -----------------------------
(* Generator: every sequential history of PoolSema.tla up to MaxOps.  For a   *)
(* Get the line carries the model's choice (an idle object or a fresh one)    *)
(* AND the set of results the specification allows at that point; the replay  *)
(* follows a history as long as the real pool makes the same choices, judges  *)
(* the first differing Get against the allowed set and stops there (the       *)
(* history with the pool's actual choice is another line).                    *)
EXTENDS PoolSemaMC, Json, CSV

VARIABLE phist
pgvars == <<pvars, phist>>

PGInit == PInit /\ phist = <<>>
PGNext == /\ nops < (IF mode = "math" THEN 1 ELSE MaxOps) /\ nops' = nops + 1
          /\ \E o \in POps : PDo(o) /\ phist' = Append(phist, [op |-> o, obs |-> pobs'])
PGSpec == PGInit /\ [][PGNext]_pgvars

PEmit == CSVWrite("%1$s", <<ToJson([mode |-> mode, sl |-> sl, steps |-> phist])>>, "pool_vectors.ndjson")
=============================================================================
