----------------------------- MODULE ScheduleGen -----------------------------
(* Generator: every run of the worker of Schedule.tla up to MaxSteps rounds   *)
(* over the configurations of ScheduleMC.tla - the schedule description, the  *)
(* initial clock reading and per round the environment's choices (scripted    *)
(* answer delta, draw k) with the answer d and the clock reading the          *)
(* specification predicts; for invalid descriptions the predicted panic of    *)
(* the constructor.  One line per state (all prefixes).                       *)
EXTENDS ScheduleMC, Json, CSV

VARIABLE hist, start
gvars == <<svars, hist, start>>

GInit == SInit /\ hist = <<>> /\ start = now
GNext == SNext /\ hist' = Append(hist, [delta |-> last'.delta, k |-> last'.k, base |-> last'.base,
                                        d |-> last'.d, now |-> now']) /\ UNCHANGED start
GSpec == GInit /\ [][GNext]_gvars

Emit == CSVWrite("%1$s", <<ToJson([cfg |-> cfg, start |-> start, panics |-> NewPanics(cfg), steps |-> hist])>>,
                 "schedule_vectors.ndjson")
=============================================================================
