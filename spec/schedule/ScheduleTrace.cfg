SPECIFICATION TSpec
CONSTANTS
  Configs <- MCConfigs
  Starts <- MCStarts
  MaxSteps = 100000000
  Deltas <- MCDeltas
  DrawsOf <- MCDraws
INVARIANTS NonNegativeSleep ConstIsInterval CronLands RandWithin SleepIsAdvance
CHECK_DEADLOCK FALSE
