-------------------------- MODULE ServiceMiscTrace --------------------------
(* Trace validation for the adapters of package service: seeded random real   *)
(* call sequences (hundreds of calls per world, many contexts and errors, any *)
(* level) logged with what was returned and which recording fakes were        *)
(* reached; every call must be the step of ServiceMisc.tla with exactly that  *)
(* observation.                                                               *)
(*   world msg hmin        a new world                                        *)
(*   call  op obs          one call and its observation                       *)
EXTENDS ServiceMiscMC, Json, TLC

Trace == ndJsonDeserialize("service_trace.ndjson")

VARIABLE l
tvars == <<mvars, l>>

Ev == Trace[l]

TInit == /\ msg = "" /\ hmin = 0 /\ lv = 0 /\ nshut = 0 /\ dcount = 0 /\ nrec = 0 /\ nenabled = 0
         /\ obs = NoObs /\ nops = 0 /\ l = 1

TWorld == /\ Ev.ev = "world"
          /\ msg' = Ev.msg /\ hmin' = Ev.hmin /\ lv' = 0
          /\ nshut' = 0 /\ dcount' = 0 /\ nrec' = 0 /\ nenabled' = 0 /\ obs' = NoObs

TCall == /\ Ev.ev = "call"
         /\ Do(Ev.op)
         /\ obs' = Ev.obs

TNext == /\ l <= Len(Trace)
         /\ l' = l + 1
         /\ (TWorld \/ TCall)
         /\ UNCHANGED nops
TSpec == TInit /\ [][TNext]_tvars
=============================================================================
