----------------------------- MODULE ScheduleMC -----------------------------
(* Constants for model checking Schedule.tla and for the generator: schedule  *)
(* descriptions around the documented boundaries (interval 1 ns, the smallest *)
(* draw ranges 1, 2 (power of two) and 3 ns, ranges that force the clamp,     *)
(* ranges of hours), clock readings with and without a nanosecond part, and   *)
(* the draws that matter: the ends of [0, max-min) and the three values       *)
(* around the one that makes base + min + k exactly 0.                        *)
EXTENDS Schedule

Min(m) == Sec(60 * m)

ConstIvls == {OneNs, Sec(1), <<0, 999999999>>, Min(90), <<86400, 5>>}
BadIvls   == {Zero, DNeg(OneNs), DNeg(Min(5))}

AlignedPs == {1, 5, 20, 60, 300, 900, 3600}
EveryDs   == {1, 7, 3600}

Ranges == {<<DNeg(Min(1)), Min(1)>>,            \* the test suite's range
           <<Zero, OneNs>>,                       \* one possible value
           <<DNeg(OneNs), OneNs>>,                \* two: a power of two
           <<Zero, <<0, 3>>>>,                    \* three: not a power of two
           <<DNeg(Min(10)), DNeg(Min(9))>>,       \* always below a 5 m base: clamp
           <<DNeg(<<300, 2>>), DNeg(<<299, 999999998>>)>>,  \* straddles -5 m: clamp boundary
           <<Sec(1), <<1, 2>>>>,
           <<DNeg(Sec(1000000)), Sec(1000000)>>}  \* days
BadRanges == {<<Zero, Zero>>, <<OneNs, Zero>>, <<Min(1), DNeg(Min(1))>>}

RandInners == {[kind |-> "const", ivl |-> Min(5)], [kind |-> "aligned", p |-> 300],
               [kind |-> "fake"], [kind |-> "fakecron"]}

Rand(i, r, ns, nr) == [kind |-> "rand", inner |-> i, min |-> r[1], max |-> r[2], nilsched |-> ns, nilrand |-> nr]

ValidConfigs ==
    {[kind |-> "const", ivl |-> i] : i \in ConstIvls}
    \cup {[kind |-> "aligned", p |-> p] : p \in AlignedPs}
    \cup {[kind |-> "every", d |-> d] : d \in EveryDs}
    \cup {[kind |-> "fakecron"]}
    \cup {Rand(i, r, FALSE, FALSE) : i \in RandInners, r \in Ranges}

C5 == [kind |-> "const", ivl |-> Min(5)]
R1 == <<DNeg(Min(1)), Min(1)>>
InvalidConfigs ==
    {[kind |-> "const", ivl |-> i] : i \in BadIvls}
    \cup {[kind |-> "nilcron"]}
    \cup {Rand(C5, r, FALSE, FALSE) : r \in BadRanges}
    \cup {Rand(C5, R1, TRUE, FALSE), Rand(C5, R1, FALSE, TRUE), Rand(C5, R1, TRUE, TRUE),
          Rand(C5, <<Zero, Zero>>, TRUE, TRUE)}

MCConfigs == ValidConfigs \cup InvalidConfigs

MCStarts == {Zero, Sec(1700000000), <<1700000007, 999999999>>, <<1700003599, 1>>, <<1699999999, 500000000>>}

(* Scripted answers: nothing, 1 ns, minutes; for cron also times in the past  *)
(* and (large negative) the zero time.                                        *)
MCDeltas == {Zero, OneNs, Min(5), DNeg(OneNs), DNeg(Sec(3)), DNeg(Sec(2000000000))}

(* Draws: both ends of [0, n) and the neighbourhood of the clamp point        *)
(* t = -(base + min).                                                         *)
MCDraws(c, base) ==
    LET nn == DrawRange(c)
        t  == DNeg(DAdd(base, c.min))
        cand == {Zero, OneNs, DSub(nn, OneNs), DSub(nn, <<0, 2>>), DSub(t, OneNs), t, DAdd(t, OneNs)}
    IN  {k \in cand : DrawOK(c, k)}

(* Design-level counter-check: if the draw could equal max - min (a closed    *)
(* interval), RandWithin must fail.                                           *)
MCDrawsClosed(c, base) == MCDraws(c, base) \cup {DrawRange(c)}
=============================================================================
