SPECIFICATION SSpec
CONSTANTS
  Configs <- MCConfigs
  Starts <- MCStarts
  MaxSteps = 3
  Deltas <- MCDeltas
  DrawsOf <- MCDraws
INVARIANTS STypeOK NonNegativeSleep ConstIsInterval CronLands RandWithin SleepIsAdvance
PROPERTIES ClockMonotone
CHECK_DEADLOCK FALSE
