SPECIFICATION GSpec
CONSTANTS
  Configs <- MCConfigs
  Starts <- MCStarts
  MaxSteps = 2
  Deltas <- MCDeltas
  DrawsOf <- MCDraws
INVARIANTS Emit STypeOK NonNegativeSleep ConstIsInterval CronLands RandWithin SleepIsAdvance
PROPERTIES ClockMonotone
CHECK_DEADLOCK FALSE
