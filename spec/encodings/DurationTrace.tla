---------------------------- MODULE DurationTrace ----------------------------
(* Trace validation for timeutil.Duration: every line is one real value       *)
(* (sign and h/m/s/ns components computed by the harness from the int64), the  *)
(* observed String() and time.Duration.String() texts as character sequences   *)
(* ("u" for the micro sign) and the value MarshalText -> UnmarshalText gave    *)
(* back.  Accepted iff the texts are the specification's, the value came back  *)
(* and the specification's own parser reads the text as the value.             *)
EXTENDS DurationText, Json

Trace == ndJsonDeserialize("duration_trace.ndjson")
VARIABLE l
tvars == <<d, l>>

TInit == d = Zero /\ l = 1
Ev == Trace[l]
Rec(e) == [neg |-> e.neg, h |-> e.h, m |-> e.m, s |-> e.s, ns |-> e.ns]

TNext == /\ l <= Len(Trace)
         /\ l' = l + 1
         /\ d' = Rec(Ev)
         /\ Valid(Rec(Ev))
         /\ Ev.std = StdStr(Rec(Ev))
         /\ Ev.text = Str(Rec(Ev))
         /\ Ev.text = ImplStr(Rec(Ev))
         /\ Ev.backok /\ Rec(Ev.back) = Rec(Ev)
         /\ Parse(Ev.text) = Rec(Ev)
TSpec == TInit /\ [][TNext]_tvars
=============================================================================
