SPECIFICATION Spec
INVARIANTS Emit JsonLossless StripQuotesLossy RawReachesJson PlainIsFixpoint EmptyTextOnlyForBareHash
CHECK_DEADLOCK FALSE
