-------------------------------- MODULE UrlGen --------------------------------
(* Generator: every URL shape x one special character, with the input text,    *)
(* the acceptance and canonical text the model predicts and both JSON forms.   *)
EXTENDS UrlModel, Json, CSV
Emit == LET acc == Accepted(u)
            t == IF acc THEN Text(u) ELSE <<>>
        IN CSVWrite("%1$s", <<ToJson([sp |-> u.sp, input |-> Input(u), accept |-> acc, text |-> t,
                                      jhtml |-> IF acc THEN JsonEnc(t, TRUE) ELSE <<>>,
                                      jraw |-> IF acc THEN JsonEnc(t, FALSE) ELSE <<>>])>>,
                    "url_vectors.ndjson")
=============================================================================
