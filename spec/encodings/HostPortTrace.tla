---------------------------- MODULE HostPortTrace ----------------------------
(* Trace validation for netutil.HostPort: every line is one real value (host  *)
(* as character tokens, port), the observed String() text and what             *)
(* ParseHostPort made of that text.  Accepted iff the specification's Split    *)
(* reads the observed text as exactly (host, port) and the code did so too.    *)
EXTENDS HostPort, Json

Trace == ndJsonDeserialize("hostport_trace.ndjson")
VARIABLE l
tvars == <<vars, l>>

TInit == host = <<>> /\ port = 0 /\ l = 1
Ev == Trace[l]
TNext == /\ l <= Len(Trace)
         /\ l' = l + 1
         /\ host' = Ev.host /\ port' = Ev.port
         /\ NoBrackets(Ev.host)
         /\ Split(Ev.text) = [ok |-> TRUE, host |-> Ev.host, port |-> Ev.port]
         /\ Ev.back = [ok |-> TRUE, host |-> Ev.host, port |-> Ev.port]
TSpec == TInit /\ [][TNext]_tvars
=============================================================================
