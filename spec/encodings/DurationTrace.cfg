SPECIFICATION TSpec
CONSTANTS
  Hs = {}
  Ms = {}
  Ss = {}
  Ns = {}
  Extras = {}
CHECK_DEADLOCK FALSE
