---------------------------- MODULE DurationText ----------------------------
(* timeutil.Duration text codec (property C14, duration part).               *)
(*                                                                           *)
(* A duration is d = [neg, h, m, s, ns] (sign, hours, minutes < 60, seconds  *)
(* < 60, nanoseconds < 10^9); every field fits TLC's 32-bit integers, the    *)
(* 64-bit value is never formed.  A text is a sequence of one-character      *)
(* strings; the micro sign of "µs" is written "u" (the harness maps it).     *)
(*                                                                           *)
(*   StdStr(d)   time.Duration.String: unit selection below one second (ns,  *)
(*               µs, ms), fraction with trailing zeros trimmed, h/m/s groups. *)
(*   Str(d)      the statement: StdStr with redundant trailing zero minute /  *)
(*               second groups removed ("1h0m0s" -> "1h", "5m0s" -> "5m"),    *)
(*               a purely textual definition; "0s" is never cut.              *)
(*   ImplStr(d)  timeutil/duration.go: the cut decided by arithmetic on the   *)
(*               number of seconds and performed by dropping 2 or 4 bytes.    *)
(*   Parse(t)    time.ParseDuration restricted to what the model can hold     *)
(*               (integer h and m groups, fractions on s, ms, us; <= 9 digit  *)
(*               numbers).                                                    *)
(* Checked by TLC: ImplStr = Str, Parse(Str(d)) = d, Parse(StdStr(d)) = d.    *)
EXTENDS Integers, Sequences, TLC

CONSTANTS Hs, Ms, Ss, Ns,    \* component values to enumerate
          Extras             \* further durations (MinInt64, MaxInt64, ...)

VARIABLE d

DigitChars == <<"0", "1", "2", "3", "4", "5", "6", "7", "8", "9">>
Digit(n) == DigitChars[n + 1]
IsDigit(c) == \E n \in 0..9 : DigitChars[n + 1] = c
DigitVal(c) == CHOOSE n \in 0..9 : DigitChars[n + 1] = c

Drop(q, n) == SubSeq(q, n + 1, Len(q))
Front(q, n) == SubSeq(q, 1, Len(q) - n)          \* q without its last n elements
EndsWith(q, suf) == Len(q) >= Len(suf) /\ SubSeq(q, Len(q) - Len(suf) + 1, Len(q)) = suf

RECURSIVE Digits(_)
Digits(n) == IF n < 10 THEN <<Digit(n)>> ELSE Digits(n \div 10) \o <<Digit(n % 10)>>

RECURSIVE Pad(_, _)                               \* v as exactly w digits
Pad(v, w) == IF w = 0 THEN <<>> ELSE Pad(v \div 10, w - 1) \o <<Digit(v % 10)>>
RECURSIVE TrimZeros(_)
TrimZeros(q) == IF q # <<>> /\ q[Len(q)] = "0" THEN TrimZeros(Front(q, 1)) ELSE q
(* fraction v / 10^w: nothing when zero, else "." and the digits without trailing zeros *)
Frac(v, w) == IF v = 0 THEN <<>> ELSE <<".">> \o TrimZeros(Pad(v, w))

----------------------------------------------------------------------------
Zero == [neg |-> FALSE, h |-> 0, m |-> 0, s |-> 0, ns |-> 0]
WholeSeconds(x) == x.h * 0 + (IF x.h = 0 /\ x.m = 0 /\ x.s = 0 THEN 0 ELSE 1)   \* 0 iff |x| < 1s
IsZero(x) == x.h = 0 /\ x.m = 0 /\ x.s = 0 /\ x.ns = 0
Sign(x) == IF x.neg THEN <<"-">> ELSE <<>>

(* time.Duration.String *)
StdStr(x) ==
    IF IsZero(x) THEN <<"0", "s">>
    ELSE IF WholeSeconds(x) = 0 THEN
        Sign(x) \o (IF x.ns < 1000 THEN Digits(x.ns) \o <<"n", "s">>
                    ELSE IF x.ns < 1000000 THEN Digits(x.ns \div 1000) \o Frac(x.ns % 1000, 3) \o <<"u", "s">>
                    ELSE Digits(x.ns \div 1000000) \o Frac(x.ns % 1000000, 6) \o <<"m", "s">>)
    ELSE Sign(x) \o (IF x.h > 0 THEN Digits(x.h) \o <<"h">> ELSE <<>>)
                 \o (IF x.h > 0 \/ x.m > 0 THEN Digits(x.m) \o <<"m">> ELSE <<>>)
                 \o Digits(x.s) \o Frac(x.ns, 9) \o <<"s">>

(* The statement's cut, on the text alone: a final group "0s" that follows    *)
(* another group is redundant; after removing it a final group "0m" that      *)
(* follows an hour group is redundant too.                                    *)
CutText(t) ==
    IF Len(t) > 2 /\ EndsWith(t, <<"0", "s">>) /\ t[Len(t) - 2] \in {"h", "m"}
    THEN LET t1 == Front(t, 2) IN
         IF Len(t1) > 2 /\ EndsWith(t1, <<"0", "m">>) /\ t1[Len(t1) - 2] = "h"
         THEN Front(t1, 2) ELSE t1
    ELSE t
Str(x) == CutText(StdStr(x))

(* timeutil/duration.go.  With rounded = d / time.Second (truncating):        *)
(*   rounded == 0                 <=> h = m = s = 0                           *)
(*   rounded*time.Second != d     <=> ns # 0                                  *)
(*   rounded%60 != 0              <=> s # 0                                   *)
(*   (rounded%3600)/60 != 0       <=> m # 0    (also for negative values: Go's *)
(*                                    % and / truncate towards zero)          *)
ImplStr(x) ==
    LET str == StdStr(x) IN
    IF WholeSeconds(x) = 0 \/ x.ns # 0 \/ x.s # 0 THEN str
    ELSE IF x.m # 0 THEN Front(str, 2)          \* str[:len(str)-len("0s")]
    ELSE Front(str, 4)                          \* str[:len(str)-len("0m0s")]

----------------------------------------------------------------------------
(* time.ParseDuration: optional sign, then one or more groups "digits,        *)
(* optional dot and digits, unit letters"; "0" alone is zero.                 *)
Units == {<<"n", "s">>, <<"u", "s">>, <<"m", "s">>, <<"s">>, <<"m">>, <<"h">>}

RECURSIVE TakeDigits(_)
TakeDigits(q) == IF q # <<>> /\ IsDigit(Head(q)) THEN <<Head(q)>> \o TakeDigits(Tail(q)) ELSE <<>>
RECURSIVE TakeUnit(_)
TakeUnit(q) == IF q # <<>> /\ ~IsDigit(Head(q)) /\ Head(q) # "." THEN <<Head(q)>> \o TakeUnit(Tail(q)) ELSE <<>>
RECURSIVE Val(_)
Val(ds) == IF ds = <<>> THEN 0 ELSE Val(Front(ds, 1)) * 10 + DigitVal(ds[Len(ds)])
(* value of a fraction's first w digits, scaled to w digits *)
FracVal(fs, w) == Val([i \in 1..w |-> IF i <= Len(fs) THEN fs[i] ELSE "0"])

Acc0 == [ok |-> TRUE, h |-> 0, m |-> 0, s |-> 0, ns |-> 0]
AddGroup(acc, n, fs, u) ==
    IF u = <<"h">> THEN (IF fs = <<>> THEN [acc EXCEPT !.h = @ + n] ELSE [acc EXCEPT !.ok = FALSE])
    ELSE IF u = <<"m">> THEN (IF fs = <<>> THEN [acc EXCEPT !.m = @ + n] ELSE [acc EXCEPT !.ok = FALSE])
    ELSE IF u = <<"s">> THEN [acc EXCEPT !.s = @ + n, !.ns = @ + FracVal(fs, 9)]
    ELSE IF u = <<"m", "s">> THEN [acc EXCEPT !.s = @ + n \div 1000, !.ns = @ + (n % 1000) * 1000000 + FracVal(fs, 6)]
    ELSE IF u = <<"u", "s">> THEN [acc EXCEPT !.s = @ + n \div 1000000, !.ns = @ + (n % 1000000) * 1000 + FracVal(fs, 3)]
    ELSE [acc EXCEPT !.s = @ + n \div 1000000000, !.ns = @ + (n % 1000000000)]

RECURSIVE ParseGroups(_, _)
ParseGroups(q, acc) ==
    IF q = <<>> \/ ~acc.ok THEN acc
    ELSE LET ip == TakeDigits(q)
             r1 == Drop(q, Len(ip))
             dot == r1 # <<>> /\ Head(r1) = "."
             fp == IF dot THEN TakeDigits(Tail(r1)) ELSE <<>>
             r2 == IF dot THEN Drop(r1, 1 + Len(fp)) ELSE r1
             u  == TakeUnit(r2)
         IN IF (ip = <<>> /\ fp = <<>>) \/ u \notin Units \/ Len(ip) > 9
            THEN [acc EXCEPT !.ok = FALSE]
            ELSE ParseGroups(Drop(r2, Len(u)), AddGroup(acc, Val(ip), fp, u))

Normalise(a, neg) ==
    LET s1 == a.s + a.ns \div 1000000000
        m1 == a.m + s1 \div 60
        r  == [neg |-> neg, h |-> a.h + m1 \div 60, m |-> m1 % 60, s |-> s1 % 60, ns |-> a.ns % 1000000000]
    IN IF IsZero(r) THEN Zero ELSE r

Bad == [neg |-> FALSE, h |-> -1, m |-> -1, s |-> -1, ns |-> -1]
Parse(t) ==
    LET signed == t # <<>> /\ Head(t) \in {"-", "+"}
        body == IF signed THEN Tail(t) ELSE t
    IN IF body = <<"0">> THEN Zero
       ELSE IF body = <<>> THEN Bad
       ELSE LET a == ParseGroups(body, Acc0) IN
            IF a.ok THEN Normalise(a, signed /\ Head(t) = "-") ELSE Bad

----------------------------------------------------------------------------
(* d fits int64: |d| <= 2562047h47m16.854775807s (one more ns when negative). *)
LexLE(a, b) == \E k \in 1..(Len(a) + 1) :
                  /\ \A i \in 1..(k - 1) : a[i] = b[i]
                  /\ (k <= Len(a) => a[k] < b[k])
Fits(x) == LexLE(<<x.h, x.m, x.s, x.ns>>, <<2562047, 47, 16, 854775807 + (IF x.neg THEN 1 ELSE 0)>>)
Canonical(x) == IsZero(x) => ~x.neg
Valid(x) == x.m \in 0..59 /\ x.s \in 0..59 /\ x.ns \in 0..999999999 /\ x.h >= 0 /\ Fits(x) /\ Canonical(x)

MaxInt64 == [neg |-> FALSE, h |-> 2562047, m |-> 47, s |-> 16, ns |-> 854775807]
MinInt64 == [neg |-> TRUE,  h |-> 2562047, m |-> 47, s |-> 16, ns |-> 854775808]
ModelExtras == {MaxInt64, MinInt64, [MinInt64 EXCEPT !.ns = 854775807],
                [neg |-> TRUE, h |-> 2562047, m |-> 47, s |-> 16, ns |-> 0],
                [neg |-> FALSE, h |-> 2562047, m |-> 47, s |-> 0, ns |-> 0],
                [neg |-> FALSE, h |-> 2562047, m |-> 0, s |-> 0, ns |-> 0]}

Grid == {x \in [neg : BOOLEAN, h : Hs, m : Ms, s : Ss, ns : Ns] : Valid(x)}
Init == d \in Grid \cup Extras
Next == UNCHANGED d
Spec == Init /\ [][Next]_d

TypeOK == Valid(d)
(* C14, duration part. *)
ImplIsStatement == ImplStr(d) = Str(d)
RoundTrip == Parse(Str(d)) = d /\ Parse(StdStr(d)) = d
(* The cut never empties the text and never touches "0s" or sub-second texts. *)
CutSane == /\ Len(Str(d)) >= 2
           /\ (WholeSeconds(d) = 0 => Str(d) = StdStr(d))
           /\ (\E n \in 0..4 : Str(d) = Front(StdStr(d), n) /\ n \in {0, 2, 4})
=============================================================================
