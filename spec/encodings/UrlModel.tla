------------------------------ MODULE UrlModel ------------------------------
(* urlutil.URL text and JSON codecs (property C14, URL part).                *)
(*                                                                           *)
(* A URL is a record of optional components; at most one component carries a *)
(* character of a special class (sp = [comp, cls]).  Texts are sequences of   *)
(* character tokens: "a" plain, the URL punctuation ":", "/", "?", "#", "@", *)
(* "%", hex digits, and the class tokens                                      *)
(*   SPC space   PCT a percent escape written in the input ("%2F")            *)
(*   AMP & LT < GT > DQ double quote BS backslash  (special to encoding/json) *)
(*   NA  non-ASCII letter U+00E9   C1 control U+0001   LS U+2028              *)
(*                                                                            *)
(* In(comp, cls) is what the input text holds, Out(comp, cls) what            *)
(* url.URL.String prints after url.Parse, or Reject when Parse refuses the    *)
(* text; Input(u) and Text(u) assemble the URL.  The table follows net/url:   *)
(* RawQuery and Opaque are kept verbatim, so JSON-special characters reach    *)
(* the JSON layer raw; path and fragment are re-escaped; the host keeps       *)
(* < > " & and percent-encodes non-ASCII; userinfo accepts few characters.    *)
(*                                                                            *)
(* JsonEnc is encoding/json's string encoding (escapeHTML on / off), JsonDec  *)
(* a JSON string decoder, StripQuotes the decoder URL.UnmarshalJSON used      *)
(* before commit b517065.  Checked by TLC: JsonDec(JsonEnc(t)) = t for every  *)
(* URL text, and StripQuotes is lossless exactly on texts without a character *)
(* that JSON escapes.                                                         *)
EXTENDS Integers, Sequences, TLC

VARIABLE u

(* Further non-ASCII classes, distinguished by what quoting functions other   *)
(* than encoding/json's make of them (strconv.Quote writes non-printable runes *)
(* above U+FFFF as \UXXXXXXXX, which is not JSON):                            *)
(*   AP  astral, printable           U+1F600                                  *)
(*   AN  astral, not printable       U+E0067 (tag character)                  *)
(*   AX  plane-16 private use        U+10FFFD                                 *)
(*   ZW  BMP, not printable          U+200B     BOM  U+FEFF     PS  U+2029     *)
(*   NEL C1 control                  U+0085                                   *)
(* net/url and encoding/json treat all of them like any non-ASCII character    *)
(* (PS is escaped by JSON like LS).                                           *)
MoreNonAscii == {"AP", "AN", "AX", "ZW", "BOM", "PS", "NEL"}
NonAscii == {"NA", "LS"} \cup MoreNonAscii
Classes == {"AL", "SPC", "PCT", "AMP", "LT", "GT", "DQ", "BS", "NA", "C1", "LS"} \cup MoreNonAscii
Comps   == {"user", "pass", "host", "path", "query", "frag", "opaque"}
NoSp    == [comp |-> "none", cls |-> "none", run |-> FALSE]
(* Length: sp.run = TRUE makes the special character a RUN of k copies.  The   *)
(* texts then hold one copy between the markers "RUN[" and "]RUN"; the harness *)
(* repeats what is between them k times (k = 300 ... 20000).  Escaping is per  *)
(* character, so the escaped form of a run is the run of the escaped forms:    *)
(* every operator below treats the markers as ordinary tokens.  A URL dense in *)
(* characters that encoding/json inflates (& < > to six bytes, U+2028, quotes)  *)
(* has a JSON form several times longer than its text.                         *)
RunOpen == "RUN["
RunClose == "]RUN"

Reject == <<"REJECT">>
Pct(a, b) == <<"%", a, b>>
EscNA == Pct("C", "3") \o Pct("A", "9")
EscLS == Pct("E", "2") \o Pct("8", "0") \o Pct("A", "8")
(* the percent-encoded UTF-8 bytes of the representative of a non-ASCII class *)
EscOf(cls) == CASE cls = "NA"  -> EscNA
                [] cls = "LS"  -> EscLS
                [] cls = "AP"  -> Pct("F", "0") \o Pct("9", "F") \o Pct("9", "8") \o Pct("8", "0")
                [] cls = "AN"  -> Pct("F", "3") \o Pct("A", "0") \o Pct("8", "1") \o Pct("A", "7")
                [] cls = "AX"  -> Pct("F", "4") \o Pct("8", "F") \o Pct("B", "F") \o Pct("B", "D")
                [] cls = "ZW"  -> Pct("E", "2") \o Pct("8", "0") \o Pct("8", "B")
                [] cls = "BOM" -> Pct("E", "F") \o Pct("B", "B") \o Pct("B", "F")
                [] cls = "PS"  -> Pct("E", "2") \o Pct("8", "0") \o Pct("A", "9")
                [] cls = "NEL" -> Pct("C", "2") \o Pct("8", "5")

In(cls) == IF cls = "PCT" THEN Pct("2", "F") ELSE IF cls = "AL" THEN <<"a">> ELSE <<cls>>

(* what url.Parse followed by String() makes of one special character *)
Out(comp, cls) ==
    IF cls = "AL" THEN <<"a">>                                 \* a plain letter (only interesting as a run)
    ELSE IF cls = "C1" /\ comp # "frag" THEN Reject                 \* invalid control character in URL
    ELSE IF comp \in {"query", "opaque"} THEN In(cls)          \* verbatim
    ELSE IF comp \in {"user", "pass"} THEN
        (IF cls \in {"AMP", "PCT"} THEN In(cls) ELSE Reject)   \* net/url: invalid userinfo
    ELSE IF comp = "host" THEN
        (CASE cls \in {"AMP", "LT", "GT", "DQ"} -> <<cls>>
           [] cls \in NonAscii -> EscOf(cls)
           [] OTHER -> Reject)                                 \* space, backslash, %2F: invalid host
    ELSE \* path, frag
        (CASE cls = "SPC" -> Pct("2", "0")
           [] cls = "PCT" -> Pct("2", "F")
           [] cls = "AMP" -> <<"AMP">>
           [] cls = "LT"  -> Pct("3", "C")
           [] cls = "GT"  -> Pct("3", "E")
           [] cls = "DQ"  -> Pct("2", "2")
           [] cls = "BS"  -> Pct("5", "C")
           [] cls \in NonAscii -> EscOf(cls)
           [] cls = "C1"  -> Pct("0", "1"))     \* only the fragment: it is cut off before the control check

----------------------------------------------------------------------------
(* Assembly, parameterised by the rendering of the special character. *)
Sp(x, comp, f(_, _)) == IF x.sp.comp # comp THEN <<>>
                        ELSE IF x.sp.run /\ f(comp, x.sp.cls) # Reject THEN <<RunOpen>> \o f(comp, x.sp.cls) \o <<RunClose>>
                        ELSE f(comp, x.sp.cls)
InF(comp, cls) == In(cls)

HasAuthority(x) == x.user # "none" \/ x.host \/ x.port

Assemble(x, f(_, _), canon) ==
    (IF x.scheme THEN <<"s", ":">> ELSE <<>>)
    \o (IF x.opaque THEN <<"a">> \o Sp(x, "opaque", f)
        ELSE (IF HasAuthority(x)
              THEN <<"/", "/">>
                   \o (IF x.user # "none" THEN <<"a">> \o Sp(x, "user", f) ELSE <<>>)
                   \o (IF x.user = "namepw" THEN <<":", "a">> \o Sp(x, "pass", f) ELSE <<>>)
                   \o (IF x.user # "none" THEN <<"@">> ELSE <<>>)
                   \o (IF x.host THEN <<"a">> \o Sp(x, "host", f) ELSE <<>>)
                   \o (IF x.port THEN <<":", "8", "0">> ELSE <<>>)
              ELSE <<>>)
             \o (IF x.path THEN <<"/", "a">> \o Sp(x, "path", f) ELSE <<>>))
    \o (IF x.query = "none" THEN <<>> ELSE <<"?">>)
    \o (IF x.query = "some" THEN <<"a">> \o Sp(x, "query", f) ELSE <<>>)
    \o (IF x.frag = "some" THEN <<"#", "a">> \o Sp(x, "frag", f)
        ELSE IF x.frag = "empty" /\ ~canon THEN <<"#">>          \* String() drops an empty fragment
        ELSE <<>>)

Input(x) == Assemble(x, InF, FALSE)
Accepted(x) == /\ Input(x) # <<>>                               \* urlutil.ErrEmpty
               /\ (x.sp.comp = "none" \/ Out(x.sp.comp, x.sp.cls) # Reject)
Text(x) == Assemble(x, Out, TRUE)

----------------------------------------------------------------------------
(* encoding/json string encoding *)
Esc(a, b, c, e) == <<"BS", "u", a, b, c, e>>
EncChar(c, html) ==
    CASE c = "DQ" -> <<"BS", "DQ">>
      [] c = "BS" -> <<"BS", "BS">>
      [] c = "AMP" -> IF html THEN Esc("0", "0", "2", "6") ELSE <<c>>
      [] c = "LT"  -> IF html THEN Esc("0", "0", "3", "c") ELSE <<c>>
      [] c = "GT"  -> IF html THEN Esc("0", "0", "3", "e") ELSE <<c>>
      [] c = "LS"  -> Esc("2", "0", "2", "8")
      [] c = "PS"  -> Esc("2", "0", "2", "9")
      [] c = "C1"  -> Esc("0", "0", "0", "1")
      [] OTHER -> <<c>>
RECURSIVE EncBody(_, _)
EncBody(t, html) == IF t = <<>> THEN <<>> ELSE EncChar(Head(t), html) \o EncBody(Tail(t), html)
JsonEnc(t, html) == <<"DQ">> \o EncBody(t, html) \o <<"DQ">>

Drop(q, n) == SubSeq(q, n + 1, Len(q))
Hex4(h) == CASE h = <<"0", "0", "2", "6">> -> "AMP" [] h = <<"0", "0", "3", "c">> -> "LT"
             [] h = <<"0", "0", "3", "e">> -> "GT"  [] h = <<"2", "0", "2", "8">> -> "LS"
             [] h = <<"2", "0", "2", "9">> -> "PS"  [] h = <<"0", "0", "0", "1">> -> "C1"
             [] h = <<"0", "0", "2", "2">> -> "DQ"  [] h = <<"0", "0", "5", "c">> -> "BS"
             [] OTHER -> "UNKNOWN"
RECURSIVE DecBody(_)
DecBody(j) ==
    IF j = <<>> THEN <<>>
    ELSE IF Head(j) # "BS" THEN <<Head(j)>> \o DecBody(Tail(j))
    ELSE IF Len(j) >= 6 /\ j[2] = "u" THEN <<Hex4(SubSeq(j, 3, 6))>> \o DecBody(Drop(j, 6))
    ELSE IF Len(j) >= 2 THEN <<j[2]>> \o DecBody(Drop(j, 2))       \* \" \\ \/
    ELSE <<"UNKNOWN">>
WellQuoted(j) == Len(j) >= 2 /\ j[1] = "DQ" /\ j[Len(j)] = "DQ"
StripQuotes(j) == SubSeq(j, 2, Len(j) - 1)
JsonDec(j) == IF WellQuoted(j) THEN DecBody(StripQuotes(j)) ELSE <<"UNKNOWN">>

JsonEscaped(html) == {"DQ", "BS", "LS", "PS", "C1"} \cup (IF html THEN {"AMP", "LT", "GT"} ELSE {})
HasEscaped(t, html) == \E i \in 1..Len(t) : t[i] \in JsonEscaped(html)

----------------------------------------------------------------------------
Shapes == [scheme : BOOLEAN, opaque : {FALSE}, user : {"none", "name", "namepw"}, host : BOOLEAN,
           port : BOOLEAN, path : BOOLEAN, query : {"none", "force", "some"}, frag : {"none", "empty", "some"}, sp : {NoSp}]
          \cup [scheme : {TRUE}, opaque : {TRUE}, user : {"none"}, host : {FALSE}, port : {FALSE},
                path : {FALSE}, query : {"none", "force", "some"}, frag : {"none", "empty", "some"}, sp : {NoSp}]
Present(x, comp) == CASE comp = "user" -> x.user # "none" [] comp = "pass" -> x.user = "namepw"
                      [] comp = "host" -> x.host [] comp = "path" -> x.path [] comp = "query" -> x.query = "some"
                      [] comp = "frag" -> x.frag = "some" [] comp = "opaque" -> x.opaque
(* runs are offered on the shapes without userinfo, port and forced/empty parts *)
RunShape(x) == x.user = "none" /\ ~x.port /\ x.query # "force" /\ x.frag # "empty" /\ x.scheme
WithSpecial(x) == {[x EXCEPT !.sp = [comp |-> c, cls |-> k, run |-> r]] :
                      c \in {c \in Comps : Present(x, c)}, k \in Classes, r \in (IF RunShape(x) THEN BOOLEAN ELSE {FALSE})}

(* Shapes are the initial states, each steps to its variants with one special   *)
(* character (so that TLC's workers share the enumeration).                     *)
Init == u \in Shapes
Next == u.sp = NoSp /\ u' \in WithSpecial(u)
Spec == Init /\ [][Next]_u

(* C14, URL part: the JSON layer loses nothing of any URL text ... *)
JsonLossless == Accepted(u) => LET t == Text(u) IN \A html \in BOOLEAN : JsonDec(JsonEnc(t, html)) = t
(* ... whereas stripping the quotes alone is lossless exactly when nothing was escaped. *)
StripQuotesLossy == Accepted(u) => LET t == Text(u) IN \A html \in BOOLEAN :
    (StripQuotes(JsonEnc(t, html)) = t) = ~HasEscaped(t, html)
(* JSON-special characters do reach the JSON layer through verbatim components. *)
RawReachesJson == (Accepted(u) /\ u.sp.comp \in {"query", "opaque"} /\ u.sp.cls \in {"DQ", "BS", "LT", "GT", "AMP", "LS", "PS"})
                    => HasEscaped(Text(u), TRUE)
(* The canonical text is what it was for plain URLs: String is the identity on them. *)
PlainIsFixpoint == (u.sp = NoSp /\ u.frag # "empty") => Text(u) = Input(u)
(* urlutil.Parse refuses the empty text, but "#" is accepted and prints as the  *)
(* empty text, which UnmarshalText refuses: the one shape of this model where   *)
(* the text round trip of the statement cannot succeed (see the finding).       *)
EmptyTextOnlyForBareHash == Accepted(u) => ((Text(u) = <<>>) = (Input(u) = <<"#">>))
=============================================================================
