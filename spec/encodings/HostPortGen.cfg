SPECIFICATION Spec
CONSTANTS
  HostChars <- GenHostChars
  Ports <- ModelPorts
  MaxHost = 5
INVARIANTS Emit RoundTrip JoinParses
CHECK_DEADLOCK FALSE
