------------------------ MODULE MarshalValuesTrace ------------------------
(* Trace validation of retained encoder results: "reset" starts a new caller  *)
(* (or goroutine), "marshal" logs the text a call returned (copied at return  *)
(* time; the returned slice itself is kept, uncopied), "check" logs what all  *)
(* retained slices of that caller read as later -- after further marshalling, *)
(* after the unmarshal round trips, in the concurrent phase after wg.Wait();  *)
(* "decode" logs what a value decoded from the caller's reused input buffer   *)
(* printed as right after the call, "check" also what all of them print as    *)
(* after the buffer has been overwritten.                                     *)
(* Accepted iff every retained result still reads as the text it had.         *)
EXTENDS MarshalValues, Json

Trace == ndJsonDeserialize("values_trace.ndjson")
VARIABLE l
tvars == <<vars, l>>
TInit == Init /\ l = 1
Ev == Trace[l]

TReset   == Ev.op = "reset" /\ held' = <<>> /\ decoded' = <<>> /\ UNCHANGED <<mem, inbuf, ops>>
TMarshal == /\ Ev.op = "marshal"
            /\ held' = Append(held, [obj |-> Ev.obj, buf |-> 0, len |-> 0, text |-> Ev.text])
            /\ UNCHANGED <<mem, inbuf, decoded, ops>>
(* "decode": a value decoded from the caller's reused buffer; text = what it printed as right after the call *)
TDecode  == /\ Ev.op = "decode"
            /\ decoded' = Append(decoded, [obj |-> Ev.obj, view |-> FALSE, len |-> 0, text |-> Ev.text])
            /\ UNCHANGED <<mem, held, inbuf, ops>>
TCheck   == /\ Ev.op = "check"
            /\ Ev.held = [i \in DOMAIN held |-> held[i].text]        \* ValuesNotViews, observed
            /\ Ev.decoded = [i \in DOMAIN decoded |-> decoded[i].text]   \* DecodedIndependent, observed
            /\ UNCHANGED vars
TNext == /\ l <= Len(Trace)
         /\ l' = l + 1
         /\ (TReset \/ TMarshal \/ TDecode \/ TCheck)
TSpec == TInit /\ [][TNext]_tvars
=============================================================================
