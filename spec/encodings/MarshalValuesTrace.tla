------------------------ MODULE MarshalValuesTrace ------------------------
(* Trace validation of retained encoder results: "reset" starts a new caller  *)
(* (or goroutine), "marshal" logs the text a call returned (copied at return  *)
(* time; the returned slice itself is kept, uncopied), "check" logs what all  *)
(* retained slices of that caller read as later -- after further marshalling, *)
(* after the unmarshal round trips, in the concurrent phase after wg.Wait().  *)
(* Accepted iff every retained result still reads as the text it had.         *)
EXTENDS MarshalValues, Json

Trace == ndJsonDeserialize("values_trace.ndjson")
VARIABLE l
tvars == <<vars, l>>
TInit == Init /\ l = 1
Ev == Trace[l]

TReset   == Ev.op = "reset" /\ held' = <<>> /\ UNCHANGED <<mem, ops>>
TMarshal == /\ Ev.op = "marshal"
            /\ held' = Append(held, [obj |-> Ev.obj, buf |-> 0, len |-> 0, text |-> Ev.text])
            /\ UNCHANGED <<mem, ops>>
TCheck   == /\ Ev.op = "check"
            /\ Ev.held = [i \in DOMAIN held |-> held[i].text]        \* ValuesNotViews, observed
            /\ UNCHANGED vars
TNext == /\ l <= Len(Trace)
         /\ l' = l + 1
         /\ (TReset \/ TMarshal \/ TCheck)
TSpec == TInit /\ [][TNext]_tvars
=============================================================================
