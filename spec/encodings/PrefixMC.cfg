SPECIFICATION Spec
INVARIANTS BareIsFullLength LengthInRange ZoneOnlyBare
CHECK_DEADLOCK FALSE
