----------------------------- MODULE PrefixText -----------------------------
(* netutil.Prefix.UnmarshalText (property C14, prefix part) on text classes. *)
(*                                                                           *)
(* A text is [addr, slash, bits]: an address part of some class, optionally  *)
(* followed by "/" and a length part of some class.  The harness concretises *)
(* every class with several representatives; netip.ParsePrefix and           *)
(* netip.ParseAddr are the deciding references named by the statement, this  *)
(* grammar is the third voice.                                               *)
(*   with '/'  : exactly netip.ParsePrefix (last '/' splits; the address must *)
(*               parse and carry no zone; the length is 1-3 plain digits      *)
(*               without sign, space or leading zero, at most the family's    *)
(*               bit length);                                                 *)
(*   bare      : a valid address gives the single-address prefix of its       *)
(*               family's full length (a zone is dropped: netip.Prefix has    *)
(*               none); the empty text decodes to the zero Prefix without an  *)
(*               error (netip.Addr.UnmarshalText does, the statement is       *)
(*               silent); anything else is an error.                          *)
EXTENDS Integers, Sequences, TLC

VARIABLE t

AddrClasses == {"v4", "v6", "zoned", "v4in6", "v4lz", "v4short", "v4space", "junk", "empty", "v4slash"}
BitsClasses == {"0", "8", "32", "33", "128", "129", "empty", "lz", "plus", "minus", "space", "trail", "huge"}

AddrOK(a) == a \in {"v4", "v6", "zoned", "v4in6"}
FamBits(a) == IF a = "v4" THEN 32 ELSE 128
(* value of a length class, -1 when the text is not an acceptable number *)
BitsVal(b) == CASE b = "0" -> 0 [] b = "8" -> 8 [] b = "32" -> 32 [] b = "33" -> 33
                [] b = "128" -> 128 [] b = "129" -> 129 [] OTHER -> -1

Err  == [ok |-> FALSE, zero |-> FALSE, bits |-> -1]
Zero == [ok |-> TRUE, zero |-> TRUE, bits |-> -1]
Pfx(n) == [ok |-> TRUE, zero |-> FALSE, bits |-> n]

Expected(x) ==
    IF x.slash
    THEN IF ~AddrOK(x.addr) \/ x.addr = "zoned" THEN Err          \* "v4slash": the address part keeps a '/'
         ELSE IF BitsVal(x.bits) < 0 \/ BitsVal(x.bits) > FamBits(x.addr) THEN Err
         ELSE Pfx(BitsVal(x.bits))
    ELSE IF x.addr = "empty" THEN Zero
         ELSE IF x.addr = "v4slash" THEN Err     \* not a bare text: contains '/', an octet-less length
         ELSE IF AddrOK(x.addr) THEN Pfx(FamBits(x.addr))
         ELSE Err

Texts == [addr : AddrClasses, slash : {TRUE}, bits : BitsClasses]
            \cup [addr : AddrClasses \ {"v4slash"}, slash : {FALSE}, bits : {"empty"}]
Init == t \in Texts
Next == UNCHANGED t
Spec == Init /\ [][Next]_t

(* C14, prefix part, as far as it is a statement about the grammar. *)
BareIsFullLength == (~t.slash /\ AddrOK(t.addr)) => Expected(t) = Pfx(FamBits(t.addr))
LengthInRange == (Expected(t).ok /\ ~Expected(t).zero) => Expected(t).bits \in 0..FamBits(t.addr)
ZoneOnlyBare == (t.addr = "zoned" /\ Expected(t).ok) => ~t.slash
=============================================================================
