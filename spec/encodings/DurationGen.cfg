SPECIFICATION Spec
CONSTANTS
  Hs = {0, 1, 23, 2562047}
  Ms = {0, 1, 47, 59}
  Ss = {0, 1, 16, 59}
  Ns = {0, 1, 999, 1000, 999999, 1000000, 500000000, 999999999}
  Extras <- ModelExtras
INVARIANTS Emit TypeOK ImplIsStatement RoundTrip CutSane
CHECK_DEADLOCK FALSE
