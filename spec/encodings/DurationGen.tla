----------------------------- MODULE DurationGen -----------------------------
(* Generator: every enumerated duration with the texts the spec predicts.     *)
EXTENDS DurationText, Json, CSV

Emit == CSVWrite("%1$s", <<ToJson([d |-> d, std |-> StdStr(d), str |-> Str(d)])>>,
                 "duration_vectors.ndjson")
=============================================================================
