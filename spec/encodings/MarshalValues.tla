--------------------------- MODULE MarshalValues ---------------------------
(* "Results are values, not views" (property C14): what MarshalText (or any   *)
(* other encoder of Duration, HostPort, Prefix, URL) returned stays what it   *)
(* was, whatever is marshalled or unmarshalled afterwards, by whomever.       *)
(*                                                                            *)
(* Memory is modelled as far as needed: mem[b] is the backing array of buffer *)
(* b; a result is a view [buf, len] of one buffer together with the text it   *)
(* had when it was returned and the object it encodes.  Impl selects how the  *)
(* encoder obtains its buffer:                                                *)
(*   "fresh"   a new buffer per call (url.URL.MarshalBinary, append to nil)   *)
(*   "pooled"  one buffer taken from a pool, filled from its start and put    *)
(*             back when the call returns; the returned slice still points    *)
(*             into it                                                        *)
(* With "pooled" a single Marshal followed by an immediate use is fine, which *)
(* is all a round-trip test looks at; TLC must find the counterexample: after *)
(* b1 := Marshal(x); b2 := Marshal(y) the bytes of b1 are y's text cut to     *)
(* len(b1).  For "fresh" TLC proves both invariants for all call sequences    *)
(* within the bound.                                                          *)
(*                                                                            *)
(* The INPUT side is the mirror image: the caller decodes from a buffer it    *)
(* owns (`inbuf', typically one buffer reused for many texts) and may         *)
(* overwrite it as soon as UnmarshalText has returned; the decoded value must *)
(* not depend on the buffer afterwards, and decoding must not write to it.    *)
(* DecImpl selects the decoder:                                               *)
(*   "copy"      the decoded value holds its own copy of what it needs        *)
(*               (url.URL.UnmarshalBinary: Parse(string(b)))                  *)
(*   "zerocopy"  the text is parsed through an unsafe string view of the      *)
(*               caller's bytes; host, path, query ... are substrings of it   *)
(* "zerocopy" is right immediately after the call; TLC must find that the     *)
(* value changes when the caller reuses its buffer.                           *)
EXTENDS Integers, Sequences, TLC

CONSTANTS Impl,      \* "fresh" | "pooled"
          DecImpl,   \* "copy" | "zerocopy"
          Sides,     \* which calls the enumeration offers: subset of {"out", "in"}
          Objs,      \* object ids
          TextOf,    \* TextOf[x]: the text of object x (a sequence of tokens)
          MaxOps

VARIABLES mem,       \* mem[b]: content of buffer b (a sequence), b in 1..Len(mem)
          held,      \* results the caller(s) retained, in order of return
          inbuf,     \* the caller's input buffer (a sequence of tokens)
          decoded,   \* values decoded so far: [obj, view (TRUE: a view of inbuf[1..len]), len, text]
          ops        \* number of calls so far
vars == <<mem, held, inbuf, decoded, ops>>

ModelObjs == {1, 2, 3}
ModelText == <<<<"l", "o", "n", "g", "e", "r">>, <<"m", "i", "d">>, <<"s">>>>   \* three lengths

Init == mem = <<>> /\ held = <<>> /\ inbuf = <<>> /\ decoded = <<>> /\ ops = 0

Result(x, b) == [obj |-> x, buf |-> b, len |-> Len(TextOf[x]), text |-> TextOf[x]]
(* writing t from the start of an existing array keeps the old bytes behind it *)
Overwrite(old, t) == t \o SubSeq(old, Len(t) + 1, Len(old))

Marshal(x) ==
    /\ ops' = ops + 1
    /\ UNCHANGED <<inbuf, decoded>>
    /\ IF Impl = "fresh" \/ mem = <<>>
       THEN /\ mem' = Append(mem, TextOf[x])
            /\ held' = Append(held, Result(x, Len(mem) + 1))
       ELSE /\ mem' = [mem EXCEPT ![1] = Overwrite(@, TextOf[x])]       \* the pooled buffer again
            /\ held' = Append(held, Result(x, 1))

Read(r) == SubSeq(mem[r.buf], 1, r.len)           \* what the caller sees in a retained result now

(* Unmarshalling a retained result only reads it. *)
Unmarshal(i) == /\ i \in DOMAIN held
                /\ ops' = ops + 1
                /\ UNCHANGED <<mem, held, inbuf, decoded>>

(* The caller copies x's text into its (reused) buffer and calls UnmarshalText(inbuf[:n]). *)
Decode(x) ==
    /\ ops' = ops + 1
    /\ inbuf' = Overwrite(inbuf, TextOf[x])
    /\ decoded' = Append(decoded, [obj |-> x, view |-> (DecImpl = "zerocopy"), len |-> Len(TextOf[x]), text |-> TextOf[x]])
    /\ UNCHANGED <<mem, held>>
(* ... and later overwrites the buffer with something else (zeros, 0xFF, the next text). *)
Scribble == /\ inbuf # <<>>
            /\ ops' = ops + 1
            /\ inbuf' = [i \in DOMAIN inbuf |-> "junk"]
            /\ UNCHANGED <<mem, held, decoded>>

ReadDecoded(d) == IF d.view THEN SubSeq(inbuf, 1, d.len) ELSE d.text     \* what the decoded value prints as now

Next == /\ ops < MaxOps
        /\ \/ "out" \in Sides /\ \E x \in Objs : Marshal(x)
           \/ "out" \in Sides /\ \E i \in DOMAIN held : Unmarshal(i)
           \/ "in" \in Sides /\ \E x \in Objs : Decode(x)
           \/ "in" \in Sides /\ Scribble
Spec == Init /\ [][Next]_vars

(* C14: results are values ... *)
ValuesNotViews == \A i \in DOMAIN held : Read(held[i]) = held[i].text
(* ... so every retained result still round-trips to its own object. *)
RoundTripsToOwn == \A i \in DOMAIN held : Read(held[i]) = TextOf[held[i].obj]
(* ... and decoded values are values too: independent of the caller's buffer once the call has returned. *)
DecodedIndependent == \A i \in DOMAIN decoded : ReadDecoded(decoded[i]) = TextOf[decoded[i].obj]
=============================================================================
