--------------------------- MODULE MarshalValues ---------------------------
(* "Results are values, not views" (property C14): what MarshalText (or any   *)
(* other encoder of Duration, HostPort, Prefix, URL) returned stays what it   *)
(* was, whatever is marshalled or unmarshalled afterwards, by whomever.       *)
(*                                                                            *)
(* Memory is modelled as far as needed: mem[b] is the backing array of buffer *)
(* b; a result is a view [buf, len] of one buffer together with the text it   *)
(* had when it was returned and the object it encodes.  Impl selects how the  *)
(* encoder obtains its buffer:                                                *)
(*   "fresh"   a new buffer per call (url.URL.MarshalBinary, append to nil)   *)
(*   "pooled"  one buffer taken from a pool, filled from its start and put    *)
(*             back when the call returns; the returned slice still points    *)
(*             into it                                                        *)
(* With "pooled" a single Marshal followed by an immediate use is fine, which *)
(* is all a round-trip test looks at; TLC must find the counterexample: after *)
(* b1 := Marshal(x); b2 := Marshal(y) the bytes of b1 are y's text cut to     *)
(* len(b1).  For "fresh" TLC proves both invariants for all call sequences    *)
(* within the bound.                                                          *)
EXTENDS Integers, Sequences, TLC

CONSTANTS Impl,      \* "fresh" | "pooled"
          Objs,      \* object ids
          TextOf,    \* TextOf[x]: the text of object x (a sequence of tokens)
          MaxOps

VARIABLES mem,       \* mem[b]: content of buffer b (a sequence), b in 1..Len(mem)
          held,      \* results the caller(s) retained, in order of return
          ops        \* number of calls so far
vars == <<mem, held, ops>>

ModelObjs == {1, 2, 3}
ModelText == <<<<"l", "o", "n", "g", "e", "r">>, <<"m", "i", "d">>, <<"s">>>>   \* three lengths

Init == mem = <<>> /\ held = <<>> /\ ops = 0

Result(x, b) == [obj |-> x, buf |-> b, len |-> Len(TextOf[x]), text |-> TextOf[x]]
(* writing t from the start of an existing array keeps the old bytes behind it *)
Overwrite(old, t) == t \o SubSeq(old, Len(t) + 1, Len(old))

Marshal(x) ==
    /\ ops' = ops + 1
    /\ IF Impl = "fresh" \/ mem = <<>>
       THEN /\ mem' = Append(mem, TextOf[x])
            /\ held' = Append(held, Result(x, Len(mem) + 1))
       ELSE /\ mem' = [mem EXCEPT ![1] = Overwrite(@, TextOf[x])]       \* the pooled buffer again
            /\ held' = Append(held, Result(x, 1))

Read(r) == SubSeq(mem[r.buf], 1, r.len)           \* what the caller sees in a retained result now

(* Unmarshalling a retained result only reads it. *)
Unmarshal(i) == /\ i \in DOMAIN held
                /\ ops' = ops + 1
                /\ UNCHANGED <<mem, held>>

Next == /\ ops < MaxOps
        /\ \/ \E x \in Objs : Marshal(x)
           \/ \E i \in DOMAIN held : Unmarshal(i)
Spec == Init /\ [][Next]_vars

(* C14: results are values ... *)
ValuesNotViews == \A i \in DOMAIN held : Read(held[i]) = held[i].text
(* ... so every retained result still round-trips to its own object. *)
RoundTripsToOwn == \A i \in DOMAIN held : Read(held[i]) = TextOf[held[i].obj]
=============================================================================
