------------------------------ MODULE PrefixGen ------------------------------
EXTENDS PrefixText, Json, CSV
Emit == CSVWrite("%1$s", <<ToJson([t |-> t, exp |-> Expected(t)])>>, "prefix_vectors.ndjson")
=============================================================================
