------------------------------ MODULE HostPort ------------------------------
(* netutil.HostPort text codec (property C14, host:port part).               *)
(*                                                                           *)
(* A host is a sequence of character tokens: "a" (any character that is not  *)
(* special to the grammar: letter, '-', '_', non-ASCII ...), "1" (a digit),  *)
(* ".", ":", "%", "[" and "]".  Join is netutil.JoinHostPort (net.JoinHostPort *)
(* after trimming square brackets from both ends of the host), Split is      *)
(* netutil.SplitHostPort (net.SplitHostPort, then the port as a base-10      *)
(* uint16).  The statement: for every host without square brackets           *)
(* Split(Join(host, port)) gives back exactly (host, port).                  *)
EXTENDS Integers, Sequences, TLC

CONSTANTS HostChars,   \* tokens the enumeration builds hosts from
          Ports,       \* ports to enumerate
          MaxHost      \* max host length

VARIABLES host, port
vars == <<host, port>>

ModelHostChars == {"a", "1", ".", ":", "%", "[", "]"}
ModelPorts == {0, 1, 80, 65535}
(* every well-known port (implementations like to special-case "small" ports, e.g. by a table) and its neighbours *)
WellKnownPorts == 0..1025 \cup {65535}

DigitChars == <<"0", "1", "2", "3", "4", "5", "6", "7", "8", "9">>
Digit(n) == DigitChars[n + 1]
IsDigit(c) == \E n \in 0..9 : DigitChars[n + 1] = c
DigitVal(c) == CHOOSE n \in 0..9 : DigitChars[n + 1] = c
RECURSIVE Digits(_)
Digits(n) == IF n < 10 THEN <<Digit(n)>> ELSE Digits(n \div 10) \o <<Digit(n % 10)>>

Drop(q, n) == SubSeq(q, n + 1, Len(q))
Has(q, c) == \E i \in 1..Len(q) : q[i] = c
IndexOf(q, c) == IF Has(q, c) THEN CHOOSE i \in 1..Len(q) : q[i] = c /\ \A j \in 1..(i - 1) : q[j] # c ELSE 0
LastIndexOf(q, c) == IF Has(q, c) THEN CHOOSE i \in 1..Len(q) : q[i] = c /\ \A j \in (i + 1)..Len(q) : q[j] # c ELSE 0

IsBracket(c) == c \in {"[", "]"}
NoBrackets(h) == ~Has(h, "[") /\ ~Has(h, "]")
RECURSIVE TrimL(_)
TrimL(q) == IF q # <<>> /\ IsBracket(Head(q)) THEN TrimL(Tail(q)) ELSE q
RECURSIVE TrimR(_)
TrimR(q) == IF q # <<>> /\ IsBracket(q[Len(q)]) THEN TrimR(SubSeq(q, 1, Len(q) - 1)) ELSE q
TrimBrackets(q) == TrimR(TrimL(q))          \* strings.Trim(host, "[]")

(* net.JoinHostPort: a host with a colon is an IPv6 literal and gets brackets *)
Join(h, p) == LET t == TrimBrackets(h) IN
              IF Has(t, ":") THEN <<"[">> \o t \o <<"]", ":">> \o Digits(p)
              ELSE t \o <<":">> \o Digits(p)

(* strconv.ParseUint(s, 10, 16): digits only, non-empty, value <= 65535 *)
RECURSIVE ValCap(_, _)
ValCap(ds, acc) == IF ds = <<>> THEN acc
                   ELSE IF acc > 65535 THEN acc
                   ELSE ValCap(Tail(ds), acc * 10 + DigitVal(Head(ds)))
PortOK(ds) == ds # <<>> /\ (\A i \in 1..Len(ds) : IsDigit(ds[i])) /\ ValCap(ds, 0) <= 65535

Fail == [ok |-> FALSE, host |-> <<>>, port |-> 0]
Done(h, ps) == IF PortOK(ps) THEN [ok |-> TRUE, host |-> h, port |-> ValCap(ps, 0)] ELSE Fail

(* net.SplitHostPort followed by the port conversion *)
Split(t) ==
    LET i == LastIndexOf(t, ":") IN
    IF i = 0 THEN Fail                                        \* missing port
    ELSE IF t[1] = "["
    THEN LET e == IndexOf(t, "]") IN
         IF e = 0 THEN Fail                                   \* missing ']'
         ELSE IF e + 1 # i THEN Fail                          \* "]" not directly before the last colon
         ELSE LET h == SubSeq(t, 2, e - 1) IN
              IF Has(Drop(t, 1), "[") \/ Has(Drop(t, e), "]") THEN Fail
              ELSE Done(h, Drop(t, i))
    ELSE LET h == SubSeq(t, 1, i - 1) IN
         IF Has(h, ":") THEN Fail                             \* too many colons
         ELSE IF Has(t, "[") \/ Has(t, "]") THEN Fail
         ELSE Done(h, Drop(t, i))

----------------------------------------------------------------------------
Init == host = <<>> /\ port \in Ports
Next == /\ Len(host) < MaxHost
        /\ \E c \in HostChars : host' = Append(host, c)
        /\ UNCHANGED port
Spec == Init /\ [][Next]_vars

(* C14, host:port part. *)
RoundTrip == NoBrackets(host) => Split(Join(host, port)) = [ok |-> TRUE, host |-> host, port |-> port]
(* Why the statement excludes brackets: Join drops them. *)
BracketsLost == (host # <<>> /\ (IsBracket(host[1]) \/ IsBracket(host[Len(host)])))
                    => Split(Join(host, port)).host # host
(* Join never produces a text that Split rejects for a host free of inner brackets. *)
JoinParses == NoBrackets(TrimBrackets(host)) => Split(Join(host, port)).ok
=============================================================================
