SPECIFICATION Spec
CONSTANTS
  Impl = "fresh"
  DecImpl = "copy"
  Sides = {"out", "in"}
  Objs <- ModelObjs
  TextOf <- ModelText
  MaxOps = 5
INVARIANTS ValuesNotViews RoundTripsToOwn DecodedIndependent
CHECK_DEADLOCK FALSE
