SPECIFICATION Spec
CONSTANTS
  Impl = "fresh"
  Objs <- ModelObjs
  TextOf <- ModelText
  MaxOps = 5
INVARIANTS ValuesNotViews RoundTripsToOwn
CHECK_DEADLOCK FALSE
