------------------------------- MODULE UrlTrace -------------------------------
(* Trace validation for urlutil.URL through encoding/json: every line is one   *)
(* accepted URL's String() text, the JSON value an Encoder produced for it     *)
(* (escapeHTML on or off), and the String() of the URL decoded from that JSON, *)
(* all as character tokens.  Accepted iff the decoded URL prints as the        *)
(* original and, whenever the JSON value is the standard encoding of the text  *)
(* as this specification models it, the specification's decoder recovers the   *)
(* text from it.                                                               *)
EXTENDS UrlModel, Json

Trace == ndJsonDeserialize("url_trace.ndjson")
VARIABLE l
tvars == <<u, l>>

TInit == u = NoSp /\ l = 1
Ev == Trace[l]
TNext == /\ l <= Len(Trace)
         /\ l' = l + 1
         /\ UNCHANGED u
         /\ Ev.ok
         /\ Ev.back = Ev.text
         /\ (JsonEnc(Ev.text, Ev.html) = Ev.json => JsonDec(Ev.json) = Ev.text)
TSpec == TInit /\ [][TNext]_tvars
=============================================================================
