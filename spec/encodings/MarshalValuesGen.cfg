SPECIFICATION GSpec
CONSTANTS
  Impl = "fresh"
  Objs <- ModelObjs
  TextOf <- ModelText
  MaxOps = 4
INVARIANTS Emit ValuesNotViews RoundTripsToOwn
CHECK_DEADLOCK FALSE
