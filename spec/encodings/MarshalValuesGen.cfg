SPECIFICATION GSpec
CONSTANTS
  Impl = "fresh"
  DecImpl = "copy"
  Sides = {"out", "in"}
  Objs <- ModelObjs
  TextOf <- ModelText
  MaxOps = 4
INVARIANTS Emit ValuesNotViews RoundTripsToOwn DecodedIndependent
CHECK_DEADLOCK FALSE
