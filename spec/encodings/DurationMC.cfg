SPECIFICATION Spec
CONSTANTS
  Hs = {0, 1, 2, 10, 23, 24, 100, 2562046, 2562047}
  Ms = {0, 1, 9, 10, 47, 59}
  Ss = {0, 1, 9, 10, 16, 59}
  Ns = {0, 1, 9, 10, 999, 1000, 1001, 1500, 999999, 1000000, 1000001, 1500000, 10000000, 100000000, 500000000, 999999999}
  Extras <- ModelExtras
INVARIANTS TypeOK ImplIsStatement RoundTrip CutSane
CHECK_DEADLOCK FALSE
