SPECIFICATION Spec
INVARIANTS JsonLossless StripQuotesLossy RawReachesJson PlainIsFixpoint EmptyTextOnlyForBareHash
CHECK_DEADLOCK FALSE
