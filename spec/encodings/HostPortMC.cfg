SPECIFICATION Spec
CONSTANTS
  HostChars <- ModelHostChars
  Ports <- ModelPorts
  MaxHost = 5
INVARIANTS RoundTrip BracketsLost JoinParses
CHECK_DEADLOCK FALSE
