SPECIFICATION TSpec
CONSTANTS
  HostChars = {}
  Ports = {}
  MaxHost = 0
CHECK_DEADLOCK FALSE
