SPECIFICATION TSpec
CONSTANTS
  Impl = "fresh"
  DecImpl = "copy"
  Sides = {}
  Objs = {}
  TextOf = {}
  MaxOps = 0
CHECK_DEADLOCK FALSE
