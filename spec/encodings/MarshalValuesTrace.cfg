SPECIFICATION TSpec
CONSTANTS
  Impl = "fresh"
  Objs = {}
  TextOf = {}
  MaxOps = 0
CHECK_DEADLOCK FALSE
