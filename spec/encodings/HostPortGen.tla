----------------------------- MODULE HostPortGen -----------------------------
(* Generator: every bracket-free host x port with the text Join predicts.     *)
EXTENDS HostPort, Json, CSV

GenHostChars == {"a", "1", ".", ":", "%"}
Emit == CSVWrite("%1$s", <<ToJson([host |-> host, port |-> port, text |-> Join(host, port)])>>,
                 "hostport_vectors.ndjson")
=============================================================================
