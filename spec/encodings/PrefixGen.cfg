SPECIFICATION Spec
INVARIANTS Emit BareIsFullLength LengthInRange ZoneOnlyBare
CHECK_DEADLOCK FALSE
