------------------------- MODULE MarshalValuesGen -------------------------
(* Generator: every sequence of Marshal / Unmarshal calls within the bound,   *)
(* with what every retained result must still read as at the end.             *)
EXTENDS MarshalValues, Json, CSV

VARIABLE hist
gvars == <<vars, hist>>
GInit == Init /\ hist = <<>>
GNext == /\ ops < MaxOps
         /\ \/ \E x \in Objs : Marshal(x) /\ hist' = Append(hist, [op |-> "marshal", n |-> x])
            \/ \E i \in DOMAIN held : Unmarshal(i) /\ hist' = Append(hist, [op |-> "unmarshal", n |-> i])
GSpec == GInit /\ [][GNext]_gvars

Emit == CSVWrite("%1$s", <<ToJson([ops |-> hist, held |-> [i \in DOMAIN held |-> held[i].obj]])>>,
                 "values_vectors.ndjson")
=============================================================================
