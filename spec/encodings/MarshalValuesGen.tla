------------------------- MODULE MarshalValuesGen -------------------------
(* Generator: every sequence of Marshal / Unmarshal calls within the bound,   *)
(* with what every retained result must still read as at the end.             *)
EXTENDS MarshalValues, Json, CSV

VARIABLE hist
gvars == <<vars, hist>>
GInit == Init /\ hist = <<>>
GNext == /\ ops < MaxOps
         /\ \/ "out" \in Sides /\ \E x \in Objs : Marshal(x) /\ hist' = Append(hist, [op |-> "marshal", n |-> x])
            \/ "out" \in Sides /\ \E i \in DOMAIN held : Unmarshal(i) /\ hist' = Append(hist, [op |-> "unmarshal", n |-> i])
            \/ "in" \in Sides /\ \E x \in Objs : Decode(x) /\ hist' = Append(hist, [op |-> "decode", n |-> x])
            \/ "in" \in Sides /\ Scribble /\ hist' = Append(hist, [op |-> "scribble", n |-> 0])
GSpec == GInit /\ [][GNext]_gvars

Emit == CSVWrite("%1$s", <<ToJson([ops |-> hist, held |-> [i \in DOMAIN held |-> held[i].obj],
                                   decoded |-> [i \in DOMAIN decoded |-> decoded[i].obj]])>>,
                 "values_vectors.ndjson")
=============================================================================
