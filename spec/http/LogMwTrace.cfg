SPECIFICATION TSpec
CONSTANTS
  Procs = {1, 2, 3, 4}
  InitOps = {}
  MaxObj = 1000000
  Retain = TRUE
  PolA = "any"
  PolQ = "any"
  PolW = "any"
  FormOf <- FormsOrigin
  UpOf <- UpNone
  ClientOf <- ClientsPlain
  MaxToggles = 0
  MwEnabled = TRUE
  Variant = "asWritten"
  KeepRecords = FALSE
CHECK_DEADLOCK FALSE
