SPECIFICATION GSpec
CONSTANTS
  Procs = {1, 2}
  InitOps <- GenAll
  MaxObj = 2
  Retain = TRUE
  PolA = "min"
  PolQ = "min"
  PolW = "min"
  FormOf <- FormsOAU
  UpOf <- UpNone
  ClientOf <- ClientsPlain
  MaxToggles = 0
  MwEnabled = TRUE
  Variant = "asWritten"
  KeepRecords = TRUE
  GateSet = {"started", "hpre", "hpost", "readcode"}
INVARIANTS Emit Ownership HandlerSeesOwn LoggerOwn FinishedCode ClientExact RecordsOwn OncePerRequest
CHECK_DEADLOCK FALSE
