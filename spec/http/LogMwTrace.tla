----------------------------- MODULE LogMwTrace -----------------------------
(* Trace validation (binding T): an event log recorded from real requests     *)
(* through one httputil.LogMiddleware must be a behaviour of LogMw.  Every    *)
(* event is one LogMw step of one request slot; the object ids are the        *)
(* pointer identities the harness saw (attr slice: the backing array handed   *)
(* to Handler.WithAttrs; request / response-writer wrapper: the pointers the  *)
(* inner handler received), so Get steps are accepted only for an object      *)
(* that is free in the model or new -- the ownership invariant of the pools.  *)
(* Observed values (whose attributes a record carries, which request the      *)
(* inner handler read, whose client got a call, the finished code) must equal *)
(* what the model holds at that step.                                         *)
(*                                                                            *)
(* Event order.  The log is totally ordered by the harness.  Get events are   *)
(* logged when the object is first seen (after the real Get), Put events at   *)
(* the finished record (before the real Put), so the logged ownership         *)
(* interval lies inside the real one and a correct implementation is never    *)
(* rejected.                                                                  *)
EXTENDS LogMw, Json

Trace == ndJsonDeserialize("logmw_trace.ndjson")

VARIABLE l
tvars == <<vars, l>>

Ev == Trace[l]
Is(name) == Ev.e = name

Fresh ==
    /\ pc = [p \in Procs |-> "idle"]
    /\ rid = [p \in Procs |-> 0]
    /\ ops = [p \in Procs |-> <<>>]
    /\ ip = [p \in Procs |-> 1]
    /\ nA = 0 /\ nQ = 0 /\ nW = 0
    /\ freeA = {} /\ freeQ = {} /\ freeW = {}
    /\ attrObj = <<>> /\ reqObj = <<>> /\ rwObj = <<>>
    /\ hA = [p \in Procs |-> 0] /\ hQ = [p \in Procs |-> 0] /\ hW = [p \in Procs |-> 0]
    /\ lg = [p \in Procs |-> NoLogger]
    /\ fincode = [p \in Procs |-> 0]
    /\ client = [p \in Procs |-> <<>>]
    /\ stray = 0
    /\ records = <<>>
    /\ lvl = [on |-> MwEnabled, n |-> 0]

TInit == Fresh /\ l = 1

(* a new middleware (new pools); no request may be in flight *)
TReset == /\ Is("reset")
          /\ \A p \in Procs : pc[p] \in {"idle", "done"}
          /\ pc' = [p \in Procs |-> "idle"]
          /\ rid' = [p \in Procs |-> 0]
          /\ ops' = [p \in Procs |-> <<>>]
          /\ ip' = [p \in Procs |-> 1]
          /\ nA' = 0 /\ nQ' = 0 /\ nW' = 0
          /\ freeA' = {} /\ freeQ' = {} /\ freeW' = {}
          /\ attrObj' = <<>> /\ reqObj' = <<>> /\ rwObj' = <<>>
          /\ hA' = [p \in Procs |-> 0] /\ hQ' = [p \in Procs |-> 0] /\ hW' = [p \in Procs |-> 0]
          /\ lg' = [p \in Procs |-> NoLogger]
          /\ fincode' = [p \in Procs |-> 0]
          /\ client' = [p \in Procs |-> <<>>]
          /\ stray' = 0
          /\ records' = <<>>
          /\ lvl' = lvl

TBegin     == Is("begin")     /\ Begin(Ev.p, Ev.rid, Ev.ops)
TGetAttr   == Is("getattr")   /\ GetAttrObj(Ev.p, Ev.o)
TWithAttrs == Is("withattrs") /\ pc[Ev.p] = "withattrs" /\ Ev.arid = attrObj[hA[Ev.p]] /\ WithAttrs(Ev.p)
TGetReq    == Is("getreq")    /\ GetReqObj(Ev.p, Ev.o)
TGetRw     == Is("getrw")     /\ GetRwObj(Ev.p, Ev.o)
TStarted   == Is("started")   /\ pc[Ev.p] = "started" /\ Ev.arid = LgRid(lg[Ev.p]) /\ Started(Ev.p)
ObsMatch(p) == /\ Ev.seen = Obs(p).seen
               /\ Ev.lrid = Obs(p).lr
               /\ Ev.cl = Obs(p).cl
THPre      == Is("hpre")      /\ pc[Ev.p] = "hpre" /\ ObsMatch(Ev.p) /\ HPre(Ev.p)
TOp        == Is("op")        /\ pc[Ev.p] = "op"
                              /\ Ev.op = ops[Ev.p][ip[Ev.p]].op /\ Ev.c = ops[Ev.p][ip[Ev.p]].c
                              /\ Op(Ev.p)
TCw        == Is("cw")        /\ pc[Ev.p] = "cw"
                              /\ Ev.mine = (rwObj[hW[Ev.p]].cl = rid[Ev.p])
                              /\ Cw(Ev.p)
THPost     == Is("hpost")     /\ pc[Ev.p] = "hpost" /\ ObsMatch(Ev.p) /\ HPost(Ev.p)
TSetImpl   == Is("setimpl")   /\ SetImpl(Ev.p)
(* The code policy for repeated / late WriteHeader calls is not fixed by    *)
(* C20 (see AllowedFin), so the observed code is checked against the set.    *)
TReadCode  == Is("readcode")  /\ pc[Ev.p] = "readcode" /\ Ev.c \in AllowedFin(ops[Ev.p]) /\ ReadCode(Ev.p)
TFinished  == Is("finished")  /\ pc[Ev.p] = "finished"
                              /\ Ev.c \in AllowedFin(ops[Ev.p])
                              /\ Ev.arid = LgRid(lg[Ev.p])
                              /\ Finished(Ev.p)
TPutRw     == Is("putrw")     /\ PutRw(Ev.p)
TPutReq    == Is("putreq")    /\ PutReq(Ev.p)
TPutAttr   == Is("putattr")   /\ PutAttr(Ev.p)
TEnd       == Is("end")       /\ pc[Ev.p] = "end" /\ Ev.calls = Len(client[Ev.p]) /\ stray = 0 /\ End(Ev.p)

TNext == /\ l <= Len(Trace)
         /\ l' = l + 1
         /\ \/ TReset \/ TBegin \/ TGetAttr \/ TWithAttrs \/ TGetReq \/ TGetRw \/ TStarted
            \/ THPre \/ TOp \/ TCw \/ THPost \/ TSetImpl \/ TReadCode \/ TFinished
            \/ TPutRw \/ TPutReq \/ TPutAttr \/ TEnd

TSpec == TInit /\ [][TNext]_tvars
=============================================================================
