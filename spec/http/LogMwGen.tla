------------------------------ MODULE LogMwGen ------------------------------
(* Schedule generator (binding S): every interleaving of the requests of     *)
(* LogMw at the granularity of the gates the harness owns.  A process that   *)
(* is picked runs alone until the step it is about to take is in GateSet     *)
(* (there the real goroutine parks in a call-back) or until it is done; the  *)
(* history variable makes every schedule a distinct state, so TLC's          *)
(* exhaustive search enumerates all schedules and -simulate samples them.    *)
(* Each complete schedule is emitted with what the specification predicts    *)
(* for every request.                                                        *)
(*                                                                           *)
(* Gates (name of the step the process is parked in front of):               *)
(*   withattrs  base slog.Handler.WithAttrs (the pooled slice is filled)     *)
(*   started    base Handler.Handle of the "started" record                  *)
(*   hpre       entry of the inner handler                                   *)
(*   cw         the client http.ResponseWriter's WriteHeader / Write         *)
(*   hpost      the inner handler after its writes                           *)
(*   readcode   base Handler.Enabled called by logFinished (code not read)   *)
(*   finished   base Handler.Handle of the "finished" record                 *)
EXTENDS LogMw, Json, CSV, TLCExt

CONSTANT GateSet

VARIABLES running,   \* the process that is between two gates, or 0
          hist       \* the schedule so far: <<process, gate it arrived at>>

gvars == <<vars, running, hist>>

T2(a, b) == <<BehOps(a), BehOps(b)>>
T3(a, b, c) == <<BehOps(a), BehOps(b), BehOps(c)>>
GenAll == [Procs -> {BehOps(b) : b \in AllBehNames}]
GenSome == [Procs -> {BehOps(b) : b \in {"none", "wh404", "twice", "afterw"}}]
GenClasses == [Procs -> {BehOps(b) : b \in ClassBehNames \cup {"none"}}]
GenEvery == [Procs -> {BehOps(b) : b \in AllBehNames \cup ClassBehNames \cup HijackBehNames \cup StreamBehNames}]
GenHijack == [Procs -> {BehOps(b) : b \in HijackBehNames \cup {"none", "wh404"}}]
GenEvery3 == [Procs -> {BehOps(b) : b \in AllBehNames \cup ClassBehNames \cup HijackBehNames \cup StreamBehNames}]
GenStream == [Procs -> {BehOps(b) : b \in StreamBehNames}]
GenNeg == [Procs -> {BehOps(b) : b \in {"none", "wh404"}}]
GenThree == [Procs -> {BehOps(b) : b \in {"none", "wh404", "twice"}}]

(* The "started" / "finished" gates are the base handler's Handle: they only *)
(* exist while the logger's level lets the middleware's records through.     *)
Parks(p, step) == \/ step = "done"
                  \/ step \in GateSet /\ ~(step \in {"started", "finished"} /\ ~lvl.on)

GInit == Init /\ running = 0 /\ hist = <<>>

GNext == \/ \E p \in Procs :
            /\ running \in {0, p}
            /\ Step(p)
            /\ IF Parks(p, pc'[p])
                 THEN running' = 0 /\ hist' = Append(hist, <<p, pc'[p]>>)
                 ELSE running' = p /\ hist' = hist
         \* the environment changes the logger's level while nobody runs: process 0 in the schedule
         \/ /\ running = 0 /\ SetLevel /\ running' = 0
            /\ hist' = Append(hist, <<0, IF lvl'.on THEN "level:on" ELSE "level:off">>)

GSpec == GInit /\ [][GNext]_gvars

AllDone == \A p \in Procs : pc[p] = "done"

FinOf(p) == LET I == {i \in 1..Len(records) : records[i].m = "finished" /\ records[i].by = rid[p]}
            IN IF I = {} THEN 0 ELSE records[CHOOSE i \in I : TRUE].c

Pred(p) == [fin |-> FinOf(p), expected |-> ExpectedFin(ops[p]), allowed |-> AllowedFin(ops[p]),
            status |-> ClientStatus(client[p]), calls |-> client[p]]

Vector == [n |-> Cardinality(Procs), retain |-> Retain, gates |-> GateSet, mwon |-> MwEnabled, forms |-> FormOf, ups |-> UpOf, writers |-> ClientOf,
           ops |-> [p \in Procs |-> ops[p]],
           sched |-> hist,
           pred |-> [p \in Procs |-> Pred(p)]]

Emit == AllDone => CSVWrite("%1$s", <<ToJson(Vector)>>, "logmw_sched.ndjson")
=============================================================================
