------------------------------ MODULE MwChain ------------------------------
(* httputil.Wrap(h, m1..mn): "Middlewares will be called in the same order   *)
(* in which they were specified" -- the first half of property C20.          *)
(*                                                                           *)
(* The caller owns a backing array `arr` of middlewares (with `spare` unused  *)
(* slots behind the list: a Go slice with spare capacity) and passes         *)
(* sub-slices of it to Wrap with `mws[a:b]...`, i.e. WITHOUT a copy.  Wrap   *)
(* as written (httputil.go) only reads its argument:                         *)
(*     wrapped = h; for i := len(mws)-1; i >= 0; i-- { wrapped = mws[i].Wrap(wrapped) }  *)
(* A handler value is the list of middlewares a request meets, from the      *)
(* outermost inwards, the base handler h being the empty list; m.Wrap(x)     *)
(* puts m in front of x.                                                     *)
(*                                                                           *)
(* One round = two nested Wrap calls over the same array,                    *)
(*     Wrap(Wrap(h, arr[k+1..n]...), arr[1..j]...)        (k <= j <= n)      *)
(* (j > k: the sub-slices overlap and the middlewares k+1..j are met twice)  *)
(* followed by one request walking down the resulting handler and back up.   *)
(* Rounds are repeated over the SAME array: every call must yield the order  *)
(* of the list as the caller wrote it, and the array must never change.      *)
(*                                                                           *)
(* Middleware kinds:                                                         *)
(*   pass     records its visit, calls next once                             *)
(*   short    records its visit, answers 403 itself, does not call next      *)
(*   prepost  records its visit, calls next once, records the return         *)
(*   srvhdr   the real httputil.ServerHeaderMiddleware: adds a Server header *)
(*            value, calls next (its visit shows as a header value)          *)
(* Base handlers: "rec" records its visit and answers 200 "h";  "plain" is   *)
(* the real httputil.PlainTextHandler (text/plain, explicit 200, the text).  *)
(*                                                                           *)
(* Variant # "asWritten" is a design mutation TLC must refute:               *)
(*   forward         the loop runs forwards                                  *)
(*   reverseInPlace  slices.Reverse(mws) and then a forward loop: right the  *)
(*                   first time, but the caller's array is reversed, so the  *)
(*                   next Wrap over it is wrong                              *)
(*   appendInPlace   Wrap appends an internal middleware to its argument:    *)
(*                   with spare capacity (or a sub-slice) that overwrites    *)
(*                   the caller's next slot                                  *)
EXTENDS Integers, Sequences, FiniteSets, TLC

CONSTANTS MaxN,       \* longest middleware list
          Kinds,      \* middleware kinds used
          HKinds,     \* base handler kinds used
          Spares,     \* set of spare capacities tried
          MaxOverlap, \* j - k is at most this
          Rounds,     \* successive rounds over the same array
          Variant

VARIABLES mws,       \* kind of middleware number x (its number = its position in the list as written)
          hk,        \* base handler kind
          k, j,      \* the inner Wrap call gets arr[k+1..n], the outer one arr[1..j]
          arr,       \* the caller's backing array: middleware numbers, 0 = unused slot, -1 = foreign
          round,
          phase,     \* "inner", "outer" (the two Wrap calls), "serve", "done"
          i,         \* loop variable of the running Wrap call (1-based; 0 = loop over)
          wrapped,   \* handler value built so far
          pos, dir,  \* serve: depth in `wrapped`, going "down" or "up"
          visits,    \* visit log: <<"pre", x>>, <<"post", x>>, <<"h">>
          server,    \* values of the Server response header, in order
          resp       \* [status, body, ctype] as the client sees it

vars == <<mws, hk, k, j, arr, round, phase, i, wrapped, pos, dir, visits, server, resp>>

SeqsUpTo(S, n) == UNION {[1..m -> S] : m \in 0..n}
Upto(n) == [x \in 1..n |-> x]
Rev(s) == [x \in 1..Len(s) |-> s[Len(s) - x + 1]]
Min(a, b) == IF a < b THEN a ELSE b
N == Len(mws)

NoResp == [status |-> 200, body |-> "", ctype |-> ""]

(* what a Wrap call over arr[lo..hi] does to the caller's array before its loop *)
Prologue(a, lo, hi) ==
    CASE Variant = "reverseInPlace" ->
           [x \in 1..Len(a) |-> IF x >= lo /\ x <= hi THEN a[lo + hi - x] ELSE a[x]]
      [] Variant = "appendInPlace" /\ hi < Len(a) -> [a EXCEPT ![hi + 1] = -1]
      [] OTHER -> a
Forwards == Variant \in {"forward", "reverseInPlace"}
(* first index of the loop of a Wrap call over arr[lo..hi], or 0 if the list is empty *)
First(lo, hi) == IF lo > hi THEN 0 ELSE IF Forwards THEN lo ELSE hi

Init == /\ mws \in SeqsUpTo(Kinds, MaxN)
        /\ hk \in HKinds
        /\ k \in 0..Len(mws)
        /\ j \in k..Min(Len(mws), k + MaxOverlap)
        /\ \E sp \in Spares :
             arr = Prologue(Upto(Len(mws)) \o [x \in 1..sp |-> 0], k + 1, Len(mws))
        /\ round = 1
        /\ phase = "inner"
        /\ i = First(k + 1, Len(mws))
        /\ wrapped = <<>>
        /\ pos = 0 /\ dir = "down"
        /\ visits = <<>> /\ server = <<>> /\ resp = NoResp

(* one iteration of the loop of Wrap: wrapped = arr[i].Wrap(wrapped) *)
LoopStep(lo, hi) ==
    /\ i # 0
    /\ wrapped' = IF arr[i] > 0 THEN <<arr[i]>> \o wrapped ELSE wrapped
    /\ i' = IF Forwards THEN (IF i = hi THEN 0 ELSE i + 1)
                        ELSE (IF i = lo THEN 0 ELSE i - 1)
    /\ UNCHANGED <<mws, hk, k, j, arr, round, phase, pos, dir, visits, server, resp>>

InnerStep == phase = "inner" /\ LoopStep(k + 1, N)
InnerReturn == /\ phase = "inner" /\ i = 0
               /\ phase' = "outer"
               /\ arr' = Prologue(arr, 1, j)
               /\ i' = First(1, j)
               /\ UNCHANGED <<mws, hk, k, j, round, wrapped, pos, dir, visits, server, resp>>
OuterStep == phase = "outer" /\ LoopStep(1, j)
OuterReturn == /\ phase = "outer" /\ i = 0
               /\ phase' = "serve" /\ pos' = 1 /\ dir' = "down"
               /\ UNCHANGED <<mws, hk, k, j, arr, round, i, wrapped, visits, server, resp>>

Kind(p) == mws[wrapped[p]]

(* the request enters the handler at depth pos *)
Down ==
    /\ phase = "serve" /\ dir = "down"
    /\ IF pos <= Len(wrapped)
         THEN LET m == wrapped[pos] IN
              /\ visits' = IF Kind(pos) = "srvhdr" THEN visits ELSE Append(visits, <<"pre", m>>)
              /\ server' = IF Kind(pos) = "srvhdr" THEN Append(server, m) ELSE server
              /\ IF Kind(pos) = "short"
                   THEN /\ resp' = [status |-> 403, body |-> "short", ctype |-> ""]
                        /\ dir' = "up" /\ pos' = pos - 1
                   ELSE /\ resp' = resp
                        /\ dir' = "down" /\ pos' = pos + 1
         ELSE /\ visits' = IF hk = "rec" THEN Append(visits, <<"h">>) ELSE visits
              /\ resp' = IF hk = "rec" THEN [status |-> 200, body |-> "h", ctype |-> ""]
                                        ELSE [status |-> 200, body |-> "plain", ctype |-> "text/plain"]
              /\ server' = server
              /\ dir' = "up" /\ pos' = pos - 1
    /\ UNCHANGED <<mws, hk, k, j, arr, round, phase, i, wrapped>>

(* the call made at depth pos returns *)
Up ==
    /\ phase = "serve" /\ dir = "up"
    /\ IF pos = 0
         THEN phase' = "done" /\ UNCHANGED <<pos, visits>>
         ELSE /\ visits' = IF Kind(pos) = "prepost" THEN Append(visits, <<"post", wrapped[pos]>>) ELSE visits
              /\ pos' = pos - 1
              /\ phase' = phase
    /\ UNCHANGED <<mws, hk, k, j, arr, round, i, wrapped, dir, server, resp>>

(* the caller wraps again, over the same array *)
NextRound ==
    /\ phase = "done" /\ round < Rounds
    /\ round' = round + 1
    /\ phase' = "inner"
    /\ arr' = Prologue(arr, k + 1, N)
    /\ i' = First(k + 1, N)
    /\ wrapped' = <<>>
    /\ pos' = 0 /\ dir' = "down"
    /\ visits' = <<>> /\ server' = <<>> /\ resp' = NoResp
    /\ UNCHANGED <<mws, hk, k, j>>

Next == InnerStep \/ InnerReturn \/ OuterStep \/ OuterReturn \/ Down \/ Up \/ NextRound
Spec == Init /\ [][Next]_vars

----------------------------------------------------------------------------
(* The property, in terms of the list AS THE CALLER WROTE IT (no reference  *)
(* to `arr` or `wrapped`).                                                   *)

(* the middlewares the two calls were given, outermost first *)
EffOf(n, kk, jj) == Upto(jj) \o [x \in 1..(n - kk) |-> kk + x]
StopOf(m, eff) == LET sh == {p \in 1..Len(eff) : m[eff[p]] = "short"}
                  IN IF sh = {} THEN Len(eff) ELSE CHOOSE p \in sh : \A q \in sh : p <= q
ReachedOf(m, eff) == SubSeq(eff, 1, StopOf(m, eff))       \* what the request must meet, in order
HasShort(m, eff) == \E p \in 1..Len(eff) : m[eff[p]] = "short"

Eff == EffOf(N, k, j)
Pre(v)  == SelectSeq(v, LAMBDA e : e[1] = "pre")
Post(v) == SelectSeq(v, LAMBDA e : e[1] = "post")
IdxOf(v) == [x \in 1..Len(v) |-> v[x][2]]
HPos == {x \in 1..Len(visits) : visits[x][1] = "h"}

(* m1 ... mn in that order, then h; nothing behind a short-circuit; returns in reverse *)
VisitOrder == phase = "done" =>
    /\ IdxOf(Pre(visits)) = SelectSeq(ReachedOf(mws, Eff), LAMBDA x : mws[x] # "srvhdr")
    /\ server = SelectSeq(ReachedOf(mws, Eff), LAMBDA x : mws[x] = "srvhdr")
    /\ (~HasShort(mws, Eff) /\ hk = "rec") =>
           /\ Cardinality(HPos) = 1
           /\ \A x \in HPos : Len(Pre(SubSeq(visits, 1, x))) = Len(Pre(visits))
    /\ HasShort(mws, Eff) => HPos = {} /\ resp.status = 403
    /\ IdxOf(Post(visits)) = Rev(SelectSeq(ReachedOf(mws, Eff), LAMBDA x : mws[x] = "prepost"))

(* Wrap never modifies what it was given (nor the slots behind it) *)
CallerListIntact == /\ SubSeq(arr, 1, N) = Upto(N)
                    /\ \A x \in (N + 1)..Len(arr) : arr[x] = 0

(* The same as a closed formula: the one visit log Wrap allows. *)
ExpectedVisitsOf(m, eff, h) ==
    LET r == ReachedOf(m, eff)
        pre == SelectSeq(r, LAMBDA x : m[x] # "srvhdr")
        post == Rev(SelectSeq(r, LAMBDA x : m[x] = "prepost"))
    IN [x \in 1..Len(pre) |-> <<"pre", pre[x]>>]
       \o (IF ~HasShort(m, eff) /\ h = "rec" THEN << <<"h">> >> ELSE <<>>)
       \o [x \in 1..Len(post) |-> <<"post", post[x]>>]
ExpectedServerOf(m, eff) == SelectSeq(ReachedOf(m, eff), LAMBDA x : m[x] = "srvhdr")
ExpectedRespOf(m, eff, h) ==
    IF HasShort(m, eff) THEN [status |-> 403, body |-> "short", ctype |-> ""]
    ELSE IF h = "rec" THEN [status |-> 200, body |-> "h", ctype |-> ""]
    ELSE [status |-> 200, body |-> "plain", ctype |-> "text/plain"]
ClosedForm == phase = "done" => /\ visits = ExpectedVisitsOf(mws, Eff, hk)
                                /\ server = ExpectedServerOf(mws, Eff)
                                /\ resp = ExpectedRespOf(mws, Eff, hk)

(* without overlap nobody is visited twice, at any time *)
AtMostOnce == j = k => \A a, b \in 1..Len(visits) : a # b => visits[a] # visits[b]

TypeOK == /\ phase \in {"inner", "outer", "serve", "done"}
          /\ pos \in 0..(Len(wrapped) + 1)
          /\ i \in 0..N
          /\ round \in 1..Rounds
=============================================================================
