------------------------------ MODULE MwChain ------------------------------
(* httputil.Wrap(h, m1..mn): "Middlewares will be called in the same order   *)
(* in which they were specified" -- the first half of property C20.          *)
(*                                                                           *)
(* Build phase = httputil.go Wrap as written:                                *)
(*     wrapped = h; for i := len(mws)-1; i >= 0; i-- { wrapped = mws[i].Wrap(wrapped) }  *)
(* A handler value is the list of middleware indices a request meets, from   *)
(* the outermost inwards, the base handler h being the empty list; m.Wrap(x) *)
(* puts m in front of x.  Two Wrap calls can be nested (Wrap(Wrap(h,         *)
(* m[s+1..n]), m[1..s])), which must be the same as one call with the whole  *)
(* list.  Serve phase = one request walking down that structure and back up. *)
(*                                                                           *)
(* Middleware kinds:                                                         *)
(*   pass     records its visit, calls next once                             *)
(*   short    records its visit, answers 403 itself, does not call next      *)
(*   prepost  records its visit, calls next once, records the return         *)
(*   srvhdr   the real httputil.ServerHeaderMiddleware: adds a Server header *)
(*            value, calls next (its visit shows as a header value)          *)
(* Base handlers: "rec" records its visit and answers 200 "h";  "plain" is   *)
(* the real httputil.PlainTextHandler (text/plain, explicit 200, the text).  *)
EXTENDS Integers, Sequences, FiniteSets, TLC

CONSTANTS MaxN,      \* longest middleware list
          Kinds,     \* middleware kinds used
          HKinds,    \* base handler kinds used
          Reverse    \* BOOLEAN design mutation: the loop of Wrap runs forwards

VARIABLES mws,       \* the middleware list (kinds), index = position in the argument list
          hk,        \* base handler kind
          split,     \* the inner Wrap call gets m[split+1..n], the outer one m[1..split]
          phase,     \* "inner", "outer" (the two Wrap calls), "serve", "done"
          i,         \* loop variable of the running Wrap call (1-based; 0 = loop over)
          wrapped,   \* handler value built so far
          pos, dir,  \* serve: depth in `wrapped`, going "down" or "up"
          visits,    \* visit log: <<"pre", k>>, <<"post", k>>, <<"h">>
          server,    \* values of the Server response header, in order
          resp       \* [status, body, ctype] as the client sees it

vars == <<mws, hk, split, phase, i, wrapped, pos, dir, visits, server, resp>>

SeqsUpTo(S, n) == UNION {[1..k -> S] : k \in 0..n}

NoResp == [status |-> 200, body |-> "", ctype |-> ""]

(* first index of the loop of a Wrap call over m[lo..hi], or 0 if the list is empty *)
First(lo, hi) == IF lo > hi THEN 0 ELSE IF Reverse THEN lo ELSE hi

Init == /\ mws \in SeqsUpTo(Kinds, MaxN)
        /\ hk \in HKinds
        /\ split \in 0..Len(mws)
        /\ phase = "inner"
        /\ i = First(split + 1, Len(mws))
        /\ wrapped = <<>>
        /\ pos = 0 /\ dir = "down"
        /\ visits = <<>> /\ server = <<>> /\ resp = NoResp

(* one iteration of the loop of Wrap: wrapped = m.Wrap(wrapped) *)
LoopStep(lo, hi) ==
    /\ i # 0
    /\ wrapped' = <<i>> \o wrapped
    /\ i' = IF Reverse THEN (IF i = hi THEN 0 ELSE i + 1)
                       ELSE (IF i = lo THEN 0 ELSE i - 1)
    /\ UNCHANGED <<mws, hk, split, phase, pos, dir, visits, server, resp>>

InnerStep == phase = "inner" /\ LoopStep(split + 1, Len(mws))
InnerReturn == /\ phase = "inner" /\ i = 0
               /\ phase' = "outer"
               /\ i' = First(1, split)
               /\ UNCHANGED <<mws, hk, split, wrapped, pos, dir, visits, server, resp>>
OuterStep == phase = "outer" /\ LoopStep(1, split)
OuterReturn == /\ phase = "outer" /\ i = 0
               /\ phase' = "serve" /\ pos' = 1 /\ dir' = "down"
               /\ UNCHANGED <<mws, hk, split, i, wrapped, visits, server, resp>>

Kind(k) == mws[wrapped[k]]

(* the request enters the handler at depth pos *)
Down ==
    /\ phase = "serve" /\ dir = "down"
    /\ IF pos <= Len(wrapped)
         THEN LET m == wrapped[pos] IN
              /\ visits' = IF Kind(pos) = "srvhdr" THEN visits ELSE Append(visits, <<"pre", m>>)
              /\ server' = IF Kind(pos) = "srvhdr" THEN Append(server, m) ELSE server
              /\ IF Kind(pos) = "short"
                   THEN /\ resp' = [status |-> 403, body |-> "short", ctype |-> ""]
                        /\ dir' = "up" /\ pos' = pos - 1
                   ELSE /\ resp' = resp
                        /\ dir' = "down" /\ pos' = pos + 1
         ELSE /\ visits' = IF hk = "rec" THEN Append(visits, <<"h">>) ELSE visits
              /\ resp' = IF hk = "rec" THEN [status |-> 200, body |-> "h", ctype |-> ""]
                                        ELSE [status |-> 200, body |-> "plain", ctype |-> "text/plain"]
              /\ server' = server
              /\ dir' = "up" /\ pos' = pos - 1
    /\ UNCHANGED <<mws, hk, split, phase, i, wrapped>>

(* the call made at depth pos returns *)
Up ==
    /\ phase = "serve" /\ dir = "up"
    /\ IF pos = 0
         THEN phase' = "done" /\ UNCHANGED <<pos, visits>>
         ELSE /\ visits' = IF Kind(pos) = "prepost" THEN Append(visits, <<"post", wrapped[pos]>>) ELSE visits
              /\ pos' = pos - 1
              /\ phase' = phase
    /\ UNCHANGED <<mws, hk, split, i, wrapped, dir, server, resp>>

Next == InnerStep \/ InnerReturn \/ OuterStep \/ OuterReturn \/ Down \/ Up
Spec == Init /\ [][Next]_vars

----------------------------------------------------------------------------
(* The property, on the visit log alone (no reference to `wrapped`). *)
N == Len(mws)
Shorts == {k \in 1..N : mws[k] = "short"}
Stop == IF Shorts = {} THEN N ELSE CHOOSE k \in Shorts : \A j \in Shorts : k <= j
Reached == 1..Stop                                   \* the middlewares the request must meet
Visible(k) == mws[k] # "srvhdr"

Pre(v)  == SelectSeq(v, LAMBDA e : e[1] = "pre")
Post(v) == SelectSeq(v, LAMBDA e : e[1] = "post")
IdxOf(v) == [j \in 1..Len(v) |-> v[j][2]]
Ascending(s) == \A a, b \in 1..Len(s) : a < b => s[a] < s[b]
Descending(s) == \A a, b \in 1..Len(s) : a < b => s[a] > s[b]
Range(s) == {s[j] : j \in 1..Len(s)}
HPos == {j \in 1..Len(visits) : visits[j][1] = "h"}

(* m1 ... mn in that order, then h; nothing behind a short-circuit *)
VisitOrder == phase = "done" =>
    /\ Ascending(IdxOf(Pre(visits)))
    /\ Range(IdxOf(Pre(visits))) = {k \in Reached : Visible(k)}
    /\ Ascending(server) /\ Range(server) = {k \in Reached : ~Visible(k)}
    /\ (Shorts = {} /\ hk = "rec") => /\ Cardinality(HPos) = 1
                                        /\ \A j \in HPos : Len(Pre(SubSeq(visits, 1, j))) = Len(Pre(visits))
    /\ Shorts # {} => HPos = {} /\ resp.status = 403
    /\ Descending(IdxOf(Post(visits)))
    /\ Range(IdxOf(Post(visits))) = {k \in Reached : mws[k] = "prepost"}

(* The same as a closed formula: the one visit log Wrap allows. *)
Upto(n) == [k \in 1..n |-> k]
Rev(s) == [k \in 1..Len(s) |-> s[Len(s) - k + 1]]
ExpectedVisitsOf(m, h) ==
    LET sh == {k \in 1..Len(m) : m[k] = "short"}
        st == IF sh = {} THEN Len(m) ELSE CHOOSE k \in sh : \A j \in sh : k <= j
        pre == SelectSeq(Upto(st), LAMBDA k : m[k] # "srvhdr")
        post == Rev(SelectSeq(Upto(st), LAMBDA k : m[k] = "prepost"))
    IN [k \in 1..Len(pre) |-> <<"pre", pre[k]>>]
       \o (IF sh = {} /\ h = "rec" THEN << <<"h">> >> ELSE <<>>)
       \o [k \in 1..Len(post) |-> <<"post", post[k]>>]
ExpectedServerOf(m) ==
    LET sh == {k \in 1..Len(m) : m[k] = "short"}
        st == IF sh = {} THEN Len(m) ELSE CHOOSE k \in sh : \A j \in sh : k <= j
    IN SelectSeq(Upto(st), LAMBDA k : m[k] = "srvhdr")
ExpectedRespOf(m, h) ==
    IF \E k \in 1..Len(m) : m[k] = "short" THEN [status |-> 403, body |-> "short", ctype |-> ""]
    ELSE IF h = "rec" THEN [status |-> 200, body |-> "h", ctype |-> ""]
    ELSE [status |-> 200, body |-> "plain", ctype |-> "text/plain"]
ClosedForm == phase = "done" => /\ visits = ExpectedVisitsOf(mws, hk)
                                /\ server = ExpectedServerOf(mws)
                                /\ resp = ExpectedRespOf(mws, hk)

(* nobody is visited twice, at any time *)
AtMostOnce == \A a, b \in 1..Len(visits) : a # b => visits[a] # visits[b]

TypeOK == /\ phase \in {"inner", "outer", "serve", "done"}
          /\ pos \in 0..(Len(wrapped) + 1)
          /\ i \in 0..N
=============================================================================
