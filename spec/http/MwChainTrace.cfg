SPECIFICATION TSpec
CONSTANTS
  MaxN = 0
  Kinds = {"pass"}
  HKinds = {"rec"}
  Reverse = FALSE
CHECK_DEADLOCK FALSE
