SPECIFICATION TSpec
CONSTANTS
  MaxN = 0
  Kinds = {"pass"}
  HKinds = {"rec"}
  Spares = {0}
  MaxOverlap = 0
  Rounds = 1
  Variant = "asWritten"
CHECK_DEADLOCK FALSE
