SPECIFICATION Spec
CONSTANTS
  Procs = {1, 2, 3}
  Mws = {1, 2}
  Setups <- TopoSmall
  WarmProcs = {1}
  MaxObj = 5
  Policy = "pooled"
  Retain = TRUE
  Variant = "asWritten"
INVARIANTS PoolPurity Ownership HandlerSeesOwn LoggerOwn FinishedCode ClientExact RecordsOwn OncePerLayer
VIEW View
CHECK_DEADLOCK FALSE
