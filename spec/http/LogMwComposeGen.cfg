SPECIFICATION GSpec
CONSTANTS
  Procs = {1, 2, 3}
  Mws = {1, 2}
  Setups <- TopoSmall
  WarmProcs = {1}
  MaxObj = 6
  Policy = "min"
  Retain = TRUE
  Variant = "asWritten"
  GateSet = {"hpre", "hpost", "readcode"}
INVARIANTS Emit PoolPurity Ownership HandlerSeesOwn LoggerOwn FinishedCode ClientExact RecordsOwn OncePerLayer
CHECK_DEADLOCK FALSE
