------------------------------ MODULE LogMwMC ------------------------------
(* Model-checking wrapper of LogMw: the behaviour assignments Init ranges    *)
(* over (a .cfg file cannot hold functions).                                 *)
EXTENDS LogMw

(* every assignment of the seven behaviours to the slots *)
MCAll == [Procs -> {BehOps(b) : b \in AllBehNames}]

(* the status-class behaviours (101, 1xx, 204, 304, 599, 999) against each other *)
MCClasses == [Procs -> {BehOps(b) : b \in ClassBehNames}]

MCHijack == [Procs -> {BehOps(b) : b \in HijackBehNames \cup {"none", "wh404"}}]

MCStream == [Procs -> {BehOps(b) : b \in StreamBehNames}]
MCStreamQ == [Procs -> {BehOps(b) : b \in {"cpwith", "cpwto", "cperr", "wstring", "servecontent"}}]
MCCaps == [Procs -> {BehOps(b) : b \in {"hj", "hjfail", "flush", "deadline", "duplex", "wh404"}}]

T(a, b, c) == <<BehOps(a), BehOps(b), BehOps(c)>>

(* three slots: one assignment mixing an explicit code, no call at all and   *)
(* the double WriteHeader                                                    *)
MCTriple1 == {T("wh404", "none", "twice")}
(* three slots, thorough *)
MCTriples == {T("wh404", "none", "twice"), T("none", "none", "wh404"),
              T("w", "afterw", "wh500"), T("twice", "wh200", "none")}
(* three slots, one real pool at a time (the other two "own") *)
MCSome == [Procs -> {BehOps(b) : b \in {"none", "wh404", "twice"}}]
(* negative runs: small but sufficient for every design mutation *)
MCNeg == [Procs -> {BehOps(b) : b \in {"none", "wh404"}}]
=============================================================================
