SPECIFICATION Spec
CONSTANTS
  Procs = {1, 2}
  InitOps <- MCAll
  MaxObj = 2
  Retain = TRUE
  PolA = "any"
  PolQ = "any"
  PolW = "any"
  FormOf <- FormsOAU
  UpOf <- UpNone
  ClientOf <- ClientsPlain
  MaxToggles = 0
  MwEnabled = TRUE
  Variant = "asWritten"
  KeepRecords = TRUE
INVARIANTS TypeOK FreshAfterReset Ownership HandlerSeesOwn LoggerOwn FinishedCode ClientExact RecordsOwn OncePerRequest
VIEW View
CHECK_DEADLOCK FALSE
