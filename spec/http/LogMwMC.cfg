SPECIFICATION Spec
CONSTANTS
  Procs = {1, 2}
  InitOps <- MCAll
  MaxObj = 2
  Retain = TRUE
  PolA = "any"
  PolQ = "any"
  PolW = "any"
  MwEnabled = TRUE
  Variant = "asWritten"
  KeepRecords = TRUE
INVARIANTS TypeOK Ownership HandlerSeesOwn LoggerOwn FinishedCode ClientExact RecordsOwn OncePerRequest
VIEW View
CHECK_DEADLOCK FALSE
