---------------------------- MODULE MwChainTrace ----------------------------
(* Trace validation for Wrap: each line is one real array of middlewares     *)
(* (any length, built by the Go driver with seeded random kinds, nesting,    *)
(* overlap and spare capacity) wrapped several times in a row, with the      *)
(* visit log, Server header values and response of every round and whether   *)
(* the array was still what the caller wrote; every round must equal the     *)
(* closed form of MwChain (which TLC ties to the step-by-step model with the *)
(* invariant ClosedForm).                                                    *)
EXTENDS MwChain, Json

Trace == ndJsonDeserialize("mwchain_trace.ndjson")
VARIABLE l
tvars == <<vars, l>>

TInit == /\ mws = <<>> /\ hk = "rec" /\ k = 0 /\ j = 0 /\ arr = <<>> /\ round = 1
         /\ phase = "done" /\ i = 0 /\ wrapped = <<>>
         /\ pos = 0 /\ dir = "up" /\ visits = <<>> /\ server = <<>> /\ resp = NoResp
         /\ l = 1

LineOK(e) == LET eff == EffOf(Len(e.mws), e.k, e.j) IN
             /\ e.intact
             /\ \A r \in 1..Len(e.rounds) :
                  /\ e.rounds[r].visits = ExpectedVisitsOf(e.mws, eff, e.hk)
                  /\ e.rounds[r].server = ExpectedServerOf(e.mws, eff)
                  /\ e.rounds[r].resp = ExpectedRespOf(e.mws, eff, e.hk)

TNext == /\ l <= Len(Trace)
         /\ LineOK(Trace[l])
         /\ l' = l + 1
         /\ UNCHANGED vars
TSpec == TInit /\ [][TNext]_tvars
=============================================================================
