---------------------------- MODULE MwChainTrace ----------------------------
(* Trace validation for Wrap: each line is one real chain (any length, built *)
(* by the Go driver with seeded random kinds and nesting) with the visit     *)
(* log, Server header values and response the real handlers produced; it     *)
(* must equal the closed form of MwChain (which TLC ties to the step-by-step *)
(* model with the invariant ClosedForm).                                     *)
EXTENDS MwChain, Json

Trace == ndJsonDeserialize("mwchain_trace.ndjson")
VARIABLE l
tvars == <<vars, l>>

TInit == /\ mws = <<>> /\ hk = "rec" /\ split = 0 /\ phase = "done" /\ i = 0 /\ wrapped = <<>>
         /\ pos = 0 /\ dir = "up" /\ visits = <<>> /\ server = <<>> /\ resp = NoResp
         /\ l = 1

LineOK(e) == /\ e.visits = ExpectedVisitsOf(e.mws, e.hk)
             /\ e.server = ExpectedServerOf(e.mws)
             /\ e.resp = ExpectedRespOf(e.mws, e.hk)

TNext == /\ l <= Len(Trace)
         /\ LineOK(Trace[l])
         /\ l' = l + 1
         /\ UNCHANGED vars
TSpec == TInit /\ [][TNext]_tvars
=============================================================================
