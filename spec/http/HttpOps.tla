------------------------------ MODULE HttpOps ------------------------------
(* Pure operators shared by the LogMiddleware models: the handler behaviours *)
(* of property C20's quantifier, what an HTTP client sees for a sequence of  *)
(* ResponseWriter calls, and what the "finished" record may report.          *)
EXTENDS Integers, Sequences, FiniteSets

WH(c) == [op |-> "wh", c |-> c]
W     == [op |-> "w",  c |-> 0]
(* http.NewResponseController(w).Hijack() against a client writer whose      *)
(* Hijack succeeds (1), fails (2), or that is no http.Hijacker at all (3:     *)
(* ErrNotSupported, the client writer is not called)                         *)
HJ(mode) == [op |-> "hj", c |-> mode]
(* http.NewResponseController(w).Flush(): reaches the client through Unwrap; *)
(* like a Write it commits the header (implicit 200)                         *)
FL    == [op |-> "fl", c |-> 0]
(* the other capabilities of http.ResponseController: SetReadDeadline,      *)
(* SetWriteDeadline, EnableFullDuplex                                        *)
SRD   == [op |-> "srd", c |-> 0]
SWD   == [op |-> "swd", c |-> 0]
EFD   == [op |-> "efd", c |-> 0]
Capabilities == {"hj", "fl", "srd", "swd", "efd"}
(* Writing THROUGH a std-lib helper that probes the writer for optional      *)
(* interfaces (io.ReaderFrom, io.StringWriter) before falling back to Write: *)
(*   1..5  io.Copy / io.CopyBuffer(w, src) with a source that                 *)
(*         1 returns its data and then (0, EOF)      2 returns the last data  *)
(*         TOGETHER with EOF      3 returns (0, nil) now and then             *)
(*         4 has a WriteTo of its own      5 fails after a prefix             *)
(*   6 io.WriteString(w, s)      7 fmt.Fprintf(w, ...)      8 http.ServeContent *)
(* However many Write / ReadFrom / WriteString calls that becomes underneath, *)
(* the client must get the source's bytes exactly (for 5: the prefix before   *)
(* the error, and the helper must return that error).  One "cp" call stands   *)
(* for the whole byte string; a negative c means "not those bytes".           *)
CP(k) == [op |-> "cp", c |-> k]

(* FOREIGN middlewares placed before the LogMiddleware may wrap the          *)
(* ResponseWriter.  http.ResponseController looks for a capability at each   *)
(* writer from the handler's outwards: a writer that implements it is called *)
(* (and forwards), one that only has Unwrap is stepped over, anything else   *)
(* ends the search with ErrNotSupported.  Wrapper kinds:                     *)
(*   unwrap    http.ResponseWriter + Unwrap only (the modern idiom)          *)
(*   flushfwd  forwards Flush itself, no Unwrap: only Flush gets through     *)
(*   opaque    a bare http.ResponseWriter: no capability gets through        *)
WrapperKinds == {"unwrap", "flushfwd", "opaque"}
LetsThrough(kind, cap) == kind = "unwrap" \/ (kind = "flushfwd" /\ cap = "fl")
ChainPasses(chain, cap) == \A x \in 1..Len(chain) : LetsThrough(chain[x], cap)

(* Handler behaviours of the property's quantifier ("WriteHeader or not, any *)
(* code"), plus the orders and status classes net/http treats specially.     *)
BehOps(b) ==
    CASE b = "none"   -> <<>>                      \* neither WriteHeader nor Write
      [] b = "w"      -> <<W>>                     \* Write only: implicit 200
      [] b = "wh200"  -> <<WH(200), W>>
      [] b = "wh404"  -> <<WH(404), W>>
      [] b = "wh500"  -> <<WH(500)>>
      [] b = "twice"  -> <<WH(404), WH(500), W>>   \* net/http ignores the second WriteHeader
      [] b = "afterw" -> <<W, WH(500)>>            \* net/http has already sent 200
      \* status classes
      [] b = "wh101"  -> <<WH(101)>>               \* Switching Protocols: a FINAL status (Hijack follows)
      [] b = "wh103"  -> <<WH(103)>>               \* informational only: the response ends as 200
      [] b = "hints"  -> <<WH(103), WH(200), W>>   \* Early Hints, then the final header
      [] b = "wh204"  -> <<WH(204)>>
      [] b = "wh304"  -> <<WH(304)>>
      [] b = "wh599"  -> <<WH(599), W>>
      [] b = "wh999"  -> <<WH(999)>>               \* the largest code net/http accepts
      \* optional interfaces
      [] b = "hj"      -> <<HJ(1)>>                 \* the handler takes the connection over
      [] b = "hjfail"  -> <<HJ(2), WH(500), W>>     \* Hijack fails, the handler answers 500
      [] b = "hjunsup" -> <<HJ(3), WH(501)>>        \* no Hijacker underneath
      [] b = "flush"   -> <<WH(200), FL, W>>
      [] b = "flfirst" -> <<FL, WH(500)>>           \* the flush has already sent 200
      [] b = "deadline" -> <<SRD, SWD, WH(200), W>>
      [] b = "duplex"  -> <<EFD, W>>
      \* std-lib helpers
      [] b = "cpsep"   -> <<WH(202), CP(1)>>
      [] b = "cpwith"  -> <<WH(202), CP(2)>>
      [] b = "cpzero"  -> <<CP(3)>>
      [] b = "cpwto"   -> <<CP(4), W>>
      [] b = "cperr"   -> <<CP(5)>>
      [] b = "wstring" -> <<CP(6)>>
      [] b = "fprintf" -> <<WH(404), CP(7)>>
      [] b = "servecontent" -> <<CP(8)>>
AllBehNames == {"none", "w", "wh200", "wh404", "wh500", "twice", "afterw"}
ClassBehNames == {"wh101", "wh103", "hints", "wh204", "wh304", "wh599", "wh999"}
StreamBehNames == {"cpsep", "cpwith", "cpzero", "cpwto", "cperr", "wstring", "fprintf", "servecontent"}
(* kinds of the client's own writer: what it offers beyond http.ResponseWriter *)
ClientKinds == {"plain", "readerfrom", "stringwriter"}
HijackBehNames == {"hj", "hjfail", "hjunsup", "flush", "flfirst", "deadline", "duplex"}

(* Request-target forms (RFC 9112 3.2).  The RequestURI field of the request *)
(* is the target as the client sent it; URL.RequestURI() re-derives a target *)
(* from the parsed URL and differs for the absolute form (scheme and host    *)
(* are dropped) and the authority form ("/" instead of host:port).  "escaped"*)
(* stands for origin-form targets with %2F, %7e, "//", a bare "?".           *)
Forms == {"origin", "absolute", "authority", "asterisk", "escaped"}
RequestURIOf(f) == <<"sent", f>>
UrlRequestURIOf(f) == IF f \in {"absolute", "authority"} THEN <<"rebuilt", f>> ELSE <<"sent", f>>

WhCodes(o) == {o[i].c : i \in {j \in 1..Len(o) : o[j].op = "wh"}}
LastWh(o)  == LET I == {j \in 1..Len(o) : o[j].op = "wh"}
              IN IF I = {} THEN 0 ELSE o[CHOOSE j \in I : \A k \in I : k <= j].c

(* What an http client sees as status for a call sequence (net/http): 1xx    *)
(* codes other than 101 are informational - sent at once, any number of      *)
(* times, and the response still has to get its final header; the first      *)
(* WriteHeader with a final code (101 or >= 200) wins; a Write before that,  *)
(* or the end of the handler, implies 200.                                   *)
Informational(c) == c >= 100 /\ c <= 199 /\ c # 101
Decisive(calls) == {x \in 1..Len(calls) : (calls[x].op \in {"w", "fl", "cp"})
                                           \/ (calls[x].op = "wh" /\ ~Informational(calls[x].c))}
ClientStatus(calls) ==
    IF Decisive(calls) = {} THEN 200
    ELSE LET x == CHOOSE y \in Decisive(calls) : \A z \in Decisive(calls) : y <= z
         IN IF calls[x].op = "wh" THEN calls[x].c ELSE 200

(* As written (`w.code = code` on every WriteHeader): the last code passed,  *)
(* 200 when WriteHeader was never called.                                    *)
ExpectedFin(o) == IF LastWh(o) = 0 THEN 200 ELSE LastWh(o)

(* What C20 demands of the finished record: "the status code that invocation *)
(* set (200 when it set none)".  For several WriteHeader calls, WriteHeader   *)
(* after Write, or informational codes, the statement does not say which one  *)
(* counts, so any code the invocation passed and the status its client got    *)
(* are allowed.  Consequences: a single WriteHeader(c) with a final code -     *)
(* including 101 - must be reported as c; WriteHeader(103) alone may be        *)
(* reported as 103 (as written) or as 200 (what the client ends up with).      *)
AllowedFin(o) == WhCodes(o) \cup {ClientStatus(o)}
=============================================================================
