----------------------------- MODULE MwChainGen -----------------------------
(* Generator: every middleware list / base handler / nesting of MwChain with *)
(* the visit log, Server header values and response the specification        *)
(* predicts.  Only complete runs are emitted.                                *)
EXTENDS MwChain, Json, CSV, TLCExt

Vector == [mws |-> mws, hk |-> hk, split |-> split, visits |-> visits, server |-> server, resp |-> resp]
Emit == phase = "done" => CSVWrite("%1$s", <<ToJson(Vector)>>, "mwchain_vectors.ndjson")
=============================================================================
