----------------------------- MODULE MwChainGen -----------------------------
(* Generator: every middleware list / base handler / nesting / spare         *)
(* capacity of MwChain with the visit log, Server header values and response *)
(* the specification predicts for EVERY round over the same array.  Emitted  *)
(* once per run, at the end of the last round.                               *)
EXTENDS MwChain, Json, CSV, TLCExt

Vector == [mws |-> mws, hk |-> hk, k |-> k, j |-> j, spare |-> Len(arr) - N, rounds |-> Rounds,
           visits |-> visits, server |-> server, resp |-> resp]
Emit == (phase = "done" /\ round = Rounds) => CSVWrite("%1$s", <<ToJson(Vector)>>, "mwchain_vectors.ndjson")
=============================================================================
