SPECIFICATION Spec
CONSTANTS
  MaxN = 4
  Kinds = {"pass", "short", "prepost", "srvhdr"}
  HKinds = {"rec", "plain"}
  Reverse = FALSE
INVARIANTS TypeOK VisitOrder AtMostOnce ClosedForm
CHECK_DEADLOCK FALSE
