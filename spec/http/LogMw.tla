------------------------------- MODULE LogMw -------------------------------
(* httputil.LogMiddleware under concurrent requests (property C20).           *)
(*                                                                            *)
(* One process per request slot; the steps of a process mirror                *)
(* netutil/httputil/logmw.go, LogMiddleware.Wrap, as written:                  *)
(*                                                                            *)
(*   getattr    attrsPtr := mw.attrPool.Get(); fill host/method/raddr/uri     *)
(*              from r              (defer attrPool.Put  -- runs last)        *)
(*   withattrs  logHdlr := mw.logger.Handler().WithAttrs( *attrsPtr )         *)
(*              (the base slog.Handler "owns the slice: it may retain ...":   *)
(*              Retain = TRUE models a handler that keeps the slice itself,   *)
(*              FALSE one that copies / pre-formats it)                       *)
(*   getreq     nextReq := mw.reqPool.Get(); CopyRequestTo(ctx, nextReq, r)   *)
(*   getrw      rw := mw.rwPool.Get(); rw.Reset(w)                            *)
(*   started    l.Log(ctx, lvl, "started")                                    *)
(*   hpre       h.ServeHTTP(rw, nextReq): the inner handler reads its request *)
(*              and logs through the context logger                           *)
(*   op / cw    for each handler call: rw.WriteHeader(c) { w.code = c ;       *)
(*              w.rw.WriteHeader(c) } or rw.Write(b) { w.rw.Write(b) }; "op"  *)
(*              is the wrapper's part, "cw" the client writer's part          *)
(*   hpost      the inner handler reads again and returns                     *)
(*   setimpl    rw.SetImplicitSuccess()                                       *)
(*   readcode   deferred logFinished: after l.Enabled the arguments           *)
(*              ("code", rw.code, ...) are evaluated                          *)
(*   finished   ... and the "finished" record is handed to the handler        *)
(*   putrw, putreq, putattr   the deferred Puts, in this order                *)
(*                                                                            *)
(* The three sync.Pools are sets of object ids: Get takes any free object or  *)
(* a new one (sync.Pool gives no more than that), Put makes it free again.    *)
(* Objects are never cleared by Put; what a later owner finds in them is      *)
(* whatever the previous owner left.                                          *)
(*                                                                            *)
(* Variant # "asWritten" switches on one design mutation; TLC must then find  *)
(* a violated invariant (negative runs: they show why Reset, the defer order, *)
(* SetImplicitSuccess and one slice per request are needed, and that the      *)
(* invariants are not vacuous).                                               *)
EXTENDS HttpOps, Integers, Sequences, FiniteSets, TLC

CONSTANTS Procs,      \* request slots, a set of positive integers
          InitOps,    \* the handler behaviours Init chooses from: a set of functions Procs -> call sequence
          MaxObj,     \* bound on the objects a pool ever allocates (model checking only)
          Retain,     \* BOOLEAN, see withattrs above
          PolA, PolQ, PolW,  \* Get policy of the attr / request / response-writer pool:
                      \* "any": any free object or a new one (all sync.Pool promises);
                      \* "min": the lowest free one, else new (deterministic, for generators);
                      \* "own": slot p always gets object p (an ideal pool without sharing: lets TLC
                      \*        study the pools one at a time with three requests)
          FormOf,     \* [Procs -> Forms]: the request-target form of each slot's request
          UpOf,       \* [Procs -> Seq(WrapperKinds)]: the foreign ResponseWriter wrappers between the client's
                      \* writer and the LogMiddleware on each slot's route, outermost first
          ClientOf,   \* [Procs -> ClientKinds]: what each slot's client writer offers (io.ReaderFrom, ...)
          MaxToggles, \* how often the environment changes the logger's level (SetLevel)
          MwEnabled,  \* BOOLEAN: the middleware's level is enabled in the base handler WHEN THE MIDDLEWARE
                      \* IS CONSTRUCTED; afterwards the level is environment state (lvl.on).  When it is
                      \* not, "started" / "finished" are not emitted (and rw.code is never read), but the
                      \* context logger must carry the request's attributes all the same: the inner
                      \* handler may log at a level that IS enabled.
          Variant,    \* "asWritten" or the name of a design mutation
          KeepRecords \* BOOLEAN: keep the history of log records (off for long traces)

VARIABLES pc,         \* [Procs -> step name]
          rid,        \* [Procs -> request identity]   (0 = none)
          ops,        \* [Procs -> sequence of handler calls [op, c]]
          ip,         \* [Procs -> index of the next handler call]
          nA, nQ, nW,             \* objects allocated so far by the attr / request / response-writer pool
          freeA, freeQ, freeW,    \* objects currently in each pool
          attrObj,    \* attr slice contents: the request whose host/method/raddr/request_uri it holds
          reqObj,     \* pooled *http.Request contents: [rid, lg] (copy of request rid, ctx logger lg)
          rwObj,      \* pooled CodeRecorderResponseWriter: [cl |-> client writer of request, code]
          hA, hQ, hW, \* the local pointers attrsPtr / nextReq / rw of each process (0 = nil)
          lg,         \* the local logger l of each process
          fincode,    \* the evaluated "code" argument of the finished record
          client,     \* [Procs -> calls received by that request's own http.ResponseWriter]
          stray,      \* calls that reached the writer of a request that is not live any more
          records,    \* history: log records handed to the base handler
          lvl         \* the logger's level, mutable (slog.LevelVar): [on |-> the middleware's level is
                      \* enabled now, n |-> changes so far]

vars == <<pc, rid, ops, ip, nA, nQ, nW, freeA, freeQ, freeW, attrObj, reqObj, rwObj,
          hA, hQ, hW, lg, fincode, client, stray, records, lvl>>

(* Everything but the history variable; used as VIEW when model checking. *)
View == <<pc, rid, ops, ip, nA, nQ, nW, freeA, freeQ, freeW, attrObj, reqObj, rwObj,
          hA, hQ, hW, lg, fincode, client, stray, lvl>>

----------------------------------------------------------------------------
NoLogger == [k |-> "none", a |-> 0, v |-> 0]

(* "Fast path for a disabled level": no attribute slice, no derived logger, *)
(* no code recorder; the handler gets a pooled request copy whose context   *)
(* carries the bare base logger.                                            *)
Fast == Variant = "fastPathDisabled" /\ ~MwEnabled
FirstStep == IF Fast THEN "getreq" ELSE "getattr"

(* The request whose attributes a logger carries at this moment. *)
LgRid(l) == IF l.k = "ref" THEN attrObj[l.a] ELSE l.v

(* A capability call reaches the client's writer iff every foreign wrapper  *)
(* on the way lets it through and the client's writer has it.                *)
Reach(p, o) == \/ o.op \in {"w", "wh", "cp"}
               \/ /\ o.op \in Capabilities
                  /\ ChainPasses(UpOf[p], o.op)
                  /\ ~(o.op = "hj" /\ o.c = 3)

(* The calls process p has completed so far, as its own client must see them. *)
Wrote(p) == LET done == [i \in 1..(ip[p] - 1) |-> [op |-> ops[p][i].op, c |-> ops[p][i].c, by |-> rid[p]]]
            IN SelectSeq(done, LAMBDA e : Reach(p, e))     \* what cannot get through has nothing to be received

Max(a, b) == IF a > b THEN a ELSE b
Cand(pol, free, n, p) ==
    CASE pol = "min" -> IF free # {} THEN {CHOOSE x \in free : \A y \in free : x <= y} ELSE {n + 1}
      [] pol = "own" -> {p}
      [] OTHER -> free \cup (IF n < MaxObj THEN {n + 1} ELSE {})
NProcs == Cardinality(Procs)
InitN(pol) == IF pol = "own" THEN NProcs ELSE 0
InitObjs(pol, zero) == IF pol = "own" THEN [i \in 1..NProcs |-> zero] ELSE <<>>

Rec(r) == IF KeepRecords THEN Append(records, r) ELSE records

Put(f, i, v) == IF i <= Len(f) THEN [f EXCEPT ![i] = v] ELSE Append(f, v)

----------------------------------------------------------------------------
InitWith(o) ==
    /\ pc = [p \in Procs |-> FirstStep]
    /\ rid = [p \in Procs |-> p]
    /\ ops = o
    /\ ip = [p \in Procs |-> 1]
    /\ nA = InitN(PolA) /\ nQ = InitN(PolQ) /\ nW = InitN(PolW)
    /\ freeA = {} /\ freeQ = {} /\ freeW = {}
    /\ attrObj = InitObjs(PolA, 0)
    /\ reqObj = InitObjs(PolQ, [rid |-> 0, lg |-> NoLogger, tm |-> 0])
    /\ rwObj = InitObjs(PolW, [cl |-> 0, code |-> 0, hj |-> FALSE])
    /\ hA = [p \in Procs |-> 0] /\ hQ = [p \in Procs |-> 0] /\ hW = [p \in Procs |-> 0]
    /\ lg = [p \in Procs |-> NoLogger]
    /\ fincode = [p \in Procs |-> 0]
    /\ client = [p \in Procs |-> <<>>]
    /\ stray = 0
    /\ records = <<>>
    /\ lvl = [on |-> MwEnabled, n |-> 0]

Init == \E o \in InitOps : InitWith(o)

Goto(p, l) == pc' = [pc EXCEPT ![p] = l]

(* logFinished asks `l.Enabled(ctx, mw.lvl)`, i.e. the live level.  (Variant *)
(* "cachedEnabled": it looks at a flag computed once by NewLogMiddleware.)   *)
FinGate == IF Variant = "cachedEnabled" THEN MwEnabled ELSE lvl.on

(* request-target forms per slot (a .cfg cannot hold functions) *)
FormSeq(a, b, c) == [p \in Procs |-> IF p = 1 THEN a ELSE IF p = 2 THEN b ELSE c]
UpSeq(a, b, c) == [p \in Procs |-> IF p = 1 THEN a ELSE IF p = 2 THEN b ELSE c]
ClientsPlain == [p \in Procs |-> "plain"]
ClientsPRS == [p \in Procs |-> IF p = 1 THEN "plain" ELSE IF p = 2 THEN "readerfrom" ELSE "stringwriter"]
ClientsRSP == [p \in Procs |-> IF p = 1 THEN "readerfrom" ELSE IF p = 2 THEN "stringwriter" ELSE "plain"]
UpNone == [p \in Procs |-> <<>>]
UpUFO == UpSeq(<<"unwrap">>, <<"flushfwd">>, <<"opaque">>)
UpUUN == UpSeq(<<"unwrap", "unwrap">>, <<>>, <<"unwrap">>)
UpONU == UpSeq(<<"opaque">>, <<>>, <<"unwrap", "flushfwd">>)
FormsOrigin == [p \in Procs |-> "origin"]
FormsOAU == FormSeq("origin", "absolute", "authority")
FormsAUS == FormSeq("absolute", "authority", "asterisk")
FormsUEO == FormSeq("authority", "escaped", "origin")
FormsSAE == FormSeq("asterisk", "absolute", "escaped")
FormsEOA == FormSeq("escaped", "origin", "absolute")

(* Program order.  As written, and with one Put moved (design mutations).   *)
AsWrittenAfter(s) ==
    CASE s = "getattr" -> "withattrs" [] s = "withattrs" -> "getreq" [] s = "getreq" -> "getrw"
      [] s = "getrw" -> "started"     [] s = "started" -> "hpre"     [] s = "hpost" -> "setimpl"
      [] s = "setimpl" -> "readcode"  [] s = "readcode" -> "finished" [] s = "finished" -> "putrw"
      [] s = "putrw" -> "putreq"      [] s = "putreq" -> "putattr"   [] s = "putattr" -> "end"
After(s) ==
    CASE Fast /\ s = "getreq" -> "hpre"
      [] Fast /\ s = "hpost"  -> "putreq"
      [] Fast /\ s = "putreq" -> "end"
      [] Variant = "putRwBeforeFinished" /\ s = "setimpl"  -> "putrw"
      [] Variant = "putRwBeforeFinished" /\ s = "putrw"    -> "readcode"
      [] Variant = "putRwBeforeFinished" /\ s = "finished" -> "putreq"
      [] Variant = "putRwBeforeHandler"  /\ s = "getrw"    -> "putrw"
      [] Variant = "putRwBeforeHandler"  /\ s = "putrw"    -> "started"
      [] Variant = "putRwBeforeHandler"  /\ s = "finished" -> "putreq"
      [] Variant = "putReqBeforeHandler" /\ s = "getreq"   -> "putreq"
      [] Variant = "putReqBeforeHandler" /\ s = "putreq"   -> "getrw"
      [] Variant = "putReqBeforeHandler" /\ s = "putrw"    -> "putattr"
      [] Variant = "putAttrEarly"        /\ s = "withattrs" -> "putattr"
      [] Variant = "putAttrEarly"        /\ s = "putattr"  -> "getreq"
      [] Variant = "putAttrEarly"        /\ s = "putreq"   -> "end"
      [] OTHER -> AsWrittenAfter(s)
(* A Put that is followed by further uses leaves the local pointer alive. *)
EarlyPut(pool) == \/ pool = "rw"   /\ Variant \in {"putRwBeforeFinished", "putRwBeforeHandler"}
                  \/ pool = "req"  /\ Variant = "putReqBeforeHandler"
                  \/ pool = "attr" /\ Variant = "putAttrEarly"

(* A new request enters slot p (trace validation; Init starts every slot). *)
Begin(p, r, o) ==
    /\ pc[p] \in {"idle", "done"}
    /\ rid' = [rid EXCEPT ![p] = r]
    /\ ops' = [ops EXCEPT ![p] = o]
    /\ ip' = [ip EXCEPT ![p] = 1]
    /\ client' = [client EXCEPT ![p] = <<>>]
    /\ Goto(p, FirstStep)
    /\ UNCHANGED <<lvl, nA, nQ, nW, freeA, freeQ, freeW, attrObj, reqObj, rwObj, hA, hQ, hW, lg,
                   fincode, stray, records>>

GetAttrObj(p, a) ==
    /\ pc[p] = "getattr"
    /\ a \in Cand(PolA, freeA, nA, p)
    /\ nA' = Max(nA, a)
    /\ freeA' = IF Variant = "sharedAttr" THEN freeA \cup {a} ELSE freeA \ {a}
    /\ attrObj' = Put(attrObj, a, rid[p])
    /\ hA' = [hA EXCEPT ![p] = a]
    /\ Goto(p, After("getattr"))
    /\ UNCHANGED <<lvl, rid, ops, ip, nQ, nW, freeQ, freeW, reqObj, rwObj, hQ, hW, lg, fincode,
                   client, stray, records>>
GetAttr(p) == \E a \in 1..(nA + 1) : GetAttrObj(p, a)

WithAttrs(p) ==
    /\ pc[p] = "withattrs"
    /\ lg' = [lg EXCEPT ![p] = IF Retain THEN [k |-> "ref", a |-> hA[p], v |-> 0]
                                         ELSE [k |-> "copy", a |-> 0, v |-> attrObj[hA[p]]]]
    /\ Goto(p, After("withattrs"))
    /\ UNCHANGED <<lvl, rid, ops, ip, nA, nQ, nW, freeA, freeQ, freeW, attrObj, reqObj, rwObj,
                   hA, hQ, hW, fincode, client, stray, records>>

GetReqObj(p, q) ==
    /\ pc[p] = "getreq"
    /\ q \in Cand(PolQ, freeQ, nQ, p)
    /\ nQ' = Max(nQ, q)
    /\ freeQ' = freeQ \ {q}
    /\ reqObj' = Put(reqObj, q, [rid |-> rid[p], lg |-> lg[p],
                                  \* CopyRequestTo is a shallow copy: the copy shares the client's maps, in
                                  \* particular the Trailer map net/http fills when the body reaches EOF
                                  tm |-> IF Variant = "cloneRequest" THEN 0 ELSE rid[p]])
    /\ hQ' = [hQ EXCEPT ![p] = q]
    /\ Goto(p, After("getreq"))
    /\ UNCHANGED <<lvl, rid, ops, ip, nA, nW, freeA, freeW, attrObj, rwObj, hA, hW, lg, fincode,
                   client, stray, records>>
GetReq(p) == \E q \in 1..(nQ + 1) : GetReqObj(p, q)

GetRwObj(p, w) ==
    /\ pc[p] = "getrw"
    /\ w \in Cand(PolW, freeW, nW, p)
    /\ nW' = Max(nW, w)
    /\ freeW' = freeW \ {w}
    /\ rwObj' = Put(rwObj, w, [cl |-> rid[p],
                               code |-> IF Variant = "noCodeReset" /\ w <= nW THEN rwObj[w].code ELSE 0,
                               hj |-> IF Variant = "stickyHijack" /\ w <= nW THEN rwObj[w].hj ELSE FALSE])
    /\ hW' = [hW EXCEPT ![p] = w]
    /\ Goto(p, After("getrw"))
    /\ UNCHANGED <<lvl, rid, ops, ip, nA, nQ, freeA, freeQ, attrObj, reqObj, hA, hQ, lg, fincode,
                   client, stray, records>>
GetRw(p) == \E w \in 1..(nW + 1) : GetRwObj(p, w)

StartedRec(p) == [m |-> "started", by |-> rid[p], ar |-> LgRid(lg[p]), c |-> 0]
Started(p) ==
    /\ pc[p] = "started"
    /\ records' = (IF lvl.on THEN Rec(StartedRec(p)) ELSE records)     \* l.Log asks the live level
    /\ Goto(p, After("started"))
    /\ UNCHANGED <<lvl, rid, ops, ip, nA, nQ, nW, freeA, freeQ, freeW, attrObj, reqObj, rwObj,
                   hA, hQ, hW, lg, fincode, client, stray>>

(* What the inner handler of p observes right now: the request in the pooled *)
(* *http.Request it was given, the request whose attributes its context      *)
(* logger carries, and the client writer behind the wrapper it was given.    *)
RwOf(p) == IF hW[p] = 0 THEN [cl |-> rid[p], code |-> 0, hj |-> FALSE] ELSE rwObj[hW[p]]   \* no wrapper: the client's own writer
Obs(p) == [seen |-> reqObj[hQ[p]].rid, lr |-> LgRid(reqObj[hQ[p]].lg), cl |-> RwOf(p).cl, tm |-> reqObj[hQ[p]].tm]

(* The request_uri attribute of a logger that carries the attributes of     *)
(* request r: as written it is r's RequestURI field.                         *)
FormOfRid(r) == IF \E t \in Procs : rid[t] = r THEN FormOf[CHOOSE t \in Procs : rid[t] = r] ELSE "origin"
UriAttr(r) == IF Variant = "urlRequestURI" THEN UrlRequestURIOf(FormOfRid(r)) ELSE RequestURIOf(FormOfRid(r))
UriOK(p, r) == UriAttr(r) = RequestURIOf(FormOf[p])
ProbeRec(p) == [m |-> "probe", by |-> rid[p], ar |-> Obs(p).lr, c |-> 0]

HPre(p) ==
    /\ pc[p] = "hpre"
    /\ records' = Rec(ProbeRec(p))
    /\ Goto(p, IF Len(ops[p]) = 0 THEN "hpost" ELSE "op")
    /\ UNCHANGED <<lvl, rid, ops, ip, nA, nQ, nW, freeA, freeQ, freeW, attrObj, reqObj, rwObj,
                   hA, hQ, hW, lg, fincode, client, stray>>

(* The wrapper's half of the call: WriteHeader records the code; Hijack and  *)
(* Flush are forwarded (Hijack by the wrapper's own method, Flush through    *)
(* Unwrap).  As written the wrapper keeps no other state.  (Variant          *)
(* "stickyHijack": a successful Hijack sets a flag that makes the wrapper    *)
(* swallow later Write / WriteHeader calls and that Reset does not clear.)   *)
Sticky == Variant = "stickyHijack"
Swallowed(p, o) == Sticky /\ hW[p] # 0 /\ rwObj[hW[p]].hj /\ o.op \in {"w", "wh", "cp"}
(* A capability call reaches the client's writer iff every foreign wrapper  *)
(* on the way lets it through and the client's writer has it.  (Variant      *)
(* "hijackByAssertion": the recorder's Hijack does `w.rw.(http.Hijacker)`    *)
(* instead of using a ResponseController, so it only sees the writer right   *)
(* next to it - an Unwrap-only wrapper there ends the search.)               *)
AssertionMiss(p, o) == /\ Variant = "hijackByAssertion" /\ o.op = "hj" /\ hW[p] # 0
                       /\ Len(UpOf[p]) > 0        \* the neighbour is a foreign wrapper: none of them is a Hijacker
NotCalled(p, o) == ~Reach(p, o) \/ AssertionMiss(p, o) \/ Swallowed(p, o)     \* the client writer is not reached
Op(p) ==
    /\ pc[p] = "op"
    /\ LET o == ops[p][ip[p]] IN
         /\ rwObj' = IF hW[p] = 0 \/ Swallowed(p, o) THEN rwObj
                      ELSE IF o.op = "wh" THEN [rwObj EXCEPT ![hW[p]].code = o.c]
                      ELSE IF o.op = "hj" /\ o.c = 1 /\ Sticky THEN [rwObj EXCEPT ![hW[p]].hj = TRUE]
                      ELSE rwObj
         /\ ip' = IF NotCalled(p, o) THEN [ip EXCEPT ![p] = @ + 1] ELSE ip
         /\ Goto(p, IF ~NotCalled(p, o) THEN "cw" ELSE IF ip[p] = Len(ops[p]) THEN "hpost" ELSE "op")
    /\ UNCHANGED <<lvl, rid, ops, nA, nQ, nW, freeA, freeQ, freeW, attrObj, reqObj,
                   hA, hQ, hW, lg, fincode, client, stray, records>>

(* The client writer's half: the call reaches whatever writer the wrapper   *)
(* points at now.                                                            *)
Cw(p) ==
    /\ pc[p] = "cw"
    /\ LET o == ops[p][ip[p]]
           \* As written the recorder has only Write, so every helper ends up in plain Write calls and all
           \* bytes arrive.  (Variant "readFromDropsEOFChunk": the recorder has a ReadFrom that delegates to
           \* the neighbouring writer's, or else copies with a loop that throws the last chunk away when it
           \* comes together with io.EOF.)
           lost == /\ Variant = "readFromDropsEOFChunk" /\ o.op = "cp" /\ o.c = 2 /\ hW[p] # 0
                   /\ ~(Len(UpOf[p]) = 0 /\ ClientOf[p] = "readerfrom")
           call == [op |-> o.op, c |-> IF lost THEN 0 - o.c ELSE o.c, by |-> rid[p]]
           to == RwOf(p).cl
       IN IF \E t \in Procs : rid[t] = to
            THEN /\ client' = [t \in Procs |-> IF rid[t] = to THEN Append(client[t], call) ELSE client[t]]
                 /\ UNCHANGED stray
            ELSE /\ stray' = stray + 1
                 /\ UNCHANGED client
    /\ ip' = [ip EXCEPT ![p] = @ + 1]
    /\ Goto(p, IF ip[p] = Len(ops[p]) THEN "hpost" ELSE "op")
    /\ UNCHANGED <<lvl, rid, ops, nA, nQ, nW, freeA, freeQ, freeW, attrObj, reqObj, rwObj,
                   hA, hQ, hW, lg, fincode, records>>

HPost(p) ==
    /\ pc[p] = "hpost"
    /\ records' = Rec(ProbeRec(p))
    /\ Goto(p, After("hpost"))
    /\ UNCHANGED <<lvl, rid, ops, ip, nA, nQ, nW, freeA, freeQ, freeW, attrObj, reqObj, rwObj,
                   hA, hQ, hW, lg, fincode, client, stray>>

SetImpl(p) ==
    /\ pc[p] = "setimpl"
    /\ rwObj' = IF rwObj[hW[p]].code = 0 /\ Variant # "noImplicit"
                  THEN [rwObj EXCEPT ![hW[p]].code = 200] ELSE rwObj
    /\ Goto(p, After("setimpl"))
    /\ UNCHANGED <<lvl, rid, ops, ip, nA, nQ, nW, freeA, freeQ, freeW, attrObj, reqObj,
                   hA, hQ, hW, lg, fincode, client, stray, records>>

ReadCode(p) ==
    /\ pc[p] = "readcode"
    /\ fincode' = (IF FinGate THEN [fincode EXCEPT ![p] = rwObj[hW[p]].code] ELSE fincode)
    /\ Goto(p, After("readcode"))
    /\ UNCHANGED <<lvl, rid, ops, ip, nA, nQ, nW, freeA, freeQ, freeW, attrObj, reqObj, rwObj,
                   hA, hQ, hW, lg, client, stray, records>>

FinishedRec(p) == [m |-> "finished", by |-> rid[p], ar |-> LgRid(lg[p]), c |-> fincode[p]]
Finished(p) ==
    /\ pc[p] = "finished"
    /\ records' = (IF FinGate /\ lvl.on THEN Rec(FinishedRec(p)) ELSE records)
    /\ Goto(p, After("finished"))
    /\ UNCHANGED <<lvl, rid, ops, ip, nA, nQ, nW, freeA, freeQ, freeW, attrObj, reqObj, rwObj,
                   hA, hQ, hW, lg, fincode, client, stray>>

(* Put: the object is free again; the local pointer is dead unless the      *)
(* (mutated) code goes on using it.                                          *)
PutRw(p) ==
    /\ pc[p] = "putrw"
    /\ freeW' = freeW \cup {hW[p]}
    /\ hW' = IF EarlyPut("rw") THEN hW ELSE [hW EXCEPT ![p] = 0]
    /\ Goto(p, After("putrw"))
    /\ UNCHANGED <<lvl, rid, ops, ip, nA, nQ, nW, freeA, freeQ, attrObj, reqObj, rwObj,
                   hA, hQ, lg, fincode, client, stray, records>>

PutReq(p) ==
    /\ pc[p] = "putreq"
    /\ freeQ' = freeQ \cup {hQ[p]}
    /\ hQ' = IF EarlyPut("req") THEN hQ ELSE [hQ EXCEPT ![p] = 0]
    /\ Goto(p, After("putreq"))
    /\ UNCHANGED <<lvl, rid, ops, ip, nA, nQ, nW, freeA, freeW, attrObj, reqObj, rwObj,
                   hA, hW, lg, fincode, client, stray, records>>

PutAttr(p) ==
    /\ pc[p] = "putattr"
    /\ freeA' = freeA \cup {hA[p]}
    /\ hA' = IF EarlyPut("attr") THEN hA ELSE [hA EXCEPT ![p] = 0]
    /\ Goto(p, After("putattr"))
    /\ UNCHANGED <<lvl, rid, ops, ip, nA, nQ, nW, freeQ, freeW, attrObj, reqObj, rwObj,
                   hQ, hW, lg, fincode, client, stray, records>>

(* ServeHTTP returns: every local dies. *)
End(p) ==
    /\ pc[p] = "end"
    /\ hA' = [hA EXCEPT ![p] = 0] /\ hQ' = [hQ EXCEPT ![p] = 0] /\ hW' = [hW EXCEPT ![p] = 0]
    /\ lg' = [lg EXCEPT ![p] = NoLogger]
    /\ fincode' = [fincode EXCEPT ![p] = 0]
    /\ Goto(p, "done")
    /\ UNCHANGED <<lvl, rid, ops, ip, nA, nQ, nW, freeA, freeQ, freeW, attrObj, reqObj, rwObj,
                   client, stray, records>>

Step(p) == \/ GetAttr(p) \/ WithAttrs(p) \/ GetReq(p) \/ GetRw(p) \/ Started(p) \/ HPre(p)
           \/ Op(p) \/ Cw(p) \/ HPost(p) \/ SetImpl(p) \/ ReadCode(p) \/ Finished(p)
           \/ PutRw(p) \/ PutReq(p) \/ PutAttr(p) \/ End(p)

(* The environment changes the logger's level (slog.LevelVar.Set): between   *)
(* the construction of the middleware and the requests, and between          *)
(* requests - never while a request is in flight, so that "the level at the  *)
(* time of the request" is well defined.                                     *)
Quiet == \A p \in Procs : pc[p] \in {"idle", "done", FirstStep} /\ hA[p] = 0 /\ hQ[p] = 0 /\ hW[p] = 0
SetLevel == /\ lvl.n < MaxToggles
            /\ Quiet
            /\ lvl' = [on |-> ~lvl.on, n |-> lvl.n + 1]
            /\ UNCHANGED <<pc, rid, ops, ip, nA, nQ, nW, freeA, freeQ, freeW, attrObj, reqObj, rwObj,
                           hA, hQ, hW, lg, fincode, client, stray, records>>

Next == (\E p \in Procs : Step(p)) \/ SetLevel

Spec == Init /\ [][Next]_vars

----------------------------------------------------------------------------
(* Invariants: the LogMiddleware half of property C20. *)

InHandler == {"hpre", "op", "cw", "hpost"}
Live(p) == pc[p] \notin {"idle", "done"}

TypeOK ==
    /\ \A p \in Procs : /\ hA[p] \in 0..nA /\ hQ[p] \in 0..nQ /\ hW[p] \in 0..nW
                        /\ ip[p] \in 1..(Len(ops[p]) + 1)
    /\ freeA \subseteq 1..nA /\ freeQ \subseteq 1..nQ /\ freeW \subseteq 1..nW
    /\ Len(attrObj) = nA /\ Len(reqObj) = nQ /\ Len(rwObj) = nW

(* A pooled object is owned by at most one live request, and an owned object *)
(* is not in the pool.                                                        *)
Owns(h, free) == \A p \in Procs : h[p] # 0 =>
                    /\ h[p] \notin free
                    /\ \A t \in Procs \ {p} : h[t] # h[p]
Ownership == Owns(hA, freeA) /\ Owns(hQ, freeQ) /\ Owns(hW, freeW)

(* Whenever the inner handler of p runs, what it can read is its own request, *)
(* its context logger carries its own request's attributes, and the writer    *)
(* it was given leads to its own client.                                      *)
HandlerSeesOwn == \A p \in Procs : pc[p] \in InHandler =>
                     /\ Obs(p).seen = rid[p]
                     /\ Obs(p).lr = rid[p]
                     /\ Obs(p).cl = rid[p]
                     /\ Obs(p).tm = rid[p]          \* its trailers are the client's (filled at body EOF)
                     /\ UriOK(p, Obs(p).lr)         \* request_uri = the RequestURI the client sent

(* The middleware's own records carry its own request's attributes. *)
LoggerOwn == \A p \in Procs : pc[p] \in {"started", "finished"} =>
                 /\ LgRid(lg[p]) = rid[p]
                 /\ UriOK(p, LgRid(lg[p]))

(* Fresh after Reset: the wrapper a request got from the pool is, in every   *)
(* field, what NewCodeRecorderResponseWriter(w) would have given it.         *)
FreshAfterReset == \A p \in Procs : (pc[p] = "started" /\ hW[p] # 0) =>
                      rwObj[hW[p]] = [cl |-> rid[p], code |-> 0, hj |-> FALSE]

(* The finished record reports the code this invocation set, or 200. *)
FinishedCode == \A p \in Procs : (lvl.on /\ pc[p] = "finished") =>
                   /\ fincode[p] = ExpectedFin(ops[p])
                   /\ fincode[p] \in AllowedFin(ops[p])

(* Each client has received exactly the calls its own invocation made. *)
ClientExact == /\ stray = 0
               /\ \A p \in Procs : rid[p] # 0 => client[p] = Wrote(p)

(* On the history: every record carries the attributes of the request that  *)
(* emitted it; started / finished appear once per finished request.          *)
RecordsOwn == \A i \in 1..Len(records) : records[i].ar = records[i].by
CountOf(m, r) == Cardinality({i \in 1..Len(records) : records[i].m = m /\ records[i].by = r})
OncePerRequest == \A p \in Procs : pc[p] = "done" =>
                     /\ CountOf("started", rid[p]) <= 1
                     /\ CountOf("finished", rid[p]) = CountOf("started", rid[p])

(* The records of a request are governed by the logger's level AT THE TIME  *)
(* OF THAT REQUEST (the level only changes while no request is in flight,    *)
(* so it is still that level right after the finished step).                 *)
AfterFinished == {"putrw", "putreq", "putattr", "end"}
LevelGoverns == \A p \in Procs : (Variant \in {"asWritten", "cachedEnabled"} /\ pc[p] \in AfterFinished) =>
                   /\ CountOf("started", rid[p]) = (IF lvl.on THEN 1 ELSE 0)
                   /\ CountOf("finished", rid[p]) = (IF lvl.on THEN 1 ELSE 0)
=============================================================================
