SPECIFICATION Spec
CONSTANTS
  MaxN = 4
  Kinds = {"pass", "short", "prepost", "srvhdr"}
  HKinds = {"rec", "plain"}
  Reverse = FALSE
INVARIANTS Emit VisitOrder AtMostOnce
CHECK_DEADLOCK FALSE
