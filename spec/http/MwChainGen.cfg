SPECIFICATION Spec
CONSTANTS
  MaxN = 4
  Kinds = {"pass", "short", "prepost", "srvhdr"}
  HKinds = {"rec", "plain"}
  Spares = {0, 2}
  MaxOverlap = 1
  Rounds = 2
  Variant = "asWritten"
INVARIANTS Emit TypeOK VisitOrder CallerListIntact AtMostOnce ClosedForm
CHECK_DEADLOCK FALSE
