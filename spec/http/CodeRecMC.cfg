SPECIFICATION Spec
CONSTANTS
  MaxSteps = 7
  CopyKinds = {2, 4, 6}
  Variant = "asWritten"
  Codes = {101, 103, 404}
INVARIANTS FreshAfterReset HijackReaches UnderExact CodeOK LastWins
CHECK_DEADLOCK FALSE
