SPECIFICATION Spec
CONSTANTS
  MaxSteps = 7
  Codes = {101, 103, 200, 404}
INVARIANTS CodeOK LastWins
CHECK_DEADLOCK FALSE
