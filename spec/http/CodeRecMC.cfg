SPECIFICATION Spec
CONSTANTS
  MaxSteps = 7
  Codes = {200, 404, 500}
INVARIANTS CodeOK LastWins
CHECK_DEADLOCK FALSE
