SPECIFICATION Spec
CONSTANTS
  MaxSteps = 7
  Variant = "asWritten"
  Codes = {101, 103, 404}
INVARIANTS FreshAfterReset HijackReaches CodeOK LastWins
CHECK_DEADLOCK FALSE
