SPECIFICATION Spec
CONSTANTS
  MaxSteps = 7
  Variant = "asWritten"
  Codes = {101, 103, 200, 404}
INVARIANTS FreshAfterReset CodeOK LastWins
CHECK_DEADLOCK FALSE
