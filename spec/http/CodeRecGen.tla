----------------------------- MODULE CodeRecGen -----------------------------
(* Every call sequence of CodeRec up to MaxSteps with the predicted state.   *)
EXTENDS CodeRec, Json, CSV, TLCExt
VARIABLE hist
gvars == <<vars, hist>>
GInit == Init /\ hist = <<>>
GNext == /\ steps < MaxSteps
         /\ steps' = steps + 1
         /\ \E o \in Alphabet : Act(o) /\ hist' = Append(hist, o)
GSpec == GInit /\ [][GNext]_gvars
Emit == CSVWrite("%1$s", <<ToJson([ops |-> hist, code |-> code, allowed |-> AllowedCode, base |-> base, rets |-> [x \in 1..Len(rets) |-> rets[x].r],
                                   under |-> under])>>, "coderec_vectors.ndjson")
=============================================================================
