---------------------------- MODULE LogMwCompose ----------------------------
(* COMPOSITION of httputil.LogMiddleware instances (property C20).           *)
(*                                                                            *)
(* Several middleware instances exist, each with its own three sync.Pools;    *)
(* a request enters through a ROUTE, the list of instances it passes from     *)
(* the outside in: <<1, 2>> is outer o inner, <<2>> the inner one mounted     *)
(* alone on another route, <<1, 1>> the same instance wrapped twice.  Every   *)
(* layer of a route executes LogMiddleware.Wrap as written (LogMw.tla has     *)
(* the single-layer model at statement granularity; here the three deferred   *)
(* Puts are one step):                                                        *)
(*                                                                            *)
(*   getattr, withattrs, getreq, getrw, started     -- going in, per layer    *)
(*   hpre, (op, cw)*, hpost                          -- the inner handler     *)
(*   setimpl, readcode, finished, puts               -- coming out, per layer *)
(*                                                                            *)
(* The writer a layer wraps (rw.Reset(w)) is its upstream: the client's own   *)
(* writer for the outermost layer, the enclosing layer's recorder otherwise;  *)
(* WriteHeader sets the code of every recorder on the way and reaches the     *)
(* client at the end of the chain of `rw` pointers AS THEY ARE at that time.  *)
(*                                                                            *)
(* Every pooled object is tagged with the instance whose pool created it.     *)
(* PoolPurity: a pool only ever holds objects of its own instance, each at    *)
(* most once (no foreign Put, no double Put).  Warm-up requests (WarmProcs)   *)
(* run to completion, in order, before the others start, so that the          *)
(* interleaved requests meet used pools.                                      *)
(*                                                                            *)
(* Variant "reuseUpstreamRecorder" is the design mutation "an inner layer     *)
(* whose upstream is already a recorder uses it as its own (no Get, no        *)
(* Reset) but still Puts it into its own pool".                               *)
EXTENDS HttpOps, Integers, Sequences, FiniteSets, TLC

CONSTANTS Procs,      \* request slots 1..N
          Mws,        \* middleware instances
          Setups,     \* what Init chooses from: records [routes, ops], both sequences over Procs
          WarmProcs,  \* the slots that are warm-up requests
          MaxObj,     \* bound on the objects of one kind (model checking only)
          Policy,     \* "any": Get = any pooled object or a new one; "pooled": a new one only when the
                      \* pool is empty; "min": deterministic (generators)
          Retain,     \* BOOLEAN: the base slog.Handler keeps the slice given to WithAttrs
          Variant

VARIABLES pc, route, ops, ip,
          frames,     \* [Procs -> stack of layer frames [m, a, q, w, lg, fin]], outermost first
          objA,       \* attr slices:   sequence of [mw, rid]
          objQ,       \* requests:      sequence of [mw, rid, lg]
          objW,       \* recorders:     sequence of [mw, up, code],  up = [k |-> "client" | "rw", x |-> id]
          freeA, freeQ, freeW,   \* [Mws -> sequence of object ids]: the pools (sequences, so that a double Put shows)
          tgt,        \* the client a call in flight was dispatched to
          client, stray, records

vars == <<pc, route, ops, ip, frames, objA, objQ, objW, freeA, freeQ, freeW, tgt, client, stray, records>>
View == <<pc, route, ops, ip, frames, objA, objQ, objW, freeA, freeQ, freeW, tgt, client, stray>>

rid(p) == p
NoLogger == [k |-> "none", a |-> 0, v |-> 0]
LgRid(l) == IF l.k = "ref" THEN objA[l.a].rid ELSE l.v

Top(p) == frames[p][Len(frames[p])]
Depth(p) == Len(frames[p])

Range(s) == {s[x] : x \in 1..Len(s)}
RemoveAt(s, x) == SubSeq(s, 1, x - 1) \o SubSeq(s, x + 1, Len(s))

(* Get from pool `free` of instance m: (object, pool afterwards).  n = objects of the kind so far. *)
Gets(free, m, n) ==
    CASE Policy = "min" ->
           IF Len(free[m]) > 0 THEN {<<free[m][Len(free[m])], [free EXCEPT ![m] = SubSeq(@, 1, Len(@) - 1)]>>}
                               ELSE {<<n + 1, free>>}
      [] Policy = "pooled" ->     \* any pooled object; a new one only when the pool is empty
           IF Len(free[m]) > 0 THEN {<<free[m][x], [free EXCEPT ![m] = RemoveAt(@, x)]>> : x \in 1..Len(free[m])}
                               ELSE {<<n + 1, free>>}
      [] OTHER ->                 \* "any": any pooled object or a new one
           {<<free[m][x], [free EXCEPT ![m] = RemoveAt(@, x)]>> : x \in 1..Len(free[m])}
           \cup (IF n < MaxObj THEN {<<n + 1, free>>} ELSE {})

PutObj(f, x, v) == IF x <= Len(f) THEN [f EXCEPT ![x] = v] ELSE Append(f, v)

(* the client at the end of the chain of recorders starting at w (0: broken chain) *)
RECURSIVE EndClient(_, _)
EndClient(w, fuel) == IF fuel = 0 \/ w = 0 THEN 0
                      ELSE IF objW[w].up.k = "client" THEN objW[w].up.x
                      ELSE EndClient(objW[w].up.x, fuel - 1)
RECURSIVE Chain(_, _)
Chain(w, fuel) == IF fuel = 0 \/ w = 0 THEN {}
                  ELSE IF objW[w].up.k = "client" THEN {w}
                  ELSE {w} \cup Chain(objW[w].up.x, fuel - 1)
Fuel == Len(objW) + 1

----------------------------------------------------------------------------
Init == \E s \in Setups :
    /\ route = s.routes /\ ops = s.ops
    /\ pc = [p \in Procs |-> "getattr"]
    /\ ip = [p \in Procs |-> 1]
    /\ frames = [p \in Procs |-> <<>>]
    /\ objA = <<>> /\ objQ = <<>> /\ objW = <<>>
    /\ freeA = [m \in Mws |-> <<>>] /\ freeQ = [m \in Mws |-> <<>>] /\ freeW = [m \in Mws |-> <<>>]
    /\ tgt = [p \in Procs |-> 0]
    /\ client = [p \in Procs |-> <<>>]
    /\ stray = 0
    /\ records = <<>>

Goto(p, l) == pc' = [pc EXCEPT ![p] = l]
SetTop(p, fr) == frames' = [frames EXCEPT ![p][Len(frames[p])] = fr]

(* the instance of the layer that is being entered *)
Entering(p) == route[p][Depth(p) + 1]

GetAttr(p) ==
    /\ pc[p] = "getattr"
    /\ \E g \in Gets(freeA, Entering(p), Len(objA)) :
         /\ freeA' = g[2]
         /\ objA' = PutObj(objA, g[1], [mw |-> IF g[1] <= Len(objA) THEN objA[g[1]].mw ELSE Entering(p), rid |-> rid(p)])
         /\ frames' = [frames EXCEPT ![p] = Append(@, [m |-> Entering(p), a |-> g[1], q |-> 0, w |-> 0,
                                                       lg |-> NoLogger, fin |-> 0])]
    /\ Goto(p, "withattrs")
    /\ UNCHANGED <<route, ops, ip, objQ, objW, freeQ, freeW, tgt, client, stray, records>>

WithAttrs(p) ==
    /\ pc[p] = "withattrs"
    /\ SetTop(p, [Top(p) EXCEPT !.lg = IF Retain THEN [k |-> "ref", a |-> Top(p).a, v |-> 0]
                                               ELSE [k |-> "copy", a |-> 0, v |-> objA[Top(p).a].rid]])
    /\ Goto(p, "getreq")
    /\ UNCHANGED <<route, ops, ip, objA, objQ, objW, freeA, freeQ, freeW, tgt, client, stray, records>>

GetReq(p) ==
    /\ pc[p] = "getreq"
    /\ \E g \in Gets(freeQ, Top(p).m, Len(objQ)) :
         /\ freeQ' = g[2]
         /\ objQ' = PutObj(objQ, g[1], [mw |-> IF g[1] <= Len(objQ) THEN objQ[g[1]].mw ELSE Top(p).m,
                                        rid |-> rid(p), lg |-> Top(p).lg])
         /\ SetTop(p, [Top(p) EXCEPT !.q = g[1]])
    /\ Goto(p, "getrw")
    /\ UNCHANGED <<route, ops, ip, objA, objW, freeA, freeW, tgt, client, stray, records>>

(* the writer this layer was called with *)
Upstream(p) == IF Depth(p) = 1 THEN [k |-> "client", x |-> rid(p)]
               ELSE [k |-> "rw", x |-> frames[p][Depth(p) - 1].w]

GetRw(p) ==
    /\ pc[p] = "getrw"
    /\ IF Variant = "reuseUpstreamRecorder" /\ Upstream(p).k = "rw"
         THEN /\ SetTop(p, [Top(p) EXCEPT !.w = Upstream(p).x])
              /\ UNCHANGED <<objW, freeW>>
         ELSE \E g \in Gets(freeW, Top(p).m, Len(objW)) :
                /\ freeW' = g[2]
                /\ objW' = PutObj(objW, g[1], [mw |-> IF g[1] <= Len(objW) THEN objW[g[1]].mw ELSE Top(p).m,
                                               up |-> Upstream(p), code |-> 0])
                /\ SetTop(p, [Top(p) EXCEPT !.w = g[1]])
    /\ Goto(p, "started")
    /\ UNCHANGED <<route, ops, ip, objA, objQ, freeA, freeQ, tgt, client, stray, records>>

Started(p) ==
    /\ pc[p] = "started"
    /\ records' = Append(records, [m |-> "started", mw |-> Top(p).m, by |-> rid(p), ar |-> LgRid(Top(p).lg), c |-> 0])
    /\ Goto(p, IF Depth(p) < Len(route[p]) THEN "getattr" ELSE "hpre")
    /\ UNCHANGED <<route, ops, ip, frames, objA, objQ, objW, freeA, freeQ, freeW, tgt, client, stray>>

(* what the inner handler of p can observe: through the innermost layer *)
Obs(p) == [seen |-> objQ[Top(p).q].rid, lr |-> LgRid(objQ[Top(p).q].lg), cl |-> EndClient(Top(p).w, Fuel)]
Probe(p) == Append(records, [m |-> "probe", mw |-> Top(p).m, by |-> rid(p), ar |-> Obs(p).lr, c |-> 0])

HPre(p) ==
    /\ pc[p] = "hpre"
    /\ records' = Probe(p)
    /\ Goto(p, IF Len(ops[p]) = 0 THEN "hpost" ELSE "op")
    /\ UNCHANGED <<route, ops, ip, frames, objA, objQ, objW, freeA, freeQ, freeW, tgt, client, stray>>

(* the recorders' half of a call: every recorder on the way stores the code, *)
(* and the call is dispatched to the client at the end of the chain          *)
Op(p) ==
    /\ pc[p] = "op"
    /\ LET o == ops[p][ip[p]]
           ch == Chain(Top(p).w, Fuel) IN
         /\ objW' = IF o.op = "wh" THEN [x \in 1..Len(objW) |-> IF x \in ch THEN [objW[x] EXCEPT !.code = o.c] ELSE objW[x]]
                                  ELSE objW
         /\ tgt' = [tgt EXCEPT ![p] = EndClient(Top(p).w, Fuel)]
    /\ Goto(p, "cw")
    /\ UNCHANGED <<route, ops, ip, frames, objA, objQ, freeA, freeQ, freeW, client, stray, records>>

Cw(p) ==
    /\ pc[p] = "cw"
    /\ LET o == ops[p][ip[p]]
           call == [op |-> o.op, c |-> o.c, by |-> rid(p)] IN
         IF tgt[p] \in Procs
           THEN client' = [client EXCEPT ![tgt[p]] = Append(@, call)] /\ UNCHANGED stray
           ELSE stray' = stray + 1 /\ UNCHANGED client
    /\ ip' = [ip EXCEPT ![p] = @ + 1]
    /\ Goto(p, IF ip[p] = Len(ops[p]) THEN "hpost" ELSE "op")
    /\ UNCHANGED <<route, ops, frames, objA, objQ, objW, freeA, freeQ, freeW, tgt, records>>

HPost(p) ==
    /\ pc[p] = "hpost"
    /\ records' = Probe(p)
    /\ Goto(p, "setimpl")
    /\ UNCHANGED <<route, ops, ip, frames, objA, objQ, objW, freeA, freeQ, freeW, tgt, client, stray>>

SetImpl(p) ==
    /\ pc[p] = "setimpl"
    /\ objW' = IF objW[Top(p).w].code = 0 THEN [objW EXCEPT ![Top(p).w].code = 200] ELSE objW
    /\ Goto(p, "readcode")
    /\ UNCHANGED <<route, ops, ip, frames, objA, objQ, freeA, freeQ, freeW, tgt, client, stray, records>>

ReadCode(p) ==
    /\ pc[p] = "readcode"
    /\ SetTop(p, [Top(p) EXCEPT !.fin = objW[Top(p).w].code])
    /\ Goto(p, "finished")
    /\ UNCHANGED <<route, ops, ip, objA, objQ, objW, freeA, freeQ, freeW, tgt, client, stray, records>>

Finished(p) ==
    /\ pc[p] = "finished"
    /\ records' = Append(records, [m |-> "finished", mw |-> Top(p).m, by |-> rid(p), ar |-> LgRid(Top(p).lg),
                                   c |-> Top(p).fin])
    /\ Goto(p, "puts")
    /\ UNCHANGED <<route, ops, ip, frames, objA, objQ, objW, freeA, freeQ, freeW, tgt, client, stray>>

(* the three deferred Puts of the layer, into the pools of ITS instance; the layer returns *)
Puts(p) ==
    /\ pc[p] = "puts"
    /\ freeW' = [freeW EXCEPT ![Top(p).m] = Append(@, Top(p).w)]
    /\ freeQ' = [freeQ EXCEPT ![Top(p).m] = Append(@, Top(p).q)]
    /\ freeA' = [freeA EXCEPT ![Top(p).m] = Append(@, Top(p).a)]
    /\ frames' = [frames EXCEPT ![p] = SubSeq(@, 1, Len(@) - 1)]
    /\ Goto(p, IF Depth(p) > 1 THEN "setimpl" ELSE "done")
    /\ UNCHANGED <<route, ops, ip, objA, objQ, objW, tgt, client, stray, records>>

(* warm-up requests run alone, in order, before everybody else *)
MayRun(p) == IF p \in WarmProcs THEN \A t \in WarmProcs : t < p => pc[t] = "done"
             ELSE \A t \in WarmProcs : pc[t] = "done"

Step(p) == /\ MayRun(p)
           /\ \/ GetAttr(p) \/ WithAttrs(p) \/ GetReq(p) \/ GetRw(p) \/ Started(p) \/ HPre(p) \/ Op(p) \/ Cw(p)
              \/ HPost(p) \/ SetImpl(p) \/ ReadCode(p) \/ Finished(p) \/ Puts(p)
Next == \E p \in Procs : Step(p)
Spec == Init /\ [][Next]_vars

----------------------------------------------------------------------------
(* Invariants *)

(* a pool holds only objects created by its own instance, each at most once *)
Pure(free, obj) == \A m \in Mws :
    /\ \A x \in 1..Len(free[m]) : obj[free[m][x]].mw = m
    /\ \A x, y \in 1..Len(free[m]) : x # y => free[m][x] # free[m][y]
PoolPurity == Pure(freeA, objA) /\ Pure(freeQ, objQ) /\ Pure(freeW, objW)

(* an object used by a live layer is in no pool and used by no other layer *)
Held(field) == [p \in Procs |-> [x \in 1..Len(frames[p]) |-> frames[p][x][field]]]
Pooled(free) == UNION {Range(free[m]) : m \in Mws}
OwnsKind(h, free) ==
    /\ \A p \in Procs : \A x \in 1..Len(h[p]) : h[p][x] # 0 =>
          /\ h[p][x] \notin Pooled(free)
          /\ \A t \in Procs : \A y \in 1..Len(h[t]) : (<<t, y>> # <<p, x>>) => h[t][y] # h[p][x]
Ownership == /\ OwnsKind(Held("a"), freeA)
             /\ OwnsKind(Held("q"), freeQ)
             /\ OwnsKind(Held("w"), freeW)

InHandler == {"hpre", "op", "cw", "hpost"}
HandlerSeesOwn == \A p \in Procs : pc[p] \in InHandler =>
                     /\ Obs(p).seen = rid(p) /\ Obs(p).lr = rid(p) /\ Obs(p).cl = rid(p)
LoggerOwn == \A p \in Procs : pc[p] \in {"started", "finished"} => LgRid(Top(p).lg) = rid(p)
FinishedCode == \A p \in Procs : pc[p] = "finished" =>
                   /\ Top(p).fin = ExpectedFin(ops[p])
                   /\ Top(p).fin \in AllowedFin(ops[p])
Wrote(p) == [x \in 1..(ip[p] - 1) |-> [op |-> ops[p][x].op, c |-> ops[p][x].c, by |-> rid(p)]]
ClientExact == stray = 0 /\ \A p \in Procs : client[p] = Wrote(p)
RecordsOwn == \A x \in 1..Len(records) : records[x].ar = records[x].by
(* one started and one finished record per layer of the route *)
CountOf(msg, r, m) == Cardinality({x \in 1..Len(records) : records[x].m = msg /\ records[x].by = r /\ records[x].mw = m})
Times(m, rt) == Cardinality({x \in 1..Len(rt) : rt[x] = m})
OncePerLayer == \A p \in Procs : pc[p] = "done" => \A m \in Mws :
                   /\ CountOf("started", rid(p), m) = Times(m, route[p])
                   /\ CountOf("finished", rid(p), m) = Times(m, route[p])

----------------------------------------------------------------------------
(* Topologies (three slots; slot 1 is the warm-up request).                  *)
Beh(names) == {BehOps(b) : b \in names}
Setup(r1, r2, r3, o1, O2, O3) == {[routes |-> <<r1, r2, r3>>, ops |-> <<o1, o2, o3>>] : o2 \in O2, o3 \in O3}
(* outer o inner, and the inner instance mounted alone *)
Nested(B)    == Setup(<<1, 2>>, <<1, 2>>, <<2>>, BehOps("wh404"), Beh(B), Beh(B))
(* both requests through the whole chain *)
NestedBoth(B) == Setup(<<1, 2>>, <<1, 2>>, <<1, 2>>, BehOps("wh404"), Beh(B), Beh(B))
(* the same instance wrapped twice, and once *)
Twice(B)     == Setup(<<1, 1>>, <<1, 1>>, <<1>>, BehOps("wh404"), Beh(B), Beh(B))
TopoOne   == Nested({"wh404"})
TopoSmall == Nested({"none", "wh404"}) \cup Twice({"none", "wh404"})
TopoAll   == Nested({"none", "wh404", "w"}) \cup NestedBoth({"none", "wh404"}) \cup Twice({"none", "wh404", "w"})
=============================================================================
