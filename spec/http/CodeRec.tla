------------------------------ MODULE CodeRec ------------------------------
(* httputil.CodeRecorderResponseWriter on its own (responsewriter.go):       *)
(*   WriteHeader(c)  w.code = c; w.rw.WriteHeader(c)                         *)
(*   Write(b)        w.rw.Write(b)            (the code is not touched)      *)
(*   SetImplicitSuccess()  w.code = cmp.Or(w.code, 200)                      *)
(*   Reset(rw)       w.rw = rw; w.code = 0                                   *)
(*   Hijack()        http.NewResponseController(w.rw).Hijack()               *)
(*   Code(), Unwrap() are the observations; Flush / SetReadDeadline ... are  *)
(*   reached by http.ResponseController through Unwrap.                      *)
(* Two underlying writers exist so that Reset can be seen to redirect.       *)
(* Protocol (documentation): SetImplicitSuccess "should be called after the  *)
(* handler has finished", so no WriteHeader / Write follows it until Reset.  *)
EXTENDS Integers, Sequences, FiniteSets, TLC

CONSTANTS MaxSteps, Codes,
          CopyKinds, \* the "cp" kinds in the call alphabet
          Variant    \* "asWritten" | "stickyHijack" (design mutation: a `hijacked` flag that Reset forgets)
                     \* | "hijackByAssertion" (Hijack does w.rw.(http.Hijacker) instead of using a
                     \*   ResponseController, so it does not look behind an Unwrap-only wrapper)

VARIABLES code,    \* Go: w.code
          base,    \* Go: w.rw  (1 or 2)
          hijacked,\* no such field as written: always FALSE.  (stickyHijack: set by a successful Hijack)
          under,   \* calls received by each underlying writer
          rets,    \* the Hijack calls so far: [b |-> underlying writer, r |-> "ok" | "fail" | "unsupported"]
          passed,  \* codes passed to WriteHeader since the last Reset / creation
          wrote,   \* whether Write or WriteHeader was called since the last Reset / creation
          implicit,\* whether SetImplicitSuccess was called since then
          fresh,   \* the last call was Reset (or nothing was called yet)
          want,    \* ghost: what each underlying writer must have received - everything that was written
                   \* through the wrapper, byte for byte (UnderExact)
          taken,   \* a Hijack succeeded since the last Reset: the connection is the handler's, the
                   \* writer must not be used any more (net/http), so no further call is modelled
          steps

vars == <<code, base, hijacked, under, want, rets, passed, wrote, implicit, fresh, taken, steps>>

(* Underlying writer 1 is an http.Hijacker and http.Flusher (its Hijack     *)
(* succeeds or fails as scripted), writer 2 is a bare http.ResponseWriter,   *)
(* writer 3 is a foreign Unwrap-only wrapper (http.ResponseWriter + Unwrap)  *)
(* around another writer like 1: under[3] is what that inner writer gets.    *)
(* http.ResponseController steps over Unwrap-only writers, so Hijack and     *)
(* Flush reach the inner writer of 3.                                        *)
Init == /\ code = 0 /\ base = 1 /\ hijacked = FALSE
        /\ under = <<(<<>>), (<<>>), (<<>>)>>
        /\ want = <<(<<>>), (<<>>), (<<>>)>>
        /\ rets = <<>>
        /\ passed = <<>> /\ wrote = FALSE /\ implicit = FALSE /\ fresh = TRUE /\ taken = FALSE
        /\ steps = 0

Sticky == Variant = "stickyHijack"
Forward(call) == IF Sticky /\ hijacked THEN under ELSE [under EXCEPT ![base] = Append(@, call)]

WriteHeader(c) ==
    /\ ~implicit /\ ~taken
    /\ code' = IF Sticky /\ hijacked THEN code ELSE c
    /\ under' = Forward([op |-> "wh", c |-> c])
    /\ want' = [want EXCEPT ![base] = Append(@, [op |-> "wh", c |-> c])]
    /\ passed' = Append(passed, c)
    /\ wrote' = TRUE /\ fresh' = FALSE
    /\ UNCHANGED <<base, hijacked, rets, implicit, taken>>

Write ==
    /\ ~implicit /\ ~taken
    /\ under' = Forward([op |-> "w", c |-> 0])
    /\ want' = [want EXCEPT ![base] = Append(@, [op |-> "w", c |-> 0])]
    /\ wrote' = TRUE /\ fresh' = FALSE
    /\ UNCHANGED <<code, base, hijacked, rets, passed, implicit, taken>>

(* A std-lib helper writes a byte string through the wrapper (HttpOps: "cp"  *)
(* kinds; here 2 = io.Copy from a source that returns its last data with     *)
(* EOF, 4 = io.Copy from a source with WriteTo, 5 = a source that fails      *)
(* after a prefix, 6 = io.WriteString).  As written the wrapper offers only  *)
(* Write, so whatever the helper probes for, the bytes go through Write.     *)
(* (Variant "readFromDropsEOFChunk": a ReadFrom that delegates to the        *)
(* underlying writer's - only writer 1 has one - or copies with a loop that  *)
(* drops a chunk delivered together with EOF.)                               *)
Copy(k) ==
    /\ ~implicit /\ ~taken
    /\ LET lost == Variant = "readFromDropsEOFChunk" /\ k = 2 /\ base # 1 IN
         under' = Forward([op |-> "cp", c |-> IF lost THEN 0 - k ELSE k])
    /\ want' = [want EXCEPT ![base] = Append(@, [op |-> "cp", c |-> k])]
    /\ wrote' = TRUE /\ fresh' = FALSE
    /\ UNCHANGED <<code, base, hijacked, rets, passed, implicit, taken>>

(* Hijack(): http.NewResponseController(w.rw).Hijack() - the result is the  *)
(* underlying writer's; mode 1: it succeeds, 2: it fails.                    *)
Hijack(mode) ==
    /\ ~implicit /\ ~taken
    /\ taken' = (base # 2 /\ ~(base = 3 /\ Variant = "hijackByAssertion") /\ mode = 1)
    /\ IF base = 2 \/ (base = 3 /\ Variant = "hijackByAssertion")
         THEN /\ rets' = Append(rets, [b |-> base, r |-> "unsupported"]) /\ UNCHANGED <<want, under, hijacked>>
         ELSE /\ under' = [under EXCEPT ![base] = Append(@, [op |-> "hj", c |-> mode])]
              /\ rets' = Append(rets, [b |-> base, r |-> IF mode = 1 THEN "ok" ELSE "fail"])
              /\ hijacked' = (hijacked \/ (Sticky /\ mode = 1))
    /\ fresh' = FALSE
    /\ UNCHANGED <<want, code, base, passed, wrote, implicit>>

(* http.NewResponseController(w).Flush(): through Unwrap to the underlying  *)
(* writer, if that is an http.Flusher                                        *)
Flush ==
    /\ ~implicit /\ ~taken
    /\ under' = IF base # 2 THEN [under EXCEPT ![base] = Append(@, [op |-> "fl", c |-> 0])] ELSE under
    /\ fresh' = FALSE
    /\ UNCHANGED <<want, code, base, hijacked, rets, passed, wrote, implicit, taken>>

SetImplicit ==
    /\ code' = IF code = 0 THEN 200 ELSE code
    /\ implicit' = TRUE /\ fresh' = FALSE
    /\ UNCHANGED <<want, base, hijacked, under, rets, passed, wrote, taken>>

Reset(b) ==
    /\ base' = b /\ code' = 0
    /\ passed' = <<>> /\ wrote' = FALSE /\ implicit' = FALSE /\ fresh' = TRUE /\ taken' = FALSE
    /\ UNCHANGED <<want, hijacked, under, rets>>           \* as written there is nothing else to clear

(* Whatever is written through the wrapper reaches the underlying writer    *)
(* exactly (Hijack and Flush are not "written": they are in `rets` and       *)
(* `under` only).                                                            *)
Written(s) == SelectSeq(s, LAMBDA e : e.op \in {"w", "wh", "cp"})
UnderExact == \A b \in 1..3 : Written(under[b]) = want[b]

(* Fresh after Reset: in every field the wrapper is what                     *)
(* NewCodeRecorderResponseWriter(base) returns.                              *)
FreshAfterReset == fresh => (code = 0 /\ hijacked = FALSE)

(* Documented observations.  Code(): "the status code that was set" once     *)
(* SetImplicitSuccess has been called -- 200 when none was; 0 before that    *)
(* when WriteHeader was not called (the panic-detection use).  For several   *)
(* WriteHeader calls the documentation does not say which one counts.  1xx   *)
(* codes other than 101 are informational in net/http (they do not set the   *)
(* response's status): when only such codes were passed, reading that as     *)
(* "none was set" is accepted as well.  101 Switching Protocols IS a final   *)
(* status: WriteHeader(101) alone must give Code() = 101.                    *)
Informational(c) == c >= 100 /\ c <= 199 /\ c # 101
NoneSet == IF implicit THEN {200} ELSE {0}
AllowedCode == IF Len(passed) = 0 THEN NoneSet
               ELSE {passed[x] : x \in 1..Len(passed)}
                    \cup (IF \A x \in 1..Len(passed) : Informational(passed[x]) THEN NoneSet ELSE {})

(* Hijack gets through to whatever http.ResponseController can reach: only  *)
(* the bare writer 2 makes it "unsupported".                                 *)
HijackReaches == \A x \in 1..Len(rets) : (rets[x].r = "unsupported") <=> (rets[x].b = 2)
CodeOK == code \in AllowedCode
LastWins == Len(passed) > 0 => code = passed[Len(passed)]      \* as written

Act(o) == \/ o.op = "wh" /\ WriteHeader(o.c)
          \/ o.op = "w" /\ Write
          \/ o.op = "impl" /\ SetImplicit
          \/ o.op = "reset" /\ Reset(o.c)
          \/ o.op = "hj" /\ Hijack(o.c)
          \/ o.op = "fl" /\ Flush
          \/ o.op = "cp" /\ Copy(o.c)

Alphabet == {[op |-> "wh", c |-> c] : c \in Codes} \cup {[op |-> "w", c |-> 0], [op |-> "impl", c |-> 0]}
            \cup {[op |-> "reset", c |-> b] : b \in {1, 2, 3}}
            \cup {[op |-> "hj", c |-> m] : m \in {1, 2}} \cup {[op |-> "fl", c |-> 0]}
            \cup {[op |-> "cp", c |-> k] : k \in CopyKinds}

Next == /\ steps < MaxSteps
        /\ steps' = steps + 1
        /\ \E o \in Alphabet : Act(o)
Spec == Init /\ [][Next]_vars
=============================================================================
