------------------------------ MODULE CodeRec ------------------------------
(* httputil.CodeRecorderResponseWriter on its own (responsewriter.go):       *)
(*   WriteHeader(c)  w.code = c; w.rw.WriteHeader(c)                         *)
(*   Write(b)        w.rw.Write(b)            (the code is not touched)      *)
(*   SetImplicitSuccess()  w.code = cmp.Or(w.code, 200)                      *)
(*   Reset(rw)       w.rw = rw; w.code = 0                                   *)
(*   Code(), Unwrap() are the observations.                                  *)
(* Two underlying writers exist so that Reset can be seen to redirect.       *)
(* Protocol (documentation): SetImplicitSuccess "should be called after the  *)
(* handler has finished", so no WriteHeader / Write follows it until Reset.  *)
EXTENDS Integers, Sequences, FiniteSets, TLC

CONSTANTS MaxSteps, Codes

VARIABLES code,    \* Go: w.code
          base,    \* Go: w.rw  (1 or 2)
          under,   \* calls received by each underlying writer
          passed,  \* codes passed to WriteHeader since the last Reset / creation
          wrote,   \* whether Write or WriteHeader was called since the last Reset / creation
          implicit,\* whether SetImplicitSuccess was called since then
          steps

vars == <<code, base, under, passed, wrote, implicit, steps>>

Init == /\ code = 0 /\ base = 1
        /\ under = <<(<<>>), (<<>>)>>
        /\ passed = <<>> /\ wrote = FALSE /\ implicit = FALSE
        /\ steps = 0

WriteHeader(c) ==
    /\ ~implicit
    /\ code' = c
    /\ under' = [under EXCEPT ![base] = Append(@, [op |-> "wh", c |-> c])]
    /\ passed' = Append(passed, c)
    /\ wrote' = TRUE
    /\ UNCHANGED <<base, implicit>>

Write ==
    /\ ~implicit
    /\ under' = [under EXCEPT ![base] = Append(@, [op |-> "w", c |-> 0])]
    /\ wrote' = TRUE
    /\ UNCHANGED <<code, base, passed, implicit>>

SetImplicit ==
    /\ code' = IF code = 0 THEN 200 ELSE code
    /\ implicit' = TRUE
    /\ UNCHANGED <<base, under, passed, wrote>>

Reset(b) ==
    /\ base' = b /\ code' = 0
    /\ passed' = <<>> /\ wrote' = FALSE /\ implicit' = FALSE
    /\ UNCHANGED under

(* Documented observations.  Code(): "the status code that was set" once     *)
(* SetImplicitSuccess has been called -- 200 when none was; 0 before that    *)
(* when WriteHeader was not called (the panic-detection use).  For several   *)
(* WriteHeader calls the documentation does not say which one counts.  1xx   *)
(* codes other than 101 are informational in net/http (they do not set the   *)
(* response's status): when only such codes were passed, reading that as     *)
(* "none was set" is accepted as well.  101 Switching Protocols IS a final   *)
(* status: WriteHeader(101) alone must give Code() = 101.                    *)
Informational(c) == c >= 100 /\ c <= 199 /\ c # 101
NoneSet == IF implicit THEN {200} ELSE {0}
AllowedCode == IF Len(passed) = 0 THEN NoneSet
               ELSE {passed[x] : x \in 1..Len(passed)}
                    \cup (IF \A x \in 1..Len(passed) : Informational(passed[x]) THEN NoneSet ELSE {})

CodeOK == code \in AllowedCode
LastWins == Len(passed) > 0 => code = passed[Len(passed)]      \* as written

Act(o) == \/ o.op = "wh" /\ WriteHeader(o.c)
          \/ o.op = "w" /\ Write
          \/ o.op = "impl" /\ SetImplicit
          \/ o.op = "reset" /\ Reset(o.c)

Alphabet == {[op |-> "wh", c |-> c] : c \in Codes} \cup {[op |-> "w", c |-> 0], [op |-> "impl", c |-> 0]}
            \cup {[op |-> "reset", c |-> b] : b \in {1, 2}}

Next == /\ steps < MaxSteps
        /\ steps' = steps + 1
        /\ \E o \in Alphabet : Act(o)
Spec == Init /\ [][Next]_vars
=============================================================================
