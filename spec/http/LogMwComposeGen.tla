-------------------------- MODULE LogMwComposeGen --------------------------
(* Schedule generator for composed LogMiddlewares: every interleaving of    *)
(* the requests of LogMwCompose over the harness-owned gates (same gates as *)
(* LogMwGen; a request through k layers meets withattrs / started /         *)
(* readcode / finished k times), after the warm-up requests.  Each complete *)
(* schedule is emitted with the topology and the specification's            *)
(* prediction for every request.                                            *)
EXTENDS LogMwCompose, Json, CSV, TLCExt

CONSTANT GateSet
VARIABLES running, hist
gvars == <<vars, running, hist>>

GInit == Init /\ running = 0 /\ hist = <<>>
GNext == \E p \in Procs :
            /\ running \in {0, p}
            /\ Step(p)
            /\ IF pc'[p] \in GateSet \cup {"done"}
                 THEN running' = 0 /\ hist' = Append(hist, <<p, pc'[p]>>)
                 ELSE running' = p /\ hist' = hist
GSpec == GInit /\ [][GNext]_gvars

AllDone == \A p \in Procs : pc[p] = "done"
FinsOf(p) == LET I == {x \in 1..Len(records) : records[x].m = "finished" /\ records[x].by = rid(p)}
             IN {records[x].c : x \in I}
Pred(p) == [fins |-> FinsOf(p), expected |-> ExpectedFin(ops[p]), allowed |-> AllowedFin(ops[p]),
            status |-> ClientStatus(client[p]), calls |-> client[p]]
Vector == [n |-> Cardinality(Procs), nmw |-> Cardinality(Mws), routes |-> route, warm |-> WarmProcs,
           retain |-> Retain, gates |-> GateSet, mwon |-> TRUE,
           ops |-> ops, sched |-> hist, pred |-> [p \in Procs |-> Pred(p)]]
Emit == AllDone => CSVWrite("%1$s", <<ToJson(Vector)>>, "logmw_sched_compose.ndjson")
=============================================================================
