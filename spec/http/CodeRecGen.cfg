SPECIFICATION GSpec
CONSTANTS
  MaxSteps = 5
  Variant = "asWritten"
  Codes = {101, 103, 404}
INVARIANTS Emit FreshAfterReset HijackReaches CodeOK LastWins
CHECK_DEADLOCK FALSE
