SPECIFICATION GSpec
CONSTANTS
  MaxSteps = 5
  Codes = {101, 103, 200, 404}
INVARIANTS Emit CodeOK LastWins
CHECK_DEADLOCK FALSE
