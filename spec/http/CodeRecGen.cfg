SPECIFICATION GSpec
CONSTANTS
  MaxSteps = 4
  CopyKinds = {2, 4, 6}
  Variant = "asWritten"
  Codes = {101, 103, 404}
INVARIANTS Emit FreshAfterReset HijackReaches UnderExact CodeOK LastWins
CHECK_DEADLOCK FALSE
