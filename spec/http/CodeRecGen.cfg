SPECIFICATION GSpec
CONSTANTS
  MaxSteps = 5
  Variant = "asWritten"
  Codes = {101, 103, 200, 404}
INVARIANTS Emit FreshAfterReset CodeOK LastWins
CHECK_DEADLOCK FALSE
