SPECIFICATION GSpec
CONSTANTS
  MaxSteps = 5
  Codes = {200, 404, 500}
INVARIANTS Emit CodeOK LastWins
CHECK_DEADLOCK FALSE
