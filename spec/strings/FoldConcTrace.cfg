SPECIFICATION TSpec
CONSTANTS
  Alphabets = {}
  MaxS = 0
  MaxSub = 0
  ByteTable <- ModelTable
  Procs = {}
  Pairs <- ConcPairs
  Memo = "none"
  CallsPerProc = 0
CHECK_DEADLOCK FALSE
