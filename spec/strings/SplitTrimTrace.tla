--------------------------- MODULE SplitTrimTrace ---------------------------
(* Trace validation for SplitTrimmed: line 1 lists the white-space tokens,    *)
(* every further line is one real call (string and separator as one token per *)
(* rune: "SP", the printable rune itself, or "U+XXXX"), the nil flag and the  *)
(* returned pieces.  Accepted iff non-nil and equal to the statement's result.*)
EXTENDS SplitTrim, Json

Trace == ndJsonDeserialize("split_trace.ndjson")
TraceSpaces == {Trace[1].spaces[i] : i \in DOMAIN Trace[1].spaces}

VARIABLE l
tvars == <<vars, l>>

TInit == s = <<>> /\ sep = <<>> /\ l = 1
Ev == Trace[l]

THead == l = 1 /\ "spaces" \in DOMAIN Ev /\ UNCHANGED <<s, sep>>
TCall == /\ l > 1
         /\ s' = Ev.s /\ sep' = Ev.sep
         /\ Ev.nil = FALSE
         /\ Ev.out = Result(Ev.s, Ev.sep)
TNext == /\ l <= Len(Trace)
         /\ l' = l + 1
         /\ (THead \/ TCall)
TSpec == TInit /\ [][TNext]_tvars
=============================================================================
