------------------------------ MODULE FoldTrace ------------------------------
(* Trace validation for ContainsFold: every line of fold_trace.ndjson is one  *)
(* real call, its operands abstracted to <<orbit, member>> sequences by the   *)
(* harness (orbit = "U" + smallest code point of the SimpleFold orbit, member *)
(* = rank in code-point order) and the observed boolean.  Line 1 carries the  *)
(* byte-length table of the orbits that occur; it takes the place of          *)
(* ModelTable.  A call is accepted iff the observed result is the statement's.*)
EXTENDS Fold, Json

Trace == ndJsonDeserialize("fold_trace.ndjson")
TraceTable == Trace[1].table

VARIABLE l
tvars == <<vars, l>>

TInit == al = {} /\ s = <<>> /\ sub = <<>> /\ l = 1
Ev == Trace[l]

TTable == /\ l = 1
          /\ "table" \in DOMAIN Ev
          /\ UNCHANGED <<al, s, sub>>
TCall == /\ l > 1
         /\ s' = Ev.s /\ sub' = Ev.sub /\ UNCHANGED al
         /\ Ev.r = RefContains(Ev.s, Ev.sub)
         /\ ImplContains(Ev.s, Ev.sub) = RefContains(Ev.s, Ev.sub)   \* the lemma, out of MC bounds
TNext == /\ l <= Len(Trace)
         /\ l' = l + 1
         /\ (TTable \/ TCall)
TSpec == TInit /\ [][TNext]_tvars
=============================================================================
