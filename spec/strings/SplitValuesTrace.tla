-------------------------- MODULE SplitValuesTrace --------------------------
(* Trace validation of retained SplitTrimmed results: "reset" starts a caller  *)
(* (or goroutine); "call" logs a digest of the result a call returned (number  *)
(* of pieces, first and last piece, a hash of all of them) -- the slice itself *)
(* is kept uncopied; "check" logs the digests of all retained slices as they   *)
(* read later.  Accepted iff every retained result still reads as returned.    *)
EXTENDS SplitValues, Json

Trace == ndJsonDeserialize("splitvalues_trace.ndjson")
VARIABLE l
tvars == <<vars, l>>
TInit == Init /\ l = 1
Ev == Trace[l]
TReset == Ev.op = "reset" /\ held' = <<>> /\ UNCHANGED <<pool, calls>>
TCall  == Ev.op = "call" /\ held' = Append(held, [n |-> Ev.n, view |-> FALSE, own |-> Ev.digest]) /\ UNCHANGED <<pool, calls>>
TCheck == /\ Ev.op = "check"
          /\ Ev.held = [k \in DOMAIN held |-> held[k].own]      \* ResultsAreValues, observed
          /\ UNCHANGED vars
TNext == l <= Len(Trace) /\ l' = l + 1 /\ (TReset \/ TCall \/ TCheck)
TSpec == TInit /\ [][TNext]_tvars
=============================================================================
