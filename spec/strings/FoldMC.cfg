SPECIFICATION Spec
CONSTANTS
  Alphabets <- FamiliesMC
  MaxS = 3
  MaxSub = 2
  ByteTable <- ModelTable
INVARIANTS TypeOK ImplIsRef AsciiIsPlain Shortcuts
CHECK_DEADLOCK FALSE
