SPECIFICATION Spec
CONSTANTS
  Alphabets <- FamiliesGen
  MaxS = 3
  MaxSub = 2
  ByteTable <- ModelTable
INVARIANTS Emit ImplIsRef
CHECK_DEADLOCK FALSE
