SPECIFICATION TSpec
CONSTANTS
  Alphabets = {}
  MaxS = 0
  MaxSub = 0
  ByteTable <- TraceTable
CHECK_DEADLOCK FALSE
