---------------------------- MODULE SplitTrimGen ----------------------------
(* Generator: every string within the bound crossed with every separator,    *)
(* with the result the statement defines.                                    *)
EXTENDS SplitTrim, Json, CSV

Emit == CSVWrite("%1$s", <<ToJson([s |-> s, sep |-> sep, out |-> Result(s, sep)])>>,
                 "split_vectors.ndjson")
=============================================================================
