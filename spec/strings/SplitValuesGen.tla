--------------------------- MODULE SplitValuesGen ---------------------------
(* Generator: every sequence of calls (by piece count) within the bound.  The  *)
(* prediction is the invariant itself: after the sequence every result still   *)
(* holds the pieces of its own call.                                           *)
EXTENDS SplitValues, Json, CSV
Emit == CSVWrite("%1$s", <<ToJson([counts |-> [k \in DOMAIN held |-> held[k].n], cap |-> Cap])>>, "splitvalues_vectors.ndjson")
=============================================================================
