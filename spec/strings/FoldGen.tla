------------------------------- MODULE FoldGen -------------------------------
(* Generator: every pair (s, sub) within the bounds, with the verdict of the  *)
(* statement, for replay on stringutil.ContainsFold.                          *)
EXTENDS Fold, Json, CSV

Emit == CSVWrite("%1$s", <<ToJson([s |-> s, sub |-> sub, r |-> RefContains(s, sub)])>>,
                 "fold_vectors.ndjson")
=============================================================================
