----------------------------- MODULE SplitValues -----------------------------
(* "Results are values" for stringutil.SplitTrimmed (property C13): the slice  *)
(* a call returned stays what it was -- exactly the non-empty trimmed pieces   *)
(* of ITS input -- whatever is split afterwards, by whomever.                  *)
(*                                                                            *)
(* A call is characterised by the number n of pieces of its result; the       *)
(* pieces of call c are the tokens <<c, 1>> .. <<c, n>>.  Block               *)
(* concretisation: the harness maps the model's counts, which are small and   *)
(* relative to Cap, to real piece counts around the small-buffer sizes an     *)
(* implementation may use (15, 16, 17, 18, 31..33, 63..65, 100, 1000, 1025,    *)
(* 5000).  Memory is modelled as far as needed: `pool' is the backing array   *)
(* of a scratch buffer that survives between calls; a result is either its    *)
(* own array or a view of the first n elements of the pool's.                 *)
(*   "fresh"   golibs: the result is built in storage no later call touches   *)
(*   "pooled"  pieces are collected in a pooled buffer of capacity Cap and     *)
(*             cloned into the result -- except when append had to grow the    *)
(*             buffer: the grown array is returned as it is AND kept in the    *)
(*             pool, which clears and refills it on the next call              *)
(* For "pooled" every single call is right when looked at at once, and so is  *)
(* every result of at most Cap pieces; TLC must find that a longer result     *)
(* changes under the next call.                                               *)
EXTENDS Integers, Sequences, TLC

CONSTANTS Impl,       \* "fresh" | "pooled"
          Cap,        \* capacity of the pooled buffer
          Counts,     \* piece counts offered
          MaxCalls

VARIABLES pool,       \* backing array of the pooled buffer (a sequence)
          held,       \* results retained by the caller(s): [n, view, own]
          calls
vars == <<pool, held, calls>>

Pieces(c, n) == [i \in 1..n |-> <<c, i>>]
Blank == <<0, 0>>                                   \* a cleared element ("")

Init == pool = [i \in 1..Cap |-> Blank] /\ held = <<>> /\ calls = 0

Call(n) ==
    LET c == calls + 1
        p == Pieces(c, n)
        cleared == [i \in DOMAIN pool |-> Blank]    \* the pool clears its storage when the buffer is put back / taken
    IN
    /\ calls' = c
    /\ IF Impl = "fresh"
       THEN /\ held' = Append(held, [n |-> n, view |-> FALSE, own |-> p])
            /\ UNCHANGED pool
       ELSE IF n <= Len(pool)
       THEN /\ pool' = [i \in DOMAIN pool |-> IF i <= n THEN p[i] ELSE Blank]
            /\ held' = Append(held, [n |-> n, view |-> FALSE, own |-> p])       \* cloned
       ELSE /\ pool' = p                                                         \* grown by append, kept by the pool
            /\ held' = Append(held, [n |-> n, view |-> TRUE, own |-> p])        \* ... and returned as it is

Read(r) == IF r.view THEN [i \in 1..r.n |-> IF i <= Len(pool) THEN pool[i] ELSE Blank] ELSE r.own

Next == calls < MaxCalls /\ \E n \in Counts : Call(n)
Spec == Init /\ [][Next]_vars

(* C13: what a call returned is, and stays, the pieces of its own input. *)
ResultsAreValues == \A k \in DOMAIN held : Read(held[k]) = Pieces(k, held[k].n)
=============================================================================
