SPECIFICATION TSpec
CONSTANTS
  Impl = "fresh"
  Cap = 1
  Counts = {}
  MaxCalls = 0
CHECK_DEADLOCK FALSE
