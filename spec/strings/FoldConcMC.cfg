SPECIFICATION CSpec
CONSTANTS
  Alphabets = {}
  MaxS = 0
  MaxSub = 0
  ByteTable <- ModelTable
  Procs = {"p1", "p2"}
  Pairs <- ConcPairs
  Memo = "none"
  CallsPerProc = 2
INVARIANTS StatelessVerdict
CHECK_DEADLOCK FALSE
