------------------------------ MODULE FoldConc ------------------------------
(* ContainsFold as a STATELESS action of several processes (property C13):    *)
(* whatever other goroutines search for at the same time, a call's result is  *)
(* the statement's verdict for its own operands.                              *)
(*                                                                            *)
(* Every process works through jobs, pairs (s, sub) taken from Pairs.  Memo   *)
(* selects the design:                                                        *)
(*   "none"  golibs: a call is one atomic step that reads nothing shared      *)
(*   "torn"  the fold orbit of the last needle's first rune is memoised in    *)
(*           two separately updated cells, value (orbit) stored before key    *)
(*           (rune): load orbit; load key; on a hit scan with the loaded      *)
(*           orbit, else compute the orbit, store it, store the key.  Each    *)
(*           access is atomic -- no data race -- but the pair is not: a       *)
(*           caller can pair its own key with another needle's orbit and then *)
(*           never tries the other-case occurrences of its first rune.        *)
(* TLC proves StatelessVerdict for "none" and must refute it for "torn".      *)
EXTENDS Fold, FiniteSets

CONSTANTS Procs, Pairs, Memo, CallsPerProc

VARIABLES pc,        \* pc[p]: "idle" | "loaded" | "miss" | "stored"
          job,       \* job[p]: index into Pairs of the current call
          lorb,      \* lorb[p]: the orbit cell as loaded by p
          ncalls,    \* ncalls[p]
          res,       \* res[p]: [job, val] of p's last finished call
          mkey, morb \* the two memo cells
cvars == <<pc, job, lorb, ncalls, res, mkey, morb, al, s, sub>>

(* needles of different orbits; the match starts with an other-case member at offset > 0 *)
ConcPairs == << << <<<<"A", 2>>, <<"K", 1>>, <<"A", 2>>>>, <<<<"K", 2>>>> >>,       \* "aKa" contains "k"
                << <<<<"A", 2>>, <<"S", 1>>, <<"A", 2>>>>, <<<<"S", 2>>>> >>,       \* "aSa" contains "s"
                << <<<<"A", 2>>, <<"K", 3>>>>,             <<<<"K", 1>>>> >>,       \* a + Kelvin sign vs "K": 3 bytes vs 1 at the end: no
                << <<<<"S", 2>>, <<"A", 1>>>>,             <<<<"A", 2>>>> >> >>     \* "sA" contains "a"

NoRes == [job |-> 0, val |-> FALSE]
CInit == /\ pc = [p \in Procs |-> "idle"] /\ job = [p \in Procs |-> 0]
         /\ lorb = [p \in Procs |-> {}] /\ ncalls = [p \in Procs |-> 0]
         /\ res = [p \in Procs |-> NoRes]
         /\ mkey = Err /\ morb = {}
         /\ al = {} /\ s = <<>> /\ sub = <<>>

S(j) == Pairs[j][1]
T(j) == Pairs[j][2]
Finish(p, j, v) == /\ res' = [res EXCEPT ![p] = [job |-> j, val |-> v]]
                   /\ ncalls' = [ncalls EXCEPT ![p] = @ + 1]
                   /\ pc' = [pc EXCEPT ![p] = "idle"]

(* "none": the whole call in one step *)
CallAtomic(p) == /\ Memo = "none" /\ pc[p] = "idle" /\ ncalls[p] < CallsPerProc
                 /\ \E j \in DOMAIN Pairs :
                       /\ job' = [job EXCEPT ![p] = j]
                       /\ Finish(p, j, ImplContains(S(j), T(j)))
                 /\ UNCHANGED <<lorb, mkey, morb, al, s, sub>>

(* "torn" *)
LoadOrbit(p) == /\ Memo = "torn" /\ pc[p] = "idle" /\ ncalls[p] < CallsPerProc
                /\ \E j \in DOMAIN Pairs : job' = [job EXCEPT ![p] = j]
                /\ lorb' = [lorb EXCEPT ![p] = morb]
                /\ pc' = [pc EXCEPT ![p] = "loaded"]
                /\ UNCHANGED <<ncalls, res, mkey, morb, al, s, sub>>
CheckKey(p) == /\ pc[p] = "loaded"
               /\ IF mkey = First(T(job[p]))
                  THEN Finish(p, job[p], Contains(S(job[p]), T(job[p]), lorb[p] \cup {First(T(job[p]))}))   \* hit: the loaded orbit
                  ELSE pc' = [pc EXCEPT ![p] = "miss"] /\ UNCHANGED <<res, ncalls>>
               /\ UNCHANGED <<job, lorb, mkey, morb, al, s, sub>>
StoreOrbit(p) == /\ pc[p] = "miss"
                 /\ morb' = WholeOrbit(First(T(job[p])))
                 /\ pc' = [pc EXCEPT ![p] = "stored"]
                 /\ UNCHANGED <<job, lorb, ncalls, res, mkey, al, s, sub>>
StoreKey(p) == /\ pc[p] = "stored"
               /\ mkey' = First(T(job[p]))
               /\ Finish(p, job[p], ImplContains(S(job[p]), T(job[p])))
               /\ UNCHANGED <<job, lorb, morb, al, s, sub>>

CNext == \E p \in Procs : CallAtomic(p) \/ LoadOrbit(p) \/ CheckKey(p) \/ StoreOrbit(p) \/ StoreKey(p)
CSpec == CInit /\ [][CNext]_cvars

(* C13 under concurrency *)
StatelessVerdict == \A p \in Procs : res[p].job # 0 => res[p].val = RefContains(S(res[p].job), T(res[p].job))
=============================================================================
