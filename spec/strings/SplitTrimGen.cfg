SPECIFICATION Spec
CONSTANTS
  Tokens <- ModelTokens
  Spaces <- ModelSpaces
  Seps <- ModelSeps
  MaxLen = 6
INVARIANTS Emit PiecesClean EarlyReturn NothingLost
CHECK_DEADLOCK FALSE
