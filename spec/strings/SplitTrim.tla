------------------------------ MODULE SplitTrim ------------------------------
(* stringutil.SplitTrimmed against its reference definition (property C13):  *)
(* the non-empty whitespace-trimmed pieces of                                *)
(* strings.Split(strings.TrimSpace(s), sep), in order.                       *)
(*                                                                           *)
(* A string is a sequence of tokens, one token per rune.  Model tokens:      *)
(*   "SP" the space (exact: separators contain it), "W" any other Unicode    *)
(*   white space (TAB, NL, NBSP U+00A0, NEL U+0085, U+2003, U+3000 ... chosen *)
(*   by the concretiser), "a", "b" (exact: the separator "ab"), "x" any other *)
(*   non-space rune (letter, digit, multi-byte letter), "," the comma.        *)
(* Spaces is the set of tokens unicode.IsSpace holds for.                     *)
EXTENDS Integers, Sequences, TLC

CONSTANTS Tokens,    \* alphabet of the enumeration
          Spaces,    \* white-space tokens
          Seps,      \* separators offered (token sequences)
          MaxLen

VARIABLES s, sep
vars == <<s, sep>>

ModelTokens == {"SP", "W", "a", "b", "x", ","}
ModelSpaces == {"SP", "W"}
ModelSeps   == {<<",">>, <<",", "SP">>, <<"SP">>, <<"a", "b">>, <<>>}

IsSpace(t) == t \in Spaces
Drop(q, n) == SubSeq(q, n + 1, Len(q))

RECURSIVE TrimLeft(_)
TrimLeft(q) == IF q # <<>> /\ IsSpace(Head(q)) THEN TrimLeft(Tail(q)) ELSE q
RECURSIVE TrimRight(_)
TrimRight(q) == IF q # <<>> /\ IsSpace(q[Len(q)]) THEN TrimRight(SubSeq(q, 1, Len(q) - 1)) ELSE q
TrimSpace(q) == TrimRight(TrimLeft(q))

HasPrefix(q, p) == Len(q) >= Len(p) /\ SubSeq(q, 1, Len(p)) = p

(* strings.Split for a non-empty separator: leftmost non-overlapping          *)
(* occurrences; n occurrences give n + 1 pieces, some possibly empty.         *)
RECURSIVE SplitNE(_, _, _)
SplitNE(q, p, cur) ==
    IF q = <<>> THEN <<cur>>
    ELSE IF HasPrefix(q, p) THEN <<cur>> \o SplitNE(Drop(q, Len(p)), p, <<>>)
    ELSE SplitNE(Tail(q), p, Append(cur, Head(q)))

(* With an empty separator strings.Split explodes the string after every      *)
(* UTF-8 sequence, i.e. into one piece per token (none for the empty string). *)
Split(q, p) == IF p = <<>> THEN [i \in 1..Len(q) |-> <<q[i]>>] ELSE SplitNE(q, p, <<>>)

NonEmpty(p) == p # <<>>
(* The statement. *)
Result(q, p) == LET pieces  == Split(TrimSpace(q), p)
                    trimmed == [i \in DOMAIN pieces |-> TrimSpace(pieces[i])]
                IN SelectSeq(trimmed, NonEmpty)

----------------------------------------------------------------------------
Init == s = <<>> /\ sep \in Seps
Next == /\ Len(s) < MaxLen
        /\ \E c \in Tokens : s' = Append(s, c)
        /\ UNCHANGED sep
Spec == Init /\ [][Next]_vars

Contains(q, p) == \E i \in 0..(Len(q) - Len(p)) : SubSeq(q, i + 1, i + Len(p)) = p
RECURSIVE Flatten(_)
Flatten(ps) == IF ps = <<>> THEN <<>> ELSE Head(ps) \o Flatten(Tail(ps))
NonSpaces(q) == SelectSeq(q, LAMBDA t : ~IsSpace(t))

(* Properties of the definition itself (design lemmas). *)
PiecesClean == LET r == Result(s, sep) IN
    \A i \in 1..Len(r) : /\ r[i] # <<>>
                         /\ ~IsSpace(r[i][1]) /\ ~IsSpace(r[i][Len(r[i])])
                         /\ (sep # <<>> => ~Contains(r[i], sep))
(* The early return of the implementation: nothing but white space gives the  *)
(* empty result, whatever the separator.                                      *)
EarlyReturn == TrimSpace(s) = <<>> => Result(s, sep) = <<>>
(* Nothing but separators and white space is lost when the separator has no   *)
(* letters: the non-space tokens outside separators survive in order.         *)
NothingLost == (sep = <<",">>) =>
    NonSpaces(Flatten(Result(s, sep))) = SelectSeq(s, LAMBDA t : ~IsSpace(t) /\ t # ",")
=============================================================================
