-------------------------------- MODULE Fold --------------------------------
(* stringutil.ContainsFold against its reference definition (property C13).  *)
(*                                                                           *)
(* A rune is <<orbit, member>>: `orbit' names its class under Unicode simple *)
(* case folding (strings.EqualFold compares rune-wise by orbit), `member'    *)
(* numbers the runes of the orbit in code-point order, which is the order    *)
(* unicode.SimpleFold cycles through.  ByteTable gives the UTF-8 length of   *)
(* every member: members of one orbit may differ in length (K-sign U+212A is *)
(* 3 bytes, long s U+017F is 2), which is what makes "a window of the same   *)
(* BYTE length" in the statement differ from "a window of as many runes".    *)
(*                                                                           *)
(* RefContains is the statement.  ImplContains is the algorithm of           *)
(* stringutil/stringutil.go on the byte level (slicing s[:n], s[1:] in the   *)
(* middle of a rune, decoding of broken sequences as U+FFFD of width 1); the *)
(* design lemma checked by TLC is ImplContains = RefContains.  OldImpl is    *)
(* the scan before commit e857ee7 (only one fold of the first rune is looked *)
(* for); TLC must find a counterexample for it (sanity of the lemma).        *)
EXTENDS Integers, Sequences, TLC

CONSTANTS Alphabets,  \* set of rune alphabets; each is enumerated in turn
          MaxS,       \* max number of runes in s
          MaxSub,     \* max number of runes in sub
          ByteTable   \* orbit |-> <<UTF-8 length of member 1, of member 2, ...>>

VARIABLES al,        \* the alphabet of this pair (chosen initially)
          s, sub
vars == <<al, s, sub>>

(* The model's rune table (code-point order inside each orbit):              *)
(*   K:   K U+004B, k U+006B, Kelvin sign U+212A                             *)
(*   S:   S U+0053, s U+0073, long s U+017F                                  *)
(*   SIG: Sigma U+03A3, final sigma U+03C2, sigma U+03C3                     *)
(*   A:   A, a        E: E-acute U+00C9, e-acute U+00E9       ONE: '1'       *)
(* ASCII characters that are NOT letters but differ from another ASCII       *)
(* character only in bit 0x20, or sit right next to the letter ranges: a      *)
(* byte-level "lower-casing" by OR 0x20 confuses them ('[' with '{', '\' with  *)
(* '|', ']' with '}', '^' with '~', '_' with DEL, '@' with '`', digits with   *)
(* the controls 0x10..0x19, space with NUL, '-' with CR).  Each is a          *)
(* singleton orbit of one byte: nothing folds to anything else.               *)
PunctTable == [AT |-> <<1>>, BQ |-> <<1>>, LB |-> <<1>>, LC |-> <<1>>, BSL |-> <<1>>, PIPE |-> <<1>>,
               RB |-> <<1>>, RC |-> <<1>>, CARET |-> <<1>>, TILDE |-> <<1>>, US |-> <<1>>, DEL |-> <<1>>,
               D0 |-> <<1>>, C10 |-> <<1>>, D9 |-> <<1>>, C19 |-> <<1>>, SP |-> <<1>>, NUL |-> <<1>>,
               DASH |-> <<1>>, CR |-> <<1>>]

(* CASELESS runes of two, three and four bytes (singleton orbits): Latin-1    *)
(* symbols such as U+00A7 section sign or U+00D7 multiplication sign fit in a  *)
(* byte as code points but not as UTF-8; U+2022 bullet; U+1F600.  As the first *)
(* rune of the needle they take the "no case variants" route of a scan, and    *)
(* their continuation bytes occur inside other runes (U+00E7 ends in the same  *)
(* byte as U+00A7).                                                           *)
CaselessTable == [SEC |-> <<2>>, MUL |-> <<2>>, BUL |-> <<3>>, EMO |-> <<4>>]

ModelTable == [K   |-> <<1, 1, 3>>,
               S   |-> <<1, 1, 2>>,
               SIG |-> <<2, 2, 2>>,
               A   |-> <<1, 1>>,
               E   |-> <<2, 2>>,
               ONE |-> <<1>>]
            @@ PunctTable @@ CaselessTable

AlphaP1 == {<<"AT", 1>>, <<"BQ", 1>>, <<"LB", 1>>, <<"LC", 1>>, <<"BSL", 1>>, <<"PIPE", 1>>, <<"A", 1>>, <<"A", 2>>}
AlphaP2 == {<<"RB", 1>>, <<"RC", 1>>, <<"CARET", 1>>, <<"TILDE", 1>>, <<"US", 1>>, <<"DEL", 1>>, <<"A", 1>>, <<"A", 2>>}
AlphaP3 == {<<"D0", 1>>, <<"C10", 1>>, <<"D9", 1>>, <<"C19", 1>>, <<"SP", 1>>, <<"NUL", 1>>, <<"DASH", 1>>, <<"CR", 1>>,
            <<"A", 1>>, <<"A", 2>>}
(* punctuation that differs from a letter-range neighbour only in bit 0x20, mixed with letters of both cases *)
AlphaP4 == {<<"LB", 1>>, <<"LC", 1>>, <<"BSL", 1>>, <<"PIPE", 1>>, <<"CARET", 1>>, <<"TILDE", 1>>, <<"K", 1>>, <<"K", 2>>}
FamiliesPunct == {AlphaP1, AlphaP2, AlphaP3, AlphaP4}

AlphaC1 == {<<"SEC", 1>>, <<"MUL", 1>>, <<"BUL", 1>>, <<"EMO", 1>>, <<"A", 1>>, <<"A", 2>>, <<"E", 2>>, <<"ONE", 1>>}
AlphaC2 == {<<"SEC", 1>>, <<"BUL", 1>>, <<"E", 1>>, <<"E", 2>>, <<"S", 3>>, <<"K", 3>>, <<"DASH", 1>>}
FamiliesCaseless == {AlphaC1, AlphaC2}

AlphaK   == {<<"K", 1>>, <<"K", 2>>, <<"K", 3>>, <<"A", 2>>, <<"E", 1>>, <<"ONE", 1>>}
AlphaS   == {<<"S", 1>>, <<"S", 2>>, <<"S", 3>>, <<"A", 1>>, <<"E", 2>>, <<"ONE", 1>>}
AlphaSig == {<<"SIG", 1>>, <<"SIG", 2>>, <<"SIG", 3>>, <<"A", 2>>, <<"E", 2>>, <<"K", 3>>}
AlphaMix == {<<"K", 2>>, <<"K", 3>>, <<"S", 1>>, <<"S", 3>>, <<"A", 1>>, <<"A", 2>>}
AlphaAscii == {<<"K", 1>>, <<"K", 2>>, <<"S", 1>>, <<"S", 2>>, <<"A", 1>>, <<"A", 2>>, <<"ONE", 1>>}
AlphaAll == AlphaK \cup AlphaS \cup AlphaSig
FamiliesMC  == {AlphaAll}
FamiliesGen == {AlphaK, AlphaS, AlphaSig, AlphaMix}
FamiliesQuick == {AlphaK, AlphaS, AlphaSig}
FamilyMix   == {AlphaMix}
FamilyS     == {AlphaS}
FamilyAscii == {AlphaAscii}

Orbit(r) == r[1]
BLen(r)  == ByteTable[r[1]][r[2]]
OrbitSize(r) == Len(ByteTable[r[1]])

RECURSIVE Bytes(_)
Bytes(q) == IF q = <<>> THEN 0 ELSE BLen(Head(q)) + Bytes(Tail(q))

----------------------------------------------------------------------------
(* The statement.  strings.EqualFold on two valid strings: as many runes,    *)
(* pairwise in the same orbit.                                               *)
FoldEq(x, y) == /\ Len(x) = Len(y)
                /\ \A i \in 1..Len(x) : Orbit(x[i]) = Orbit(y[i])

(* A window starts at a rune boundary (before rune i, or at the end of s)    *)
(* and is as many BYTES long as sub.  If it ends inside a rune, the broken   *)
(* tail decodes as U+FFFD, which a U+FFFD-free sub cannot match: only        *)
(* windows that are whole-rune slices SubSeq(q, i, j) can be equal to sub.   *)
RefContains(q, t) ==
    \E i \in 1..(Len(q) + 1) : \E j \in (i - 1)..Len(q) :
        /\ Bytes(SubSeq(q, i, j)) = Bytes(t)
        /\ FoldEq(SubSeq(q, i, j), t)

(* For ASCII operands the statement gives a second characterisation.  With   *)
(* lower-casing = "member of the orbit that ToLower yields" both sides are   *)
(* rune sequences of width 1.                                                *)
IsAscii(q) == \A i \in 1..Len(q) : BLen(q[i]) = 1
PlainContains(q, t) == \E i \in 0..(Len(q) - Len(t)) : \A k \in 1..Len(t) : Orbit(q[i + k]) = Orbit(t[k])

----------------------------------------------------------------------------
(* Byte level.  A byte is <<rune, k>>, the k-th byte of the encoding.        *)
RECURSIVE ToBytes(_)
ToBytes(q) == IF q = <<>> THEN <<>>
              ELSE [k \in 1..BLen(Head(q)) |-> <<Head(q), k>>] \o ToBytes(Tail(q))

Err == <<"fffd", 1>>        \* utf8.RuneError; orbit of its own
Drop(b, n) == SubSeq(b, n + 1, Len(b))

(* utf8.DecodeRuneInString on a slice of a valid string: a whole rune if the *)
(* slice starts with a lead byte and holds all its bytes, else (U+FFFD, 1).  *)
Decode(b) == LET r == b[1][1] IN
             IF b[1][2] = 1 /\ Len(b) >= BLen(r) THEN [r |-> r, w |-> BLen(r)]
             ELSE [r |-> Err, w |-> 1]

RECURSIVE EqualFoldB(_, _)
EqualFoldB(x, y) ==
    IF x = <<>> \/ y = <<>> THEN x = <<>> /\ y = <<>>
    ELSE LET dx == Decode(x) dy == Decode(y) IN
         /\ Orbit(dx.r) = Orbit(dy.r)
         /\ EqualFoldB(Drop(x, dx.w), Drop(y, dy.w))

(* strings.IndexFunc(b, f) with f = membership in the rune set `hit':        *)
(* byte offset of the first decoded rune in hit, -1 if none.                 *)
RECURSIVE IndexFunc(_, _, _)
IndexFunc(b, off, hit) ==
    IF b = <<>> THEN -1
    ELSE LET d == Decode(b) IN
         IF d.r \in hit THEN off ELSE IndexFunc(Drop(b, d.w), off + d.w, hit)

NextFold(r) == <<r[1], (r[2] % OrbitSize(r)) + 1>>     \* unicode.SimpleFold

(* The scan loop of ContainsFold, parameterised by the candidate filter.     *)
RECURSIVE Scan(_, _, _)
Scan(S, T, hit) ==
    IF Len(S) < Len(T) THEN FALSE
    ELSE IF EqualFoldB(SubSeq(S, 1, Len(T)), T) THEN TRUE
    ELSE LET i == IndexFunc(Tail(S), 0, hit) IN
         IF i = -1 THEN FALSE ELSE Scan(Drop(S, 1 + i), T, hit)

Contains(q, t, hit) ==
    LET S == ToBytes(q) T == ToBytes(t) IN
    IF Len(S) < Len(T) THEN FALSE
    ELSE IF Len(S) = Len(T) THEN EqualFoldB(S, T)
    ELSE Scan(S, T, hit)

First(t) == IF t = <<>> THEN Err ELSE t[1]
AllRunes == UNION {{<<o, m>> : m \in 1..Len(ByteTable[o])} : o \in DOMAIN ByteTable}
WholeOrbit(f) == {r \in AllRunes : Orbit(r) = Orbit(f)}
ImplContains(q, t) == Contains(q, t, WholeOrbit(First(t)))
OldImpl(q, t)      == LET f == First(t) IN
                      Contains(q, t, IF t = <<>> THEN {f} ELSE {f, NextFold(f)})

----------------------------------------------------------------------------
(* Enumeration of all pairs: the input is the state. *)
Init == al \in Alphabets /\ s = <<>> /\ sub = <<>>
Next == \/ /\ sub = <<>> /\ Len(s) < MaxS
           /\ \E c \in al : s' = Append(s, c)
           /\ UNCHANGED <<al, sub>>
        \/ /\ Len(sub) < MaxSub
           /\ \E c \in al : sub' = Append(sub, c)
           /\ UNCHANGED <<al, s>>
Spec == Init /\ [][Next]_vars

TypeOK == /\ \A i \in 1..Len(s) : s[i] \in al
          /\ \A i \in 1..Len(sub) : sub[i] \in al
          /\ \A r \in al : r[1] \in DOMAIN ByteTable /\ r[2] \in 1..OrbitSize(r)

(* C13, fold part: the algorithm decides the statement. *)
ImplIsRef == ImplContains(s, sub) = RefContains(s, sub)
(* ... and on ASCII operands both are the plain lower-cased search. *)
AsciiIsPlain == (IsAscii(s) /\ IsAscii(sub)) => (RefContains(s, sub) = PlainContains(s, sub))
(* Consequences used by the early returns of the algorithm. *)
Shortcuts == /\ Bytes(s) < Bytes(sub) => ~RefContains(s, sub)
             /\ Bytes(s) = Bytes(sub) => (RefContains(s, sub) = FoldEq(s, sub))
             /\ sub = <<>> => RefContains(s, sub)
(* Must be violated: the scan before the fix. *)
OldImplIsRef == OldImpl(s, sub) = RefContains(s, sub)
=============================================================================
