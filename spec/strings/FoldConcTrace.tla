--------------------------- MODULE FoldConcTrace ---------------------------
(* Validation of the free-running concurrent phase: one line per goroutine,   *)
(* "fold" goroutines ran ContainsFold in a hot loop over operands whose        *)
(* verdicts Fold.tla predicted (needles of a different fold orbit per          *)
(* goroutine), "split" goroutines kept splitting long inputs and re-read       *)
(* their earlier results; `wrong' counts the calls whose result was not the    *)
(* prediction (resp. the results that changed).  Accepted iff it is a          *)
(* behaviour of FoldConc with Memo = "none" / SplitValues with Impl = "fresh": *)
(* no call is ever wrong.                                                      *)
EXTENDS FoldConc, Json

Trace == ndJsonDeserialize("c13_conc_trace.ndjson")
VARIABLE l
tvars == <<cvars, l>>
TInit == CInit /\ l = 1
Ev == Trace[l]
TNext == /\ l <= Len(Trace)
         /\ l' = l + 1
         /\ UNCHANGED cvars
         /\ Ev.op = "proc" /\ Ev.calls > 0
         /\ Ev.wrong = 0                         \* StatelessVerdict / ResultsAreValues, observed
TSpec == TInit /\ [][TNext]_tvars
=============================================================================
