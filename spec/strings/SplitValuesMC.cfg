SPECIFICATION Spec
CONSTANTS
  Impl = "fresh"
  Cap = 2
  Counts = {0, 1, 2, 3, 5}
  MaxCalls = 4
INVARIANTS ResultsAreValues
CHECK_DEADLOCK FALSE
