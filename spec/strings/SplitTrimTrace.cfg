SPECIFICATION TSpec
CONSTANTS
  Tokens = {}
  Spaces <- TraceSpaces
  Seps = {}
  MaxLen = 0
CHECK_DEADLOCK FALSE
