SPECIFICATION TSpec
CONSTANTS
  Procs <- TraceProcs
  Keys = {}
  Vals = {}
  Confs <- DummyConfs
  MaxNest = 3
  INF = 100000000
CHECK_DEADLOCK FALSE
