------------------------------ MODULE CacheLin ------------------------------
(* Linearizability of the cache as a per-key register (C10), checked on logs *)
(* of free-running concurrent executions of the real code.                   *)
(*                                                                           *)
(* The harness records, for every call, an invoke stamp drawn before the     *)
(* call and a return stamp drawn after it from one atomic counter, and every *)
(* OnDelete call-back with a stamp drawn inside the call-back.  The log is   *)
(* projected per key (Clear belongs to every key) and each projection is a   *)
(* segment of the trace, introduced by a "reset" line carrying the           *)
(* configuration.                                                            *)
(*                                                                           *)
(* Sequential meaning of one key (Cache.tla restricted to a key):            *)
(*   set(v)  : returns "T" iff a value was present; the value becomes v      *)
(*   get     : returns the value or "-"                                      *)
(*   del / clear : the value becomes "-"                                     *)
(*   evict   : (LRU only) the value becomes "-"; reported to OnDelete        *)
(*   refused : (no LRU, bounded) set returns "F" and changes nothing         *)
(* Each pending call takes one silent Linearize step between its invoke and  *)
(* return lines; the return line is accepted only if the linearized result   *)
(* equals the logged one (the logged result is attached to the invoke line   *)
(* by the recorder's post-processing, which prunes the search).              *)
EXTENDS Integers, Sequences, FiniteSets, TLC, Json

Trace == ndJsonDeserialize("cachelin_trace.ndjson")

VARIABLES l,      \* next trace line
          val,    \* the key's current value: [id, ev] (ev: this value is later reported evicted) or None
          pend,   \* pend[p]: pending call of goroutine p, or None
          owed,   \* values evicted (silently) whose OnDelete line has not been consumed yet
          cfg     \* [evict, refuse, maxCount, maxSize] of the current segment
vars == <<l, val, pend, owed, cfg>>

None == [id |-> "-", ev |-> FALSE]
NoCall == [op |-> "-", v |-> None, r |-> "-", lin |-> FALSE]
GProcs == {"g0", "g1", "g2", "g3", "g4", "g5", "g6", "g7"}

Init == /\ l = 1
        /\ val = None
        /\ pend = [p \in GProcs |-> NoCall]
        /\ owed = {}
        /\ cfg = [evict |-> FALSE, refuse |-> FALSE, maxCount |-> 0, maxSize |-> 0, entry |-> 0]

Line == Trace[l]

(* ---- logged steps ---- *)
Reset == /\ Line.e = "reset"
         /\ \A p \in GProcs : pend[p] = NoCall      \* every call of the previous segment returned
         /\ owed = {}                                \* every eviction was reported exactly once
         /\ val' = None /\ owed' = {}
         /\ cfg' = [evict |-> Line.evict, refuse |-> Line.refuse, maxCount |-> Line.maxCount, maxSize |-> Line.maxSize,
                     entry |-> Line.entry]
         /\ UNCHANGED pend
         /\ l' = l + 1

Invoke == /\ Line.e = "inv"
          /\ pend[Line.p] = NoCall
          /\ pend' = [pend EXCEPT ![Line.p] = [op |-> Line.op, v |-> [id |-> Line.v, ev |-> Line.ev],
                                               r |-> Line.r, lin |-> FALSE]]
          /\ UNCHANGED <<val, owed, cfg>>
          /\ l' = l + 1

Return == /\ Line.e = "ret"
          /\ pend[Line.p].op # "-"
          /\ pend[Line.p].lin
          /\ pend' = [pend EXCEPT ![Line.p] = NoCall]
          /\ UNCHANGED <<val, owed, cfg>>
          /\ l' = l + 1

(* An OnDelete(key, value) call-back: the eviction it reports took effect before. *)
Evicted == /\ Line.e = "evicted"
           /\ Line.v \in owed
           /\ owed' = owed \ {Line.v}
           /\ UNCHANGED <<val, pend, cfg>>
           /\ l' = l + 1

(* A Stats() snapshot: the C09 bounds hold in it (0 = unlimited), and it is a *)
(* snapshot of ONE state: when every entry has the same length (cfg.entry),   *)
(* Size = Count * entry, so count and size read at different moments show.    *)
StatsLine == /\ Line.e = "stats"
             /\ (cfg.entry = 0 \/ Line.size = Line.count * cfg.entry)
             /\ (cfg.maxCount = 0 \/ Line.count <= cfg.maxCount)
             /\ (cfg.maxSize = 0 \/ Line.size <= cfg.maxSize)
             /\ Line.count >= 0 /\ Line.size >= 0
             /\ UNCHANGED <<val, pend, owed, cfg>>
             /\ l' = l + 1

(* ---- silent steps ---- *)
Linearize(p) ==
    /\ pend[p].op # "-" /\ ~pend[p].lin
    /\ LET c == pend[p] IN
       \/ /\ c.op = "set"
          /\ \/ /\ c.r = (IF val = None THEN "F" ELSE "T")     \* stored
                /\ val' = c.v
             \/ /\ cfg.refuse /\ c.r = "F"                      \* refused: nothing changes
                /\ ~c.v.ev
                /\ val' = val
       \/ /\ c.op = "get"
          /\ c.r = val.id
          /\ val' = val
       \/ /\ c.op \in {"del", "clear"}
          /\ val' = None
    /\ pend' = [pend EXCEPT ![p].lin = TRUE]
    /\ UNCHANGED <<owed, cfg, l>>

(* LRU eviction: only values whose OnDelete line exists in the log may go this way. *)
Evict == /\ cfg.evict
         /\ val # None /\ val.ev
         /\ owed' = owed \cup {val.id}
         /\ val' = None
         /\ UNCHANGED <<pend, cfg, l>>

Next == /\ l <= Len(Trace)
        /\ \/ Reset \/ Invoke \/ Return \/ Evicted \/ StatsLine
           \/ \E p \in GProcs : Linearize(p)
           \/ Evict

Spec == Init /\ [][Next]_vars

(* Acceptance: some interleaving of silent steps consumes the whole log, i.e. *)
(* the high-water mark of l reaches Len(Trace) + 1; otherwise it tells where *)
(* every attempt got stuck.                                                  *)
HighWater == TLCSet(1, IF TLCGet(1) < l THEN l ELSE TLCGet(1))
ASSUME TLCSet(1, 0)
Report == PrintT("HWM " \o ToString(TLCGet(1) - 1))
=============================================================================
