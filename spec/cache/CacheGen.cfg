SPECIFICATION GSpec
CONSTANTS
  Procs <- MCProcs1
  Keys <- MCKeys
  Vals <- MCVals
  Confs <- AllConfs
  MaxNest = 1
  INF = 1000
  MaxEvents = 3
INVARIANT Emit Inv
CHECK_DEADLOCK FALSE
