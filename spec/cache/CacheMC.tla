------------------------------ MODULE CacheMC ------------------------------
EXTENDS Cache, SequencesExt

K(id, n) == [id |-> id, len |-> n]
MCProcs1 == {"p1"}
MCProcs2 == {"p1", "p2"}
MCProcs3 == {"p1", "p2", "p3"}
MCKeys == {K("k1", 1), K("k2", 1), K("k3", 2)}
MCVals == {K("v1", 1), K("v2", 3)}
(* A nil value ("vn", Set(k, nil)) and an empty non-nil one ("ve"): both are live entries of length 0; *)
(* Get returns nil for the former but still counts a hit.                                          *)
MCValsNil == {K("v1", 1), K("vn", 0), K("ve", 0)}

AllConfs == {c \in [maxSize : {0, 5, 7}, maxElem : {0, 3, 9}, maxCount : {0, 1, 2},
                    lru : BOOLEAN, onDelete : {"nil", "rec", "reent"}] :
               ~c.lru => c.onDelete # "reent"}
(* Sub-families used to split big runs. *)
ConfsLRU   == {c \in AllConfs : c.lru}
ConfsNoLRU == {c \in AllConfs : ~c.lru}
ConfsReent == {c \in AllConfs : c.onDelete = "reent"}
ConfsTight == {c \in AllConfs : c.lru /\ c.onDelete = "reent" /\ c.maxSize = 5 /\ c.maxElem = 0 /\ c.maxCount \in {0, 2}}
ConfsConc  == {c \in AllConfs : c.maxElem = 0 /\ c.maxSize \in {0, 5} /\ c.maxCount \in {0, 2} /\ c.onDelete # "reent"}

(* Bound the exploration by the number of calls in flight being small: the   *)
(* state space is finite by itself (hit/miss are the only growing values).   *)
ConfsSched1 == {c \in AllConfs : c.lru /\ c.onDelete = "rec" /\ c.maxElem = 0 /\ c.maxCount = 1 /\ c.maxSize = 0}
ConfsSched  == {c \in AllConfs : c.lru /\ c.onDelete = "rec" /\ c.maxElem = 0 /\
                   ((c.maxCount = 1 /\ c.maxSize = 0) \/ (c.maxCount = 2 /\ c.maxSize = 0) \/ (c.maxCount = 0 /\ c.maxSize = 5))}
MCVals1 == {K("v1", 1)}
(* Call-backs that may panic ("fault"): the OnDelete window ends with the Set *)
(* unwinding instead of re-taking the lock.                                   *)
ConfsFault == {c \in [maxSize : {0, 5}, maxElem : {0}, maxCount : {0, 1, 2},
                       lru : {TRUE}, onDelete : {"fault"}] : c.maxSize # 0 \/ c.maxCount # 0}
ConfsFault1 == {c \in ConfsFault : c.maxCount = 1 /\ c.maxSize = 0}

(* MaxElementSize at the size of the keys themselves (key lengths are 1, 1, 2): with an empty or nil value *)
(* an entry is exactly as large as its key, so "fits" and "does not fit" meet at len(key) = MaxElementSize.  *)
ConfsElemEdge == {c \in [maxSize : {0, 5}, maxElem : {1, 2}, maxCount : {0, 2},
                          lru : BOOLEAN, onDelete : {"nil", "rec"}] : TRUE}

MaxGets == 3
GetBound == hit + miss <= MaxGets
View == core
=============================================================================
