------------------------------ MODULE CacheGen ------------------------------
(* Generator: every behaviour of Cache up to MaxEvents events, emitted when  *)
(* no call is in flight, with the result and the Stats() snapshot the        *)
(* specification predicts after every event and the final contents.          *)
EXTENDS CacheMC, Json, CSV

CONSTANT MaxEvents
VARIABLE hist
gvars == <<vars, hist>>

(* One event as a flat tuple (keeps the vector file small):                   *)
(* <<t, p, d, op, k, klen, v, vlen, ek, ev, r, count, size, hit, miss>>       *)
Compact(e, st) == <<e.t, e.p, e.d, e.op, e.k.id, e.k.len, e.v.id, e.v.len, e.ek.id, e.ev.id, e.r,
                    st[1], st[2], st[3], st[4]>>

GInit == Init /\ hist = << >>
GNext == /\ Len(hist) < MaxEvents
         /\ Next
         /\ hist' = Append(hist, Compact(ev', Stats'))
GSpec == GInit /\ [][GNext]_gvars

Contents == LET ks == SetToSeq(Live) IN [i \in DOMAIN ks |-> <<ks[i].id, items[ks[i]].id>>]
  
Emit == IF Quiescent
        THEN CSVWrite("%1$s", <<ToJson([conf |-> <<conf.raw.maxSize, conf.raw.maxElem, conf.raw.maxCount, conf.raw.lru, conf.raw.onDelete>>,
                                             evs |-> hist, items |-> Contents])>>,
                      "cache_vectors.ndjson")
        ELSE TRUE
=============================================================================
