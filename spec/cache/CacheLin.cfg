SPECIFICATION Spec
INVARIANTS HighWater
POSTCONDITION Report
CHECK_DEADLOCK FALSE
