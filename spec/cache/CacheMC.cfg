SPECIFICATION Spec
CONSTANTS
  Procs <- MCProcs1
  Keys <- MCKeys
  Vals <- MCVals
  Confs <- AllConfs
  MaxNest = 2
  INF = 1000
INVARIANT Inv
PROPERTIES OnlyExplainedLoss RefusedChangesNothing CountsGets GetReturnsStored
CONSTRAINT GetBound
VIEW View
CHECK_DEADLOCK FALSE
