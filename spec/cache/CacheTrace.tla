----------------------------- MODULE CacheTrace -----------------------------
(* Trace validation for the sequential cache (C09): a log recorded from the  *)
(* real cache (random configurations, hundreds to thousands of calls, calls  *)
(* nested inside OnDelete) must be a behaviour of Cache.tla: every logged     *)
(* event must be the event of an enabled action with the logged arguments,   *)
(* its logged result must be the specified one and the logged Stats()         *)
(* snapshot must equal the specification's counters.                          *)
EXTENDS Cache, Json

Trace == ndJsonDeserialize("cache_trace.ndjson")

VARIABLE l
tvars == <<vars, l>>

TraceProcs == {"p1", "p2", "p3", "p4"}
DummyConfs == {[maxSize |-> 0, maxElem |-> 0, maxCount |-> 0, lru |-> FALSE, onDelete |-> "nil"]}

TInit == Init /\ l = 1

(* NB: never prime an expression mentioning Trace[l]. *)
Match(e) == /\ ev'.t = e.t /\ ev'.p = e.p /\ ev'.d = e.d /\ ev'.op = e.op
            /\ ev'.k = e.k /\ ev'.v = e.v /\ ev'.ek = e.ek /\ ev'.ev = e.ev /\ ev'.r = e.r
            /\ Stats' = e.st

TNew(e) == /\ e.t = "new"
           /\ conf' = NormConf(e.conf)
           /\ items' = << >> /\ order' = << >> /\ size' = 0 /\ hit' = 0 /\ miss' = 0
           /\ stk' = [p \in Procs |-> << >>]
           /\ ev' = [t |-> "new", p |-> "-", d |-> 0, op |-> "-", k |-> NoKV, v |-> NoKV,
                     ek |-> NoKV, ev |-> NoKV, r |-> "-"]

TStep(e) ==
    /\ \/ e.t = "call" /\ e.op = "set" /\ (SetTooLarge(e.p, e.k, e.v) \/ SetRefused(e.p, e.k, e.v) \/ SetAtomic(e.p, e.k, e.v))
       \/ e.t = "evict" /\ (SetEvictFirst(e.p, e.k, e.v) \/ SetEvictAgain(e.p))
       \/ e.t = "end" /\ SetFinish(e.p)
       \/ e.t = "call" /\ e.op = "get" /\ Get(e.p, e.k)
       \/ e.t = "call" /\ e.op = "del" /\ Del(e.p, e.k)
       \/ e.t = "call" /\ e.op = "clear" /\ Clear(e.p)
       \/ e.t = "call" /\ e.op = "stats" /\ StatsCall(e.p)
    /\ Match(e)

TNext == /\ l <= Len(Trace)
         /\ l' = l + 1
         /\ LET e == Trace[l] IN TNew(e) \/ TStep(e)
         /\ Inv'
TSpec == TInit /\ [][TNext]_tvars
=============================================================================
