------------------------------- MODULE Cache -------------------------------
(* github.com/AdguardTeam/golibs/cache — the size- and count-bounded LRU map *)
(* of cache/data.go, one action per lock region of the Go code.              *)
(*                                                                           *)
(* Every API call is a single lock region (= one atomic action) except Set   *)
(* when it has to evict with an OnDelete callback configured: the code then  *)
(* unlinks the least recently used entry under the lock, DROPS the lock,     *)
(* calls OnDelete(key, value), re-takes the lock and re-evaluates the loop   *)
(* condition.  While a process sits in that callback window                  *)
(*   - the same process may make nested calls (re-entrant OnDelete), and     *)
(*   - other processes may run complete calls.                               *)
(* Both are the same thing here: actions of other frames interleave.         *)
(*                                                                           *)
(* Keys and values are records [id, len]; len is the byte length the cache   *)
(* accounts for.  `ev` is an observation variable: the event the step just   *)
(* performed, with the results the real call must return.  Generators append *)
(* it to a history, trace specs match it against logged events, exhaustive   *)
(* model checking hides it with a VIEW.                                      *)
EXTENDS Integers, Sequences, FiniteSets, TLC

CONSTANTS Procs,      \* process (goroutine) names
          Keys, Vals, \* sets of [id |-> STRING, len |-> Nat]
          Confs,      \* set of configurations (see NormConf)
          MaxNest,    \* max depth of calls nested inside OnDelete
          INF         \* stands for "unlimited" (larger than any reachable size)

VARIABLES conf,   \* chosen configuration (normalised like newCache does)
          items,  \* function: live key -> value
          order,  \* LRU list, least recently used first (<<>> when ~conf.lru)
          size,   \* c.size
          hit, miss,
          stk,    \* stk[p]: stack of Set calls of p that are inside OnDelete
          ev      \* observation: the event of the last step

vars == <<conf, items, order, size, hit, miss, stk, ev>>
core == <<conf, items, order, size, hit, miss, stk>>

NoKV == [id |-> "-", len |-> 0]

(* newCache: zero limits mean unlimited; MaxElementSize defaults/clamps to MaxSize. *)
NormConf(c) ==
    LET ms == IF c.maxSize = 0 THEN INF ELSE c.maxSize
        mc == IF c.maxCount = 0 THEN INF ELSE c.maxCount
        me == IF c.maxElem = 0 \/ c.maxElem > ms THEN ms ELSE c.maxElem
    IN [maxSize |-> ms, maxElem |-> me, maxCount |-> mc, lru |-> c.lru, onDelete |-> c.onDelete,
        raw |-> c]

Live == DOMAIN items
Count == Cardinality(Live)
ESize(k, v) == k.len + v.len
Stats == <<Count, size, hit, miss>>

Event(t, p, op, k, v, ek, evv, r) ==
    [t |-> t, p |-> p, d |-> Len(stk[p]), op |-> op, k |-> k, v |-> v, ek |-> ek, ev |-> evv, r |-> r]

Init == /\ \E c \in Confs : conf = NormConf(c)
        /\ items = << >>
        /\ order = << >>
        /\ size = 0 /\ hit = 0 /\ miss = 0
        /\ stk = [p \in Procs |-> << >>]
        /\ ev = [t |-> "init", p |-> "-", d |-> 0, op |-> "-", k |-> NoKV, v |-> NoKV,
                 ek |-> NoKV, ev |-> NoKV, r |-> "-"]

Remove(seq, x) == SelectSeq(seq, LAMBDA y : y # x)
Restrict(f, S) == [x \in S |-> f[x]]

(* A process may start a call when it is idle, or when it sits in an OnDelete *)
(* window of a re-entrant configuration and the nesting bound allows it.     *)
CanCall(p) == \/ stk[p] = << >>
              \/ /\ conf.onDelete = "reent"
                 /\ Len(stk[p]) <= MaxNest

NeedRoom(sz, cnt, add) == sz + add > conf.maxSize \/ cnt = conf.maxCount

(* The eviction loop of Set as a function on (items, order, size): evicts    *)
(* heads while room is needed.  Used for the OnDelete = nil case, where the  *)
(* whole loop is one lock region.                                            *)
RECURSIVE EvictAll(_, _, _, _)
EvictAll(its, ord, sz, add) ==
    IF NeedRoom(sz, Cardinality(DOMAIN its), add) /\ ord # << >>
    THEN LET h == Head(ord) IN
         EvictAll(Restrict(its, DOMAIN its \ {h}), Tail(ord), sz - ESize(h, its[h]), add)
    ELSE [items |-> its, order |-> ord, size |-> sz]

(* The final part of Set: link the new item, unlink a replaced one. *)
InsertInto(its, ord, sz, k, v) ==
    LET exists == k \in DOMAIN its
        ord1 == IF conf.lru THEN Append(Remove(ord, k), k) ELSE ord
        sz1 == IF exists THEN sz - ESize(k, its[k]) + ESize(k, v) ELSE sz + ESize(k, v)
    IN [items |-> [x \in DOMAIN its \cup {k} |-> IF x = k THEN v ELSE its[x]],
        order |-> ord1, size |-> sz1, replaced |-> exists]

Bool(b) == IF b THEN "T" ELSE "F"

----------------------------------------------------------------------------
(* Set, first lock region. *)

(* (a) too large: returns false without taking the lock. *)
SetTooLarge(p, k, v) ==
    /\ CanCall(p)
    /\ ESize(k, v) > conf.maxElem
    /\ ev' = Event("call", p, "set", k, v, NoKV, NoKV, "F")
    /\ UNCHANGED core

(* (b) LRU disabled and no room: refused, nothing changes. *)
SetRefused(p, k, v) ==
    /\ CanCall(p)
    /\ ESize(k, v) <= conf.maxElem
    /\ ~conf.lru
    /\ NeedRoom(size, Count, ESize(k, v))
    /\ ev' = Event("call", p, "set", k, v, NoKV, NoKV, "F")
    /\ UNCHANGED core

(* (c) completes within one lock region: no eviction needed, or evictions    *)
(*     without a callback.                                                   *)
SetAtomic(p, k, v) ==
    /\ CanCall(p)
    /\ ESize(k, v) <= conf.maxElem
    /\ \/ ~NeedRoom(size, Count, ESize(k, v))
       \/ conf.lru /\ conf.onDelete = "nil"
    /\ LET e == IF conf.lru THEN EvictAll(items, order, size, ESize(k, v))
                ELSE [items |-> items, order |-> order, size |-> size]
           n == InsertInto(e.items, e.order, e.size, k, v)
       IN /\ items' = n.items /\ order' = n.order /\ size' = n.size
          /\ ev' = Event("call", p, "set", k, v, NoKV, NoKV, Bool(n.replaced))
    /\ UNCHANGED <<conf, hit, miss, stk>>

(* One iteration of the eviction loop with a callback: unlink the head,     *)
(* subtract its size, delete it, drop the lock and call OnDelete.            *)
EvictHead(p, k, v, first) ==
    LET h == Head(order) hv == items[h] IN
    /\ items' = Restrict(items, Live \ {h})
    /\ order' = Tail(order)
    /\ size' = size - ESize(h, hv)
    /\ stk' = [stk EXCEPT ![p] = IF first THEN Append(@, [k |-> k, v |-> v]) ELSE @]
    /\ ev' = [Event("evict", p, "set", k, v, h, hv, "-") EXCEPT !.d = IF first THEN Len(stk[p]) ELSE Len(stk[p]) - 1]

(* (d) needs room, LRU on, callback configured: first eviction. *)
SetEvictFirst(p, k, v) ==
    /\ CanCall(p)
    /\ ESize(k, v) <= conf.maxElem
    /\ conf.lru /\ conf.onDelete # "nil"
    /\ NeedRoom(size, Count, ESize(k, v))
    /\ order # << >>
    /\ EvictHead(p, k, v, TRUE)
    /\ UNCHANGED <<conf, hit, miss>>

(* OnDelete returned: the lock is re-taken and the loop condition re-checked *)
(* against whatever the cache looks like NOW.                                *)
Top(p) == stk[p][Len(stk[p])]
Pop(p) == [stk EXCEPT ![p] = SubSeq(@, 1, Len(@) - 1)]

SetEvictAgain(p) ==
    /\ stk[p] # << >>
    /\ LET f == Top(p) IN
       /\ NeedRoom(size, Count, ESize(f.k, f.v))
       /\ order # << >>
       /\ EvictHead(p, f.k, f.v, FALSE)
    /\ UNCHANGED <<conf, hit, miss>>

SetFinish(p) ==
    /\ stk[p] # << >>
    /\ LET f == Top(p) IN
       /\ ~NeedRoom(size, Count, ESize(f.k, f.v))
       /\ LET n == InsertInto(items, order, size, f.k, f.v) IN
          /\ items' = n.items /\ order' = n.order /\ size' = n.size
          /\ ev' = [Event("end", p, "set", f.k, f.v, NoKV, NoKV, Bool(n.replaced)) EXCEPT !.d = Len(stk[p]) - 1]
    /\ stk' = Pop(p)
    /\ UNCHANGED <<conf, hit, miss>>

(* The call-back PANICS (configurations with onDelete = "fault" only): the    *)
(* lock is not held during the call-back, so the panic leaves Set with the   *)
(* lock free and the bookkeeping consistent: the evicted entry is gone, the  *)
(* new one was never inserted, and every later call works.                   *)
SetAbort(p) ==
    /\ stk[p] # << >>
    /\ conf.onDelete = "fault"
    /\ LET f == Top(p) IN
       ev' = [Event("abort", p, "set", f.k, f.v, NoKV, NoKV, "-") EXCEPT !.d = Len(stk[p]) - 1]
    /\ stk' = Pop(p)
    /\ UNCHANGED <<conf, items, order, size, hit, miss>>

----------------------------------------------------------------------------
Get(p, k) ==
    /\ CanCall(p)
    /\ IF k \in Live
         THEN /\ order' = IF conf.lru THEN Append(Remove(order, k), k) ELSE order
              /\ hit' = hit + 1 /\ miss' = miss
              /\ ev' = Event("call", p, "get", k, NoKV, NoKV, NoKV, items[k].id)
         ELSE /\ order' = order
              /\ miss' = miss + 1 /\ hit' = hit
              /\ ev' = Event("call", p, "get", k, NoKV, NoKV, NoKV, "-")
    /\ UNCHANGED <<conf, items, size, stk>>

Del(p, k) ==
    /\ CanCall(p)
    /\ IF k \in Live
         THEN /\ items' = Restrict(items, Live \ {k})
              /\ order' = Remove(order, k)
              /\ size' = size - ESize(k, items[k])
         ELSE UNCHANGED <<items, order, size>>
    /\ ev' = Event("call", p, "del", k, NoKV, NoKV, NoKV, "-")
    /\ UNCHANGED <<conf, hit, miss, stk>>

Clear(p) ==
    /\ CanCall(p)
    /\ items' = << >> /\ order' = << >> /\ size' = 0 /\ hit' = 0 /\ miss' = 0
    /\ ev' = Event("call", p, "clear", NoKV, NoKV, NoKV, NoKV, "-")
    /\ UNCHANGED <<conf, stk>>

StatsCall(p) ==
    /\ CanCall(p)
    /\ ev' = Event("call", p, "stats", NoKV, NoKV, NoKV, NoKV, "-")
    /\ UNCHANGED core

Next == \E p \in Procs :
          \/ \E k \in Keys, v \in Vals :
               SetTooLarge(p, k, v) \/ SetRefused(p, k, v) \/ SetAtomic(p, k, v) \/ SetEvictFirst(p, k, v)
          \/ SetEvictAgain(p) \/ SetFinish(p) \/ SetAbort(p)
          \/ \E k \in Keys : Get(p, k) \/ Del(p, k)
          \/ Clear(p) \/ StatsCall(p)

Spec == Init /\ [][Next]_vars

----------------------------------------------------------------------------
(* C09: bounds and bookkeeping hold in EVERY state, hence in every Stats()   *)
(* snapshot, including the ones taken inside OnDelete.                       *)
RECURSIVE SumSizes(_)
SumSizes(S) == IF S = {} THEN 0 ELSE LET k == CHOOSE x \in S : TRUE IN ESize(k, items[k]) + SumSizes(S \ {k})

IsPerm(seq, S) == /\ Len(seq) = Cardinality(S)
                  /\ {seq[i] : i \in DOMAIN seq} = S

CountBound == Count <= conf.maxCount
SizeExact  == size = SumSizes(Live)
SizeBound  == size <= conf.maxSize
OrderOK    == IF conf.lru THEN IsPerm(order, Live) ELSE order = << >>
ElemBound  == \A k \in Live : ESize(k, items[k]) <= conf.maxElem
(* While a Set waits in its callback the loop invariant "there is something  *)
(* to evict whenever room is needed" must hold, or the Go code would unlink  *)
(* the list sentinel.                                                        *)
NoEvictFromEmpty == \A p \in Procs : stk[p] # << >> =>
                       (NeedRoom(size, Count, ESize(Top(p).k, Top(p).v)) => order # << >>)

Inv == CountBound /\ SizeExact /\ SizeBound /\ OrderOK /\ ElemBound /\ NoEvictFromEmpty

(* Entries disappear or change only by Del, Clear, replacement, or eviction  *)
(* of the least recently used entry; a refused or too-large Set changes      *)
(* nothing; hit/miss count Gets exactly.                                     *)
Gone == {k \in Live : k \notin DOMAIN items' \/ items'[k] # items[k]}
Explained(k) ==
    \/ ev'.op = "del" /\ ev'.k = k
    \/ ev'.op = "clear"
    \/ ev'.op = "set" /\ ev'.k = k /\ ev'.t \in {"call", "end"} /\ ev'.r = "T"
    \/ ev'.t = "evict" /\ ev'.ek = k /\ k = Head(order) /\ ev'.ev = items[k]
    \/ ev'.op = "set" /\ ev'.t = "call" /\ conf.lru /\ conf.onDelete = "nil"   \* silent LRU evictions
          /\ \E n \in 1..Len(order) : k \in {order[i] : i \in 1..n}
                 /\ \A i \in 1..n : order[i] \notin DOMAIN items' \/ order[i] = ev'.k
OnlyExplainedLoss == [][\A k \in Gone : Explained(k)]_vars
AbortChangesNothing == [][ev'.t = "abort" => UNCHANGED <<items, order, size, hit, miss>>]_vars
RefusedChangesNothing == [][(ev'.op = "set" /\ ev'.t = "call" /\
                              (ESize(ev'.k, ev'.v) > conf.maxElem \/ (~conf.lru /\ NeedRoom(size, Count, ESize(ev'.k, ev'.v)))))
                             => (UNCHANGED core /\ ev'.r = "F")]_vars
CountsGets == [][/\ (ev'.op = "get" => hit' + miss' = hit + miss + 1)
                 /\ (ev'.op \notin {"get", "clear"} => hit' = hit /\ miss' = miss)]_vars
GetReturnsStored == [][ev'.op = "get" => ev'.r = (IF ev'.k \in Live THEN items[ev'.k].id ELSE "-")]_vars

Quiescent == \A p \in Procs : stk[p] = << >>
=============================================================================
