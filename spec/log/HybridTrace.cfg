SPECIFICATION TSpec
CONSTANTS
  Levels = {}
  Thresholds = {}
  Batches = {}
  RecSizes = {}
  RecShapes = {}
  Sizes = {}
  LargeSizes = {}
  MaxRelogs = 0
  ShareOnCopy = TRUE
  CloneBeforeAdd = TRUE
  RebindOnLarge = FALSE
  Faults = {}
  MaxFaults = 0
  DeferUnlock = TRUE
  StickyError = TRUE
  LiveKind = 0
  MaxTicks = 0
  ResolveOnDerive = FALSE
  NWriters = 1
  MaxTrees = 1
  ShareByWriter = FALSE
  Ctxs = {}
  CtxAwareLock = FALSE
  MaxH = 100000
  MaxLogs = 0
  MaxGroups = 0
  MaxSteps = 0
  ClipOnDerive = TRUE
CHECK_DEADLOCK FALSE
