\* tlc -config HybridLogGen.cfg HybridLogGen    writes hybrid_vectors.ndjson: all WithAttrs sequences of 5 derivations
SPECIFICATION GSpec
CONSTANTS
  Levels <- LevelsEdge
  Thresholds <- ThrTree
  Batches = {0, 1, 2, 3}
  RecSizes = {1}
  RecShapes <- ShapesMC
  Sizes <- SizesNone
  LargeSizes <- Large
  MaxRelogs = 1
  ShareOnCopy = TRUE
  CloneBeforeAdd = TRUE
  RebindOnLarge = FALSE
  Faults <- NoFaults
  MaxFaults = 0
  DeferUnlock = TRUE
  StickyError = TRUE
  LiveKind = 0
  MaxTicks = 0
  ResolveOnDerive = FALSE
  NWriters = 1
  MaxTrees = 1
  ShareByWriter = FALSE
  Ctxs = {}
  CtxAwareLock = FALSE
  MaxH = 6
  MaxLogs = 0
  MaxGroups = 0
  MaxSteps = 5
  ClipOnDerive = TRUE
  EmitAll = FALSE
INVARIANTS Emit AttrsImmutable
CHECK_DEADLOCK FALSE
