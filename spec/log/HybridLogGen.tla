----------------------------- MODULE HybridLogGen -----------------------------
(* Generator (binding G): every path of HybridLog up to MaxSteps together with *)
(* what the specification predicts -- for each handler its attribute ids in    *)
(* order, for each Log step of the path the line (severity, attribute ids),    *)
(* and the severity / Enabled tables over the probe levels.                    *)
(*                                                                             *)
(* Operations are written compactly: <<1, h, k>> = h.WithAttrs(batch of k),    *)
(* <<4, h, level, size class, c1, .., cn>> = a new record built by n AddAttrs  *)
(* calls of c1..cn attributes and handled by h, <<5, h, r>> = the value of     *)
(* record r (numbered in order of creation) handled again by h,                *)
(* <<6, k, w>> = the next Write of writer w fails (1 error, 2 short write, 3    *)
(* panic); <<8, k>> = the next Handle gets a context of kind k (1 live, 2      *)
(* cancelled, 3 deadline expired); <<9, w>> = another NewJSONHybridHandler on  *)
(* writer w (tree = the tree of each handler, tw = the writer of each tree); rets *)
(* says how each Handle call of the path ends (0 = its line is written),       *)
(* <<7, c>> = the environment sets the cell of the live values to c (live =    *)
(* the kind of live value; vals in out = what each attribute of the line       *)
(* evaluates to, 0 for the ordinary ones),                                     *)
(* <<3, h>> = h.WithGroup(...) (panics).  The ids of a batch are the last k    *)
(* entries of the new handler's attrs, those of a record the first n entries   *)
(* of its predicted line.                                                      *)
(*                                                                             *)
(* EmitAll = TRUE writes one vector per state (every prefix of every path);    *)
(* FALSE writes only the paths of full length -- the harness logs through      *)
(* every existing handler after every step of a path anyway, so the prefixes   *)
(* are checked by the longer paths.                                            *)
EXTENDS HybridLogMC, Json, CSV, SequencesExt

CONSTANT EmitAll

VARIABLE hist
gvars == <<vars, hist>>

ProbeSeq == SetToSortSeq(LevelsAll \cup {thr - 1, thr, thr + 1}, <)
Bit(b) == IF b THEN 1 ELSE 0

GInit == Init /\ hist = <<>>
GNext ==
    /\ steps < MaxSteps
    /\ steps' = steps + 1
    /\ \/ \E h \in Handlers :
         \/ \E k \in Batches :
              /\ Derive(h, k)
              /\ hist' = Append(hist, <<1, h, k>>)
         \/ /\ Len(recs) < MaxLogs
            /\ \E lv \in Levels, sz \in Sizes, sh \in Shapes :
                 /\ LogNew(h, lv, sz, sh)
                 /\ hist' = Append(hist, <<4, h, lv, sz>> \o sh)
         \/ /\ RelogsSoFar < MaxRelogs
            /\ \E r \in 1..Len(recs) :
                 /\ ReLog(h, r)
                 /\ hist' = Append(hist, <<5, h, r>>)
         \/ /\ ngroups < MaxGroups
            /\ WithGroup(h)
            /\ hist' = Append(hist, <<3, h>>)
       \/ \E k \in Faults, w \in 1..NWriters : ArmFault(k, w) /\ hist' = Append(hist, <<6, k, w>>)
       \/ \E k \in Ctxs : ArmCtx(k) /\ hist' = Append(hist, <<8, k>>)
       \/ \E w \in 1..NWriters : NewTree(w) /\ hist' = Append(hist, <<9, w>>)
       \/ Tick /\ hist' = Append(hist, <<7, cell + 1>>)
GSpec == GInit /\ [][GNext]_gvars

Vector == [thr   |-> thr,
           ops   |-> hist,
           attrs |-> attrs,
           rets  |-> [i \in 1..Len(rets) |-> rets[i].c],
           tree  |-> tree,
           tw    |-> twriter,
           live  |-> LiveKind,
           recs  |-> [r \in 1..Len(recs) |-> recs[r].attrs],
           out   |-> [i \in 1..Len(out) |->
                        [h |-> out[i].h, lv |-> out[i].lv, r |-> out[i].r, n |-> Len(out[i].rec),
                         err |-> Bit(Severity(out[i].lv) = "ERROR"),
                         attrs |-> out[i].rec \o attrs[out[i].h],
                         vals |-> out[i].want]],
           lvls  |-> ProbeSeq,
           err   |-> [i \in 1..Len(ProbeSeq) |-> Bit(Severity(ProbeSeq[i]) = "ERROR")],
           en    |-> [i \in 1..Len(ProbeSeq) |-> Bit(IsEnabled(ProbeSeq[i]))]]

Emit == (EmitAll \/ steps = MaxSteps) =>
            CSVWrite("%1$s", <<ToJson(Vector)>>, "hybrid_vectors.ndjson")
=============================================================================
