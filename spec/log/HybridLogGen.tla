----------------------------- MODULE HybridLogGen -----------------------------
(* Generator (binding G): every path of HybridLog up to MaxSteps together with *)
(* what the specification predicts -- for each handler its attribute ids in    *)
(* order, for each Log step of the path the line (severity, attribute ids),    *)
(* and the severity / Enabled tables over the probe levels.                    *)
(*                                                                             *)
(* Operations are written compactly: <<1, h, k>> = h.WithAttrs(batch of k),    *)
(* <<2, h, level, m>> = h.Handle(record with m own attributes),                *)
(* <<3, h>> = h.WithGroup(...) (panics).  The ids of a batch are the last k    *)
(* entries of the new handler's attrs, those of a record the first m entries   *)
(* of its predicted line.                                                      *)
(*                                                                             *)
(* EmitAll = TRUE writes one vector per state (every prefix of every path);    *)
(* FALSE writes only the paths of full length -- the harness logs through      *)
(* every existing handler after every step of a path anyway, so the prefixes   *)
(* are checked by the longer paths.                                            *)
EXTENDS HybridLogMC, Json, CSV, SequencesExt

CONSTANT EmitAll

VARIABLE hist
gvars == <<vars, hist>>

ProbeSeq == SetToSortSeq(LevelsAll \cup {thr - 1, thr, thr + 1}, <)
Bit(b) == IF b THEN 1 ELSE 0

GInit == Init /\ hist = <<>>
GNext ==
    /\ steps < MaxSteps
    /\ steps' = steps + 1
    /\ \E h \in Handlers :
         \/ \E k \in Batches :
              /\ Derive(h, k)
              /\ hist' = Append(hist, <<1, h, k>>)
         \/ /\ Len(out) < MaxLogs
            /\ \E lv \in Levels, m \in RecSizes :
                 /\ Log(h, lv, m)
                 /\ hist' = Append(hist, <<2, h, lv, m>>)
         \/ /\ ngroups < MaxGroups
            /\ WithGroup(h)
            /\ hist' = Append(hist, <<3, h>>)
GSpec == GInit /\ [][GNext]_gvars

Vector == [thr   |-> thr,
           ops   |-> hist,
           attrs |-> attrs,
           out   |-> [i \in 1..Len(out) |->
                        [h |-> out[i].h, lv |-> out[i].lv,
                         err |-> Bit(ExpectedLine(out[i].h, out[i].lv, out[i].rec).sev = "ERROR"),
                         attrs |-> ExpectedLine(out[i].h, out[i].lv, out[i].rec).attrs]],
           lvls  |-> ProbeSeq,
           err   |-> [i \in 1..Len(ProbeSeq) |-> Bit(Severity(ProbeSeq[i]) = "ERROR")],
           en    |-> [i \in 1..Len(ProbeSeq) |-> Bit(IsEnabled(ProbeSeq[i]))]]

Emit == (EmitAll \/ steps = MaxSteps) =>
            CSVWrite("%1$s", <<ToJson(Vector)>>, "hybrid_vectors.ndjson")
=============================================================================
