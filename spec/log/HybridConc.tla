------------------------------ MODULE HybridConc ------------------------------
(* Concurrent JSONHybridHandler.Handle calls on handlers that share one        *)
(* writer (property C19: one line per record, lines never interleave).         *)
(*                                                                             *)
(* One process = one Handle call, cut at the points where the real code        *)
(* touches shared state (jsonhybrid.go):                                       *)
(*   PoolGet    bufTextPool.Get(): any pooled buffer or a new one              *)
(*   Reset      bufTextHdlr.reset(): length 0, backing array kept              *)
(*   Valuer     slog.TextHandler.Handle evaluating the record's attributes;    *)
(*              a slog.LogValuer is code the harness owns (a gate); the pooled *)
(*              buffer is held and still empty (TextHandler writes the whole   *)
(*              line with one Write at the end)                                *)
(*   Render     the text line is written into the pooled buffer; msg becomes a *)
(*              slice of the buffer's backing array (no copy), newline cut off *)
(*   Lock       h.mu.Lock() - the mutex shared by all handlers of the tree     *)
(*   Encode     json.Encoder.Encode marshals {severity, message} into its own  *)
(*              buffer: this is the moment the pooled bytes are read           *)
(*   Write      one w.Write(line) call; the writer is code the harness owns    *)
(*              (a gate inside the critical section)                           *)
(*   Unlock, PoolPut   the deferred calls, in this order                       *)
(*                                                                             *)
(* A pooled item (bufferedTextHandler) is a pair: the buffer Handle reads      *)
(* (hb) and the buffer its slog.TextHandler was created on and writes to (tb). *)
(* They must stay the same buffer; a buffer that has held a large line stays   *)
(* large (capacity is kept by Reset).                                          *)
(*                                                                             *)
(* The writer is environment: Fault[p] says what w.Write does with the line of *)
(* p's record: 0 takes it, 1 returns (0, err), 2 returns (n < len, err) - the  *)
(* line is lost either way - , 3 panics; the panic leaves Handle and is        *)
(* recovered by the caller (as net/http does per request).  Whatever the       *)
(* writer does to one record, the handler tree must stay usable: the mutex is  *)
(* released (DeferUnlock), the pooled item goes back, every call returns, and  *)
(* every record whose Handle returns nil has its one line.  After a Write      *)
(* ERROR the code's behaviour is StickyError = TRUE: the shared json.Encoder   *)
(* remembers the error and later calls return it without writing ("stale").    *)
(* That is allowed (a failing writer is outside the property's quantifier):    *)
(* ReturnsWeak, LinesMatchReturns and StaleOnlyAfterError are what both the    *)
(* sticky and a non-sticky implementation satisfy; the full Returns /          *)
(* EveryRecordWritten hold for StickyError = FALSE and are refuted for TRUE    *)
(* (documented side finding).                                                  *)
(*                                                                             *)
(* The first four BOOLEAN constants are TRUE for the real design (RebindOnLarge *)
(* is FALSE); flipping one gives a plausible wrong implementation, and TLC     *)
(* finds the violated invariant (the orchestrator runs those as expected       *)
(* counterexamples, so the invariants are known not to be vacuous).            *)
EXTENDS Integers, Sequences, FiniteSets

CONSTANTS NGates,          \* NGates[p]: LogValuer gates in the record of process p; NP = Len(NGates)
          BigRec,          \* BigRec[p]: the text line of p's record is longer than the "large" mark
          NBufs,           \* pooled items that may ever be created
          ResetOnGet,      \* reset() after Get
          PutAfterWrite,   \* Put deferred to the end of Handle (FALSE: Put right after rendering)
          WriteUnderLock,  \* the Write happens inside the critical section
          SingleWrite,     \* the line and its newline go out in one Write call
          RebindOnLarge,   \* reset() replaces a large buffer by a new one (the TextHandler keeps the old)
          Fault,           \* Fault[p]: 0 ok, 1 Write returns (0, err), 2 short write with err, 3 Write panics
          DeferUnlock,     \* the mutex is released by a deferred call (also when Write panics)
          StickyError,     \* after a Write error the shared encoder fails every later Encode
          Ctx,             \* Ctx[p]: the context of p's call: 0 never done, 2 done before the call,
                           \* 5 cancelled by the environment while the call waits for the mutex
          CtxAwareLock     \* FALSE: plain mutex; TRUE: acquired with a select on ctx.Done() - may give the record up

NP == Len(NGates)
Procs == 1..NP
Bufs == 1..NBufs              \* pooled items; item i starts with buffer i
Buffers == 1..(2 * NBufs)     \* buffer NBufs + i: the replacement a rebinding reset() gives item i

NL == 0
TLen(p) == ((p * 2) % 3) + 1                         \* 3, 2, 1, 3, ...: lines of different lengths
Text(p) == [i \in 1..TLen(p) |-> p * 100 + i]        \* the text line of p's record, without newline

VARIABLES pc, buf, g, msg, enc, chunks,   \* per process
          free, created,                  \* the pool of items
          hb, tb,                         \* per item: buffer Handle reads / buffer the TextHandler writes
          arr, blen, large,               \* per buffer: backing array, length, has held a large line
          lock,                           \* 0 or the holder
          inWrite,                        \* processes inside w.Write
          stream,                         \* everything the writer accepted, in order
          ret,                            \* per process: how Handle ended ("" running, "ok", "error", "stale", "panic")
          encErr,                         \* the shared encoder has a remembered error
          cancelled                       \* per process: its context is done

vars == <<pc, buf, g, msg, enc, chunks, free, created, hb, tb, arr, blen, large, lock, inWrite, stream, ret, encErr, cancelled>>

Init ==
    /\ pc = [p \in Procs |-> "start"]
    /\ buf = [p \in Procs |-> 0]
    /\ g = [p \in Procs |-> 0]
    /\ msg = [p \in Procs |-> [b |-> 0, n |-> 0]]
    /\ enc = [p \in Procs |-> <<>>]
    /\ chunks = [p \in Procs |-> <<>>]
    /\ free = {} /\ created = {}
    /\ hb = [i \in Bufs |-> i] /\ tb = [i \in Bufs |-> i]
    /\ arr = [b \in Buffers |-> <<>>]
    /\ blen = [b \in Buffers |-> 0]
    /\ large = [b \in Buffers |-> FALSE]
    /\ lock = 0
    /\ inWrite = {}
    /\ stream = <<>>
    /\ ret = [p \in Procs |-> ""]
    /\ encErr = FALSE
    /\ cancelled = [p \in Procs |-> Ctx[p] = 2]

(* sync.Pool: Get returns any pooled item or makes a new one. *)
PoolGet(p) ==
    /\ pc[p] = "start"
    /\ \E b \in free \cup (IF created # Bufs THEN {CHOOSE x \in Bufs \ created : \A y \in Bufs \ created : x <= y} ELSE {}) :
         /\ buf' = [buf EXCEPT ![p] = b]
         /\ free' = free \ {b}
         /\ created' = created \cup {b}
    /\ pc' = [pc EXCEPT ![p] = "got"]
    /\ UNCHANGED <<g, msg, enc, chunks, hb, tb, arr, blen, large, lock, inWrite, stream, ret, encErr, cancelled>>

(* reset(): truncate the buffer (capacity and backing array are kept). *)
Reset(p) ==
    /\ pc[p] = "got"
    /\ LET i == buf[p] IN
       IF RebindOnLarge /\ large[hb[i]]
         THEN hb' = [hb EXCEPT ![i] = NBufs + i] /\ UNCHANGED blen
         ELSE /\ blen' = IF ResetOnGet THEN [blen EXCEPT ![hb[i]] = 0] ELSE blen
              /\ UNCHANGED hb
    /\ g' = [g EXCEPT ![p] = NGates[p]]
    /\ pc' = [pc EXCEPT ![p] = IF NGates[p] > 0 THEN "valuer" ELSE "torender"]
    /\ UNCHANGED <<buf, msg, enc, chunks, free, created, tb, arr, large, lock, inWrite, stream, ret, encErr, cancelled>>

(* Leaving a LogValuer gate. *)
Valuer(p) ==
    /\ pc[p] = "valuer"
    /\ g' = [g EXCEPT ![p] = @ - 1]
    /\ pc' = [pc EXCEPT ![p] = IF g[p] = 1 THEN "torender" ELSE "valuer"]
    /\ UNCHANGED <<buf, msg, enc, chunks, free, created, hb, tb, arr, blen, large, lock, inWrite, stream, ret, encErr, cancelled>>

(* bytes.Buffer.Write at the current length: overwrites what the backing array *)
(* held there and extends it when needed.                                      *)
WriteAt(a, n, s) == [i \in 1..(IF n + Len(s) > Len(a) THEN n + Len(s) ELSE Len(a)) |->
                        IF i > n /\ i <= n + Len(s) THEN s[i - n] ELSE a[i]]

(* The TextHandler writes the line into ITS buffer; Handle then takes the      *)
(* bytes of the item's buffer and cuts the newline off: msg[:len(msg)-1]       *)
(* panics when that buffer is empty (the deferred Put still runs).             *)
Render(p) ==
    /\ pc[p] = "torender"
    /\ LET i == buf[p]
           t == tb[i]
           line == Text(p) \o <<NL>>
           n == IF hb[i] = t THEN blen[t] + Len(line) ELSE blen[hb[i]]
       IN /\ arr' = [arr EXCEPT ![t] = WriteAt(arr[t], blen[t], line)]
          /\ blen' = [blen EXCEPT ![t] = blen[t] + Len(line)]
          /\ large' = [large EXCEPT ![t] = @ \/ BigRec[p]]
          /\ IF n = 0
               THEN /\ pc' = [pc EXCEPT ![p] = "panicked"]
                    /\ free' = free \cup {i} /\ buf' = [buf EXCEPT ![p] = 0]
                    /\ UNCHANGED msg
               ELSE /\ pc' = [pc EXCEPT ![p] = "rendered"]
                    /\ msg' = [msg EXCEPT ![p] = [b |-> hb[i], n |-> n - 1]]
                    /\ IF PutAfterWrite
                         THEN UNCHANGED <<free, buf>>
                         ELSE free' = free \cup {i} /\ buf' = [buf EXCEPT ![p] = 0]
    /\ UNCHANGED <<g, enc, chunks, created, hb, tb, lock, inWrite, stream, ret, encErr, cancelled>>

Lock(p) ==
    /\ pc[p] = "rendered"
    /\ lock = 0
    /\ lock' = p
    /\ pc' = [pc EXCEPT ![p] = "locked"]
    /\ UNCHANGED <<buf, g, msg, enc, chunks, free, created, hb, tb, arr, blen, large, inWrite, stream, ret, encErr, cancelled>>

(* The pooled bytes are read here, not when msg was cut. *)
Encode(p) ==
    /\ pc[p] = "locked"
    /\ IF StickyError /\ encErr
         THEN \* json.Encoder: "if enc.err != nil { return enc.err }" - nothing is written
              /\ ret' = [ret EXCEPT ![p] = "stale"]
              /\ pc' = [pc EXCEPT ![p] = "written"]
              /\ UNCHANGED <<enc, chunks, lock>>
         ELSE /\ LET e == SubSeq(arr[msg[p].b], 1, msg[p].n)
                 IN /\ enc' = [enc EXCEPT ![p] = e]
                    /\ chunks' = [chunks EXCEPT ![p] = IF SingleWrite THEN << e \o <<NL>> >> ELSE << e, <<NL>> >>]
              /\ lock' = IF WriteUnderLock THEN lock ELSE 0
              /\ pc' = [pc EXCEPT ![p] = "encoded"]
              /\ UNCHANGED ret
    /\ UNCHANGED <<buf, g, msg, free, created, hb, tb, arr, blen, large, inWrite, stream, encErr, cancelled>>

WriteBegin(p) ==
    /\ pc[p] = "encoded"
    /\ inWrite' = inWrite \cup {p}
    /\ pc' = [pc EXCEPT ![p] = "writing"]
    /\ UNCHANGED <<buf, g, msg, enc, chunks, free, created, hb, tb, arr, blen, large, lock, stream, ret, encErr, cancelled>>

(* The end of a Write call: the writer takes the bytes, fails, or panics. *)
WriteEnd(p) ==
    /\ pc[p] = "writing"
    /\ inWrite' = inWrite \ {p}
    /\ CASE Fault[p] = 0 ->
              /\ stream' = stream \o Head(chunks[p])
              /\ chunks' = [chunks EXCEPT ![p] = Tail(@)]
              /\ pc' = [pc EXCEPT ![p] = IF Len(chunks[p]) > 1 THEN "encoded" ELSE "written"]
              /\ ret' = [ret EXCEPT ![p] = IF Len(chunks[p]) > 1 THEN @ ELSE "ok"]
              /\ UNCHANGED encErr
         [] Fault[p] \in {1, 2} ->      \* Encode returns the error; the encoder remembers it
              /\ ret' = [ret EXCEPT ![p] = "error"]
              /\ encErr' = TRUE
              /\ pc' = [pc EXCEPT ![p] = "written"]
              /\ UNCHANGED <<stream, chunks>>
         [] OTHER ->                    \* the panic unwinds Handle: only deferred calls still run
              /\ ret' = [ret EXCEPT ![p] = "panic"]
              /\ pc' = [pc EXCEPT ![p] = IF DeferUnlock THEN "written" ELSE "unlocked"]
              /\ UNCHANGED <<stream, chunks, encErr>>
    /\ UNCHANGED <<buf, g, msg, enc, free, created, hb, tb, arr, blen, large, lock, cancelled>>

(* The environment cancels the context of a call that waits for the mutex. *)
Cancel(p) ==
    /\ Ctx[p] = 5 /\ ~cancelled[p]
    /\ pc[p] = "rendered" /\ lock # 0
    /\ cancelled' = [cancelled EXCEPT ![p] = TRUE]
    /\ UNCHANGED <<pc, buf, g, msg, enc, chunks, free, created, hb, tb, arr, blen, large, lock, inWrite, stream, ret, encErr>>

(* A lock acquired with "select { case sem <- x: ; case <-ctx.Done(): }" may   *)
(* take the context's side whenever the context is done - also when the lock   *)
(* is free: the record is dropped, Handle returns the context's error.         *)
GiveUp(p) ==
    /\ CtxAwareLock /\ cancelled[p]
    /\ pc[p] = "rendered"
    /\ ret' = [ret EXCEPT ![p] = "dropped"]
    /\ pc' = [pc EXCEPT ![p] = "unlocked"]
    /\ UNCHANGED <<buf, g, msg, enc, chunks, free, created, hb, tb, arr, blen, large, lock, inWrite, stream, encErr, cancelled>>

Unlock(p) ==
    /\ pc[p] = "written"
    /\ lock' = IF lock = p THEN 0 ELSE lock
    /\ pc' = [pc EXCEPT ![p] = "unlocked"]
    /\ UNCHANGED <<buf, g, msg, enc, chunks, free, created, hb, tb, arr, blen, large, inWrite, stream, ret, encErr, cancelled>>

PoolPut(p) ==
    /\ pc[p] = "unlocked"
    /\ IF buf[p] # 0
         THEN free' = free \cup {buf[p]} /\ buf' = [buf EXCEPT ![p] = 0]
         ELSE UNCHANGED <<free, buf>>
    /\ pc' = [pc EXCEPT ![p] = "done"]
    /\ UNCHANGED <<g, msg, enc, chunks, created, hb, tb, arr, blen, large, lock, inWrite, stream, ret, encErr, cancelled>>

Step(p) == \/ PoolGet(p) \/ Reset(p) \/ Valuer(p) \/ Render(p) \/ Lock(p) \/ Encode(p)
           \/ WriteBegin(p) \/ WriteEnd(p) \/ Unlock(p) \/ PoolPut(p) \/ GiveUp(p)

AllDone == \A p \in Procs : pc[p] \in {"done", "panicked"}
Next == (\E p \in Procs : Step(p) \/ Cancel(p)) \/ (AllDone /\ UNCHANGED vars)
Spec == Init /\ [][Next]_vars /\ \A p \in Procs : WF_vars(Step(p))

----------------------------------------------------------------------------
(* The output stream cut into complete lines, and what follows the last newline. *)
RECURSIVE LinesOf(_)
LinesOf(s) ==
    IF \A i \in 1..Len(s) : s[i] # NL THEN <<>>
    ELSE LET i == CHOOSE i \in 1..Len(s) : s[i] = NL /\ \A j \in 1..(i - 1) : s[j] # NL
         IN <<SubSeq(s, 1, i - 1)>> \o LinesOf(SubSeq(s, i + 1, Len(s)))
RECURSIVE Rest(_)
Rest(s) ==
    IF \A i \in 1..Len(s) : s[i] # NL THEN s
    ELSE LET i == CHOOSE i \in 1..Len(s) : s[i] = NL /\ \A j \in 1..(i - 1) : s[j] # NL
         IN Rest(SubSeq(s, i + 1, Len(s)))

Wrote(p) == pc[p] \in {"written", "unlocked", "done"} /\ ret[p] = "ok"
LineCount(p) == Cardinality({i \in 1..Len(LinesOf(stream)) : LinesOf(stream)[i] = Text(p)})

TypeOK ==
    /\ \A p \in Procs : buf[p] \in 0..NBufs /\ g[p] \in 0..NGates[p]
    /\ free \subseteq created /\ created \subseteq Bufs
    /\ lock \in 0..NP
    /\ inWrite \subseteq Procs

(* A pooled buffer is held by at most one process and is not in the pool meanwhile. *)
BufExclusive ==
    /\ \A p, q \in Procs : (p # q /\ buf[p] # 0) => buf[p] # buf[q]
    /\ \A p \in Procs : buf[p] # 0 => buf[p] \notin free
(* The bytes a process is going to encode belong to a buffer it still holds. *)
MsgOwned == \A p \in Procs : pc[p] \in {"rendered", "locked"} => (buf[p] # 0 /\ hb[buf[p]] = msg[p].b)
(* The text handler of an item writes into the buffer Handle reads from. *)
ItemsBound == \A i \in Bufs : hb[i] = tb[i]
NoPanic == \A p \in Procs : pc[p] # "panicked"

(* At most one process is inside w.Write, and it holds the mutex. *)
OneWriter == Cardinality(inWrite) <= 1
WriterHoldsLock == \A p \in inWrite : lock = p

(* Every complete line is the line of exactly one record; no torn lines. *)
LinesCorrect == \A i \in 1..Len(LinesOf(stream)) : \E p \in Procs : LinesOf(stream)[i] = Text(p)
NoTornLine == SingleWrite => Rest(stream) = <<>>
(* One line per record: none before its Write finished, exactly one afterwards. *)
OneLinePerRecord == \A p \in Procs : LineCount(p) = (IF Wrote(p) THEN 1 ELSE 0)

(* Every record the writer did not itself refuse has its line, whatever        *)
(* happened to the others; Handle reports what happened to its own record.     *)
EveryRecordWritten == AllDone => \A p \in Procs : LineCount(p) = (IF Fault[p] = 0 THEN 1 ELSE 0)
Returns == \A p \in Procs : pc[p] = "done" =>
    ret[p] = (CASE Fault[p] = 0 -> "ok" [] Fault[p] \in {1, 2} -> "error" [] OTHER -> "panic")
(* What any implementation owes after a Write error: a call either wrote its  *)
(* line and returned nil or returned an error and wrote nothing; an old error  *)
(* only comes back after the writer did fail.                                  *)
ReturnsWeak == \A p \in Procs : pc[p] = "done" =>
    ret[p] \in (CASE Fault[p] = 0 -> {"ok", "stale"} [] Fault[p] \in {1, 2} -> {"error", "stale"} [] OTHER -> {"panic", "stale"})
LinesMatchReturns == AllDone => \A p \in Procs : LineCount(p) = (IF ret[p] = "ok" THEN 1 ELSE 0)
StaleOnlyAfterError == \A p \in Procs : ret[p] = "stale" => \E q \in Procs : ret[q] = "error"
(* Afterwards the tree is as usable as before: mutex free, every item back. *)
CleanAtEnd == AllDone => (lock = 0 /\ free = created /\ inWrite = {})

(* Every call returns. *)
Termination == <>AllDone
=============================================================================
