---------------------------- MODULE HybridConcGen ----------------------------
(* Schedule generator (binding S).  The harness can park a Handle call only at *)
(* the gates it owns: before the call ("start"), inside a LogValuer            *)
(* ("valuer") and inside the writer ("write").  Between two gates a goroutine  *)
(* runs on its own, so here a process that is released keeps taking the fine   *)
(* steps of HybridConc until it is parked again: at its next gate, at the end  *)
(* of the call ("done"), or waiting for the mutex ("blocked").  A waiter moves *)
(* again, without the controller, as soon as the mutex is free; with nothing   *)
(* else running sync.Mutex wakes its waiters first come first served, so the   *)
(* generator follows the queue order (the model checked in HybridConc allows   *)
(* any waiter; the replay accepts any as well and only stops predicting).      *)
(*                                                                             *)
(* hist is the schedule: <<p, kind, status>> with kind 1 = released by the     *)
(* controller, 2 = woke up because the mutex became free; status as above.     *)
(* One vector per complete schedule (all calls returned) with the predicted    *)
(* order of the output lines.                                                  *)
EXTENDS HybridConcMC, Json, CSV

VARIABLES running, hist, waitq
gvars == <<vars, running, hist, waitq>>

(* Written over explicit values so that they can be applied to primed ones. *)
ParkedV(pcp, lk) == pcp \in {"start", "valuer", "writing", "done", "panicked"} \/ (pcp = "rendered" /\ lk # 0)
StatusV(pcp) == IF pcp = "valuer" THEN "valuer"
                ELSE IF pcp = "writing" THEN "write"
                ELSE IF pcp = "done" THEN "done"
                ELSE IF pcp = "panicked" THEN "panic"
                ELSE IF pcp = "start" THEN "start"
                ELSE "blocked"
AtGate(p)   == pc[p] \in {"start", "valuer", "writing"}
Wakeable(p) == pc[p] = "rendered" /\ lock = 0

GInit == Init /\ running = 0 /\ hist = <<>> /\ waitq = <<>>

Release ==
    /\ running = 0
    /\ IF \E p \in Procs : Wakeable(p)
         THEN /\ waitq # <<>> /\ Wakeable(Head(waitq))
              /\ running' = Head(waitq)
              /\ waitq' = Tail(waitq)
              /\ hist' = Append(hist, <<Head(waitq), 2, "?">>)
         ELSE /\ \E p \in Procs : AtGate(p) /\ running' = p /\ hist' = Append(hist, <<p, 1, "?">>)
              /\ UNCHANGED waitq
    /\ UNCHANGED vars

Run ==
    \E p \in Procs :
      /\ p = running
      /\ Step(p)
      /\ IF ParkedV(pc'[p], lock')
           THEN /\ running' = 0
                /\ hist' = [hist EXCEPT ![Len(hist)] = <<p, hist[Len(hist)][2], StatusV(pc'[p])>>]
                /\ waitq' = IF StatusV(pc'[p]) = "blocked" THEN Append(waitq, p) ELSE waitq
           ELSE UNCHANGED <<running, hist, waitq>>

(* The controller cancels the context of a call that is waiting for the mutex *)
(* (kind 3 in the schedule; the call stays where it is).                       *)
CancelStep ==
    /\ running = 0
    /\ \E p \in Procs : Cancel(p) /\ hist' = Append(hist, <<p, 3, "blocked">>)
    /\ UNCHANGED <<running, waitq>>

GNext == Release \/ Run \/ CancelStep
GSpec == GInit /\ [][GNext]_gvars

(* The order in which the records' lines appear. *)
Order == [i \in 1..Len(LinesOf(stream)) |-> LinesOf(stream)[i][1] \div 100]

Emit == (AllDone /\ running = 0) =>
            CSVWrite("%1$s", <<ToJson([gates |-> NGates, big |-> [p \in Procs |-> IF BigRec[p] THEN 1 ELSE 0], fault |-> Fault, ctx |-> Ctx, sched |-> hist, order |-> Order])>>, "hybrid_schedules.ndjson")
=============================================================================
