----------------------------- MODULE HybridTrace -----------------------------
(* Trace validation (binding T): a log recorded from the real handler tree     *)
(* under free-running concurrency must be a behaviour of HybridLog.            *)
(*   {"op":"new","thr":t}                      NewJSONHybridHandler, level t   *)
(*   {"op":"derive","h":p,"new":n,"batch":ids} n = p.WithAttrs(batch)          *)
(*   {"op":"log","h":h,"lv":l,"rec":ids,"err":0|1,"attrs":ids}                 *)
(*        one line found in the output: the record (known by its unique id)    *)
(*        was handled by h at level l with its own attributes rec; err and     *)
(*        attrs are what the line actually shows (severity, attribute ids in   *)
(*        the order they appear in the message)                                *)
(*   {"op":"relog", ...as log...}              a line of a record value that   *)
(*        was handed to several Handle calls (no "once" requirement)           *)
(*   {"op":"enabled","h":h,"lv":l,"res":0|1}   h.Enabled(l) returned res       *)
(*   {"op":"cut"}                              forget the lines matched so far *)
(* Lines are listed in output order, which is the order the records took the   *)
(* writer; derivations commute with them and are listed first.                 *)
EXTENDS HybridLog, Json, TLC

Trace == ndJsonDeserialize("hybrid_trace.ndjson")

VARIABLE l
tvars == <<vars, l>>

Ev == Trace[l]
Bit(b) == IF b THEN 1 ELSE 0

TInit == /\ thr = Trace[1].thr
         /\ attrs = << <<>> >> /\ parent = <<0>> /\ sl = <<NilSlice>> /\ heap = <<>>
         /\ recs = <<>> /\ rheap = <<>> /\ item = [large |-> FALSE, bound |-> TRUE] /\ panics = 0
         /\ armed = <<0>> /\ nfaults = 0 /\ encErr = <<FALSE>> /\ locked = <<FALSE>> /\ rets = <<>>
         /\ tree = <<1>> /\ twriter = <<1>> /\ nextctx = 0
         /\ cell = 0 /\ frozen = << <<>> >>
         /\ out = <<>> /\ ngroups = 0 /\ steps = 0
         /\ l = 1

TNew == /\ Ev.op = "new" /\ l = 1 /\ Ev.thr = thr
        /\ UNCHANGED <<thr, attrs, parent, sl, heap, recs, rheap, item, panics, armed, nfaults, encErr, locked, cell, frozen, tree, twriter, nextctx, rets, out, ngroups>>

TDerive == /\ Ev.op = "derive"
           /\ Ev.new = NumH + 1
           /\ Ev.batch = BatchOf(Ev.new, Len(Ev.batch))
           /\ Derive(Ev.h, Len(Ev.batch))

(* NB: nothing here primes an expression that mentions Ev. *)
LastLineIs(err, as) == /\ out'[Len(out')].attrs = as
                       /\ Bit(out'[Len(out')].sev = "ERROR") = err
TLog == /\ Ev.op = "log"
        /\ Ev.h \in Handlers
        /\ \A i \in 1..Len(out) : out[i].rec # Ev.rec        \* one line per record
        /\ LogRec(Ev.h, Ev.lv, Ev.rec)
        /\ LastLineIs(Ev.err, Ev.attrs)

(* A record value several goroutines handled: one line per Handle call, all   *)
(* alike for the same handler (the harness counts them).                       *)
TRelog == /\ Ev.op = "relog"
          /\ Ev.h \in Handlers
          /\ LogRec(Ev.h, Ev.lv, Ev.rec)
          /\ LastLineIs(Ev.err, Ev.attrs)

TEnabled == /\ Ev.op = "enabled"
            /\ Ev.h \in Handlers
            /\ Ev.res = Bit(IsEnabled(Ev.lv))
            /\ UNCHANGED <<thr, attrs, parent, sl, heap, recs, rheap, item, panics, armed, nfaults, encErr, locked, cell, frozen, tree, twriter, nextctx, rets, out, ngroups>>

TCut == /\ Ev.op = "cut"
        /\ out' = <<>>
        /\ UNCHANGED <<thr, attrs, parent, sl, heap, recs, rheap, item, panics, armed, nfaults, encErr, locked, cell, frozen, tree, twriter, nextctx, rets, ngroups>>

TNext == /\ l <= Len(Trace)
         /\ l' = l + 1
         /\ (TNew \/ TDerive \/ TLog \/ TRelog \/ TEnabled \/ TCut)
         /\ AttrsImmutable'
         /\ UNCHANGED steps
TSpec == TInit /\ [][TNext]_tvars
=============================================================================
