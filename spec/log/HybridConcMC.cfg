\* tlc -config HybridConcMC.cfg HybridConcMC    3 concurrent Handle calls, all interleavings.
\* Setting ResetOnGet / PutAfterWrite / WriteUnderLock to FALSE gives the expected counterexamples.
SPECIFICATION Spec
CONSTANTS
  NGates <- G111
  NBufs = 3
  ResetOnGet = TRUE
  PutAfterWrite = TRUE
  WriteUnderLock = TRUE
  SingleWrite = TRUE
INVARIANTS TypeOK BufExclusive MsgOwned OneWriter WriterHoldsLock LinesCorrect NoTornLine OneLinePerRecord
PROPERTIES Termination
CHECK_DEADLOCK TRUE
