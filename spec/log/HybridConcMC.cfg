\* tlc -config HybridConcMC.cfg HybridConcMC    3 concurrent Handle calls, all interleavings.
\* Setting ResetOnGet / PutAfterWrite / WriteUnderLock to FALSE gives the expected counterexamples.
SPECIFICATION Spec
CONSTANTS
  NGates <- G111
  BigRec <- Big100
  NBufs = 3
  ResetOnGet = TRUE
  PutAfterWrite = TRUE
  WriteUnderLock = TRUE
  SingleWrite = TRUE
  RebindOnLarge = FALSE
  Fault <- F030
  DeferUnlock = TRUE
  StickyError = TRUE
  Ctx <- C250
  CtxAwareLock = FALSE
INVARIANTS TypeOK BufExclusive MsgOwned ItemsBound NoPanic EveryRecordWritten Returns CleanAtEnd OneWriter WriterHoldsLock LinesCorrect NoTornLine OneLinePerRecord
PROPERTIES Termination
CHECK_DEADLOCK TRUE
