------------------------------ MODULE HybridLog ------------------------------
(* slogutil.JSONHybridHandler, sequential semantics (property C19).            *)
(*                                                                             *)
(* Handlers form a tree: 1 is the handler returned by NewJSONHybridHandler,    *)
(* every other handler was returned by parent.WithAttrs(batch).  The           *)
(* specification of a handler is attrs[h], a sequence of attribute ids fixed   *)
(* when the handler is created.  Handle(h, record) writes exactly one line     *)
(*     {"severity": Severity(level), "message": Text(level, msg, rec \o attrs[h])}  *)
(* where Text is what slog.TextHandler prints; only its abstract content (the  *)
(* level and the attribute ids in order) is modelled here, the exact bytes are *)
(* supplied by the real slog.TextHandler in the harness.                       *)
(*                                                                             *)
(* Beside the specification variables the module carries implementation-shaped *)
(* state, so that TLC can show why three details of jsonhybrid.go are needed:  *)
(*  - textAttrs slices (Go slice headers over a heap of backing arrays):       *)
(*    with ClipOnDerive = FALSE two sibling derivations overwrite each other   *)
(*    (AttrsImmutable violated), with TRUE (append(slices.Clip(..))) not.      *)
(*  - records as values the caller keeps and may handle again (same handler,   *)
(*    a sibling, a fan-out): a slog.Record stores 5 attributes inline and the  *)
(*    rest in a slice; copies share that slice's array (ShareOnCopy = TRUE is  *)
(*    Go).  Handle adds the handler's attributes to its copy: with             *)
(*    CloneBeforeAdd = FALSE it writes into spare capacity the caller's value  *)
(*    still owns (RecordStorageUntouched violated) and the next Handle of the  *)
(*    same value finds that slot occupied and reports slog's "!BUG" attribute  *)
(*    (LinesCorrect violated); with TRUE (r = r.Clone()) neither happens.      *)
(*  - the pooled text buffer: reset() must keep the buffer the TextHandler is  *)
(*    bound to; RebindOnLarge = TRUE (replace a grown buffer by a fresh one)   *)
(*    leaves the handler writing into the old buffer, Handle reads an empty    *)
(*    one and panics (NoPanic / ItemBound violated).                           *)
(*  - the writer is environment and may fail: ArmFault(k) makes the next Write *)
(*    return an error (k = 1), write short with an error (2) or panic (3; the  *)
(*    caller recovers).  The record concerned has no line, Handle reports it   *)
(*    (rets), and every later record must be handled as if nothing had         *)
(*    happened: DeferUnlock = FALSE leaves the mutex locked after a panic and  *)
(*    the next Handle never returns (NotWedged violated).  After a Write ERROR *)
(*    the code's own behaviour is StickyError = TRUE (the shared json.Encoder  *)
(*    keeps the first Write error and every later Handle returns it without    *)
(*    writing); a failing writer is outside the property's quantifier, so the  *)
(*    obligation there is the weaker one: every later Handle either writes     *)
(*    its one correct line and returns nil, or returns an error and writes     *)
(*    nothing (LinesAreTheGoodCalls, StaleOnlyAfterError) - never a nil return *)
(*    without a line, never a hang.  NoStaleError (the full requirement) holds *)
(*    for StickyError = FALSE and is refuted for TRUE: a documented side       *)
(*    finding, not a violation of the property.                                *)
(*  - attribute VALUES may be live: a slog.LogValuer whose result is a         *)
(*    function of a cell the environment changes between steps (Tick).  The    *)
(*    line slog.TextHandler prints evaluates it when the record is handled,    *)
(*    for the record's own attributes and for the handler's at every depth     *)
(*    (the handler keeps them unresolved and appends them in Handle).          *)
(*    ResolveOnDerive = TRUE (WithAttrs stores a.Value.Resolve(), as the       *)
(*    stdlib handlers do) freezes the value of derivation time into the        *)
(*    handler and its descendants: LiveValuesCurrent violated.                 *)
(*  - the context given to Handle is environment too (ArmCtx: a live one, one  *)
(*    that is already cancelled, an expired deadline).  slog's contract: a     *)
(*    record is not dropped because its context is done.  CtxAwareLock = TRUE  *)
(*    (the encoder lock acquired with a select on ctx.Done()) may drop such a  *)
(*    record: NoCtxDrop violated.                                              *)
(*  - a process may hold several independent handler trees (NewTree: another   *)
(*    NewJSONHybridHandler call, on the same or on another writer).  What a    *)
(*    tree does is a function of its own derivations, records and its own      *)
(*    writer's behaviour since ITS creation: each tree has its own encoder and *)
(*    mutex.  ShareByWriter = TRUE (a process-wide registry keyed by the       *)
(*    writer) lets a Write error met by one tree silence a tree created        *)
(*    later on the same writer: StaleOnlyAfterError violated.                  *)
EXTENDS Integers, Sequences, FiniteSets

CONSTANTS Levels,        \* record levels offered to Log (slog.Level integers)
          Thresholds,    \* configured levels; Init picks one (opts.Level, default Info = 0)
          Batches,       \* sizes of the attribute batches given to WithAttrs
          RecSizes,      \* records built by one AddAttrs call of this many attributes ...
          RecShapes,     \* ... and records built by several calls: sequences of call sizes
          Sizes,         \* size classes of a record's text (0 = small; see LargeSizes)
          LargeSizes,    \* the classes whose line makes the pooled buffer grow beyond the "large" mark
          MaxH,          \* bound on the number of handlers (root included)
          MaxLogs,       \* bound on new records (model checking / generation only)
          MaxRelogs,     \* bound on Handle calls that re-use an earlier record value
          MaxGroups,     \* bound on WithGroup steps
          MaxSteps,
          ClipOnDerive,  \* TRUE: append(slices.Clip(parent), batch...); FALSE: append(parent, batch...)
          ShareOnCopy,   \* TRUE (Go): copies of a Record share the array behind the attributes 6, 7, ...
          CloneBeforeAdd,\* TRUE: Handle clones its copy before AddAttrs
          RebindOnLarge, \* FALSE: reset() only truncates; TRUE: it swaps a large buffer for a new one
          Faults,        \* writer faults the environment may arm: subset of {1, 2, 3}
          MaxFaults,     \* bound on ArmFault steps
          DeferUnlock,   \* the mutex is released by a deferred call (also when Write panics)
          StickyError,   \* after a Write error the shared encoder fails every later Encode
          LiveKind,      \* 0: no live values; 1: LogValuer of the cell; 2: LogValuer -> group holding the cell and a LogValuer
          MaxTicks,      \* bound on the environment changing the cell
          NWriters,      \* writers the environment has: 1..NWriters (the first tree is on writer 1)
          MaxTrees,      \* bound on independent handler trees (NewJSONHybridHandler calls)
          ShareByWriter, \* FALSE: every tree has its own encoder + mutex; TRUE: trees on one writer share them
          Ctxs,          \* context kinds the environment may arm: 1 live (cancellable), 2 already cancelled, 3 deadline expired
          CtxAwareLock,  \* FALSE: plain mutex; TRUE: the lock is acquired with a select on ctx.Done()
          ResolveOnDerive \* FALSE: handler attributes stay unresolved until Handle; TRUE: WithAttrs resolves them

VARIABLES thr,      \* the configured level (copied to every derived handler)
          attrs,    \* attrs[h]: the accumulated attribute ids of handler h     (specification)
          parent,   \* parent[h]: the handler h was derived from, 0 for the root
          sl,       \* sl[h] = [arr, len, cap]: Go slice header of h.textAttrs  (implementation)
          heap,     \* heap[a]: backing array a, a sequence of length cap; 0 = never written
          recs,     \* recs[r]: the r-th record value the caller built (and keeps)
          rheap,    \* backing arrays of the records' attribute slices
          item,     \* the pooled bufferedTextHandler: [large, bound]
          panics,   \* Handle calls that panicked on their own (not because the writer did)
          armed,    \* armed[w]: what the next Write of writer w will do: 0 succeed, 1 error, 2 short write + error, 3 panic
          nfaults,  \* ArmFault steps so far
          encErr,   \* encErr[e]: encoder e (see EncKey) remembers a Write error
          locked,   \* locked[e]: the mutex that goes with encoder e was left locked
          cell,     \* what the live values currently evaluate to (changed by the environment)
          frozen,   \* frozen[h]: for each attribute of h, what it evaluated to when it was given to WithAttrs
          tree,     \* tree[h]: the independent tree (constructor call) handler h belongs to
          twriter,  \* twriter[t]: the writer tree t was created on
          nextctx,  \* kind of the context the next Handle call gets (0: context.Background())
          rets,     \* how each Handle call ended, in order: [t |-> its tree, c |-> code] with c = 0 line written,
                    \* 1 returned the writer's error, 3 the writer's panic went through, 2 returned a stale error,
                    \* 4 dropped because its context was done, 8 panicked, 9 never returned
          out,      \* the lines written so far, in order
          ngroups,  \* WithGroup calls so far (each of them panicked)
          steps

vars == <<thr, attrs, parent, sl, heap, recs, rheap, item, panics, armed, nfaults, encErr, locked, cell, frozen, tree, twriter, nextctx, rets, out, ngroups, steps>>

LevelError == 8
Severity(lv) == IF lv >= LevelError THEN "ERROR" ELSE "NORMAL"
(* Enabled is the same for every handler of the tree. *)
IsEnabled(lv) == lv >= thr

NumH == Len(attrs)
Handlers == 1..NumH
NumT == Len(twriter)
(* The encoder (and mutex) a tree uses: its own - or, with a registry keyed by *)
(* the writer, the one of the first tree created on that writer.               *)
EncKey(t) == IF ShareByWriter
               THEN CHOOSE u \in 1..NumT : twriter[u] = twriter[t] /\ \A v \in 1..NumT : twriter[v] = twriter[t] => u <= v
               ELSE t

(* Attribute ids: positive = given to WithAttrs when handler h was created,   *)
(* negative = carried by the r-th record itself; BugAttr is the attribute      *)
(* slog adds when AddAttrs finds the slot behind the record's slice occupied.  *)
HAttr(h, i) == h * 10 + i
RAttr(r, i) == 0 - (r * 10 + i)
BugAttr == 0 - 1
Owner(id) == id \div 10
BatchOf(h, k) == [i \in 1..k |-> HAttr(h, i)]
RecOf(r, m) == [i \in 1..m |-> RAttr(r, i)]
(* Live ids: the first attribute of every second batch / record. *)
IsLive(id) == /\ LiveKind > 0
              /\ IF id > 0 THEN id % 10 = 1 /\ (id \div 10) % 2 = 0
                 ELSE id # BugAttr /\ (0 - id) % 10 = 1 /\ ((0 - id) \div 10) % 2 = 0
ValOf(id, c) == IF IsLive(id) THEN c ELSE 0
ValsOf(ids, c) == [j \in 1..Len(ids) |-> ValOf(ids[j], c)]

RECURSIVE Ancestors(_)
Ancestors(h) == IF h = 0 THEN {} ELSE {h} \cup Ancestors(parent[h])

----------------------------------------------------------------------------
(* Go slices over an explicit heap hp (a sequence of arrays). *)
Max(a, b) == IF a > b THEN a ELSE b
Min(a, b) == IF a < b THEN a ELSE b
NilSlice == [arr |-> 0, len |-> 0, cap |-> 0]
ContentsIn(hp, s) == IF s.len = 0 THEN <<>> ELSE SubSeq(hp[s.arr], 1, s.len)
Contents(s) == ContentsIn(heap, s)
Clip(s) == [s EXCEPT !.cap = s.len]
Fits(s, k) == s.len + k <= s.cap
(* Amortised doubling (also what slices.Grow followed by appends gives); the   *)
(* real runtime rounds up to a size class, which only adds spare capacity.     *)
NewCap(s, k) == Max(s.len + k, 2 * s.cap)

(* append(s, batch...) on heap hp: the new slice header and the new heap;      *)
(* in place when the batch fits.                                               *)
AppendIn(hp, s, batch) ==
    LET k == Len(batch) IN
    IF k = 0 THEN [s |-> s, heap |-> hp]
    ELSE IF Fits(s, k)
      THEN [s |-> [s EXCEPT !.len = s.len + k],
            heap |-> [hp EXCEPT ![s.arr] =
                        [j \in 1..Len(hp[s.arr]) |-> IF j > s.len /\ j <= s.len + k THEN batch[j - s.len]
                                                     ELSE hp[s.arr][j]]]]
      ELSE [s |-> [arr |-> Len(hp) + 1, len |-> s.len + k, cap |-> NewCap(s, k)],
            heap |-> Append(hp, [j \in 1..NewCap(s, k) |->
                                   IF j <= s.len THEN hp[s.arr][j]
                                   ELSE IF j <= s.len + k THEN batch[j - s.len]
                                   ELSE 0])]

----------------------------------------------------------------------------
(* slog.Record: front = the first (up to 5) attributes, held in the value      *)
(* itself; back = slice of the others.  rv = [front, back, heap].              *)
NInline == 5

(* Record.AddAttrs: fill the inline part, then - if the slot behind the slice  *)
(* is occupied (somebody appended through another copy) - clip and add the     *)
(* "!BUG" attribute, then grow and append.                                     *)
AddAttrsTo(rv, ids) ==
    LET nf    == Min(NInline - Len(rv.front), Len(ids))
        rest  == SubSeq(ids, nf + 1, Len(ids))
        dirty == rv.back.cap > rv.back.len /\ rv.heap[rv.back.arr][rv.back.len + 1] # 0
        a1    == IF dirty THEN AppendIn(rv.heap, Clip(rv.back), <<BugAttr>>)
                 ELSE [s |-> rv.back, heap |-> rv.heap]
        a2    == AppendIn(a1.heap, a1.s, rest)
    IN [front |-> rv.front \o SubSeq(ids, 1, nf), back |-> a2.s, heap |-> a2.heap]

RECURSIVE BuildRec(_, _, _)
(* The caller builds a record with one AddAttrs call per element of shape. *)
BuildRec(rv, ids, shape) ==
    IF shape = <<>> THEN rv
    ELSE BuildRec(AddAttrsTo(rv, SubSeq(ids, 1, Head(shape))),
                  SubSeq(ids, Head(shape) + 1, Len(ids)), Tail(shape))

RECURSIVE SumSeq(_)
SumSeq(s) == IF s = <<>> THEN 0 ELSE Head(s) + SumSeq(Tail(s))

RecAttrsOf(r) == recs[r].front \o ContentsIn(rheap, recs[r].back)
RelogsSoFar == Len(rets) - Len(recs)

----------------------------------------------------------------------------
Init == /\ thr \in Thresholds
        /\ attrs = << <<>> >>
        /\ parent = <<0>>
        /\ sl = <<NilSlice>>
        /\ heap = <<>>
        /\ recs = <<>>
        /\ rheap = <<>>
        /\ item = [large |-> FALSE, bound |-> TRUE]
        /\ panics = 0
        /\ armed = [w \in 1..NWriters |-> 0] /\ nfaults = 0 /\ encErr = <<FALSE>> /\ locked = <<FALSE>> /\ rets = <<>>
        /\ tree = <<1>> /\ twriter = <<1>> /\ nextctx = 0
        /\ cell = 0 /\ frozen = << <<>> >>
        /\ out = <<>>
        /\ ngroups = 0
        /\ steps = 0

(* h.WithAttrs(batch): a new handler whose attributes are h's followed by the  *)
(* batch (an empty batch still makes a new handler).                           *)
Derive(h, k) ==
    /\ NumH < MaxH
    /\ LET new == NumH + 1
           batch == BatchOf(new, k)
           base == IF ClipOnDerive THEN Clip(sl[h]) ELSE sl[h]
           a == AppendIn(heap, base, batch)
       IN /\ attrs' = Append(attrs, attrs[h] \o batch)
          /\ parent' = Append(parent, h)
          /\ tree' = Append(tree, tree[h])
          /\ frozen' = Append(frozen, frozen[h] \o ValsOf(batch, cell))
          /\ sl' = Append(sl, a.s)
          /\ heap' = a.heap
    /\ UNCHANGED <<thr, recs, rheap, item, panics, armed, nfaults, encErr, locked, cell, twriter, nextctx, rets, out, ngroups>>

(* A line: r = the record's number (0: not kept by the caller), rec = the      *)
(* record's own attributes, attrs = everything the message shows.              *)
(* vals = what the attributes of the message evaluate to: the record's own at  *)
(* Handle time, the handler's at Handle time too unless WithAttrs resolved     *)
(* them; want = all of them at Handle time, which is what TextHandler prints.  *)
Line(h, lv, r, rec, shown) ==
    [h |-> h, lv |-> lv, sev |-> Severity(lv), r |-> r, rec |-> rec, attrs |-> shown,
     vals |-> ValsOf(rec, cell) \o (IF ResolveOnDerive THEN frozen[h] ELSE ValsOf(attrs[h], cell)),
     want |-> ValsOf(rec \o attrs[h], cell)]

(* reset() and the pooled item: whether this call finds its text again. *)
StillBound == IF RebindOnLarge /\ item.large THEN FALSE ELSE item.bound

(* h.Handle(value rv of record r), the records' heap being hp: the handler     *)
(* works on a copy of the value.                                               *)
HandleOn(hp, h, r, rv, drop) ==
    LET b0    == rv.back
        \* the copy: Go copies the slice header only
        priv  == ~ShareOnCopy /\ b0.cap > 0
        hp0   == IF priv THEN Append(hp, hp[b0.arr]) ELSE hp
        b1    == IF priv THEN [b0 EXCEPT !.arr = Len(hp) + 1] ELSE b0
        b2    == IF CloneBeforeAdd THEN Clip(b1) ELSE b1
        added == AddAttrsTo([front |-> rv.front, back |-> b2, heap |-> hp0], Contents(sl[h]))
        shown == added.front \o ContentsIn(added.heap, added.back)
        largeNow == item.large \/ rv.sz \in LargeSizes
        t     == tree[h]
        e     == EncKey(t)
        w     == twriter[t]
        Ret(c) == Append(rets, [t |-> t, c |-> c])
    IN /\ rheap' = added.heap
       /\ nextctx' = 0
       /\ IF locked[e]
            THEN \* h.mu.Lock() on a mutex nobody will ever unlock
                 /\ rets' = Ret(9)
                 /\ item' = [large |-> largeNow, bound |-> StillBound]
                 /\ UNCHANGED <<out, panics, armed, encErr, locked>>
          ELSE IF ~StillBound
            THEN \* Handle reads the new, empty buffer: msg[:len(msg)-1] panics, nothing is written
                 /\ panics' = panics + 1
                 /\ rets' = Ret(8)
                 /\ item' = [large |-> FALSE, bound |-> FALSE]
                 /\ UNCHANGED <<out, armed, encErr, locked>>
          ELSE IF drop
            THEN \* the select between the lock and ctx.Done() took the context's side
                 /\ rets' = Ret(4)
                 /\ item' = [large |-> largeNow, bound |-> TRUE]
                 /\ UNCHANGED <<out, panics, armed, encErr, locked>>
          ELSE IF StickyError /\ encErr[e]
            THEN \* the encoder returns its remembered error without calling Write
                 /\ rets' = Ret(2)
                 /\ item' = [large |-> largeNow, bound |-> TRUE]
                 /\ UNCHANGED <<out, panics, armed, encErr, locked>>
          ELSE /\ item' = [large |-> largeNow, bound |-> TRUE]
               /\ armed' = [armed EXCEPT ![w] = 0]
               /\ UNCHANGED panics
               /\ CASE armed[w] = 0 ->
                         /\ out' = Append(out, Line(h, rv.lv, r, rv.attrs, shown))
                         /\ rets' = Ret(0)
                         /\ UNCHANGED <<encErr, locked>>
                    [] armed[w] \in {1, 2} ->   \* the writer's error is Handle's result
                         /\ rets' = Ret(1)
                         /\ encErr' = [encErr EXCEPT ![e] = TRUE]
                         /\ UNCHANGED <<out, locked>>
                    [] OTHER ->             \* the panic leaves Handle; deferred calls run
                         /\ rets' = Ret(3)
                         /\ locked' = [locked EXCEPT ![e] = ~DeferUnlock]
                         /\ UNCHANGED <<out, encErr>>

(* A done context may make a context-aware lock give the record up. *)
Drops == IF CtxAwareLock /\ nextctx \in {2, 3} THEN {TRUE, FALSE} ELSE {FALSE}

(* The caller builds a new record (level, size class, AddAttrs calls of the    *)
(* given sizes) and handles it.                                                *)
LogNew(h, lv, sz, shape) ==
    /\ LET r   == Len(recs) + 1
           ids == RecOf(r, SumSeq(shape))
           b   == BuildRec([front |-> <<>>, back |-> NilSlice, heap |-> rheap], ids, shape)
           rv  == [lv |-> lv, sz |-> sz, attrs |-> ids, front |-> b.front, back |-> b.back]
       IN /\ recs' = Append(recs, rv)
          /\ \E drop \in Drops : HandleOn(b.heap, h, r, rv, drop)
    /\ UNCHANGED <<thr, attrs, parent, sl, heap, nfaults, cell, frozen, tree, twriter, ngroups>>

(* The caller hands a record value it already used to a handler again. *)
ReLog(h, r) ==
    /\ \E drop \in Drops : HandleOn(rheap, h, r, recs[r], drop)
    /\ UNCHANGED <<thr, attrs, parent, sl, heap, recs, nfaults, cell, frozen, tree, twriter, ngroups>>

(* The environment: the next Write call fails in the given way. *)
ArmFault(k, w) ==
    /\ armed[w] = 0 /\ nfaults < MaxFaults
    /\ armed' = [armed EXCEPT ![w] = k]
    /\ nfaults' = nfaults + 1
    /\ UNCHANGED <<thr, attrs, parent, sl, heap, recs, rheap, item, panics, encErr, locked, cell, frozen, tree, twriter, nextctx, rets, out, ngroups>>

(* The environment: the context the next Handle call is given. *)
ArmCtx(k) ==
    /\ nextctx = 0
    /\ nextctx' = k
    /\ UNCHANGED <<thr, attrs, parent, sl, heap, recs, rheap, item, panics, armed, nfaults, encErr, locked, cell, frozen, tree, twriter, rets, out, ngroups>>

(* Another NewJSONHybridHandler call: an independent tree on writer w. *)
NewTree(w) ==
    /\ NumT < MaxTrees /\ NumH < MaxH
    /\ attrs' = Append(attrs, <<>>)
    /\ parent' = Append(parent, 0)
    /\ sl' = Append(sl, NilSlice)
    /\ frozen' = Append(frozen, <<>>)
    /\ tree' = Append(tree, NumT + 1)
    /\ twriter' = Append(twriter, w)
    /\ encErr' = Append(encErr, FALSE)
    /\ locked' = Append(locked, FALSE)
    /\ UNCHANGED <<thr, heap, recs, rheap, item, panics, armed, nfaults, cell, nextctx, rets, out, ngroups>>

(* The environment changes what the live values evaluate to. *)
Tick ==
    /\ LiveKind > 0 /\ cell < MaxTicks
    /\ cell' = cell + 1
    /\ UNCHANGED <<thr, attrs, parent, sl, heap, recs, rheap, item, panics, armed, nfaults, encErr, locked, frozen, tree, twriter, nextctx, rets, out, ngroups>>

(* Abstract form used by trace validation: a record given by its attribute     *)
(* ids, handled once, its storage not modelled.                                *)
LogRec(h, lv, rec) ==
    /\ out' = Append(out, Line(h, lv, 0, rec, rec \o Contents(sl[h])))
    /\ UNCHANGED <<thr, attrs, parent, sl, heap, recs, rheap, item, panics, armed, nfaults, encErr, locked, cell, frozen, tree, twriter, nextctx, rets, ngroups>>

(* h.WithGroup(name) is not supported: it panics and changes nothing. *)
WithGroup(h) ==
    /\ ngroups' = ngroups + 1
    /\ UNCHANGED <<thr, attrs, parent, sl, heap, recs, rheap, item, panics, armed, nfaults, encErr, locked, cell, frozen, tree, twriter, nextctx, rets, out>>

Shapes == RecShapes \cup {<<m>> : m \in RecSizes}

Next == /\ steps < MaxSteps
        /\ steps' = steps + 1
        /\ \/ \E h \in Handlers :
             \/ \E k \in Batches : Derive(h, k)
             \/ Len(recs) < MaxLogs /\ \E lv \in Levels, sz \in Sizes, sh \in Shapes : LogNew(h, lv, sz, sh)
             \/ RelogsSoFar < MaxRelogs /\ \E r \in 1..Len(recs) : ReLog(h, r)
             \/ ngroups < MaxGroups /\ WithGroup(h)
           \/ \E k \in Faults, w \in 1..NWriters : ArmFault(k, w)
           \/ \E k \in Ctxs : ArmCtx(k)
           \/ \E w \in 1..NWriters : NewTree(w)
           \/ Tick

Spec == Init /\ [][Next]_vars

----------------------------------------------------------------------------
TypeOK ==
    /\ thr \in Thresholds
    /\ Len(parent) = NumH /\ Len(sl) = NumH /\ Len(frozen) = NumH /\ Len(tree) = NumH
    /\ Len(encErr) = NumT /\ Len(locked) = NumT /\ \A h \in Handlers : tree[h] \in 1..NumT
    /\ \A h \in Handlers : /\ parent[h] \in 0..(h - 1)
                           /\ sl[h].len <= sl[h].cap
                           /\ (sl[h].cap > 0 => sl[h].arr \in 1..Len(heap) /\ Len(heap[sl[h].arr]) >= sl[h].cap)
    /\ \A r \in 1..Len(recs) : /\ Len(recs[r].front) <= NInline
                               /\ recs[r].back.len <= recs[r].back.cap
                               /\ (recs[r].back.cap > 0 => Len(rheap[recs[r].back.arr]) >= recs[r].back.cap)

(* "attrs of a handler never change after creation": what the handler holds is *)
(* what it was given at creation, whatever was derived from whom afterwards.   *)
AttrsImmutable == \A h \in Handlers : Contents(sl[h]) = attrs[h]

(* Every line is the required one ... *)
LinesCorrect == \A i \in 1..Len(out) :
    /\ out[i].attrs = out[i].rec \o attrs[out[i].h]
    /\ out[i].sev = (IF out[i].lv >= 8 THEN "ERROR" ELSE "NORMAL")
(* ... in particular no attribute of a sibling (or of any handler that is not  *)
(* an ancestor), of another record, or of slog's own making appears in it.     *)
NoSiblingLeak == \A i \in 1..Len(out) : \A j \in 1..Len(out[i].attrs) :
    LET id == out[i].attrs[j] IN
    IF id > 0 THEN Owner(id) \in Ancestors(out[i].h)
    ELSE id # BugAttr /\ (out[i].r > 0 => Owner(0 - id) = out[i].r)

(* The values the caller keeps still mean what they meant ... *)
RecordsImmutable == \A r \in 1..Len(recs) : RecAttrsOf(r) = recs[r].attrs
(* ... and nobody wrote into storage that belongs to them. *)
RecordStorageUntouched == \A r \in 1..Len(recs) :
    \A j \in (recs[r].back.len + 1)..recs[r].back.cap : rheap[recs[r].back.arr][j] = 0

(* One line per Handle call: none of them panicked, and the pooled text        *)
(* handler still writes into the buffer Handle reads from.                     *)
(* Every message shows what its attributes evaluate to when the record is      *)
(* handled, not when some handler was derived.                                 *)
LiveValuesCurrent == \A i \in 1..Len(out) : out[i].vals = out[i].want

NoPanic == panics = 0
ItemBound == item.bound

(* Writer faults concern the one record they hit: no later Handle gets an old  *)
(* error back, none waits for a mutex that will never be released, and the     *)
(* lines are exactly those of the calls that ended well.                       *)
NoStaleError == \A i \in 1..Len(rets) : rets[i].c # 2
(* ... or, for an implementation that gives up after a Write error: an old     *)
(* error comes back only after the writer did fail once (and then nothing is   *)
(* written for that call, see LinesAreTheGoodCalls).                           *)
(* The error must be one this very tree has seen since its creation: nothing   *)
(* another tree went through - earlier, on the same writer or not - counts.    *)
StaleOnlyAfterError == \A i \in 1..Len(rets) : rets[i].c = 2 =>
                           \E j \in 1..(i - 1) : rets[j].c = 1 /\ rets[j].t = rets[i].t
(* A record is not dropped because the context it came with is done. *)
NoCtxDrop == \A i \in 1..Len(rets) : rets[i].c # 4
NotWedged == (\A e \in 1..Len(locked) : ~locked[e]) /\ \A i \in 1..Len(rets) : rets[i].c # 9
LinesAreTheGoodCalls == Len(out) = Cardinality({i \in 1..Len(rets) : rets[i].c = 0})

(* A handler's attributes are its parent's followed by its own batch. *)
TreeShape == \A h \in Handlers : parent[h] # 0 =>
    /\ Len(attrs[h]) >= Len(attrs[parent[h]])
    /\ SubSeq(attrs[h], 1, Len(attrs[parent[h]])) = attrs[parent[h]]
    /\ \A j \in (Len(attrs[parent[h]]) + 1)..Len(attrs[h]) : Owner(attrs[h][j]) = h

(* Step properties: a line per Log and nothing else ever touches the output,   *)
(* and no step changes the attributes of an existing handler.                  *)
OneLinePerLog == [][Len(out') = Len(out) \/ (Len(out') = Len(out) + 1 /\ SubSeq(out', 1, Len(out)) = out)]_vars
Frozen == [][\A h \in Handlers : attrs'[h] = attrs[h]]_vars
=============================================================================
