------------------------------ MODULE HybridLog ------------------------------
(* slogutil.JSONHybridHandler, sequential semantics (property C19).            *)
(*                                                                             *)
(* Handlers form a tree: 1 is the handler returned by NewJSONHybridHandler,    *)
(* every other handler was returned by parent.WithAttrs(batch).  The           *)
(* specification of a handler is attrs[h], a sequence of attribute ids fixed   *)
(* when the handler is created.  Handle(h, record) writes exactly one line     *)
(*     {"severity": Severity(level), "message": Text(level, msg, rec \o attrs[h])}  *)
(* where Text is what slog.TextHandler prints; only its abstract content (the  *)
(* level and the attribute ids in order) is modelled here, the exact bytes are *)
(* supplied by the real slog.TextHandler in the harness.                       *)
(*                                                                             *)
(* Beside the specification variables the module carries the implementation-   *)
(* shaped state of the textAttrs slices (Go slice headers over a heap of       *)
(* backing arrays) so that TLC can show why WithAttrs must not append to a     *)
(* slice that still has spare capacity: with ClipOnDerive = FALSE the          *)
(* invariant AttrsImmutable is violated by two sibling derivations, with       *)
(* ClipOnDerive = TRUE (what jsonhybrid.go does: append(slices.Clip(...)))     *)
(* it holds.                                                                   *)
EXTENDS Integers, Sequences, FiniteSets

CONSTANTS Levels,        \* record levels offered to Log (slog.Level integers)
          Thresholds,    \* configured levels; Init picks one (opts.Level, default Info = 0)
          Batches,       \* sizes of the attribute batches given to WithAttrs
          RecSizes,      \* number of attributes a record itself carries
          MaxH,          \* bound on the number of handlers (root included)
          MaxLogs,       \* bound on Log steps (model checking / generation only)
          MaxGroups,     \* bound on WithGroup steps
          MaxSteps,
          ClipOnDerive   \* TRUE: append(slices.Clip(parent), batch...); FALSE: append(parent, batch...)

VARIABLES thr,      \* the configured level (copied to every derived handler)
          attrs,    \* attrs[h]: the accumulated attribute ids of handler h     (specification)
          parent,   \* parent[h]: the handler h was derived from, 0 for the root
          sl,       \* sl[h] = [arr, len, cap]: Go slice header of h.textAttrs  (implementation)
          heap,     \* heap[a]: backing array a, a sequence of length cap; 0 = never written
          out,      \* the lines written so far, in order
          ngroups,  \* WithGroup calls so far (each of them panicked)
          steps

vars == <<thr, attrs, parent, sl, heap, out, ngroups, steps>>

LevelError == 8
Severity(lv) == IF lv >= LevelError THEN "ERROR" ELSE "NORMAL"
(* Enabled is the same for every handler of the tree. *)
IsEnabled(lv) == lv >= thr

NumH == Len(attrs)
Handlers == 1..NumH

(* Attribute ids: positive = given to WithAttrs when handler h was created,   *)
(* negative = carried by the r-th record itself.                               *)
HAttr(h, i) == h * 10 + i
RAttr(r, i) == 0 - (r * 10 + i)
Owner(id) == id \div 10
BatchOf(h, k) == [i \in 1..k |-> HAttr(h, i)]
RecOf(r, m) == [i \in 1..m |-> RAttr(r, i)]

RECURSIVE Ancestors(_)
Ancestors(h) == IF h = 0 THEN {} ELSE {h} \cup Ancestors(parent[h])

----------------------------------------------------------------------------
(* Go slices. *)
Max(a, b) == IF a > b THEN a ELSE b
NilSlice == [arr |-> 0, len |-> 0, cap |-> 0]
Contents(s) == IF s.len = 0 THEN <<>> ELSE SubSeq(heap[s.arr], 1, s.len)
Clip(s) == [s EXCEPT !.cap = s.len]
Fits(s, k) == s.len + k <= s.cap
(* Amortised doubling; the real runtime also rounds up to a size class, which  *)
(* only adds spare capacity and therefore more of the hazard shown here.       *)
NewCap(s, k) == Max(s.len + k, 2 * s.cap)

(* The slice header append(s, batch...) returns ... *)
AppendResult(s, k) ==
    IF k = 0 THEN s
    ELSE IF Fits(s, k) THEN [s EXCEPT !.len = s.len + k]
    ELSE [arr |-> Len(heap) + 1, len |-> s.len + k, cap |-> NewCap(s, k)]
(* ... and what it does to the heap: in place when the batch fits. *)
AppendHeap(s, batch) ==
    LET k == Len(batch) IN
    IF k = 0 THEN heap
    ELSE IF Fits(s, k)
      THEN [heap EXCEPT ![s.arr] =
              [j \in 1..s.cap |-> IF j > s.len /\ j <= s.len + k THEN batch[j - s.len]
                                  ELSE heap[s.arr][j]]]
      ELSE Append(heap, [j \in 1..NewCap(s, k) |->
                           IF j <= s.len THEN heap[s.arr][j]
                           ELSE IF j <= s.len + k THEN batch[j - s.len]
                           ELSE 0])

----------------------------------------------------------------------------
Init == /\ thr \in Thresholds
        /\ attrs = << <<>> >>
        /\ parent = <<0>>
        /\ sl = <<NilSlice>>
        /\ heap = <<>>
        /\ out = <<>>
        /\ ngroups = 0
        /\ steps = 0

(* h.WithAttrs(batch): a new handler whose attributes are h's followed by the  *)
(* batch (an empty batch still makes a new handler).                           *)
Derive(h, k) ==
    /\ NumH < MaxH
    /\ LET new == NumH + 1
           batch == BatchOf(new, k)
           base == IF ClipOnDerive THEN Clip(sl[h]) ELSE sl[h]
       IN /\ attrs' = Append(attrs, attrs[h] \o batch)
          /\ parent' = Append(parent, h)
          /\ sl' = Append(sl, AppendResult(base, k))
          /\ heap' = AppendHeap(base, batch)
    /\ UNCHANGED <<thr, out, ngroups>>

(* The line the implementation writes reads the slice; the one the property    *)
(* demands reads attrs[h].                                                     *)
Line(h, lv, rec, hattrs) ==
    [h |-> h, lv |-> lv, sev |-> Severity(lv), rec |-> rec, attrs |-> rec \o hattrs]
ExpectedLine(h, lv, rec) == Line(h, lv, rec, attrs[h])

(* h.Handle(record): exactly one line, whatever the level (Handle does not     *)
(* consult Enabled), the record's own attributes first.                        *)
LogRec(h, lv, rec) ==
    /\ out' = Append(out, Line(h, lv, rec, Contents(sl[h])))
    /\ UNCHANGED <<thr, attrs, parent, sl, heap, ngroups>>
Log(h, lv, m) == LogRec(h, lv, RecOf(Len(out) + 1, m))

(* h.WithGroup(name) is not supported: it panics and changes nothing. *)
WithGroup(h) ==
    /\ ngroups' = ngroups + 1
    /\ UNCHANGED <<thr, attrs, parent, sl, heap, out>>

Next == /\ steps < MaxSteps
        /\ steps' = steps + 1
        /\ \E h \in Handlers :
             \/ \E k \in Batches : Derive(h, k)
             \/ Len(out) < MaxLogs /\ \E lv \in Levels, m \in RecSizes : Log(h, lv, m)
             \/ ngroups < MaxGroups /\ WithGroup(h)

Spec == Init /\ [][Next]_vars

----------------------------------------------------------------------------
TypeOK ==
    /\ thr \in Thresholds
    /\ Len(parent) = NumH /\ Len(sl) = NumH
    /\ \A h \in Handlers : /\ parent[h] \in 0..(h - 1)
                           /\ sl[h].len <= sl[h].cap
                           /\ (sl[h].cap > 0 => sl[h].arr \in 1..Len(heap) /\ Len(heap[sl[h].arr]) >= sl[h].cap)

(* "attrs of a handler never change after creation": what the handler holds is *)
(* what it was given at creation, whatever was derived from whom afterwards.   *)
AttrsImmutable == \A h \in Handlers : Contents(sl[h]) = attrs[h]

(* Every line is the required one ... *)
LinesCorrect == \A i \in 1..Len(out) :
    /\ out[i] = ExpectedLine(out[i].h, out[i].lv, out[i].rec)
    /\ out[i].sev = (IF out[i].lv >= 8 THEN "ERROR" ELSE "NORMAL")
(* ... in particular no attribute of a sibling (or of any handler that is not  *)
(* an ancestor) and no attribute of another record appears in it.              *)
NoSiblingLeak == \A i \in 1..Len(out) : \A j \in 1..Len(out[i].attrs) :
    LET id == out[i].attrs[j] IN
    IF id > 0 THEN Owner(id) \in Ancestors(out[i].h) ELSE Owner(0 - id) = i

(* A handler's attributes are its parent's followed by its own batch. *)
TreeShape == \A h \in Handlers : h > 1 =>
    /\ Len(attrs[h]) >= Len(attrs[parent[h]])
    /\ SubSeq(attrs[h], 1, Len(attrs[parent[h]])) = attrs[parent[h]]
    /\ \A j \in (Len(attrs[parent[h]]) + 1)..Len(attrs[h]) : Owner(attrs[h][j]) = h

(* Step properties: a line per Log and nothing else ever touches the output,   *)
(* and no step changes the attributes of an existing handler.                  *)
OneLinePerLog == [][Len(out') = Len(out) \/ (Len(out') = Len(out) + 1 /\ SubSeq(out', 1, Len(out)) = out)]_vars
Frozen == [][\A h \in Handlers : attrs'[h] = attrs[h]]_vars
=============================================================================
