----------------------------- MODULE HybridConcMC -----------------------------
(* Gate layouts for HybridConc (tuples cannot be written in a .cfg file).      *)
EXTENDS HybridConc
G1    == <<1>>
G11   == <<1, 1>>
G21   == <<2, 1>>
G01   == <<0, 1>>
G111  == <<1, 1, 1>>
G011  == <<0, 1, 1>>
G211  == <<2, 1, 1>>
G1111 == <<1, 1, 1, 1>>
G11111 == <<1, 1, 1, 1, 1>>
G2101 == <<2, 1, 0, 1>>

(* Which records have a large text line. *)
Small2 == <<FALSE, FALSE>>
Small3 == <<FALSE, FALSE, FALSE>>
Small4 == <<FALSE, FALSE, FALSE, FALSE>>
Small5 == <<FALSE, FALSE, FALSE, FALSE, FALSE>>
Big10  == <<TRUE, FALSE>>
Big100 == <<TRUE, FALSE, FALSE>>
Big010 == <<FALSE, TRUE, FALSE>>
Big110 == <<TRUE, TRUE, FALSE>>
Big0101 == <<FALSE, TRUE, FALSE, TRUE>>

(* What the writer does with each record's line: 0 ok, 1 error, 2 short write, 3 panic. *)
Ok2 == <<0, 0>>
Ok3 == <<0, 0, 0>>
Ok4 == <<0, 0, 0, 0>>
Ok5 == <<0, 0, 0, 0, 0>>
F30   == <<3, 0>>
F300  == <<3, 0, 0>>
F030  == <<0, 3, 0>>
F310  == <<3, 1, 0>>
F100  == <<1, 0, 0>>
F020  == <<0, 2, 0>>
F0300 == <<0, 3, 0, 0>>

(* Contexts of the calls: 0 never done, 2 done before the call, 5 cancelled while waiting for the mutex. *)
Bg2 == <<0, 0>>
Bg3 == <<0, 0, 0>>
Bg4 == <<0, 0, 0, 0>>
Bg5 == <<0, 0, 0, 0, 0>>
C20   == <<2, 0>>
C020  == <<0, 2, 0>>
C250  == <<2, 5, 0>>
C055  == <<0, 5, 5>>
C0502 == <<0, 5, 0, 2>>
=============================================================================
