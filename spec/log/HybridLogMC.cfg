\* tlc -config HybridLogMC.cfg HybridLogMC      (the check writes its own *_run.cfg with tier-dependent bounds)
\* With ClipOnDerive = FALSE TLC reports AttrsImmutable violated after 4 derivations.
SPECIFICATION Spec
CONSTANTS
  Levels <- LevelsEdge
  Thresholds <- ThrTree
  Batches = {0, 1, 2, 3}
  RecSizes = {1}
  RecShapes <- ShapesMC
  Sizes <- SizesNone
  LargeSizes <- Large
  MaxRelogs = 1
  ShareOnCopy = TRUE
  CloneBeforeAdd = TRUE
  RebindOnLarge = FALSE
  Faults <- NoFaults
  MaxFaults = 0
  DeferUnlock = TRUE
  StickyError = TRUE
  LiveKind = 0
  MaxTicks = 0
  ResolveOnDerive = FALSE
  NWriters = 1
  MaxTrees = 1
  ShareByWriter = FALSE
  Ctxs = {}
  CtxAwareLock = FALSE
  MaxH = 5
  MaxLogs = 1
  MaxGroups = 1
  MaxSteps = 6
  ClipOnDerive = TRUE
INVARIANTS TypeOK AttrsImmutable LinesCorrect NoSiblingLeak TreeShape
PROPERTIES OneLinePerLog Frozen
CHECK_DEADLOCK FALSE
