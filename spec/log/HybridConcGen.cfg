\* tlc -config HybridConcGen.cfg HybridConcGen  writes hybrid_schedules.ndjson: every gate-level schedule of 3 calls
SPECIFICATION GSpec
CONSTANTS
  NGates <- G111
  BigRec <- Big100
  NBufs = 3
  ResetOnGet = TRUE
  PutAfterWrite = TRUE
  WriteUnderLock = TRUE
  SingleWrite = TRUE
  RebindOnLarge = FALSE
  Fault <- F030
  DeferUnlock = TRUE
  StickyError = TRUE
  Ctx <- C250
  CtxAwareLock = FALSE
INVARIANTS Emit OneWriter LinesCorrect BufExclusive
CHECK_DEADLOCK FALSE
