----------------------------- MODULE HybridLogMC -----------------------------
(* Constant sets for HybridLog that a .cfg file cannot spell (negative        *)
(* integers).  slog levels: Debug = -4, Info = 0, Warn = 4, Error = 8.        *)
EXTENDS HybridLog

LevelsAll  == {-5, -4, 0, 4, 7, 8, 9}    \* Debug-1, Debug, Info, Warn, Error-1, Error, Error+1
LevelsEdge == {7, 8}
LevelsMC   == {-5, 0, 7, 8, 9}
ThrAll     == {-8, -5, -4, -3, -1, 0, 1, 3, 4, 5, 7, 8, 9, 12}
ThrMC      == {-4, 0, 8}
ThrInfo    == {0}
ThrWarn    == {4}
ThrTree    == {-1}                       \* neither a named level nor the default

(* Record shapes: the sizes of the AddAttrs calls that build a record.  A      *)
(* record keeps 5 attributes inline; <<6, 1, 1>> is the smallest shape whose   *)
(* slice of further attributes ends up with spare capacity (1, 2, then 4).     *)
NoShapes    == {}
ShapesMC    == {<<6, 1, 1>>, <<5, 1>>, <<8>>}
ShapesQuick == {<<6>>, <<8>>, <<5, 1>>, <<6, 1>>, <<6, 1, 1>>, <<5, 1, 1, 1>>, <<7, 1>>, <<3, 3, 2>>, <<4, 4>>}
(* every way to add 0..8 attributes with 1..3 calls *)
ShapesAll   == {s \in UNION {[1..k -> 0..8] : k \in 1..3} : SumSeq(s) <= 8}

SizesNone  == {0}
SizesLS    == {0, 4}               \* small and 16 KiB+1
SizesQuick == {0, 1, 3, 4, 5}      \* small, 4 KiB-1, 16 KiB, 16 KiB+1, 64 KiB
SizesAll   == {0, 1, 2, 3, 4, 5, 6} \* ... 16 KiB-1 ... 1 MiB
Large      == {2, 3, 4, 5, 6}       \* the line is longer than 16 KiB
NoFaults   == {}
FaultsAll  == {1, 2, 3}
FaultsErr  == {1}
LevelsOne  == {8}
LevelsTwo  == {0, 8}
=============================================================================
