----------------------------- MODULE HybridLogMC -----------------------------
(* Constant sets for HybridLog that a .cfg file cannot spell (negative        *)
(* integers).  slog levels: Debug = -4, Info = 0, Warn = 4, Error = 8.        *)
EXTENDS HybridLog

LevelsAll  == {-5, -4, 0, 4, 7, 8, 9}    \* Debug-1, Debug, Info, Warn, Error-1, Error, Error+1
LevelsEdge == {7, 8}
LevelsMC   == {-5, 0, 7, 8, 9}
ThrAll     == {-8, -5, -4, -3, -1, 0, 1, 3, 4, 5, 7, 8, 9, 12}
ThrMC      == {-4, 0, 8}
ThrInfo    == {0}
ThrWarn    == {4}
ThrTree    == {-1}                       \* neither a named level nor the default
=============================================================================
