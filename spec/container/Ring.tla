------------------------------- MODULE Ring -------------------------------
(* container.RingBuffer[T]: the implementation-shaped state (buf, cur, full),   *)
(* mirroring container/ringbuffer.go one action per exported mutator, together  *)
(* with the abstract history `pushed` the documentation talks about.  The       *)
(* property C11 (ring part) is the refinement invariant between the two.        *)
EXTENDS Naturals, Sequences, TLC

CONSTANTS Caps,      \* set of capacities chosen in Init
          MaxSteps   \* bound on the number of mutating calls (model checking only)

VARIABLES cap,       \* capacity given to NewRingBuffer
          buf,       \* Go: rb.buf  (1-based here)
          cur,       \* Go: rb.cur  (0-based, as in Go)
          full,      \* Go: rb.full
          pushed,    \* abstract: values pushed since creation or the last Clear
          nextv,     \* next fresh value; values are 1, 2, 3, ... so 0 is T's zero value
          steps

vars == <<cap, buf, cur, full, pushed, nextv, steps>>

Zero == 0

NewState(c) ==
    /\ cap = c
    /\ buf = [i \in 1..c |-> Zero]
    /\ cur = 0
    /\ full = FALSE
    /\ pushed = <<>>

Init == /\ \E c \in Caps : NewState(c)
        /\ nextv = 1
        /\ steps = 0

(* Push: `if len(rb.buf) == 0 { return }; rb.buf[rb.cur] = e; rb.cur = (rb.cur+1) % cap;
   if rb.cur == 0 { rb.full = true }` *)
Push(v) ==
    /\ IF cap = 0
         THEN UNCHANGED <<buf, cur, full>>
         ELSE /\ buf' = [buf EXCEPT ![cur + 1] = v]
              /\ cur' = (cur + 1) % cap
              /\ full' = (full \/ cur' = 0)
    /\ pushed' = Append(pushed, v)
    /\ UNCHANGED cap

(* Clear: `clear(rb.buf); rb.full = false; rb.cur = 0` *)
Clear ==
    /\ buf' = [i \in 1..cap |-> Zero]
    /\ cur' = 0
    /\ full' = FALSE
    /\ pushed' = <<>>
    /\ UNCHANGED cap

----------------------------------------------------------------------------
(* Observations computed the way the Go methods compute them. *)
ImplLen == IF full THEN cap ELSE cur
ImplCurrent == IF cap = 0 THEN Zero ELSE buf[cur + 1]
ImplRange == IF cap = 0 THEN <<>>
             ELSE IF ~full THEN SubSeq(buf, 1, cur)
             ELSE SubSeq(buf, cur + 1, cap) \o SubSeq(buf, 1, cur)

(* Observations as the documentation (and property C11) define them. *)
Min(a, b) == IF a < b THEN a ELSE b
Retained == LET n == Len(pushed) k == Min(n, cap) IN SubSeq(pushed, n - k + 1, n)
AbsLen == Len(Retained)
AbsCurrent == IF cap > 0 /\ Len(pushed) >= cap THEN Head(Retained) ELSE Zero
Reverse(s) == [i \in 1..Len(s) |-> s[Len(s) - i + 1]]
Obs == [cap |-> cap, len |-> AbsLen, cur |-> AbsCurrent, range |-> Retained,
        rrange |-> Reverse(Retained)]

(* C11: the implementation state refines the abstract ring. *)
Refinement ==
    /\ ImplLen = AbsLen
    /\ ImplCurrent = AbsCurrent
    /\ ImplRange = Retained

(* A cleared buffer is indistinguishable from a new one. *)
ClearIsNew == [][Clear => (buf' = [i \in 1..cap |-> Zero] /\ cur' = 0 /\ ~full' /\ pushed' = <<>>)]_vars

TypeOK == /\ cur \in 0..cap
          /\ (cap > 0 => cur < cap)
          /\ Len(buf) = cap

Next == /\ steps < MaxSteps
        /\ steps' = steps + 1
        /\ \/ Push(nextv) /\ nextv' = nextv + 1
           \/ Clear /\ UNCHANGED nextv

Spec == Init /\ [][Next]_vars
=============================================================================
