SPECIFICATION Spec
CONSTANTS
  N = 3
  Vals = {1, 2, 3}
  NewArgs <- MCNewArgs
  MaxSteps = 8
INVARIANTS TypeOK StrictlyAscending EqualIsEquivalence
PROPERTY Isolation
CHECK_DEADLOCK FALSE
