SPECIFICATION Spec
CONSTANTS
  Caps = {0, 1, 2, 3, 4}
  MaxSteps = 12
INVARIANTS TypeOK Refinement
PROPERTY ClearIsNew
CHECK_DEADLOCK FALSE
