------------------------------- MODULE Sets -------------------------------
(* container.MapSet[T] and container.SortedSliceSet[T] against the            *)
(* mathematical set of added-and-not-deleted values.  A small object store    *)
(* (pointers 1..N, each nil or a set) lets Clone / Equal / nil receivers be   *)
(* expressed; the same model serves both implementations: Values / Range are  *)
(* predicted as the ascending sequence, which a MapSet must match as a set    *)
(* and a SortedSliceSet exactly.                                              *)
EXTENDS Integers, Sequences, FiniteSets, SequencesExt, TLC

CONSTANTS N,         \* number of pointer variables
          Vals,      \* values
          NewArgs,   \* argument lists offered to New (may have duplicates, unsorted)
          MaxSteps

VARIABLES live,      \* live[i]: pointer i is non-nil
          obj,       \* obj[i]: the set pointer i refers to ({} while nil)
          steps
(* Faults of the environment: a Range call-back that panics (the caller       *)
(* recovers) is a STUTTERING step of this specification: the set is left as   *)
(* it was and every later operation behaves as specified.  The harness takes  *)
(* such a step at the end of every replayed path and then an Add / Delete     *)
(* round trip with a fresh value.                                             *)
vars == <<live, obj, steps>>

Ids == 1..N
IsSet(i) == live[i]

Init == live = [i \in Ids |-> FALSE] /\ obj = [i \in Ids |-> {}] /\ steps = 0

Elems(s) == {s[k] : k \in DOMAIN s}

New(i, args)  == live' = [live EXCEPT ![i] = TRUE] /\ obj' = [obj EXCEPT ![i] = Elems(args)]
Add(i, v)     == IsSet(i) /\ obj' = [obj EXCEPT ![i] = @ \cup {v}] /\ UNCHANGED live   \* nil receiver: not allowed
Delete(i, v)  == obj' = [obj EXCEPT ![i] = @ \ {v}] /\ UNCHANGED live   \* no effect on nil
Clear(i)      == obj' = [obj EXCEPT ![i] = {}] /\ UNCHANGED live         \* no effect on nil
Clone(i, j)   == i # j /\ obj' = [obj EXCEPT ![j] = obj[i]]              \* nil clones to nil
                       /\ live' = [live EXCEPT ![j] = live[i]]
Drop(i)       == IsSet(i) /\ live' = [live EXCEPT ![i] = FALSE]          \* p = nil
                          /\ obj' = [obj EXCEPT ![i] = {}]

(* Query results, as documented. *)
Sorted(S) == SetToSortSeq(S, <)
Has(i, v)   == IsSet(i) /\ v \in obj[i]
LenOf(i)    == IF IsSet(i) THEN Cardinality(obj[i]) ELSE 0
Values(i)   == IF IsSet(i) THEN Sorted(obj[i]) ELSE <<>>
Equal(i, j) == IF ~IsSet(i) \/ ~IsSet(j) THEN (~IsSet(i) /\ ~IsSet(j)) ELSE obj[i] = obj[j]

Obs == [i \in Ids |-> [nil |-> ~IsSet(i), len |-> LenOf(i), vals |-> Values(i),
                       eq |-> [j \in Ids |-> Equal(i, j)]]]

(* Properties of the model itself. *)
TypeOK == \A i \in Ids : obj[i] \subseteq Vals /\ (~live[i] => obj[i] = {})
StrictlyAscending == \A i \in Ids : \A k \in 1..(Len(Values(i)) - 1) : Values(i)[k] < Values(i)[k + 1]
EqualIsEquivalence == /\ \A i \in Ids : Equal(i, i)
                      /\ \A i, j \in Ids : Equal(i, j) = Equal(j, i)
(* A mutation through one pointer never changes what another pointer sees. *)
Isolation == [][Cardinality({j \in Ids : obj'[j] # obj[j] \/ live'[j] # live[j]}) <= 1]_vars

Next == /\ steps < MaxSteps
        /\ steps' = steps + 1
        /\ \E i \in Ids :
             \/ \E a \in NewArgs : New(i, a)
             \/ \E v \in Vals : Add(i, v) \/ Delete(i, v)
             \/ Clear(i)
             \/ \E j \in Ids : Clone(i, j)
             \/ Drop(i)
Spec == Init /\ [][Next]_vars
=============================================================================
