SPECIFICATION GSpec
CONSTANTS
  N = 2
  Vals = {1, 2, 3}
  NewArgs <- GenNewArgs
  MaxSteps = 4
INVARIANTS Emit StrictlyAscending
CHECK_DEADLOCK FALSE
