SPECIFICATION TSpec
CONSTANTS
  N = 3
  Vals = {}
  NewArgs = {}
  MaxSteps = 0
CHECK_DEADLOCK FALSE
