----------------------------- MODULE SetsTrace -----------------------------
(* Trace validation for MapSet / SortedSliceSet logs: op + arguments, then   *)
(* the observed state of every pointer (nil flag, Len, sorted Values, Equal   *)
(* row) must equal the specification's.                                       *)
EXTENDS Sets, Json

Trace == ndJsonDeserialize("sets_trace.ndjson")
VARIABLE l
tvars == <<vars, l>>

TInit == Init /\ l = 1
Ev == Trace[l]

(* NB: never prime an expression that mentions Ev: Ev' is the next line. *)
HasNext(i, v) == live'[i] /\ v \in obj'[i]

ObsOK(e) == \A i \in Ids :
    /\ e.obs[i].nil = ~IsSet(i)'
    /\ e.obs[i].len = LenOf(i)'
    /\ e.obs[i].vals = Values(i)'
    /\ \A j \in Ids : e.obs[i].eq[j] = Equal(i, j)'
    /\ \A k \in DOMAIN e.has : e.has[k].i = i => e.has[k].r = HasNext(i, e.has[k].v)

TReset == Ev.op = "reset" /\ obj' = [i \in Ids |-> {}] /\ live' = [i \in Ids |-> FALSE]
TStep == \/ Ev.op = "new" /\ New(Ev.i, Ev.args)
         \/ Ev.op = "add" /\ Add(Ev.i, Ev.v)
         \/ Ev.op = "delete" /\ Delete(Ev.i, Ev.v)
         \/ Ev.op = "clear" /\ Clear(Ev.i)
         \/ Ev.op = "clone" /\ Clone(Ev.i, Ev.j)
         \/ Ev.op = "drop" /\ Drop(Ev.i)
TNext == /\ l <= Len(Trace)
         /\ l' = l + 1
         /\ (TReset \/ TStep)
         /\ ObsOK(Ev)
         /\ UNCHANGED steps
TSpec == TInit /\ [][TNext]_tvars
=============================================================================
