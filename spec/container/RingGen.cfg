SPECIFICATION GSpec
CONSTANTS
  Caps = {0, 1, 2, 3}
  MaxSteps = 9
INVARIANTS Emit Refinement
CHECK_DEADLOCK FALSE
