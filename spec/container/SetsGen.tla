------------------------------ MODULE SetsGen ------------------------------
EXTENDS Sets, Json, CSV

GenNewArgs == {<<>>, <<2, 1>>, <<3, 3, 1>>}

VARIABLE hist
gvars == <<vars, hist>>

Op(name, i, j, v, a) == [op |-> name, i |-> i, j |-> j, v |-> v, args |-> a]

GInit == Init /\ hist = <<>>
GNext == /\ steps < MaxSteps
         /\ steps' = steps + 1
         /\ \E i \in Ids :
              \/ \E a \in NewArgs : New(i, a) /\ hist' = Append(hist, Op("new", i, 0, 0, a))
              \/ \E v \in Vals : Add(i, v) /\ hist' = Append(hist, Op("add", i, 0, v, <<>>))
              \/ \E v \in Vals : Delete(i, v) /\ hist' = Append(hist, Op("delete", i, 0, v, <<>>))
              \/ Clear(i) /\ hist' = Append(hist, Op("clear", i, 0, 0, <<>>))
              \/ \E j \in Ids : Clone(i, j) /\ hist' = Append(hist, Op("clone", i, j, 0, <<>>))
              \/ Drop(i) /\ hist' = Append(hist, Op("drop", i, 0, 0, <<>>))
GSpec == GInit /\ [][GNext]_gvars

Emit == CSVWrite("%1$s", <<ToJson([ops |-> hist, obs |-> Obs])>>, "sets_vectors.ndjson")
=============================================================================
