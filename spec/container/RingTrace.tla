----------------------------- MODULE RingTrace -----------------------------
(* Trace validation: an NDJSON log recorded from the real RingBuffer must be  *)
(* a behaviour of Ring, and every logged observation must equal the one the   *)
(* specification derives from the abstract history.                           *)
EXTENDS Ring, Json

Trace == ndJsonDeserialize("ring_trace.ndjson")

VARIABLE l
tvars == <<vars, l>>

TInit == /\ NewState(0) /\ nextv = 1 /\ steps = 0 /\ l = 1

Ev == Trace[l]
ObsOK(e) == /\ e.len = AbsLen'
            /\ e.cur = AbsCurrent'
            /\ e.range = Retained'
            /\ e.rrange = Reverse(Retained')

TNew == /\ Ev.op = "new"
        /\ cap' = Ev.cap
        /\ buf' = [i \in 1..Ev.cap |-> Zero]
        /\ cur' = 0 /\ full' = FALSE /\ pushed' = <<>>
TPush == Ev.op = "push" /\ Push(Ev.v)
TClear == Ev.op = "clear" /\ Clear

TNext == /\ l <= Len(Trace)
         /\ l' = l + 1
         /\ (TNew \/ TPush \/ TClear)
         /\ ObsOK(Ev)
         /\ Refinement'
         /\ UNCHANGED <<nextv, steps>>
TSpec == TInit /\ [][TNext]_tvars
=============================================================================
