------------------------------ MODULE RingGen ------------------------------
(* Generator: every path of Ring up to MaxSteps, each emitted with the        *)
(* observation the specification predicts after its last step.               *)
EXTENDS Ring, Json, CSV, TLCExt

VARIABLE hist
gvars == <<vars, hist>>

GInit == Init /\ hist = <<>>
GNext == /\ steps < MaxSteps
         /\ steps' = steps + 1
         /\ \/ Push(nextv) /\ nextv' = nextv + 1
               /\ hist' = Append(hist, [op |-> "push", v |-> nextv])
            \/ Clear /\ UNCHANGED nextv
               /\ hist' = Append(hist, [op |-> "clear", v |-> 0])
GSpec == GInit /\ [][GNext]_gvars

Emit == CSVWrite("%1$s", <<ToJson([ops |-> hist, obs |-> Obs])>>, "ring_vectors.ndjson")
=============================================================================
