SPECIFICATION TSpec
CONSTANTS
  Caps = {0}
  MaxSteps = 0
CHECK_DEADLOCK FALSE
