------------------------------- MODULE Tokens -------------------------------
(* C01 — totality of the text-consuming APIs.                                *)
(*                                                                           *)
(* The property has no interesting sequential state: its content is the      *)
(* universal quantifier over inputs.  This module is therefore an            *)
(* *enumerator*: abstract strings are sequences of tokens; a token is either *)
(* a character class (concretised in Go by several representatives) or a     *)
(* grammar-level piece (an ARPA label kind, a port, a zone, a duration unit, *)
(* a URL delimiter...).  Each family below spans the neighbourhood of one of *)
(* the grammars the library parses, because that is where index arithmetic   *)
(* lives; AnyBytes spans everything else.  TLC enumerates a family           *)
(* exhaustively up to the length bound (each state is one input), the        *)
(* harness concretises every input and feeds it to EVERY exported function   *)
(* that accepts it; the predicted observable is simply "returns".            *)
EXTENDS Integers, Sequences, TLC, Json, CSV

CONSTANTS Family,   \* which family to enumerate
          MaxLen    \* bound on the number of tokens

VARIABLE s
vars == <<s>>

(* character classes and special bytes *)
ByteAlphabet == {"0", "d", "x", "l", "U", "-", "_", ".", ":", "%", "[", "]", "#", "SP", "TAB",
                 "CR", "NL", "/", "@", "u2", "u3", "FW.", "BAD", "TRUNC", "CTL", "NUL", "!",
                 "QUOTE", "SQ", "BSL", "&", "RUN63", "RUN64", "RUN254"}

(* ARPA-shaped names: label kinds, then a suffix shape *)
ArpaLabels == {"o7", "o0", "o07", "o00", "o256", "o100", "o255", "na", "nA", "n0", "ab", "g", "dash-", "L63", "L64", "uK", "UL55"}
ArpaSuffixes == {"in-addr.arpa", "ip6.arpa", "xip6.arpa", "xin-addr.arpa", "arpa", "IN-ADDR.ARPA", "Ip6.ArPa",
                 "ip6.arpa.", "in-addr.arpa.", "ip6.arpa..", "iN-addr.arpa(dotless-i)", "in-addr.arpa(dotted-I)",
                 "ip6.arpa(kelvin)", "in-addr", ""}
(* "UL55" / "UL85": a label of 55 / 85 repeated non-ASCII runes: > 63 bytes raw, a short Punycode label *)
(* after idna.ToASCII, so a name can be valid while its raw form is longer than 253 bytes.             *)
(* long nibble / octet runs in front of a suffix *)
ArpaRuns == {"nib28", "nib30", "nib31", "nib32", "nib33", "nib34", "nib40", "oct3", "oct4", "oct5", "oct6",
             "nibnodot32", "nibbad32", "nib32upper"}

HostPortToks == {"h", "[", "]", ":", "80", "0", "65535", "65536", "99999999999999999999", "-1", "+1", "%z", "%",
                 "::1", "1.2.3.4", "::ffff:1.2.3.4", "", ".", "FW.", "u2", "SP"}
DurationToks == {"1", "0", "9", "h", "m", "s", "ms", "us", "micro-s", "ns", ".", "-", "+", "e", "d",
                 "9223372036854775807", "9223372036854775808", "2562047", "SP", "u2", "BAD"}
URLToks == {"http", "file", "grpc", "://", ":", "/", "//", "?", "#", "@", "%", "%2F", "%zz", "%2", "[", "]", "::1",
            "h", "user", "pw", "a b", "DEL", "NL", "&", "<", "QUOTE", "BSL", "u2", "BAD", "80", "65536", ".."}
HostsToks == {"UL55", "1.2.3.4", "::1", "fe80::1%eth0", "1.2.3.256", "name", "na.me", "Name", "u2name", "bad_name!", "RUN64",
              "RUN254", "SP", "TAB", "#", "cmt", "CR", "NL", "NUL", "BAD", "-", "."}
NameToks == {"l", "d", "0", "-", "_", ".", "U", "u2", "FW.", "xn--", "RUN15", "RUN16", "RUN62", "RUN63", "RUN64",
             "RUN189", "BAD", "SP", "*", "UL55", "UL85"}

(* JSON lexical grammar (for the UnmarshalJSON entry points, which encoding/json calls with a value *)
(* but which a caller may hand any bytes): literals, insignificant white space, string and         *)
(* structural characters, escapes.                                                                 *)
JSONToks == {"null", "true", "false", "0", "-", "1e9", "QUOTE", "BSL", "{", "}", "[", "]", ",", ":",
             "SP", "TAB", "NL", "CR", "http://h", "esc-u0041", "esc-ud800", "u2", "BAD", "NUL", "nul", "Null"}

(* Inputs beyond every fixed-size buffer of the standard library (bufio's 64 KiB token limit, *)
(* 4 KiB read buffers): a run of 70 000 bytes next to the separators of the line grammars.   *)
(* The feeder keeps its receivers and runs its inputs one after the other, so what a huge    *)
(* input leaves behind meets the next small one.                                             *)
HugeToks == {"RUN70K", "RUN64K", "NL", "SP", "1.2.3.4", "name", "#", ".", "u2"}

(* address/prefix texts: address forms of both families (dotted tails, mapped, zoned) on both sides of a slash *)
PrefixToks == {"1.2.3.4", "255.255.255.0", "::1", "::", "::ffff:1.2.3.4", "::255.255.255.0", "64:ff9b::1.2.3.4", "fe80::1",
               "%z", "/", "0", "8", "32", "33", "128", "129", "-1", "+8", "08", ".", ":", "SP", "u2"}

Alphabet ==
    CASE Family = "bytes"    -> ByteAlphabet
      [] Family = "prefix"   -> PrefixToks
      [] Family = "huge"     -> HugeToks
      [] Family = "json"     -> JSONToks
      [] Family = "arpa"     -> ArpaLabels
      [] Family = "arparun"  -> ArpaLabels
      [] Family = "hostport" -> HostPortToks
      [] Family = "duration" -> DurationToks
      [] Family = "url"      -> URLToks
      [] Family = "hosts"    -> HostsToks
      [] Family = "names"    -> NameToks

Init == s = << >>
Next == /\ Len(s) < MaxLen
        /\ \E t \in Alphabet : s' = Append(s, t)
Spec == Init /\ [][Next]_vars

(* What is written for one state.  ARPA families are crossed with every      *)
(* suffix shape (and run) so that the label sequence is the state.           *)
Lines ==
    CASE Family = "arpa"    -> {[f |-> Family, toks |-> s, suffix |-> x, run |-> ""] : x \in ArpaSuffixes}
      [] Family = "arparun" -> {[f |-> Family, toks |-> s, suffix |-> x, run |-> r] :
                                    x \in {"in-addr.arpa", "ip6.arpa", "ip6.arpa.", "IP6.ARPA"}, r \in ArpaRuns}
      [] OTHER              -> {[f |-> Family, toks |-> s, suffix |-> "", run |-> ""]}

Emit == \A ln \in Lines : CSVWrite("%1$s", <<ToJson(ln)>>, "c01_vectors.ndjson")

(* The only prediction of this module: every call returns.  It is checked by *)
(* the trace specification below on the outcomes the harness records.        *)
Outcomes == {"returned"}
=============================================================================
