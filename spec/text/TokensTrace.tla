---------------------------- MODULE TokensTrace ----------------------------
(* Outcome log of the C01 feeder: one line per (family, batch) with the      *)
(* number of inputs, calls, and the set of outcomes observed.  Totality      *)
(* means the set is exactly {"returned"}.                                    *)
EXTENDS Integers, Sequences, TLC, Json

Trace == ndJsonDeserialize("c01_trace.ndjson")
VARIABLE l
Init == l = 1
Next == /\ l <= Len(Trace)
        /\ Trace[l].outcomes = <<"returned">>
        /\ Trace[l].calls >= Trace[l].inputs
        /\ l' = l + 1
Spec == Init /\ [][Next]_l
=============================================================================
