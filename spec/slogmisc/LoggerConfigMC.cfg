SPECIFICATION KSpec
CONSTANTS
  Formats <- MCFormats
  CfgLevels <- MCCfgLevels
  RecLevels <- MCRecLevels
  Shapes <- MCShapes
  FormatNames <- MCFormatNames
  Verbosities <- MCVerbosities
  AttrKeys <- MCAttrKeys
  ValKinds <- MCValKinds
  ConstNames <- AllConstNames
INVARIANTS FormatsConsistent EnabledLattice VerbosityLattice OnlyTraceRenamed NoTimeUnlessAsked RelevelIdentity KEmit
CHECK_DEADLOCK FALSE
