---------------------------- MODULE LevelHandler ----------------------------
(* slogutil.LevelHandler (logutil/slogutil/levelhandler.go).                  *)
(*                                                                            *)
(*   "A LevelHandler wraps a Handler with an Enabled method that returns      *)
(*    false for levels below a minimum."                                      *)
(*   NewLevelHandler  "returns a LevelHandler with the given level.  All      *)
(*                    methods except Enabled delegate to h."  "As an          *)
(*                    optimization, avoid chains of LevelHandlers": wrapping  *)
(*                    a LevelHandler wraps what that one wraps.               *)
(*   Enabled          "reports whether level is as high as h's level" - the   *)
(*                    level the Leveler reports at that moment; the wrapped   *)
(*                    handler is not asked.                                   *)
(*   Handle           the wrapped handler's Handle with the same context and  *)
(*                    record, its error returned; no level check of its own.  *)
(*   WithAttrs/Group  a LevelHandler with the same Leveler over the wrapped   *)
(*                    handler's WithAttrs / WithGroup result.                 *)
(*   Handler          "returns the slog.Handler wrapped by h".                *)
(*                                                                            *)
(* The wrapped handlers are recording fakes ("inner objects"): each knows the *)
(* sequence of WithAttrs / WithGroup calls that led to it (its context) and   *)
(* reports every call it receives.  Levelers are slog.LevelVars the           *)
(* application may set at any time.  obs is the observation of the latest     *)
(* call: what was returned and which calls reached inner objects.             *)
EXTENDS Integers, Sequences

CONSTANTS Levels,     \* levels of records and of Enabled probes
          LvValues,   \* values the application gives to a Leveler
          NLev,       \* number of Levelers; all start at 0 (Info)
          InnerMins,  \* the recording handler's own minimum level, chosen in Init
          Batches,    \* ids of attribute batches given to WithAttrs
          Groups,     \* ids of group names given to WithGroup
          Msgs,       \* message ids
          Outcomes,   \* what the inner Handle returns: "nil" or an error id
          OpKinds,    \* which operations the run enumerates
          MaxH, MaxI, \* bounds on LevelHandlers and inner objects
          MaxOps

VARIABLES imin,   \* the world's constant
          lvar,   \* Leveler id -> current level
          inn,    \* inner objects: inn[i] = context of inner object i; inn[1] = <<>>
          hs,     \* LevelHandlers: [lev |-> Leveler id, in |-> inner object, par |-> handler derived from, or 0]
          obs, nops

lvars == <<imin, lvar, inn, hs, obs, nops>>

NoObs == [ret |-> "none", id |-> 0, calls |-> <<>>]
Ret(r) == [NoObs EXCEPT !.ret = r]
Bool(b) == IF b THEN "true" ELSE "false"

LInit == /\ imin \in InnerMins
         /\ lvar = [v \in 1..NLev |-> 0]
         /\ inn = << <<>> >>
         /\ hs = <<>>
         /\ obs = NoObs /\ nops = 0

Handlers == 1..Len(hs)
Threshold(h) == lvar[hs[h].lev]
En(h, l) == l >= Threshold(h)

(* NewLevelHandler(Leveler v, inner object i) / (Leveler v, LevelHandler g)  *)
NewOverInner(v, i) ==
    /\ i \in 1..Len(inn) /\ Len(hs) < MaxH
    /\ hs' = Append(hs, [lev |-> v, in |-> i, par |-> 0])
    /\ obs' = [NoObs EXCEPT !.ret = "ok", !.id = i]
    /\ UNCHANGED <<imin, lvar, inn>>
NewOverLH(v, g) ==
    /\ g \in Handlers /\ Len(hs) < MaxH
    /\ hs' = Append(hs, [lev |-> v, in |-> hs[g].in, par |-> 0])
    /\ obs' = [NoObs EXCEPT !.ret = "ok", !.id = hs[g].in]
    /\ UNCHANGED <<imin, lvar, inn>>

(* h.WithAttrs(batch b) / h.WithGroup(group g): one call reaches the wrapped *)
(* handler, which returns a new inner object; the result wraps that one with  *)
(* h's Leveler.                                                               *)
Derive(h, t, x) ==
    /\ h \in Handlers /\ Len(hs) < MaxH /\ Len(inn) < MaxI
    /\ inn' = Append(inn, Append(inn[hs[h].in], [t |-> t, x |-> x]))
    /\ hs' = Append(hs, [lev |-> hs[h].lev, in |-> Len(inn) + 1, par |-> h])
    /\ obs' = [ret |-> "ok", id |-> Len(inn) + 1,
               calls |-> <<[k |-> t, in |-> hs[h].in, x |-> x, y |-> Len(inn) + 1]>>]
    /\ UNCHANGED <<imin, lvar>>

Enabled(h, l) ==
    /\ h \in Handlers
    /\ obs' = Ret(Bool(En(h, l)))
    /\ UNCHANGED <<imin, lvar, inn, hs>>

(* h.Handle(ctx, record at level l with message m); the inner Handle returns *)
(* o.  No level check.                                                        *)
Handle(h, l, m, o) ==
    /\ h \in Handlers
    /\ obs' = [ret |-> o, id |-> 0, calls |-> <<[k |-> "handle", in |-> hs[h].in, x |-> l, y |-> m]>>]
    /\ UNCHANGED <<imin, lvar, inn, hs>>

(* slog.New(h).Log(ctx, l, m): the logger asks Enabled first.                 *)
Log(h, l, m) ==
    /\ h \in Handlers
    /\ obs' = [NoObs EXCEPT !.calls = IF En(h, l) THEN <<[k |-> "handle", in |-> hs[h].in, x |-> l, y |-> m]>>
                                                   ELSE <<>>]
    /\ UNCHANGED <<imin, lvar, inn, hs>>

Unwrap(h) ==
    /\ h \in Handlers
    /\ obs' = [NoObs EXCEPT !.ret = "inner", !.id = hs[h].in]
    /\ UNCHANGED <<imin, lvar, inn, hs>>

SetLevel(v, x) ==
    /\ lvar' = [lvar EXCEPT ![v] = x] /\ obs' = NoObs
    /\ UNCHANGED <<imin, inn, hs>>

Do(o) ==
    CASE o[1] = "new"     -> NewOverInner(o[2], o[3])
      [] o[1] = "rewrap"  -> NewOverLH(o[2], o[3])
      [] o[1] = "attrs"   -> Derive(o[2], "attrs", o[3])
      [] o[1] = "group"   -> Derive(o[2], "group", o[3])
      [] o[1] = "enabled" -> Enabled(o[2], o[3])
      [] o[1] = "handle"  -> Handle(o[2], o[3], o[4], o[5])
      [] o[1] = "log"     -> Log(o[2], o[3], o[4])
      [] o[1] = "unwrap"  -> Unwrap(o[2])
      [] o[1] = "setlevel" -> SetLevel(o[2], o[3])

AllOps ==
    {<<"new", v, i>> : v \in 1..NLev, i \in 1..Len(inn)}
    \cup {<<"rewrap", v, g>> : v \in 1..NLev, g \in Handlers}
    \cup {<<"attrs", h, b>> : h \in Handlers, b \in Batches}
    \cup {<<"group", h, g>> : h \in Handlers, g \in Groups}
    \cup {<<"enabled", h, l>> : h \in Handlers, l \in Levels}
    \cup {<<"handle", h, l, m, o>> : h \in Handlers, l \in Levels, m \in Msgs, o \in Outcomes}
    \cup {<<"log", h, l, m>> : h \in Handlers, l \in Levels, m \in Msgs}
    \cup {<<"unwrap", h>> : h \in Handlers}
    \cup {<<"setlevel", v, x>> : v \in 1..NLev, x \in LvValues}
Ops == {o \in AllOps : o[1] \in OpKinds}

LNext == nops < MaxOps /\ nops' = nops + 1 /\ \E o \in Ops : Do(o)
LSpec == LInit /\ [][LNext]_lvars

----------------------------------------------------------------------------
(* Lemmas. *)
IsPrefix(s, t) == Len(s) <= Len(t) /\ SubSeq(t, 1, Len(s)) = s

LTypeOK == /\ \A v \in 1..NLev : lvar[v] \in LvValues \cup {0}
           /\ \A h \in Handlers : hs[h].lev \in 1..NLev /\ hs[h].in \in 1..Len(inn) /\ hs[h].par \in 0..(h - 1)
           /\ inn[1] = <<>>

(* The level order: Enabled is upward closed, and two handlers over the same  *)
(* Leveler always agree.                                                      *)
LevelLattice ==
    \A h \in Handlers : \A l1 \in Levels, l2 \in Levels :
        /\ (l1 <= l2 /\ En(h, l1)) => En(h, l2)
        /\ \A g \in Handlers : hs[g].lev = hs[h].lev => (En(g, l1) <=> En(h, l1))

(* A derived handler has its parent's Leveler and a context that is the       *)
(* parent's plus exactly one call; what a LevelHandler wraps is never a       *)
(* LevelHandler (inner objects only).                                         *)
TreeShape ==
    \A h \in Handlers : hs[h].par # 0 =>
        LET p == hs[h].par IN
        /\ hs[h].lev = hs[p].lev
        /\ Len(inn[hs[h].in]) = Len(inn[hs[p].in]) + 1
        /\ IsPrefix(inn[hs[p].in], inn[hs[h].in])

(* Siblings are isolated: two derivations never share an inner object, so an *)
(* attribute given to one can not show up in the other.                       *)
SiblingsIsolated ==
    \A h \in Handlers, g \in Handlers :
        (h # g /\ hs[h].par # 0 /\ hs[g].par # 0) => hs[h].in # hs[g].in

(* A record reaches exactly the handler's own inner object, unchanged.        *)
Delegation ==
    \A i \in 1..Len(obs.calls) : obs.calls[i].k = "handle" => Len(obs.calls) = 1

(* Handlers and inner objects never change after their creation.              *)
Frozen == [][/\ \A h \in Handlers : hs'[h] = hs[h]
             /\ \A i \in 1..Len(inn) : inn'[i] = inn[i]]_lvars
=============================================================================
