SPECIFICATION HSpec
CONSTANTS
  NLog = 2
  LMins <- MCLMins
  Levels <- MCLevels2
  Closers <- MCClosers
  PanicVals <- MCPanicVals
  Texts <- MCTexts2
  Msgs = {"m1"}
  MaxCtx = 4
  MaxOps = 4
INVARIANTS HTypeOK RoundTrip RecordsRespectLevel RecoveredShape LineNumbers
PROPERTIES CtxFrozen
CHECK_DEADLOCK FALSE
