----------------------------- MODULE HelpersTrace -----------------------------
(* Trace validation for the context and deferred helpers: seeded random real  *)
(* call sequences (dozens of contexts, any level, long texts) logged with     *)
(* what was returned, how often Close was called and the records the          *)
(* recording loggers received.                                                *)
(*   world lmin            a new world: the loggers' minimum levels, lmin[1]  *)
(*                         is slog.Default's                                  *)
(*   call  op obs          one call and its observation                       *)
EXTENDS HelpersMC, Json, TLC

Trace == ndJsonDeserialize("helpers_trace.ndjson")

VARIABLE l
htvars == <<hvars, l>>

Ev == Trace[l]

HTInit == /\ lmin = [g \in 0..NLog |-> 0] /\ ctxs = <<[par |-> 0, lg |-> -1]>> /\ obs = NoObs /\ nops = 0 /\ l = 1

HTWorld == /\ Ev.ev = "world"
           /\ lmin' = [g \in 0..NLog |-> Ev.lmin[g + 1]]
           /\ ctxs' = <<[par |-> 0, lg |-> -1]>> /\ obs' = NoObs

HTCall == /\ Ev.ev = "call"
          /\ Do(Ev.op)
          /\ obs' = Ev.obs

HTNext == /\ l <= Len(Trace)
          /\ l' = l + 1
          /\ (HTWorld \/ HTCall)
          /\ UNCHANGED nops
HTSpec == HTInit /\ [][HTNext]_htvars
=============================================================================
