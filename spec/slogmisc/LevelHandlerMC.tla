--------------------------- MODULE LevelHandlerMC ---------------------------
(* Constants for LevelHandler.tla that a .cfg file cannot express.  slog      *)
(* levels: Trace -8, Debug -4, Info 0, Warn 4, Error 8 and values between.    *)
EXTENDS LevelHandler

MCLevels   == {-8, -4, 0, 3, 4, 8}
MCLevels3  == {-4, 0, 4}
MCLvValues == {-4, 4}
MCInnerMins == {-8, 100}
MCOutcomes == {"nil", "e1"}
MCOutcome1 == {"nil"}
AllKinds == {"new", "rewrap", "attrs", "group", "enabled", "handle", "log", "unwrap", "setlevel"}
TreeKinds == {"new", "rewrap", "attrs", "group", "setlevel"}
TraceLevels == -64..64
TraceInnerMins == -200..200
TraceOutcomes == {"nil", "e1", "e2", "e3"}
=============================================================================
