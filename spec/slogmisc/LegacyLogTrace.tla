---------------------------- MODULE LegacyLogTrace ----------------------------
(* Trace validation for package log and AdGuardLegacyHandler: seeded random   *)
(* real call sequences (hundreds of calls per world, any attribute ids, any   *)
(* record level, long handler chains), each logged with what it returned and  *)
(* the output lines it produced, parsed back into abstract lines by the       *)
(* harness.  The free-running -race stress run is logged in the same format   *)
(* (one hhandle event per output line, in output order).                      *)
(*   world g0              a new world: level g0, no handlers                 *)
(*   call  op obs          one call and its observation                       *)
EXTENDS LegacyLogMC, Json, TLC

Trace == ndJsonDeserialize("legacy_trace.ndjson")

VARIABLE l
gtvars == <<gvars, l>>

Ev == Trace[l]

GTInit == /\ glevel = 2 /\ hs = <<>> /\ nhandle = 0 /\ obs = NoObs /\ nops = 0 /\ l = 1

GTWorld == /\ Ev.ev = "world"
           /\ glevel' = Ev.g0 /\ hs' = <<>> /\ obs' = NoObs /\ nhandle' = 0

GTCall == /\ Ev.ev = "call"
          /\ Do(Ev.op)
          /\ obs' = Ev.obs

GTNext == /\ l <= Len(Trace)
          /\ l' = l + 1
          /\ (GTWorld \/ GTCall)
          /\ UNCHANGED nops
GTSpec == GTInit /\ [][GTNext]_gtvars
=============================================================================
