-------------------------- MODULE LevelHandlerTrace --------------------------
(* Trace validation for slogutil.LevelHandler: seeded random real call        *)
(* sequences (dozens of handlers, derivation chains far deeper than the       *)
(* generator's, any level) logged with what was returned and which calls      *)
(* reached the recording inner handlers; every call must be the step of       *)
(* LevelHandler.tla with exactly that observation.                            *)
(*   world imin            a new world                                        *)
(*   call  op obs          one call and its observation                       *)
EXTENDS LevelHandlerMC, Json, TLC

Trace == ndJsonDeserialize("level_trace.ndjson")

VARIABLE l
ltvars == <<lvars, l>>

Ev == Trace[l]

LTInit == /\ imin = 0 /\ lvar = [v \in 1..NLev |-> 0] /\ inn = << <<>> >> /\ hs = <<>>
          /\ obs = NoObs /\ nops = 0 /\ l = 1

LTWorld == /\ Ev.ev = "world"
           /\ imin' = Ev.imin /\ lvar' = [v \in 1..NLev |-> 0] /\ inn' = << <<>> >> /\ hs' = <<>>
           /\ obs' = NoObs

LTCall == /\ Ev.ev = "call"
          /\ Do(Ev.op)
          /\ obs' = Ev.obs

LTNext == /\ l <= Len(Trace)
          /\ l' = l + 1
          /\ (LTWorld \/ LTCall)
          /\ UNCHANGED nops
LTSpec == LTInit /\ [][LTNext]_ltvars
=============================================================================
