------------------------------ MODULE HelpersGen ------------------------------
(* Generator: every sequence of calls of Helpers.tla up to MaxOps with, per   *)
(* call, the predicted observation.  One line per state (all prefixes).       *)
EXTENDS HelpersMC, Json, CSV

VARIABLE hhist
hgvars == <<hvars, hhist>>

HGInit == HInit /\ hhist = <<>>
HGNext == /\ nops < MaxOps /\ nops' = nops + 1
          /\ \E o \in Ops : Do(o) /\ hhist' = Append(hhist, [op |-> o, obs |-> obs'])
HGSpec == HGInit /\ [][HGNext]_hgvars

HEmit == CSVWrite("%1$s", <<ToJson([lmin |-> [g \in 1..(NLog + 1) |-> lmin[g - 1]], steps |-> hhist])>>,
                  "helpers_vectors.ndjson")
=============================================================================
