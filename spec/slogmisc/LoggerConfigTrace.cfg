SPECIFICATION KTSpec
CONSTANTS
  Formats <- MCFormats
  CfgLevels <- MCCfgLevels
  RecLevels <- MCRecLevels
  Shapes <- MCShapes
  FormatNames <- MCFormatNames
  Verbosities <- MCVerbosities
  AttrKeys <- MCAttrKeys
  ValKinds <- MCValKinds
  ConstNames <- AllConstNames
CHECK_DEADLOCK FALSE
