--------------------------- MODULE LoggerConfigMC ---------------------------
(* Constants for LoggerConfig.tla.  <NL>, <TAB>, <U> in format names stand    *)
(* for a newline, a tab and a non-ASCII letter (the harness substitutes).     *)
EXTENDS LoggerConfig

MCFormats == {"", "default", "text", "json", "jsonhybrid", "adguard_legacy", "xml", "TEXT"}
MCCfgLevels == {[set |-> FALSE, v |-> 0]} \cup {[set |-> TRUE, v |-> x] : x \in {-8, -4, 0, 4, 8}}
MCCfgLevelsWide == MCCfgLevels \cup {[set |-> TRUE, v |-> x] : x \in {-9, -5, 1, 12}}
MCRecLevels == {-8, -4, 0, 4, 8, -9, -7, 2, 12}
MCRecLevelsWide == -10..13
MCShapes == {[grp |-> FALSE, attrs |-> <<>>], [grp |-> FALSE, attrs |-> <<"plain">>],
             [grp |-> FALSE, attrs |-> <<"time", "plain">>], [grp |-> TRUE, attrs |-> <<"time">>],
             [grp |-> FALSE, attrs |-> <<"time">>], [grp |-> TRUE, attrs |-> <<"plain", "time", "plain">>]}
MCFormatNames == {"", "default", "text", "json", "jsonhybrid", "adguard_legacy", "Default", "TEXT", "Json", "JSON",
                  "json ", " json", "jsonhybrid<NL>", "json_hybrid", "jsonHybrid", "hybrid", "adguard-legacy", "adguardlegacy",
                  "legacy", "adguard_legacy2", "txt", "tex", "texts", "xml", "yaml", "defaul", "default<TAB>", "text,json",
                  "not a real format", "js<U>n"}
MCVerbosities == 0..255
MCAttrKeys == {"time", "level", "msg", "source", "err", "Time", "LEVEL", ""}
MCValKinds == {"L-8", "L-4", "L0", "L4", "L8", "L-7", "str", "time"}
TraceVerbosities == 0..255
=============================================================================
