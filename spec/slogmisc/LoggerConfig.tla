---------------------------- MODULE LoggerConfig ----------------------------
(* slogutil.New(Config), NewFormat, VerbosityToLevel, ReplaceLevel,           *)
(* RemoveTime and the constants of slogutil and log: pure functions, one       *)
(* "item" (a question) per state, Predict(item) the documented answer.         *)
(*                                                                             *)
(*   Config.Level   "the minimum record level that will be logged.  If not    *)
(*                   set, LevelInfo is used."                                  *)
(*   Config.Output  "If not set, os.Stdout is used."                           *)
(*   Config.Format  "If not set, FormatDefault is used.  If set, it must be   *)
(*                   valid."  (New panics with *BadFormatError otherwise.)     *)
(*   AddTimestamp   "if true, adds a timestamp to every record."               *)
(*   New            "If c is nil, the defaults are used."  "If c.Format is    *)
(*                   FormatAdGuardLegacy, the legacy logger parameters, such   *)
(*                   as output, should be set separately."                     *)
(*   formats        default: slog's default handler behind a LevelHandler,     *)
(*                   printing through the std logger ("INFO test info",        *)
(*                   "DEBUG test debug"; the TODO says LevelTrace is not       *)
(*                   renamed there); text / json: the std handlers             *)
(*                   ("level=TRACE msg=...", {"level":"INFO","msg":...});      *)
(*                   jsonhybrid: {"severity":..,"message":<text line>};        *)
(*                   adguard_legacy: AdGuardLegacyHandler.                     *)
(*   ReplaceLevel   "adds LevelTrace custom name for level attribute": TRACE, *)
(*                   every other level as slog names it.                       *)
(*   RemoveTime     "removes the time attribute" (top level only: the          *)
(*                   examples keep test_group.time).                           *)
(*   NewFormat      "returns a new valid format": exactly the five names.      *)
(*   VerbosityToLevel  0 -> Info, 1 -> Debug, 2 -> Trace, else an error        *)
(*                   wrapping errors.ErrBadEnumValue.                          *)
EXTENDS Integers, Sequences

CONSTANTS Formats,      \* values of Config.Format ("" = not set)
          CfgLevels,    \* values of Config.Level: [set |-> BOOLEAN, v |-> level]
          RecLevels,    \* record levels
          Shapes,       \* [grp |-> logged through WithGroup, attrs |-> sequence of "plain" / "time"]
          FormatNames,  \* candidates for NewFormat
          Verbosities,
          AttrKeys, ValKinds,   \* for ReplaceLevel / RemoveTime
          ConstNames

VARIABLE item

ValidFormats == {"adguard_legacy", "default", "json", "jsonhybrid", "text"}

----------------------------------------------------------------------------
(* New *)
Eff(c) == IF c.nil THEN [fmt |-> "default", thr |-> 0, ts |-> FALSE, out |-> "stdout"]
          ELSE [fmt |-> IF c.fmt = "" THEN "default" ELSE c.fmt,
                thr |-> IF c.lv.set THEN c.lv.v ELSE 0,
                ts  |-> c.ts,
                out |-> IF c.out = "unset" THEN "stdout" ELSE c.out]

NewPanics(c) == Eff(c).fmt \notin ValidFormats

HandlerType(f) == CASE f = "default" -> "*slogutil.LevelHandler"
                    [] f = "text" -> "*slog.TextHandler"
                    [] f = "json" -> "*slog.JSONHandler"
                    [] f = "jsonhybrid" -> "*slogutil.JSONHybridHandler"
                    [] f = "adguard_legacy" -> "*slogutil.AdGuardLegacyHandler"

IsEnabled(c, l) == l >= Eff(c).thr

(* slog.Level.String *)
SlogName(l) == IF l < 0 THEN [base |-> "DEBUG", off |-> l + 4]
               ELSE IF l < 4 THEN [base |-> "INFO", off |-> l]
               ELSE IF l < 8 THEN [base |-> "WARN", off |-> l - 4]
               ELSE [base |-> "ERROR", off |-> l - 8]

Structured(f) == f \in {"text", "json", "jsonhybrid"}

LevelText(f, l) == IF Structured(f) /\ l = -8 THEN [base |-> "TRACE", off |-> 0] ELSE SlogName(l)

LegacyTag(l) == CASE l = -8 -> [tag |-> "debug", w |-> "trace: "]
                  [] l = -4 -> [tag |-> "debug", w |-> ""]
                  [] l = 0  -> [tag |-> "info",  w |-> ""]
                  [] l = 4  -> [tag |-> "info",  w |-> "warning: "]
                  [] l = 8  -> [tag |-> "error", w |-> ""]
                  [] OTHER  -> [tag |-> "none",  w |-> ""]

NoLine == [kind |-> "none", ts |-> FALSE, lvl |-> [base |-> "", off |-> 0], sev |-> "", tag |-> "", w |-> "",
           grp |-> FALSE, sp |-> FALSE, attrs |-> <<>>]

(* The line Handle writes for a record at level l with the shape's            *)
(* attributes (the time of the record is set).                                *)
Line(c, l, sh) ==
    LET e == Eff(c)
        kept == IF Structured(e.fmt) /\ ~e.ts /\ ~sh.grp THEN SelectSeq(sh.attrs, LAMBDA a : a # "time")
                ELSE IF e.fmt = "adguard_legacy" THEN SelectSeq(sh.attrs, LAMBDA a : a # "time")
                ELSE sh.attrs
    IN IF e.fmt = "adguard_legacy"
         THEN IF LegacyTag(l).tag = "none" THEN NoLine
              ELSE [NoLine EXCEPT !.kind = "legacy", !.tag = LegacyTag(l).tag, !.w = LegacyTag(l).w, !.attrs = kept,
                                  !.sp = Len(sh.attrs) > 0]       \* the separating space
         ELSE [kind |-> e.fmt, ts |-> e.ts, lvl |-> LevelText(e.fmt, l),
               sev |-> IF e.fmt = "jsonhybrid" THEN (IF l >= 8 THEN "ERROR" ELSE "NORMAL") ELSE "",
               tag |-> "", w |-> "", grp |-> (sh.grp /\ Len(sh.attrs) > 0), sp |-> FALSE, attrs |-> kept]

NewRes(c, l, sh) ==
    IF NewPanics(c) THEN [panic |-> "BadFormatError", bad |-> Eff(c).fmt, htype |-> "", enabled |-> FALSE, out |-> "",
                          herr |-> FALSE, line |-> NoLine]
    ELSE IF Eff(c).fmt \in {"adguard_legacy", "jsonhybrid"} /\ sh.grp     \* WithGroup "is not currently supported and panics"
         THEN [panic |-> "WithGroup", bad |-> "", htype |-> HandlerType(Eff(c).fmt), enabled |-> IsEnabled(c, l),
               out |-> "", herr |-> FALSE, line |-> NoLine]
    ELSE [panic |-> "", bad |-> "", htype |-> HandlerType(Eff(c).fmt), enabled |-> IsEnabled(c, l),
          out |-> IF Eff(c).fmt = "adguard_legacy" THEN "log" ELSE Eff(c).out,
          herr |-> (Eff(c).fmt = "adguard_legacy" /\ LegacyTag(l).tag = "none"),
          line |-> Line(c, l, sh)]

----------------------------------------------------------------------------
(* NewFormat, VerbosityToLevel, ReplaceLevel, RemoveTime, constants *)
FormatRes(s) == [ok |-> s \in ValidFormats, f |-> IF s \in ValidFormats THEN s ELSE "",
                 bad |-> IF s \in ValidFormats THEN "" ELSE s]

VerbRes(n) == [ok |-> n \in 0..2, lvl |-> CASE n = 0 -> 0 [] n = 1 -> -4 [] n = 2 -> -8 [] OTHER -> 0]

(* ReplaceAttr functions: the attribute [key, value kind] inside a group or   *)
(* not; the answer is the attribute that comes back ("" / "empty": removed). *)
ReplLevelRes(ingrp, key, vk) ==
    [key |-> key, vk |-> IF ~ingrp /\ key = "level" /\ vk = "L-8" THEN "TRACE" ELSE vk]
RemoveTimeRes(ingrp, key, vk) ==
    IF ~ingrp /\ key = "time" THEN [key |-> "", vk |-> "empty"] ELSE [key |-> key, vk |-> vk]

ConstRes(n) ==
    CASE n = "slogutil.LevelTrace" -> [i |-> -8, s |-> ""]
      [] n = "slogutil.LevelDebug" -> [i |-> -4, s |-> ""]
      [] n = "slogutil.LevelInfo"  -> [i |-> 0, s |-> ""]
      [] n = "slogutil.LevelWarn"  -> [i |-> 4, s |-> ""]
      [] n = "slogutil.LevelError" -> [i |-> 8, s |-> ""]
      [] n = "slogutil.KeyError"   -> [i |-> 0, s |-> "err"]
      [] n = "slogutil.KeyPrefix"  -> [i |-> 0, s |-> "prefix"]
      [] n = "slogutil.KeyMessage" -> [i |-> 0, s |-> "msg"]
      [] n = "slogutil.KeySource"  -> [i |-> 0, s |-> "source"]
      [] n = "slogutil.KeyTime"    -> [i |-> 0, s |-> "time"]
      [] n = "slogutil.KeyLevel"   -> [i |-> 0, s |-> "level"]
      [] n = "slogutil.FormatAdGuardLegacy" -> [i |-> 0, s |-> "adguard_legacy"]
      [] n = "slogutil.FormatDefault" -> [i |-> 0, s |-> "default"]
      [] n = "slogutil.FormatJSON" -> [i |-> 0, s |-> "json"]
      [] n = "slogutil.FormatJSONHybrid" -> [i |-> 0, s |-> "jsonhybrid"]
      [] n = "slogutil.FormatText" -> [i |-> 0, s |-> "text"]
      [] n = "log.OFF"   -> [i |-> 0, s |-> "off"]
      [] n = "log.ERROR" -> [i |-> 1, s |-> "error"]
      [] n = "log.INFO"  -> [i |-> 2, s |-> "info"]
      [] n = "log.DEBUG" -> [i |-> 3, s |-> "debug"]
      [] n = "log.Ldate" -> [i |-> 1, s |-> ""]
      [] n = "log.Ltime" -> [i |-> 2, s |-> ""]
      [] n = "log.Lmicroseconds" -> [i |-> 4, s |-> ""]
      [] n = "log.Llongfile" -> [i |-> 8, s |-> ""]
      [] n = "log.Lshortfile" -> [i |-> 16, s |-> ""]
      [] n = "log.LUTC" -> [i |-> 32, s |-> ""]
      [] n = "log.Lmsgprefix" -> [i |-> 64, s |-> ""]
      [] n = "log.LstdFlags" -> [i |-> 3, s |-> ""]

(* Config.Level is a slog.Leveler: the application may hand in a              *)
(* *slog.LevelVar (at v0) and set it (to v1) after New.  Every format follows *)
(* the change except jsonhybrid, whose handler reads the Leveler once when it *)
(* is constructed (what the code does; slogutil's documentation is silent,    *)
(* slog.HandlerOptions.Level says "the handler calls Level.Level for each     *)
(* record processed").  The answer is Enabled(l) after the change.            *)
RelevelRes(f, v0, v1, l) == [enabled |-> l >= (IF f = "jsonhybrid" THEN v0 ELSE v1)]

(* log.SetFlags "sets the output flags for the default logger": the std      *)
(* logger's flags afterwards.                                                 *)
FlagSets == {0, 1, 2, 3, 4, 7, 8, 16, 32, 64, 67, 127}
FlagsRes(n) == [i |-> n, s |-> ""]

AllConstNames == {"slogutil.LevelTrace", "slogutil.LevelDebug", "slogutil.LevelInfo", "slogutil.LevelWarn",
                  "slogutil.LevelError", "slogutil.KeyError", "slogutil.KeyPrefix", "slogutil.KeyMessage",
                  "slogutil.KeySource", "slogutil.KeyTime", "slogutil.KeyLevel", "slogutil.FormatAdGuardLegacy",
                  "slogutil.FormatDefault", "slogutil.FormatJSON", "slogutil.FormatJSONHybrid", "slogutil.FormatText",
                  "log.OFF", "log.ERROR", "log.INFO", "log.DEBUG", "log.Ldate", "log.Ltime", "log.Lmicroseconds",
                  "log.Llongfile", "log.Lshortfile", "log.LUTC", "log.Lmsgprefix", "log.LstdFlags"}

----------------------------------------------------------------------------
Cfgs == {[nil |-> TRUE, fmt |-> "", lv |-> [set |-> FALSE, v |-> 0], ts |-> FALSE, out |-> "unset"]}
        \cup [nil : {FALSE}, fmt : Formats, lv : CfgLevels, ts : BOOLEAN, out : {"unset", "buf"}]

(* The answer to an item. *)
Predict(it) ==
    CASE it[1] = "new"       -> NewRes(it[2], it[3], it[4])
      [] it[1] = "format"    -> FormatRes(it[2])
      [] it[1] = "verbosity" -> VerbRes(it[2])
      [] it[1] = "replacelevel" -> ReplLevelRes(it[2], it[3], it[4])
      [] it[1] = "removetime"   -> RemoveTimeRes(it[2], it[3], it[4])
      [] it[1] = "const"     -> ConstRes(it[2])
      [] it[1] = "flags"     -> FlagsRes(it[2])
      [] it[1] = "relevel"   -> RelevelRes(it[2], it[3], it[4], it[5])

(* ReplaceLevel is not asked about a top-level attribute named "level" whose  *)
(* value is not a slog.Level (it panics; a separate, known side finding).     *)
ReplOK(ingrp, key, vk) == ~(~ingrp /\ key = "level" /\ vk \in {"str", "time"})

KInit == \/ \E c \in Cfgs, l \in RecLevels, sh \in Shapes : item = <<"new", c, l, sh>>
         \/ \E s \in FormatNames : item = <<"format", s>>
         \/ \E n \in Verbosities : item = <<"verbosity", n>>
         \/ \E g \in BOOLEAN, k \in AttrKeys, v \in ValKinds : ReplOK(g, k, v) /\ item = <<"replacelevel", g, k, v>>
         \/ \E g \in BOOLEAN, k \in AttrKeys, v \in ValKinds : item = <<"removetime", g, k, v>>
         \/ \E n \in ConstNames : item = <<"const", n>>
         \/ \E n \in FlagSets : item = <<"flags", n>>
         \/ \E f \in ValidFormats, v0 \in {-4, 0, 4}, v1 \in {-8, 2, 8}, l \in RecLevels :
                item = <<"relevel", f, v0, v1, l>>

KSpec == KInit /\ [][FALSE]_item

----------------------------------------------------------------------------
(* Lemmas. *)

(* NewFormat and New agree on what a format is. *)
FormatsConsistent ==
    item[1] = "format" =>
        LET c == [nil |-> FALSE, fmt |-> item[2], lv |-> [set |-> FALSE, v |-> 0], ts |-> FALSE, out |-> "buf"]
        IN item[2] # "" => (FormatRes(item[2]).ok <=> ~NewPanics(c))

(* The level order: what is enabled stays enabled above, the default minimum  *)
(* is Info.                                                                   *)
EnabledLattice ==
    item[1] = "new" =>
        /\ \A l2 \in RecLevels : (IsEnabled(item[2], item[3]) /\ l2 >= item[3]) => IsEnabled(item[2], l2)
        /\ (~item[2].nil /\ ~item[2].lv.set) => (IsEnabled(item[2], item[3]) <=> item[3] >= 0)

(* More verbose means a lower level; the results are the level constants. *)
VerbosityLattice ==
    item[1] = "verbosity" =>
        /\ VerbRes(item[2]).ok => VerbRes(item[2]).lvl \in {ConstRes("slogutil.LevelInfo").i,
                                                          ConstRes("slogutil.LevelDebug").i,
                                                          ConstRes("slogutil.LevelTrace").i}
        /\ \A m \in 0..2 : (VerbRes(item[2]).ok /\ m > item[2]) => VerbRes(m).lvl < VerbRes(item[2]).lvl

(* A LevelVar that is not touched behaves like the constant level. *)
RelevelIdentity ==
    item[1] = "relevel" =>
        LET c == [nil |-> FALSE, fmt |-> item[2], lv |-> [set |-> TRUE, v |-> item[3]], ts |-> FALSE, out |-> "buf"]
        IN RelevelRes(item[2], item[3], item[3], item[5]).enabled = IsEnabled(c, item[5])

(* Only Trace is renamed, and only by the structured formats. *)
OnlyTraceRenamed ==
    item[1] = "new" =>
        \A f \in ValidFormats : (LevelText(f, item[3]) # SlogName(item[3])) <=> (item[3] = -8 /\ Structured(f))

(* Without AddTimestamp a structured line has neither the time field nor a    *)
(* top-level attribute named time.                                            *)
NoTimeUnlessAsked ==
    (item[1] = "new" /\ ~NewPanics(item[2]) /\ Structured(Eff(item[2]).fmt) /\ ~Eff(item[2]).ts) =>
        LET ln == NewRes(item[2], item[3], item[4]).line
        IN ~ln.ts /\ (~ln.grp => \A i \in 1..Len(ln.attrs) : ln.attrs[i] # "time")
=============================================================================
