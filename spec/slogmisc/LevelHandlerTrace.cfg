SPECIFICATION LTSpec
CONSTANTS
  Levels <- TraceLevels
  LvValues <- TraceLevels
  NLev = 4
  InnerMins <- TraceInnerMins
  Batches = {0}
  Groups = {0}
  Msgs = {0}
  Outcomes <- TraceOutcomes
  MaxH = 1000000
  MaxI = 1000000
  MaxOps = 1000000
INVARIANTS LevelLattice TreeShape SiblingsIsolated Delegation
CHECK_DEADLOCK FALSE
