SPECIFICATION LTSpec
CONSTANTS
  Levels <- MCLevels3
  LvValues <- TraceLevels
  NLev = 4
  InnerMins <- TraceInnerMins
  Batches = {0}
  Groups = {0}
  Msgs = {0}
  Outcomes <- TraceOutcomes
  OpKinds <- AllKinds
  MaxH = 1000000
  MaxI = 1000000
  MaxOps = 1000000
INVARIANTS TreeShape Delegation
CHECK_DEADLOCK FALSE
