----------------------------- MODULE LegacyLogGen -----------------------------
(* Generator: every sequence of calls of LegacyLog.tla up to MaxOps with, per *)
(* call, the predicted return value and output lines.  One line per state.    *)
EXTENDS LegacyLogMC, Json, CSV

VARIABLE ghist
ggvars == <<gvars, ghist>>

GGInit == /\ GInitial /\ ghist = <<>>
GGNext == /\ nops < MaxOps /\ nops' = nops + 1
          /\ \E o \in Ops : Do(o) /\ ghist' = Append(ghist, [op |-> o, obs |-> obs'])
GGSpec == GGInit /\ [][GGNext]_ggvars

(* The level the world starts with is the level of the first state; it is     *)
(* kept in the vector as g0.                                                  *)
VARIABLE g0
GG0Init == GGInit /\ g0 = glevel
GG0Next == GGNext /\ UNCHANGED g0
GG0Spec == GG0Init /\ [][GG0Next]_<<ggvars, g0>>

GEmit == CSVWrite("%1$s", <<ToJson([g0 |-> g0, steps |-> ghist, hs |-> hs])>>, "legacy_vectors.ndjson")
=============================================================================
