SPECIFICATION GTSpec
CONSTANTS
  GLevels = {0, 1, 2, 3}
  GInit = {2}
  Levels <- TraceLevels
  Thresholds <- TraceLevels
  Batches <- TraceAny
  RecAttrs <- TraceAny
  Msgs = {0}
  LogPrefixes = {0}
  PanicVals = {0}
  OpKinds <- AllOps
  MaxH = 1000000
  MaxHandles = 100000000
  MaxOps = 1000000
INVARIANTS OffIsSilent TagLattice OneLinePerRecord LineShape HTree
CHECK_DEADLOCK FALSE
