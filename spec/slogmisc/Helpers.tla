------------------------------- MODULE Helpers -------------------------------
(* slogutil's context and deferred helpers (context.go, defer.go,             *)
(* slogutil.go).                                                               *)
(*                                                                             *)
(*   ContextWithLogger  "returns a new context with the given logger"          *)
(*   LoggerFromContext  "returns a logger for this request, if any" - the      *)
(*                      one given to the nearest ContextWithLogger above       *)
(*   MustLoggerFromContext  "panics if there is no logger"                     *)
(*   CloseAndLog        "if closer is nil, it is simply ignored"; Close is     *)
(*                      called once; "the error is logged with the specified   *)
(*                      logging level": one record "deferred closing" with     *)
(*                      the error under KeyError ("err")                       *)
(*   RecoverAndLog      "recovers from a panic and logs the panic value into   *)
(*                      l along with the stacktrace"                           *)
(*   RecoverAndLogDefault  "tries to get the logger from ctx using             *)
(*                      LoggerFromContext and, if there is none, uses          *)
(*                      slog.Default"                                          *)
(*   PrintRecovered     "If v is nil, PrintRecovered does nothing": otherwise  *)
(*                      one Error record "recovered from panic" with the       *)
(*                      value under "err" (error values) or "value" (others;   *)
(*                      ExamplePrintRecovered, TestRecoverAndLog), then the    *)
(*                      stack, one Error record "stack" per line with the      *)
(*                      attributes i and line                                  *)
(*   PrintStack         the same stack records at the given level              *)
(*   PrintLines / PrintByteLines  "splits s and logs the lines to l using the  *)
(*                      given level, including empty lines": one record per    *)
(*                      line with line_num (from 1) and line (ExamplePrintLines)*)
(*   NewDiscardLogger   "a new logger that uses slog.DiscardHandler"           *)
(*                                                                             *)
(* Loggers are recording fakes with a minimum level each (as with any          *)
(* slog.Logger, nothing is logged below it); logger 0 is slog.Default().       *)
(* Contexts form a tree.  A run of stack records is one entry "stack" in the   *)
(* observation (their number depends on the call depth; the harness checks     *)
(* that there is at least one, that i increases and no line is empty).         *)
EXTENDS Integers, Sequences

CONSTANTS NLog,       \* loggers 1..NLog (0 is slog.Default)
          LMins,      \* minimum levels a recording logger may have, chosen in Init
          Levels,     \* levels given to the helpers
          Closers,    \* "nil", "ok" or an error id
          PanicVals,  \* "none", "err" (an error value), "str", "int", "pnil" (panic(nil))
          Texts,      \* texts for PrintLines: sequences of line ids, 0 = the empty line
          Msgs,
          MaxCtx, MaxOps

VARIABLES lmin,   \* logger -> minimum level
          ctxs,   \* contexts: [par |-> parent or 0, lg |-> logger stored here, -1 none]; ctxs[1] is context.Background()
          obs, nops

hvars == <<lmin, ctxs, obs, nops>>

NoObs == [ret |-> "none", n |-> 0, closes |-> 0, recs |-> <<>>]
Ret(r) == [NoObs EXCEPT !.ret = r]

HInit == /\ lmin \in [0..NLog -> LMins]
         /\ ctxs = <<[par |-> 0, lg |-> -1]>>
         /\ obs = NoObs /\ nops = 0

Ctxs == 1..Len(ctxs)

(* The logger a context yields: -1 for none. *)
RECURSIVE Lookup(_)
Lookup(c) == IF ctxs[c].lg # -1 THEN ctxs[c].lg
             ELSE IF ctxs[c].par = 0 THEN -1 ELSE Lookup(ctxs[c].par)

Same == UNCHANGED <<lmin, ctxs>>

With(c, g) == /\ c \in Ctxs /\ Len(ctxs) < MaxCtx
              /\ ctxs' = Append(ctxs, [par |-> c, lg |-> g])
              /\ obs' = [NoObs EXCEPT !.ret = "ok", !.n = Len(ctxs) + 1]
              /\ UNCHANGED lmin
From(c) == /\ c \in Ctxs
           /\ obs' = [NoObs EXCEPT !.ret = IF Lookup(c) = -1 THEN "absent" ELSE "found", !.n = Lookup(c)]
           /\ Same
Must(c) == /\ c \in Ctxs
           /\ obs' = [NoObs EXCEPT !.ret = IF Lookup(c) = -1 THEN "panic" ELSE "found", !.n = Lookup(c)]
           /\ Same

(* One record through logger g with context c, if g is enabled for lv.        *)
Rec(g, c, lv, m, k, i, v) ==
    IF lv >= lmin[g] THEN <<[lg |-> g, c |-> c, lv |-> lv, m |-> m, k |-> k, i |-> i, v |-> v]>> ELSE <<>>
Stack(g, c, lv) == Rec(g, c, lv, "stack", "stack", 0, "")

Close(c, g, ck, lv) ==
    /\ c \in Ctxs
    /\ obs' = [ret |-> "none", n |-> 0, closes |-> IF ck = "nil" THEN 0 ELSE 1,
               recs |-> IF ck \in {"nil", "ok"} THEN <<>> ELSE Rec(g, c, lv, "deferred closing", "err", 0, ck)]
    /\ Same

PanicKey(pv) == IF pv \in {"err", "pnil"} THEN "err" ELSE "value"
Recovered(g, c, pv) ==
    IF pv = "none" THEN <<>>
    ELSE Rec(g, c, 8, "recovered from panic", PanicKey(pv), 0, pv) \o Stack(g, c, 8)

(* defer RecoverAndLog(ctx, l) in a function that panics with pv.  The panic *)
(* does not go on.                                                            *)
Recover(c, g, pv) ==
    /\ c \in Ctxs
    /\ obs' = [NoObs EXCEPT !.ret = IF pv = "none" THEN "none" ELSE "recovered", !.recs = Recovered(g, c, pv)]
    /\ Same
RecoverDefault(c, pv) ==
    /\ c \in Ctxs
    /\ obs' = [NoObs EXCEPT !.ret = IF pv = "none" THEN "none" ELSE "recovered",
                            !.recs = Recovered(IF Lookup(c) = -1 THEN 0 ELSE Lookup(c), c, pv)]
    /\ Same
(* PrintRecovered(ctx, l, v) with the value itself ("none": nil). *)
PrintRecovered(c, g, pv) ==
    /\ c \in Ctxs /\ pv # "pnil"
    /\ obs' = [NoObs EXCEPT !.recs = Recovered(g, c, pv)]
    /\ Same

RECURSIVE LineRecs(_, _, _, _, _, _)
LineRecs(g, c, lv, m, t, i) ==
    IF i > Len(t) THEN <<>>
    ELSE Rec(g, c, lv, m, "line", i, IF t[i] = 0 THEN "L0" ELSE IF t[i] = 1 THEN "L1" ELSE "L2")
         \o LineRecs(g, c, lv, m, t, i + 1)
PrintLines(c, g, lv, m, t) ==
    /\ c \in Ctxs
    /\ obs' = [NoObs EXCEPT !.recs = LineRecs(g, c, lv, m, t, 1)]
    /\ Same
PrintStack(c, g, lv) ==
    /\ c \in Ctxs
    /\ obs' = [NoObs EXCEPT !.recs = Stack(g, c, lv)]
    /\ Same
(* NewDiscardLogger().Enabled(lv), and its handler is slog.DiscardHandler. *)
Discard(lv) == obs' = Ret("false") /\ Same

Do(o) ==
    CASE o[1] = "with"     -> With(o[2], o[3])
      [] o[1] = "from"     -> From(o[2])
      [] o[1] = "must"     -> Must(o[2])
      [] o[1] = "close"    -> Close(o[2], o[3], o[4], o[5])
      [] o[1] = "recover"  -> Recover(o[2], o[3], o[4])
      [] o[1] = "recoverdef" -> RecoverDefault(o[2], o[3])
      [] o[1] = "printrec" -> PrintRecovered(o[2], o[3], o[4])
      [] o[1] \in {"lines", "bytelines"} -> PrintLines(o[2], o[3], o[4], o[5], o[6])
      [] o[1] = "stack"    -> PrintStack(o[2], o[3], o[4])
      [] o[1] = "discard"  -> Discard(o[2])

Ops ==
    {<<"with", c, g>> : c \in Ctxs, g \in 1..NLog}
    \cup {<<t, c>> : t \in {"from", "must"}, c \in Ctxs}
    \cup {<<"close", c, g, ck, lv>> : c \in Ctxs, g \in 1..NLog, ck \in Closers, lv \in Levels}
    \cup {<<"recover", c, g, pv>> : c \in Ctxs, g \in 1..NLog, pv \in PanicVals}
    \cup {<<"recoverdef", c, pv>> : c \in Ctxs, pv \in PanicVals}
    \cup {<<"printrec", c, g, pv>> : c \in Ctxs, g \in 1..NLog, pv \in PanicVals \ {"pnil"}}
    \cup {<<t, c, g, lv, m, tx>> : t \in {"lines", "bytelines"}, c \in Ctxs, g \in 1..NLog, lv \in Levels, m \in Msgs,
                                   tx \in Texts}
    \cup {<<"stack", c, g, lv>> : c \in Ctxs, g \in 1..NLog, lv \in Levels}
    \cup {<<"discard", lv>> : lv \in Levels}

HNext == nops < MaxOps /\ nops' = nops + 1 /\ \E o \in Ops : Do(o)
HSpec == HInit /\ [][HNext]_hvars

----------------------------------------------------------------------------
(* Lemmas. *)
HTypeOK == /\ \A c \in Ctxs : ctxs[c].par \in 0..(c - 1) /\ ctxs[c].lg \in -1..NLog
           /\ obs.closes \in 0..1

(* Round trip: a context made by ContextWithLogger yields that logger; a      *)
(* context without one of its own yields what its parent yields; Background   *)
(* yields none.                                                               *)
RoundTrip == \A c \in Ctxs :
                /\ ctxs[c].lg # -1 => Lookup(c) = ctxs[c].lg
                /\ (ctxs[c].lg = -1 /\ ctxs[c].par # 0) => Lookup(c) = Lookup(ctxs[c].par)
                /\ Lookup(1) = -1

(* Every record respects the logger's minimum level; the records of one call *)
(* go to one logger with the caller's context.                                *)
RecordsRespectLevel == \A i \in 1..Len(obs.recs) :
                          /\ obs.recs[i].lv >= lmin[obs.recs[i].lg]
                          /\ obs.recs[i].lg = obs.recs[1].lg /\ obs.recs[i].c = obs.recs[1].c

(* A recovered panic is one record followed by the stack, never the stack     *)
(* alone; "deferred closing" is alone.                                        *)
RecoveredShape == \A i \in 1..Len(obs.recs) :
                     /\ obs.recs[i].m = "recovered from panic" =>
                            i = 1 /\ Len(obs.recs) = 2 /\ obs.recs[2].m = "stack" /\ obs.recs[i].lv = 8
                     /\ obs.recs[i].m = "deferred closing" => Len(obs.recs) = 1 /\ obs.closes = 1

(* Line numbers count from one, without gaps. *)
LineNumbers == \A i \in 1..Len(obs.recs) : obs.recs[i].k = "line" =>
                  (lmin[obs.recs[i].lg] <= obs.recs[i].lv) /\ obs.recs[i].i = i

CtxFrozen == [][\A c \in Ctxs : ctxs'[c] = ctxs[c]]_hvars
=============================================================================
