--------------------------- MODULE LoggerConfigGen ---------------------------
(* Generator: one line per item with the documented answer. *)
EXTENDS LoggerConfigMC, Json, CSV

KEmit == CSVWrite("%1$s", <<ToJson([item |-> item, res |-> Predict(item)])>>, "config_vectors.ndjson")
=============================================================================
