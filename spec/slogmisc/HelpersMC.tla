------------------------------ MODULE HelpersMC ------------------------------
(* Constants for Helpers.tla that a .cfg file cannot express. *)
EXTENDS Helpers

MCLMins == {-4, 8}
MCLMins3 == {-8, 4, 9}
MCLevels == {-4, 4, 8}
MCLevels2 == {-4, 8}
MCTexts == {<<1>>, <<0>>, <<1, 0, 2>>, <<0, 0>>, <<2, 1, 0>>}
MCTexts2 == {<<0>>, <<1, 0, 2>>}
MCClosers == {"nil", "ok", "e1"}
MCPanicVals == {"none", "err", "str", "int", "pnil"}
TraceLevels == -64..64
=============================================================================
