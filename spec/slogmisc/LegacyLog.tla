------------------------------ MODULE LegacyLog ------------------------------
(* Package log (the legacy logging API, log/log.go) and                        *)
(* slogutil.AdGuardLegacyHandler (logutil/slogutil/legacy.go), which prints    *)
(* through it.                                                                 *)
(*                                                                             *)
(* Package log.  One process-wide level OFF < ERROR < INFO < DEBUG             *)
(* (SetLevel / GetLevel).  Every line is                                       *)
(*       [PID#GOID ][LEVEL] [FUNCNAME(): ]TEXT                                 *)
(* ("TIME PID#GOID [LEVEL] FUNCNAME(): TEXT" in writeLog's comment; the time   *)
(* belongs to the std logger's flags, which the harness sets to 0 as the       *)
(* examples do).  PID#GOID is printed when the level is DEBUG.  Nothing is     *)
(* printed when the level is OFF (ExampleLevel).  Info / Print / Printf /      *)
(* Println need INFO, Debug / Tracef need DEBUG, Error always prints; Tracef   *)
(* "adds the calling function's name"; Panic / Panicf print a [panic] line     *)
(* and panic with the text (ExamplePanic).  StdLog(prefix, l) is a std logger  *)
(* that "writes everything to logs the way this library's logger would" at     *)
(* level l.  OnPanic(prefix) recovers and prints                               *)
(* "[error] [prefix: ]recovered from panic: v" (ExampleOnPanic).               *)
(* OnCloserError(c, l): "if closer is nil, it is simply ignored"; the Close    *)
(* error "is logged with the specified logging level" as                       *)
(* "[l] CALLER(): error occurred in a Close call: err" (ExampleOnCloserError). *)
(* Timer.LogElapsed prints "[info|debug] CALLER(): msg; Elapsed time: Nms"     *)
(* (the documentation is silent about levels; the code prints unless OFF).     *)
(*                                                                             *)
(* AdGuardLegacyHandler.  "The attribute with the name KeyPrefix is handled    *)
(* separately ... it is prepended to the message."  Example of output:         *)
(*       12#34 [debug] debug with no attributes                                *)
(*       12#34 [info] hdlr: info with prefix and attrs number=123              *)
(* ExampleAdGuardLegacyHandler: Warn is "[info] ...warning: msg", a prefix in  *)
(* the record of a logger that has one prints                                  *)
(*       [debug] legacy logger: got prefix "bad" in record for logger ...      *)
(* and the logger's prefix wins.  Level mapping (logFuncForLevel): Trace ->    *)
(* Debug "trace: ", Debug -> Debug, Info -> Info, Warn -> Info "warning: ",    *)
(* Error -> Error, anything else is an error returned by Handle.  Attributes:  *)
(* the handler's, then the record's, as the std text handler prints them       *)
(* (key=value, quoted where needed) after one space; top-level attributes      *)
(* named level/msg/time/source are dropped (legacyRemoveTopLevel) and empty    *)
(* groups are elided by slog, but both count for the separating space (an      *)
(* empty group only among the handler's attributes: a record does not carry    *)
(* one), which is what the code does.  Enabled: level >= the Leveler's.  WithGroup "is     *)
(* currently not supported and panics".                                        *)
(*                                                                             *)
(* Attributes, messages, prefixes and errors are ids; the harness turns them   *)
(* into awkward concrete values and parses every output line back into the     *)
(* abstract line record below.                                                 *)
EXTENDS Integers, Sequences

CONSTANTS GLevels,    \* values for SetLevel: 0 OFF, 1 ERROR, 2 INFO, 3 DEBUG
          GInit,      \* levels a world may start with
          Levels,     \* slog levels of records / Enabled probes
          Thresholds, \* levels given to NewAdGuardLegacyHandler
          Batches,    \* attribute id sequences given to WithAttrs
          RecAttrs,   \* attribute id sequences carried by records
          Msgs,       \* message ids
          LogPrefixes, \* prefix ids for StdLog / OnPanic (0 = "")
          PanicVals,  \* panic value ids for OnPanic (0 = no panic)
          OpKinds,    \* which operations the run enumerates
          MaxH, MaxHandles, MaxOps

(* The kind of an attribute is a function of its id, so that recorded runs    *)
(* may use any id.                                                            *)
Kind(a) == CASE a % 8 = 2 -> "prefix"      \* key "prefix", non-empty value
             [] a % 8 = 3 -> "prefix0"     \* key "prefix", value ""
             [] a % 8 = 4 -> "builtin"     \* top-level key level / msg / time / source
             [] a % 8 = 5 -> "emptygroup"  \* a group without members
             [] a % 8 = 6 -> "group"       \* a group with one member
             [] OTHER     -> "plain"

VARIABLES glevel,  \* the process-wide level
          hs,      \* legacy handlers: [thr |-> level, attrs |-> sequence of ids, par |-> handler or 0]
          nhandle, \* Handle / Log calls so far (bounds the generator only)
          obs, nops

gvars == <<glevel, hs, nhandle, obs, nops>>

NoObs == [ret |-> "none", n |-> 0, lines |-> <<>>]
Ret(r) == [NoObs EXCEPT !.ret = r]
Bool(b) == IF b THEN "true" ELSE "false"

GInitial == /\ glevel \in GInit /\ hs = <<>> /\ nhandle = 0 /\ obs = NoObs /\ nops = 0

Handlers == 1..Len(hs)

----------------------------------------------------------------------------
(* Lines.  k: "msg" generic text (p prefix id, w warning string, m message,  *)
(* sp the separating space, at the printed attributes); "two" the two-prefix  *)
(* complaint (q the record's prefix, p the logger's); "closer" (m error id);  *)
(* "panic" (p prefix, m value id); "elapsed" (m message).                     *)
Body(k) == [k |-> k, p |-> 0, q |-> 0, w |-> "", m |-> 0, sp |-> FALSE, at |-> <<>>]
Text(m) == [Body("msg") EXCEPT !.m = m]

(* writeLog: nothing when OFF, PID#GOID when DEBUG.                           *)
WriteLog(tag, fn, body) ==
    IF glevel = 0 THEN <<>>
    ELSE << [pid |-> glevel >= 3, tag |-> tag, fn |-> fn, body |-> body] >>

InfoL(fn, body)  == IF glevel >= 2 THEN WriteLog("info", fn, body) ELSE <<>>
DebugL(fn, body) == IF glevel >= 3 THEN WriteLog("debug", fn, body) ELSE <<>>
ErrorL(fn, body) == WriteLog("error", fn, body)

ByName(f, fn, body) == CASE f = "info" -> InfoL(fn, body)
                         [] f = "debug" -> DebugL(fn, body)
                         [] f = "error" -> ErrorL(fn, body)

LevelName(g) == CASE g = 0 -> "off" [] g = 1 -> "error" [] g = 2 -> "info" [] g = 3 -> "debug"

Same == UNCHANGED <<glevel, hs, nhandle>>
Say(lines) == obs' = [NoObs EXCEPT !.lines = lines] /\ Same

----------------------------------------------------------------------------
(* Package log. *)
SetLevel(g) == glevel' = g /\ obs' = NoObs /\ UNCHANGED <<hs, nhandle>>
GetLevel == obs' = [NoObs EXCEPT !.ret = "level", !.n = glevel] /\ Same
(* Writer(): "the output destination for the default logger" - what SetOutput was given. *)
Writer == obs' = Ret("output") /\ Same

Info(m)    == Say(InfoL("", Text(m)))
Debug(m)   == Say(DebugL("", Text(m)))
Error(m)   == Say(ErrorL("", Text(m)))
Tracef(m)  == Say(DebugL("caller", Text(m)))
PanicOp(m) == obs' = [ret |-> "panic", n |-> 0, lines |-> WriteLog("panic", "", Text(m))] /\ Same

(* StdLog(prefix p, level lv).Print(m) *)
StdLog(p, lv, m) ==
    Say(IF glevel < lv \/ lv = 0 THEN <<>>
        ELSE ByName(LevelName(lv), "", [Text(m) EXCEPT !.p = p]))

(* defer OnPanic(prefix p) in a function that panics with value v (0: does    *)
(* not panic).  The panic does not go on.                                     *)
OnPanic(p, v) ==
    /\ obs' = [ret |-> IF v = 0 THEN "none" ELSE "recovered", n |-> 0,
               lines |-> IF v = 0 THEN <<>> ELSE ErrorL("", [Body("panic") EXCEPT !.p = p, !.m = v])]
    /\ Same

(* defer OnCloserError(closer, lv): c is "nil" (no closer), "ok" or an error  *)
(* id; n counts the Close calls.                                              *)
OnCloser(c, lv) ==
    /\ obs' = [ret |-> "none", n |-> IF c = "nil" THEN 0 ELSE 1,
               lines |-> IF c \in {"nil", "ok"} \/ glevel < lv THEN <<>>
                         ELSE WriteLog(LevelName(lv), "caller", [Body("closer") EXCEPT !.w = c])]
    /\ Same

Elapsed(m) ==
    Say(WriteLog(IF glevel >= 3 THEN "debug" ELSE "info", "caller", [Body("elapsed") EXCEPT !.m = m]))

----------------------------------------------------------------------------
(* AdGuardLegacyHandler. *)
IsPrefixKind(a) == Kind(a) \in {"prefix", "prefix0"}

(* The prefix a sequence of attributes yields: the value of its last prefix  *)
(* attribute, 0 for none or an empty one.                                     *)
RECURSIVE LastPrefix(_)
LastPrefix(s) == IF s = <<>> THEN 0
                 ELSE IF IsPrefixKind(s[Len(s)]) THEN (IF Kind(s[Len(s)]) = "prefix" THEN s[Len(s)] ELSE 0)
                 ELSE LastPrefix(SubSeq(s, 1, Len(s) - 1))

Printed(s) == SelectSeq(s, LAMBDA a : Kind(a) \in {"plain", "group"})
NotPrefix(s) == SelectSeq(s, LAMBDA a : ~IsPrefixKind(a))

LegacyFn(l) == CASE l = -8 -> [f |-> "debug", w |-> "trace: "]
                 [] l = -4 -> [f |-> "debug", w |-> ""]
                 [] l = 0  -> [f |-> "info",  w |-> ""]
                 [] l = 4  -> [f |-> "info",  w |-> "warning: "]
                 [] l = 8  -> [f |-> "error", w |-> ""]
                 [] OTHER  -> [f |-> "none",  w |-> ""]

(* What Handle prints for a record (level l, message m, attributes ra) on    *)
(* handler h, and what it returns.                                            *)
HandleObs(h, l, m, ra) ==
    LET ha  == hs[h].attrs
        rc  == SelectSeq(ra, LAMBDA a : Kind(a) # "emptygroup")   \* slog.Record.AddAttrs "omits empty groups"
        hp  == LastPrefix(ha)
        rp  == LastPrefix(ra)
        pfx == IF rp = 0 THEN hp ELSE IF hp = 0 THEN rp ELSE hp
        two == IF rp # 0 /\ hp # 0 THEN DebugL("", [Body("two") EXCEPT !.q = rp, !.p = hp]) ELSE <<>>
        cnt == Len(ha) + Len(rc) - (IF pfx # 0 THEN 1 ELSE 0)
        lf  == LegacyFn(l)
        body == [Body("msg") EXCEPT !.p = pfx, !.w = lf.w, !.m = m, !.sp = (cnt > 0),
                                    !.at = Printed(NotPrefix(ha) \o NotPrefix(ra))]
    IN IF lf.f = "none" THEN [ret |-> "err", n |-> 0, lines |-> two]
       ELSE [ret |-> "nil", n |-> 0, lines |-> two \o ByName(lf.f, "", body)]

HNew(t) == /\ Len(hs) < MaxH
           /\ hs' = Append(hs, [thr |-> t, attrs |-> <<>>, par |-> 0])
           /\ obs' = Ret("ok") /\ UNCHANGED <<glevel, nhandle>>
HAttrs(h, b) == /\ h \in Handlers /\ Len(hs) < MaxH
                /\ hs' = Append(hs, [thr |-> hs[h].thr, attrs |-> hs[h].attrs \o b, par |-> h])
                /\ obs' = Ret("ok") /\ UNCHANGED <<glevel, nhandle>>
HGroup(h) == h \in Handlers /\ obs' = Ret("panic") /\ Same
HEnabled(h, l) == h \in Handlers /\ obs' = Ret(Bool(l >= hs[h].thr)) /\ Same
HHandle(h, l, m, ra) == /\ h \in Handlers /\ nhandle < MaxHandles
                        /\ obs' = HandleObs(h, l, m, ra)
                        /\ nhandle' = nhandle + 1 /\ UNCHANGED <<glevel, hs>>
(* slog.New(h).Log(...): Enabled first. *)
HLog(h, l, m, ra) == /\ h \in Handlers /\ nhandle < MaxHandles
                     /\ obs' = IF l >= hs[h].thr THEN [HandleObs(h, l, m, ra) EXCEPT !.ret = "none"] ELSE NoObs
                     /\ nhandle' = nhandle + 1 /\ UNCHANGED <<glevel, hs>>

Do(o) ==
    CASE o[1] = "setlevel" -> SetLevel(o[2])
      [] o[1] = "getlevel" -> GetLevel
      [] o[1] = "writer"   -> Writer
      [] o[1] \in {"info", "print", "printf", "println"} -> Info(o[2])
      [] o[1] = "debug"    -> Debug(o[2])
      [] o[1] = "error"    -> Error(o[2])
      [] o[1] = "tracef"   -> Tracef(o[2])
      [] o[1] \in {"panic", "panicf"} -> PanicOp(o[2])
      [] o[1] = "stdlog"   -> StdLog(o[2], o[3], o[4])
      [] o[1] = "onpanic"  -> OnPanic(o[2], o[3])
      [] o[1] = "oncloser" -> OnCloser(o[2], o[3])
      [] o[1] = "elapsed"  -> Elapsed(o[2])
      [] o[1] = "hnew"     -> HNew(o[2])
      [] o[1] = "hattrs"   -> HAttrs(o[2], o[3])
      [] o[1] = "hgroup"   -> HGroup(o[2])
      [] o[1] = "henabled" -> HEnabled(o[2], o[3])
      [] o[1] = "hhandle"  -> HHandle(o[2], o[3], o[4], o[5])
      [] o[1] = "hlog"     -> HLog(o[2], o[3], o[4], o[5])

LogOps ==
    {<<"setlevel", g>> : g \in GLevels} \cup {<<"getlevel">>, <<"writer">>}
    \cup {<<t, m>> : t \in {"info", "print", "printf", "println", "debug", "error", "tracef", "panic", "panicf", "elapsed"},
                     m \in Msgs}
    \cup {<<"stdlog", p, lv, m>> : p \in LogPrefixes, lv \in 0..3, m \in Msgs}
    \cup {<<"onpanic", p, v>> : p \in LogPrefixes, v \in PanicVals}
    \cup {<<"oncloser", c, lv>> : c \in {"nil", "ok", "e1"}, lv \in 1..3}

HandlerOps ==
    {<<"hnew", t>> : t \in Thresholds}
    \cup {<<"hattrs", h, b>> : h \in Handlers, b \in Batches}
    \cup {<<"hgroup", h>> : h \in Handlers}
    \cup {<<"henabled", h, l>> : h \in Handlers, l \in Levels}
    \cup {<<t, h, l, m, ra>> : t \in {"hhandle", "hlog"}, h \in Handlers, l \in Levels, m \in Msgs, ra \in RecAttrs}

Ops == {o \in LogOps \cup HandlerOps : o[1] \in OpKinds}

GNext == nops < MaxOps /\ nops' = nops + 1 /\ \E o \in Ops : Do(o)
GSpec == GInitial /\ [][GNext]_gvars

----------------------------------------------------------------------------
(* Lemmas. *)
GTypeOK == /\ glevel \in 0..3
           /\ \A h \in Handlers : hs[h].par \in 0..(h - 1)
           /\ obs.ret \in {"none", "level", "output", "panic", "recovered", "ok", "true", "false", "nil", "err"}

(* OFF silences everything. *)
OffIsSilent == glevel = 0 => obs.lines = <<>>

(* The level order of package log: what a lower level prints, a higher one    *)
(* prints too - a [debug] line needs DEBUG, an [info] line INFO - and the     *)
(* PID#GOID column is there exactly at DEBUG.                                 *)
TagLattice == \A i \in 1..Len(obs.lines) :
                 LET ln == obs.lines[i] IN
                 /\ ln.pid = (glevel >= 3)
                 /\ ln.tag = "debug" => glevel >= 3
                 /\ (ln.tag = "info" /\ ln.body.k # "elapsed") => glevel >= 2

(* One line per record; only the two-prefix complaint may precede it.         *)
OneLinePerRecord ==
    LET nmsg == Len(SelectSeq(obs.lines, LAMBDA ln : ln.body.k = "msg"))
        ntwo == Len(SelectSeq(obs.lines, LAMBDA ln : ln.body.k = "two"))
    IN /\ nmsg <= 1 /\ ntwo <= 1
       /\ (ntwo = 1 /\ nmsg = 1) => obs.lines[1].body.k = "two"

(* A printed line never shows a prefix attribute among its key=value pairs,   *)
(* never a dropped or elided one; its prefix is a prefix attribute.           *)
LineShape == \A i \in 1..Len(obs.lines) :
                LET b == obs.lines[i].body IN
                /\ \A j \in 1..Len(b.at) : Kind(b.at[j]) \in {"plain", "group"}
                /\ (b.k = "msg" /\ Len(b.at) > 0) => b.sp

(* Derived handlers: the parent's level, the parent's attributes first.       *)
HTree == \A h \in Handlers : hs[h].par # 0 =>
            /\ hs[h].thr = hs[hs[h].par].thr
            /\ Len(hs[hs[h].par].attrs) <= Len(hs[h].attrs)
            /\ SubSeq(hs[h].attrs, 1, Len(hs[hs[h].par].attrs)) = hs[hs[h].par].attrs

HFrozen == [][\A h \in Handlers : hs'[h] = hs[h]]_gvars
=============================================================================
