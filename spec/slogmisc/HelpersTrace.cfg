SPECIFICATION HTSpec
CONSTANTS
  NLog = 4
  LMins <- TraceLevels
  Levels <- TraceLevels
  Closers <- MCClosers
  PanicVals <- MCPanicVals
  Texts <- MCTexts
  Msgs = {"m1"}
  MaxCtx = 1000000
  MaxOps = 1000000
INVARIANTS RoundTrip RecordsRespectLevel RecoveredShape LineNumbers
CHECK_DEADLOCK FALSE
