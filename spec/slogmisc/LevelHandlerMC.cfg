SPECIFICATION LSpec
CONSTANTS
  Levels <- MCLevels
  LvValues <- MCLvValues
  NLev = 2
  InnerMins <- MCInnerMins
  Batches = {1, 2}
  Groups = {1}
  Msgs = {1}
  Outcomes <- MCOutcomes
  OpKinds <- AllKinds
  MaxH = 4
  MaxI = 4
  MaxOps = 5
INVARIANTS LTypeOK LevelLattice TreeShape SiblingsIsolated Delegation
PROPERTIES Frozen
CHECK_DEADLOCK FALSE
