SPECIFICATION GSpec
CONSTANTS
  GLevels = {0, 1, 2, 3}
  GInit = {2}
  Levels <- MCLevels
  Thresholds <- MCThresholds
  Batches <- MCBatchesSmall
  RecAttrs <- MCRecAttrsSmall
  Msgs = {1}
  LogPrefixes = {0, 1}
  PanicVals = {0, 1}
  OpKinds <- AllOps
  MaxH = 3
  MaxHandles = 2
  MaxOps = 4
INVARIANTS GTypeOK OffIsSilent TagLattice OneLinePerRecord LineShape HTree
PROPERTIES HFrozen
CHECK_DEADLOCK FALSE
