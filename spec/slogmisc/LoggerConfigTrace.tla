-------------------------- MODULE LoggerConfigTrace --------------------------
(* Trace validation for slogutil.New and the pure helpers: seeded random real *)
(* questions (any level between -40 and 40 as Config.Level and as the record  *)
(* level, any combination of attributes, random format strings) logged with   *)
(* the answer the real code gave (handler type, Enabled, where the line went  *)
(* and its content parsed back into the abstract line).  Every answer must be *)
(* the documented one.                                                        *)
EXTENDS LoggerConfigMC, Json, TLC

Trace == ndJsonDeserialize("config_trace.ndjson")

VARIABLE l
ktvars == <<item, l>>

KTInit == item = <<"none">> /\ l = 1
KTNext == /\ l <= Len(Trace)
          /\ Predict(Trace[l].item) = Trace[l].res
          /\ item' = Trace[l].item
          /\ l' = l + 1
KTSpec == KTInit /\ [][KTNext]_ktvars
=============================================================================
