----------------------------- MODULE LegacyLogMC -----------------------------
(* Constants for LegacyLog.tla that a .cfg file cannot express.  Attribute    *)
(* ids by kind (id mod 8): 1, 7, 9 plain; 2, 10 prefix; 3 empty prefix;        *)
(* 4 dropped built-in key; 5 empty group; 6 group with a member.              *)
EXTENDS LegacyLog

MCLevels  == {-8, -4, 0, 4, 8, 2}
MCLevels3 == {-8, 4, 2}
MCThresholds == {-4, 4}
MCThreshold1 == {-4}
MCBatches == {<<>>, <<1>>, <<2>>, <<3>>, <<9, 6>>, <<4>>}
MCBatchesSmall == {<<1>>, <<2>>, <<4, 3>>}
MCRecAttrs == {<<>>, <<7>>, <<10>>, <<5>>, <<7, 4, 6>>, <<10, 3>>, <<3, 10, 15>>}
MCBatchChain == {<<1, 9, 17>>, <<25>>, <<7>>}
MCRecNone == {<<>>}
MCLevel0 == {0}
MCRecAttrsSmall == {<<>>, <<7>>, <<10>>, <<5>>}
AllLogOps == {"setlevel", "getlevel", "writer", "info", "print", "printf", "println", "debug", "error", "tracef", "panic",
              "panicf", "elapsed", "stdlog", "onpanic", "oncloser"}
AllHandlerOps == {"hnew", "hattrs", "hgroup", "henabled", "hhandle", "hlog"}
HandlerOpsOnly == AllHandlerOps \cup {"setlevel"}
HandleOnly == {"hnew", "hattrs", "hhandle"}
AllOps == AllLogOps \cup AllHandlerOps
(* State constraint of the chain generator: Handle is the last call of a path. *)
HandleLast == nhandle = 0 \/ nops = MaxOps
TraceLevels == -64..64
TraceAny == {<<>>}
=============================================================================
