--------------------------- MODULE LevelHandlerGen ---------------------------
(* Generator: every sequence of calls of LevelHandler.tla up to MaxOps with,  *)
(* per call, the observation the specification predicts, and the predicted    *)
(* final state (every handler's Leveler, inner object and context), which the *)
(* harness probes on the real handlers after the last call.  One line per     *)
(* state (all prefixes).                                                      *)
EXTENDS LevelHandlerMC, Json, CSV

VARIABLE lhist
lgvars == <<lvars, lhist>>

LGInit == LInit /\ lhist = <<>>
LGNext == /\ nops < MaxOps /\ nops' = nops + 1
          /\ \E o \in Ops : Do(o) /\ lhist' = Append(lhist, [op |-> o, obs |-> obs'])
LGSpec == LGInit /\ [][LGNext]_lgvars

LEmit == CSVWrite("%1$s", <<ToJson([imin |-> imin, steps |-> lhist, lvar |-> lvar, inn |-> inn, hs |-> hs])>>,
                  "level_vectors.ndjson")
=============================================================================
