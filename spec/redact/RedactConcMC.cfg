SPECIFICATION Spec
CONSTANTS
  Impl = "copy"
  Callers = {"c1", "c2"}
  MaxReads = 3
INVARIANTS ReaderSeesOriginal UnchangedAfterwards ResultMasked
PROPERTIES InputNeverWritten
CHECK_DEADLOCK FALSE
