SPECIFICATION Spec
CONSTANTS
  Impl = "clone"
  Inputs <- ModelInputs
  MaxSteps = 5
INVARIANTS DependsOnArgOnly FreshAcrossCalls ResultsAreNotInputs InputsNeverWritten
PROPERTIES CallsWriteNothing
CHECK_DEADLOCK FALSE
