SPECIFICATION Spec
CONSTANTS
  Impl = "clone"
  Inputs <- ModelInputs
  MaxSteps = 4
INVARIANTS DependsOnArgOnly ErrTextOfThisArg FreshAcrossCalls ResultsAreNew
PROPERTIES CallsWriteNothing
CHECK_DEADLOCK FALSE
