SPECIFICATION Spec
CONSTANTS
  Impl = "clone"
  Inputs <- ModelInputs
  MaxSteps = 4
INVARIANTS DependsOnArgOnly ErrTextOfThisArg ErrTextsAreValues FreshAcrossCalls ResultsAreNew
PROPERTIES CallsWriteNothing
CHECK_DEADLOCK FALSE
