SPECIFICATION Spec
CONSTANTS
  Users <- MoreUsers
  Masks <- SmallMasks
  ErrKinds = {"top", "wrapped", "other"}
  ErrUrls = {"orig", "junk"}
INVARIANTS TypeOK NonInterference MaskOnly AsIs Fresh
PROPERTIES InputsUntouched ErrOnlyTopLevel
CHECK_DEADLOCK FALSE
