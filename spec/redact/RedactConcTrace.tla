-------------------------- MODULE RedactConcTrace --------------------------
(* Validation of the free-running concurrent phase: every line summarises one *)
(* round in which several goroutines redacted ONE shared *url.URL while reader *)
(* goroutines kept reading it: the classes of everything the readers saw       *)
(* ("orig" = the text / *Userinfo the URL had before the round, "mask", or     *)
(* "other"), the class of the URL after all goroutines finished, and the       *)
(* classes of the callers' results ("mask" = the redacted form).  A round is   *)
(* accepted iff it is a behaviour of RedactConc with Impl = "copy".            *)
EXTENDS RedactConc, Json

Trace == ndJsonDeserialize("redact_conc_trace.ndjson")
VARIABLE l
tvars == <<vars, l>>
TInit == Init /\ l = 1
Ev == Trace[l]
ToSet(q) == {q[i] : i \in DOMAIN q}

TNext == /\ l <= Len(Trace)
         /\ l' = l + 1
         /\ UNCHANGED <<u, pc, saved, out, nreads>>
         /\ reads' = ToSet(Ev.reads)
         /\ ToSet(Ev.reads) \subseteq {"orig"}          \* ReaderSeesOriginal
         /\ Ev.final = "orig"                           \* UnchangedAfterwards
         /\ ToSet(Ev.results) \subseteq {"mask"}        \* ResultMasked
TSpec == TInit /\ [][TNext]_tvars
=============================================================================
