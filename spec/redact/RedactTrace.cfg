SPECIFICATION TSpec
CONSTANTS
  Users = {}
  Masks = {}
  ErrKinds = {}
  ErrUrls = {}
CHECK_DEADLOCK FALSE
