SPECIFICATION TSpec
CONSTANTS
  Impl = "clone"
  Inputs <- ModelInputs
  MaxSteps = 0
CHECK_DEADLOCK FALSE
