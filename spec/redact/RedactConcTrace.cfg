SPECIFICATION TSpec
CONSTANTS
  Impl = "copy"
  Callers = {"c1"}
  MaxReads = 0
CHECK_DEADLOCK FALSE
