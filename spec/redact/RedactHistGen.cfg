SPECIFICATION GSpec
CONSTANTS
  Impl = "clone"
  Inputs <- ModelInputs
  MaxSteps = 3
INVARIANTS Emit DependsOnArgOnly ErrTextOfThisArg ErrTextsAreValues FreshAcrossCalls ResultsAreNew
CHECK_DEADLOCK FALSE
