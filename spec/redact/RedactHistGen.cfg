SPECIFICATION GSpec
CONSTANTS
  Impl = "clone"
  Inputs <- ModelInputs
  MaxSteps = 4
INVARIANTS Emit DependsOnArgOnly FreshAcrossCalls ResultsAreNotInputs InputsNeverWritten
CHECK_DEADLOCK FALSE
