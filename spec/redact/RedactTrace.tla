----------------------------- MODULE RedactTrace -----------------------------
(* Trace validation for RedactUserinfo / RedactUserinfoInURLError: every line  *)
(* is one recorded pair of real calls: the two input URLs as records of all     *)
(* url.URL fields (userinfo as [set, name, pwset, pw]), the returned pointers   *)
(* (alias = the input pointer itself, val = the fields of the result), the      *)
(* inputs as they are after the calls, the String() of both results, and the    *)
(* error object before and after RedactUserinfoInURLError(u1, err).  Accepted   *)
(* iff all of it is what Redact.tla defines.                                    *)
EXTENDS Redact, Json

Trace == ndJsonDeserialize("redact_trace.ndjson")
VARIABLE l
tvars == <<vars, l>>

Blank == Url([scheme |-> "", opaque |-> "", host |-> "", port |-> "", path |-> "", rawpath |-> "", query |-> "",
              frag |-> "", forceq |-> FALSE, omithost |-> FALSE], NoUser)
TInit == /\ in1 = Blank /\ in2 = Blank
         /\ res1 = [alias |-> FALSE, val |-> Blank] /\ res2 = [alias |-> FALSE, val |-> Blank]
         /\ err = NilErr /\ phase = "trace" /\ l = 1
Ev == Trace[l]

ResultOK(r, x) == /\ r.val = Redact(x)                        \* mask only, every other field the input's
                  /\ (~x.user.set => r.alias)                 \* without userinfo: returned as is
                  /\ (r.alias => Redact(x) = x)               \* the input pointer is only ever returned unchanged
TNext == /\ l <= Len(Trace)
         /\ l' = l + 1
         /\ UNCHANGED vars
         /\ ResultOK(Ev.r1, Ev.u1) /\ ResultOK(Ev.r2, Ev.u2)
         /\ Ev.after1 = Ev.u1 /\ Ev.after2 = Ev.u2           \* inputs never modified
         /\ ((Ev.u1.user.set /\ Ev.u2.user.set /\ SameButUser(Ev.u1, Ev.u2)) =>
                (Ev.s1 = Ev.s2 /\ Ev.r1.val = Ev.r2.val))     \* non-interference
         /\ Ev.errafter = RedactErrT(Ev.err, Ev.u1, Ev.s1)
TSpec == TInit /\ [][TNext]_tvars
=============================================================================
