------------------------------ MODULE RedactGen ------------------------------
(* Generator: every URL skeleton x ordered pair of userinfo variants (and the  *)
(* nil userinfo) x error, with the results the specification predicts for the  *)
(* calls RedactUserinfo(u1), RedactUserinfo(u2), RedactUserinfoInURLError(u1,  *)
(* err).  One line per "start" state.                                          *)
EXTENDS Redact, Json, CSV

Skeleton(x) == [f \in Fields |-> x[f]]
Emit == phase # "start" \/
        LET p1 == RedactPtr(in1) p2 == RedactPtr(in2) IN
        CSVWrite("%1$s", <<ToJson([m |-> Skeleton(in1), a |-> in1.user, b |-> in2.user,
                                   ra |-> p1.val.user, rb |-> p2.val.user,
                                   alias1 |-> p1.alias, alias2 |-> p2.alias,
                                   rest1 |-> SameButUser(p1.val, in1), rest2 |-> SameButUser(p2.val, in2),
                                   same |-> (p1.val = p2.val),
                                   err |-> err, errafter |-> RedactErr(err, in1)])>>,
                 "redact_vectors.ndjson")
=============================================================================
