SPECIFICATION Spec
CONSTANTS
  Users <- ModelUsers
  Masks <- ModelMasks
  ErrKinds = {"top", "wrapped", "other"}
  ErrUrls = {"orig", "junk"}
INVARIANTS Emit TypeOK NonInterference MaskOnly AsIs Fresh
PROPERTIES InputsUntouched ErrOnlyTopLevel
CHECK_DEADLOCK FALSE
