--------------------------- MODULE RedactHistTrace ---------------------------
(* Trace validation of recorded histories.  "reset" starts a history and lists  *)
(* the classes of the caller's input objects; "call" names the argument object  *)
(* (an input or an earlier result), its class as the harness sees it, whether    *)
(* the returned pointer is the argument itself (alias) or one never seen before  *)
(* (fresh), the class of the result and the error text after                     *)
(* RedactUserinfoInURLError (untouched, or the class of the URL it prints);      *)
(* "mutate" names the object its owner changed and how; `errs' lists what every   *)
(* *url.Error kept so far reads as now.  Every line carries the  *)
(* classes of ALL objects after the step.  Accepted iff it is a behaviour of     *)
(* RedactHist with Impl = "clone" -- except that a call may return its argument  *)
(* itself when there is nothing to change (the statement does not forbid it).    *)
EXTENDS RedactHist, Json

Trace == ndJsonDeserialize("redact_hist_trace.ndjson")
VARIABLE l
tvars == <<vars, l>>
TInit == Init /\ l = 1
Ev == Trace[l]

TReset == Ev.op = "reset" /\ heap' = Ev.objects /\ errs' = <<>> /\ UNCHANGED <<results, last, memo, pcache, scratch, steps>>
TCall  == /\ Ev.op = "call"
          /\ Ev.n \in DOMAIN heap
          /\ Ev.arg = heap[Ev.n]                                       \* the harness and the spec agree on the argument
          /\ Ev.val = Redact(Ev.arg)                                   \* DependsOnArgOnly
          /\ Ev.err = ErrText(Ev.arg)                                  \* ErrTextOfThisArg
          /\ IF Ev.arg.user = "none" THEN Ev.alias
             ELSE Ev.fresh \/ (Ev.alias /\ Redact(Ev.arg) = Ev.arg)    \* FreshAcrossCalls / ResultsAreNew
          /\ heap' = IF Ev.fresh THEN Append(heap, Redact(Ev.arg)) ELSE heap
          /\ errs' = IF Ev.err.set THEN Append(errs, [text |-> Ev.err, view |-> FALSE]) ELSE errs
          /\ UNCHANGED <<results, last, memo, pcache, scratch, steps>>
TMutate == /\ Ev.op = "mutate"
           /\ Ev.n \in DOMAIN heap
           /\ heap' = [heap EXCEPT ![Ev.n] = Mut(@, Ev.f)]
           /\ UNCHANGED errs
           /\ UNCHANGED <<results, last, memo, pcache, scratch, steps>>
TNext == /\ l <= Len(Trace)
         /\ l' = l + 1
         /\ (TReset \/ TCall \/ TMutate)
         /\ Ev.errs = [k \in DOMAIN errs' |-> errs'[k].text]             \* ErrTextsAreValues, observed: every kept error reads as written
         /\ Ev.objects = heap'                                         \* CallsWriteNothing, observed
TSpec == TInit /\ [][TNext]_tvars
=============================================================================
