--------------------------- MODULE RedactHistTrace ---------------------------
(* Trace validation of recorded histories: "reset" starts a history, "call"    *)
(* logs the class of the argument, whether the returned pointer is new (not an *)
(* input, not any pointer returned before) and the class of the result,        *)
(* "mutate" logs which retained result the harness changed and how; every line *)
(* carries the classes of ALL retained results as they are after the step.     *)
(* Accepted iff it is a behaviour of RedactHist with Impl = "clone".           *)
EXTENDS RedactHist, Json

Trace == ndJsonDeserialize("redact_hist_trace.ndjson")
VARIABLE l
tvars == <<vars, l>>
TInit == Init /\ l = 1
Ev == Trace[l]
Vals == [k \in DOMAIN results |-> heap[results[k]]]
Mut(x, f) == CASE f = "path"  -> [x EXCEPT !.path = "mut"]
               [] f = "query" -> [x EXCEPT !.query = "dropped"]
               [] f = "user"  -> [x EXCEPT !.user = "creds"]

(* here heap holds only the retained results; results = 1..Len(heap) *)
TReset == Ev.op = "reset" /\ heap' = <<>> /\ results' = <<>> /\ UNCHANGED <<last, memo, steps>>
TCall  == /\ Ev.op = "call"
          /\ Ev.val = Redact(Ev.arg)                                  \* DependsOnArgOnly
          /\ IF Ev.arg.user = "none"
             THEN Ev.alias /\ UNCHANGED <<heap, results>>             \* returned as is
             ELSE /\ Ev.fresh                                         \* FreshAcrossCalls
                  /\ heap' = Append(heap, Redact(Ev.arg))
                  /\ results' = Append(results, Len(heap) + 1)
          /\ UNCHANGED <<last, memo, steps>>
TMutate == /\ Ev.op = "mutate"
           /\ Ev.n \in DOMAIN heap
           /\ heap' = [heap EXCEPT ![Ev.n] = Mut(@, Ev.f)]
           /\ UNCHANGED <<results, last, memo, steps>>
TNext == /\ l <= Len(Trace)
         /\ l' = l + 1
         /\ (TReset \/ TCall \/ TMutate)
         /\ Ev.retained = heap'                                       \* CallsWriteNothing, observed
TSpec == TInit /\ [][TNext]_tvars
=============================================================================
