---------------------------- MODULE RedactHistGen ----------------------------
(* Generator: every history of calls (on inputs and on earlier results) and of  *)
(* mutations (of inputs and of results) within the bound, with the values the   *)
(* specification predicts for every call and for every object at the end.       *)
EXTENDS RedactHist, Json, CSV

VARIABLE hist
gvars == <<vars, hist>>
GInit == Init /\ hist = <<>>
GNext == /\ steps < MaxSteps
         /\ \/ \E i \in DOMAIN heap : Call(i) /\ hist' = Append(hist, [op |-> "call", n |-> i, f |-> "", val |-> last'.val,
                                                                        err |-> last'.err, fresh |-> (last'.res # i)])
            \/ \E r \in DOMAIN heap, f \in {"path", "query", "user"} :
                  Mutate(r, f) /\ hist' = Append(hist, [op |-> "mutate", n |-> r, f |-> f, val |-> heap'[r],
                                                         err |-> Untouched, fresh |-> FALSE])
GSpec == GInit /\ [][GNext]_gvars

Emit == CSVWrite("%1$s", <<ToJson([ops |-> hist, final |-> heap])>>, "hist_vectors.ndjson")
=============================================================================
