---------------------------- MODULE RedactHistGen ----------------------------
(* Generator: every history of calls and result mutations within the bound,    *)
(* with the value the specification predicts for every call's result and for   *)
(* every retained object at the end.                                           *)
EXTENDS RedactHist, Json, CSV

VARIABLE hist
gvars == <<vars, hist>>
GInit == Init /\ hist = <<>>
GNext == /\ steps < MaxSteps
         /\ \/ \E i \in 1..NIn : Call(i) /\ hist' = Append(hist, [op |-> "call", n |-> i, f |-> "", val |-> last'.val,
                                                                   fresh |-> (last'.res > NIn)])
            \/ \E k \in DOMAIN results, f \in {"path", "query", "user"} :
                  Mutate(results[k], f) /\ hist' = Append(hist, [op |-> "mutate", n |-> k, f |-> f, val |-> heap'[results[k]],
                                                                  fresh |-> FALSE])
GSpec == GInit /\ [][GNext]_gvars

Emit == CSVWrite("%1$s", <<ToJson([ops |-> hist, final |-> [k \in DOMAIN results |-> heap[results[k]]]])>>,
                 "hist_vectors.ndjson")
=============================================================================
