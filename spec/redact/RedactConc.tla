----------------------------- MODULE RedactConc -----------------------------
(* "The input URL is never modified" as an obligation on EVERY intermediate   *)
(* state of a call (property C16), not only on the state after it returns.    *)
(*                                                                            *)
(* One URL object u is shared: two callers run RedactUserinfo /               *)
(* RedactUserinfoInURLError on it while a reader process keeps reading it     *)
(* (u.String(), u.User).  Only the userinfo matters: u is the value of u.User *)
(* ("orig" = the caller's *Userinfo, "mask" = the shared redacted one).  A    *)
(* call is a sequence of atomic steps; Impl selects its shape:                *)
(*   "copy"       golibs: ru := *u; ru.User = mask; text := ru.String()       *)
(*                -- the shared object is only read                           *)
(*   "tempwrite"  saved := u.User; u.User = mask; text := u.String();         *)
(*                u.User = saved                                              *)
(*                -- sequentially indistinguishable from "copy", but the      *)
(*                input is written during the call                            *)
(* Checked by TLC for "copy": u is never written, no reader ever sees         *)
(* anything but the original, u is the original when everybody is done, and   *)
(* every call produces the masked text.  For "tempwrite" TLC must find the    *)
(* counterexamples: a reader observes the mask, and two overlapping calls     *)
(* make the mask permanent.                                                   *)
EXTENDS Integers, Sequences, FiniteSets, TLC

CONSTANTS Impl,      \* "copy" | "tempwrite"
          Callers,   \* e.g. {"c1", "c2"}
          MaxReads   \* bound on the reader's observations

VARIABLES u,         \* the shared URL's userinfo
          pc,        \* pc[c]: "idle" | "saved" | "written" | "printed" | "done"
          saved,     \* saved[c]: what the caller remembered of u.User
          out,       \* out[c]: the userinfo printed into the caller's result text
          reads,     \* what the reader has observed so far
          nreads
vars == <<u, pc, saved, out, reads, nreads>>

Init == /\ u = "orig"
        /\ pc = [c \in Callers |-> "idle"]
        /\ saved = [c \in Callers |-> "none"]
        /\ out = [c \in Callers |-> "none"]
        /\ reads = {} /\ nreads = 0

(* "copy": one step, reading u (its other components) and printing the mask *)
CopyCall(c) == /\ Impl = "copy" /\ pc[c] = "idle"
               /\ out' = [out EXCEPT ![c] = "mask"]
               /\ pc' = [pc EXCEPT ![c] = "done"]
               /\ UNCHANGED <<u, saved, reads, nreads>>

(* "tempwrite": four steps *)
Save(c)    == /\ Impl = "tempwrite" /\ pc[c] = "idle"
              /\ saved' = [saved EXCEPT ![c] = u] /\ pc' = [pc EXCEPT ![c] = "saved"]
              /\ UNCHANGED <<u, out, reads, nreads>>
Write(c)   == /\ pc[c] = "saved"
              /\ u' = "mask" /\ pc' = [pc EXCEPT ![c] = "written"]
              /\ UNCHANGED <<saved, out, reads, nreads>>
Format(c)  == /\ pc[c] = "written"
              /\ out' = [out EXCEPT ![c] = u] /\ pc' = [pc EXCEPT ![c] = "printed"]
              /\ UNCHANGED <<u, saved, reads, nreads>>
Restore(c) == /\ pc[c] = "printed"
              /\ u' = saved[c] /\ pc' = [pc EXCEPT ![c] = "done"]
              /\ UNCHANGED <<saved, out, reads, nreads>>

Read == /\ nreads < MaxReads
        /\ reads' = reads \cup {u} /\ nreads' = nreads + 1
        /\ UNCHANGED <<u, pc, saved, out>>

Next == Read \/ \E c \in Callers : CopyCall(c) \/ Save(c) \/ Write(c) \/ Format(c) \/ Restore(c)
Spec == Init /\ [][Next]_vars

AllDone == \A c \in Callers : pc[c] = "done"

(* C16: the input URL is never modified -- in no state of no call. *)
InputNeverWritten == [][u' = u]_vars
ReaderSeesOriginal == reads \subseteq {"orig"}
UnchangedAfterwards == AllDone => u = "orig"
(* ... and every call still produces the masked form *)
ResultMasked == \A c \in Callers : pc[c] = "done" => out[c] = "mask"
=============================================================================
