------------------------------ MODULE RedactHist ------------------------------
(* Histories of RedactUserinfo / RedactUserinfoInURLError calls (property C16): *)
(* the result of a call depends on its argument only, and the results of        *)
(* different calls never share mutable state.                                   *)
(*                                                                              *)
(* The caller owns what RedactUserinfo returns (a clone, per its documentation):*)
(* between calls the environment may change any field of any previously         *)
(* returned result -- append to the path, drop the query, put real credentials  *)
(* back into User to perform the request.  Objects live in `heap'; an object is *)
(* a URL value [user, path, query] with                                         *)
(*   user  "none" | "orig" (the argument's credentials) | "mask" | "creds"      *)
(*   path  "orig" | "mut"          query "orig" | "dropped"                     *)
(* Inputs are the objects 1..NIn (several of them may have EQUAL values, which  *)
(* is what a value-keyed cache cannot tell apart); they are never written.      *)
(*                                                                              *)
(* Impl selects the design:                                                     *)
(*   "clone"  golibs: a new object per call on a URL with userinfo              *)
(*   "memo"   a one-entry cache "last argument value -> the object returned     *)
(*            for it": right for every fresh call and for every call in         *)
(*            isolation, but a hit hands out the SAME object again, whatever    *)
(*            its owner made of it meanwhile                                    *)
(* TLC proves DependsOnArgOnly, FreshAcrossCalls and CallsWriteNothing for      *)
(* "clone" and must refute the first two for "memo" (redact, mutate the         *)
(* result, redact an equal URL again).                                          *)
EXTENDS Integers, Sequences, FiniteSets, TLC

CONSTANTS Impl,       \* "clone" | "memo"
          Inputs,     \* sequence of input URL values (objects 1..Len(Inputs))
          MaxSteps

VARIABLES heap,       \* heap[id]: current value of object id
          results,    \* ids returned so far, in call order (with repetitions if an object is handed out twice)
          last,       \* the last call: [arg, res, val] (val = value of the result when it was returned)
          memo,       \* "memo" only: [set, key, res]
          steps
vars == <<heap, results, last, memo, steps>>

V(u, p, q) == [user |-> u, path |-> p, query |-> q]
ModelInputs == <<V("orig", "orig", "orig"), V("orig", "orig", "orig"), V("none", "orig", "orig")>>
NIn == Len(Inputs)

Redact(x) == IF x.user = "none" THEN x ELSE [x EXCEPT !.user = "mask"]
NoCall == [arg |-> 0, res |-> 0, val |-> V("none", "orig", "orig")]

Init == /\ heap = Inputs
        /\ results = <<>>
        /\ last = NoCall
        /\ memo = [set |-> FALSE, key |-> V("none", "orig", "orig"), res |-> 0]
        /\ steps = 0

(* RedactUserinfo(input i); RedactUserinfoInURLError prints the same object *)
Call(i) ==
    LET x == heap[i] IN
    /\ steps' = steps + 1
    /\ IF x.user = "none"
       THEN /\ last' = [arg |-> i, res |-> i, val |-> x]                 \* returned as is
            /\ UNCHANGED <<heap, results, memo>>
       ELSE IF Impl = "memo" /\ memo.set /\ memo.key = x
       THEN /\ last' = [arg |-> i, res |-> memo.res, val |-> heap[memo.res]]     \* the cached OBJECT
            /\ results' = Append(results, memo.res)
            /\ UNCHANGED <<heap, memo>>
       ELSE LET id == Len(heap) + 1 IN
            /\ heap' = Append(heap, Redact(x))
            /\ results' = Append(results, id)
            /\ last' = [arg |-> i, res |-> id, val |-> Redact(x)]
            /\ memo' = IF Impl = "memo" THEN [set |-> TRUE, key |-> x, res |-> id] ELSE memo

(* the owner of a returned object changes one of its fields *)
Mutate(r, f) ==
    /\ r \in {results[k] : k \in DOMAIN results}
    /\ steps' = steps + 1
    /\ heap' = [heap EXCEPT ![r] = CASE f = "path"  -> [@ EXCEPT !.path = "mut"]
                                     [] f = "query" -> [@ EXCEPT !.query = "dropped"]
                                     [] f = "user"  -> [@ EXCEPT !.user = "creds"]]
    /\ last' = NoCall
    /\ UNCHANGED <<results, memo>>

Next == /\ steps < MaxSteps
        /\ \/ \E i \in 1..NIn : Call(i)
           \/ \E r \in (NIn + 1)..Len(heap), f \in {"path", "query", "user"} : Mutate(r, f)
Spec == Init /\ [][Next]_vars

----------------------------------------------------------------------------
(* C16 over histories. *)
(* the result of every call is the redaction of its argument, whatever happened before *)
DependsOnArgOnly == last.arg # 0 => last.val = Redact(heap[last.arg])
(* a masked result is an object nobody has seen before: not an input, not an earlier result *)
FreshAcrossCalls == \A j, k \in DOMAIN results : j # k => results[j] # results[k]
ResultsAreNotInputs == \A k \in DOMAIN results : results[k] > NIn
(* a call writes to no existing object (inputs and earlier results alike) *)
CallsWriteNothing == [][(last'.arg # 0) => \A id \in DOMAIN heap : heap'[id] = heap[id]]_vars
InputsNeverWritten == \A i \in 1..NIn : heap[i] = Inputs[i]
=============================================================================
