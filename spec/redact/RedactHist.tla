------------------------------ MODULE RedactHist ------------------------------
(* Histories of RedactUserinfo / RedactUserinfoInURLError calls (property C16): *)
(* the result of a call -- the returned URL and the text written into the       *)
(* *url.Error -- depends on the VALUE its argument has at the time of the call  *)
(* only, and the results of different calls never share mutable state.          *)
(*                                                                              *)
(* Objects live in `heap'; an object is a URL value [user, path, query] with    *)
(*   user  "none" | "orig" (real credentials) | "mask" | "creds" (other real    *)
(*         credentials put in by the owner)                                     *)
(*   path  "orig" | "mut"          query "orig" | "dropped"                     *)
(* Objects 1..NIn are the caller's inputs (several may have EQUAL values); the   *)
(* others were returned by earlier calls.  Between calls the environment may    *)
(*   - change any field of any object it owns: its inputs (a caller may edit    *)
(*     its own URL and redact it again) and everything that was returned to it  *)
(*     (append to the path, drop the query, put credentials back into User);    *)
(*   - pass ANY object as the argument of the next call, in particular the      *)
(*     result of an earlier call (closure under composition): a redacted URL    *)
(*     has a userinfo, the mask, so the error text is replaced for it too.      *)
(* A call never writes to an existing object.                                   *)
(*                                                                              *)
(* Impl selects the design; TLC proves the invariants for "clone" and must      *)
(* refute one for each of the others:                                           *)
(*   "clone"     golibs: a new object per call on a URL with userinfo           *)
(*   "memo"      one-entry cache argument VALUE -> returned object: a hit hands *)
(*               out the same object again, whatever its owner made of it       *)
(*   "shortcut"  a URL whose User is the shared mask pointer counts as "nothing *)
(*               to redact": returned as is, and the error text is left alone   *)
(*   "ptrcache"  the error text is cached per argument POINTER (and *Userinfo   *)
(*               pointer): stale after the caller edited path or query          *)
(*   "scratch"   the error text is built in a package-level scratch buffer and  *)
(*               the error's URL string is a view of it: right when looked at   *)
(*               at once, overwritten by the next call                          *)
(* The *url.Error values are results too: the caller keeps them, and what a     *)
(* call wrote into one must stay what it was.                                   *)
EXTENDS Integers, Sequences, FiniteSets, TLC

CONSTANTS Impl, Inputs, MaxSteps

VARIABLES heap,       \* heap[id]: current value of object id
          results,    \* ids returned by masking calls so far, in call order
          last,       \* the last call: [arg, argval, res, val, err] (values at return time)
          memo,       \* "memo":     [set, key, res]
          pcache,     \* "ptrcache": [set, id, user, text]
          errs,       \* the *url.Error values the caller keeps: [text (what the call wrote), view (TRUE: the text is a
                      \* view of the shared scratch buffer)]; untouched errors are not recorded
          scratch,    \* "scratch": the text currently held by the package-level scratch buffer
          steps
vars == <<heap, results, last, memo, pcache, errs, scratch, steps>>

V(u, p, q) == [user |-> u, path |-> p, query |-> q]
ModelInputs == <<V("orig", "orig", "orig"), V("orig", "orig", "orig"), V("none", "orig", "orig")>>
NIn == Len(Inputs)
Blank == V("none", "orig", "orig")

Redact(x) == IF x.user = "none" THEN x ELSE [x EXCEPT !.user = "mask"]
(* the error's URL text after the call: untouched, or the print of a URL value *)
Untouched == [set |-> FALSE, val |-> Blank]
Text(x) == [set |-> TRUE, val |-> x]
ErrText(x) == IF x.user = "none" THEN Untouched ELSE Text(Redact(x))

NoCall == [arg |-> 0, argval |-> Blank, res |-> 0, val |-> Blank, err |-> Untouched]

Init == /\ heap = Inputs
        /\ results = <<>>
        /\ last = NoCall
        /\ memo = [set |-> FALSE, key |-> Blank, res |-> 0]
        /\ pcache = [set |-> FALSE, id |-> 0, user |-> "none", text |-> Untouched]
        /\ errs = <<>> /\ scratch = Untouched
        /\ steps = 0

(* RedactUserinfo(object i) and RedactUserinfoInURLError(object i, err) *)
Call(i) ==
    LET x == heap[i]
        errtext == IF Impl = "ptrcache" /\ pcache.set /\ pcache.id = i /\ pcache.user = x.user
                   THEN pcache.text                                   \* same pointers: the cached text
                   ELSE IF Impl = "shortcut" /\ x.user = "mask" THEN Untouched
                   ELSE ErrText(x)
    IN
    /\ steps' = steps + 1
    /\ errs' = IF errtext.set THEN Append(errs, [text |-> errtext, view |-> (Impl = "scratch")]) ELSE errs
    /\ scratch' = IF Impl = "scratch" /\ errtext.set THEN errtext ELSE scratch
    /\ pcache' = IF Impl = "ptrcache" /\ x.user # "none" THEN [set |-> TRUE, id |-> i, user |-> x.user, text |-> errtext]
                 ELSE pcache
    /\ IF x.user = "none" \/ (Impl = "shortcut" /\ x.user = "mask")
       THEN /\ last' = [arg |-> i, argval |-> x, res |-> i, val |-> x, err |-> errtext]      \* returned as is
            /\ UNCHANGED <<heap, results, memo>>
       ELSE IF Impl = "memo" /\ memo.set /\ memo.key = x
       THEN /\ last' = [arg |-> i, argval |-> x, res |-> memo.res, val |-> heap[memo.res], err |-> Text(heap[memo.res])]
            /\ results' = Append(results, memo.res)
            /\ UNCHANGED <<heap, memo>>
       ELSE LET id == Len(heap) + 1 IN
            /\ heap' = Append(heap, Redact(x))
            /\ results' = Append(results, id)
            /\ last' = [arg |-> i, argval |-> x, res |-> id, val |-> Redact(x), err |-> errtext]
            /\ memo' = IF Impl = "memo" THEN [set |-> TRUE, key |-> x, res |-> id] ELSE memo

(* the owner of object r (an input or a returned URL) changes one of its fields *)
Mut(x, f) == CASE f = "path"  -> [x EXCEPT !.path = "mut"]
               [] f = "query" -> [x EXCEPT !.query = "dropped"]
               [] f = "user"  -> [x EXCEPT !.user = "creds"]
Mutate(r, f) ==
    /\ r \in DOMAIN heap
    /\ steps' = steps + 1
    /\ heap' = [heap EXCEPT ![r] = Mut(@, f)]
    /\ last' = NoCall
    /\ UNCHANGED <<results, memo, pcache, errs, scratch>>

Next == /\ steps < MaxSteps
        /\ \/ \E i \in DOMAIN heap : Call(i)
           \/ \E r \in DOMAIN heap, f \in {"path", "query", "user"} : Mutate(r, f)
Spec == Init /\ [][Next]_vars

----------------------------------------------------------------------------
(* C16 over histories. *)
(* the returned URL is the redaction of the argument's value at call time, whatever happened before *)
DependsOnArgOnly == last.arg # 0 => last.val = Redact(last.argval)
(* so is the error text: replaced by the redacted form of THIS argument whenever it has a userinfo *)
ErrTextOfThisArg == last.arg # 0 => last.err = ErrText(last.argval)
(* no object is handed out twice; a result is either new or (nothing to redact) the argument itself *)
FreshAcrossCalls == \A j, k \in DOMAIN results : j # k => results[j] # results[k]
ResultsAreNew == \A k \in DOMAIN results : results[k] > NIn
(* what a call wrote into an error stays what it was, whatever is redacted later *)
ReadErr(e) == IF e.view THEN scratch ELSE e.text
ErrTextsAreValues == \A k \in DOMAIN errs : ReadErr(errs[k]) = errs[k].text
(* a call writes to no existing object (inputs and earlier results alike) *)
CallsWriteNothing == [][(last'.arg # 0) => \A id \in DOMAIN heap : heap'[id] = heap[id]]_vars
=============================================================================
