-------------------------------- MODULE Redact --------------------------------
(* urlutil.RedactUserinfo / RedactUserinfoInURLError (property C16) as a       *)
(* two-copy (self-composition) model: non-interference relates two runs.       *)
(*                                                                             *)
(* A URL is a record of its url.URL fields; every component is an abstract     *)
(* token ("" = absent).  The userinfo is [set, name, pwset, pw]: set = FALSE   *)
(* is the nil *Userinfo.  Memory is modelled as far as the statement talks     *)
(* about it: in1/in2 are the URL objects the caller holds (they must not       *)
(* change), res1/res2 the returned pointers: alias = TRUE means "the very      *)
(* pointer that was passed in", else a fresh object with value val.            *)
(*                                                                             *)
(* The error argument of RedactUserinfoInURLError is [kind, op, url, inner]:   *)
(*   kind "nil"     no error                                                   *)
(*        "top"     a *url.Error at top level: its URL text is to be replaced  *)
(*        "wrapped" an error wrapping a *url.Error: to be left untouched       *)
(*        "other"   some other error                                           *)
(*   url  the URL text held by the (inner) *url.Error: "orig" (the string of   *)
(*        the URL the request was made with), "junk" (an unparsable text),     *)
(*        or after the call "redacted".                                        *)
(*                                                                             *)
(* Here a call is one atomic step; RedactConc.tla splits it into its steps and  *)
(* demands "input unchanged" in every intermediate state, with a concurrent     *)
(* reader of the same URL object.                                               *)
EXTENDS Integers, Sequences, TLC

CONSTANTS Users,      \* userinfo variants to enumerate (non-nil ones)
          Masks,      \* URL skeletons (all components but the userinfo)
          ErrKinds, ErrUrls

VARIABLES in1, in2,   \* the two inputs, equal except for the userinfo
          res1, res2, \* results of RedactUserinfo
          err,        \* the error object passed to RedactUserinfoInURLError(in1, err)
          phase       \* "mask" | "start" | "done"
vars == <<in1, in2, res1, res2, err, phase>>

NoUser == [set |-> FALSE, name |-> "", pwset |-> FALSE, pw |-> ""]
Mask   == [set |-> TRUE, name |-> "xxxxx", pwset |-> TRUE, pw |-> "xxxxx"]   \* url.UserPassword("xxxxx", "xxxxx")

U(n, ps, p) == [set |-> TRUE, name |-> n, pwset |-> ps, pw |-> p]
ModelUsers == {U("name", FALSE, ""),          \* name only
               U("name", TRUE, ""),           \* name and an empty password ("name:@")
               U("name", TRUE, "secret"),     \* name and password
               U("n%40me", TRUE, "p:/?#"),    \* needs percent-escaping
               U("xxxxx", TRUE, "xxxxx"),     \* looks like the mask
               U("", TRUE, "secret"),         \* empty name with a password
               U("long", TRUE, "long")}       \* very long name and password (concretised to kilobytes)
MoreUsers == ModelUsers \cup {U("", FALSE, ""), U("xxxxx", FALSE, ""), U("name", TRUE, "xxxxx")}

Fields == {"scheme", "opaque", "host", "port", "path", "rawpath", "query", "frag", "forceq", "omithost"}
ModelMasks == [scheme : {"", "s"}, opaque : {"", "o"}, host : {"", "h"}, port : {"", "p"}, path : {"", "/p"},
               rawpath : {"", "raw"}, query : {"", "q", "echo"}, frag : {"", "f"},
               forceq : BOOLEAN, omithost : BOOLEAN]
QuickMasks == {m \in ModelMasks : m.rawpath = "" /\ m.port = ""}
SmallMasks == {m \in ModelMasks : m.opaque = "" /\ m.rawpath = "" /\ ~m.forceq /\ ~m.omithost /\ m.port = "" /\ m.frag = ""}

Url(m, usr) == [scheme |-> m.scheme, opaque |-> m.opaque, user |-> usr, host |-> m.host, port |-> m.port,
                path |-> m.path, rawpath |-> m.rawpath, query |-> m.query, frag |-> m.frag,
                forceq |-> m.forceq, omithost |-> m.omithost]

----------------------------------------------------------------------------
(* The functions under test, as the statement defines them. *)
Redact(x) == IF ~x.user.set THEN x ELSE [x EXCEPT !.user = Mask]
RedactPtr(x) == [alias |-> ~x.user.set, val |-> Redact(x)]

(* red: the text of the redacted URL ("redacted" in the model, the real text in traces) *)
RedactErrT(e, x, red) == IF e.kind = "top" /\ x.user.set THEN [e EXCEPT !.url = red] ELSE e
RedactErr(e, x) == RedactErrT(e, x, "redacted")

----------------------------------------------------------------------------
NilErr == [kind |-> "nil", op |-> "Get", url |-> "", inner |-> "cause"]
(* The Op and Err fields of the *url.Error are INPUT as well: the obligation does not depend on them (a parse    *)
(* error's URL text carries the credentials just like a request error's), and they must come back unchanged.   *)
(*   op     "Get" | "Post" | "Head" | "parse" | "" | "dial" | "read" | "text" (arbitrary words) | "mixed" (gEt)  *)
(*   inner  "cause" (a plain error) | "nil" | "wrapped" (an error wrapping one) | "urlerror" (another           *)
(*          *url.Error holding the credentialed text, which is not top level and stays untouched)               *)
ErrOps == {"Get", "Post", "Head", "parse", "", "dial", "read", "text", "mixed"}
ErrInners == {"cause", "nil", "wrapped", "urlerror"}
Errs == {NilErr} \cup {[kind |-> k, op |-> "Get", url |-> IF k \in {"top", "wrapped"} THEN t ELSE "", inner |-> "cause"] :
                         k \in ErrKinds, t \in ErrUrls}
        \cup {[kind |-> k, op |-> o, url |-> "orig", inner |-> "cause"] : k \in ErrKinds \cap {"top", "wrapped"}, o \in ErrOps}
        \cup {[kind |-> k, op |-> "Get", url |-> "orig", inner |-> i] : k \in ErrKinds \cap {"top", "wrapped"}, i \in ErrInners}
        \cup {[kind |-> "top", op |-> "parse", url |-> "junk", inner |-> i] : i \in (IF "top" \in ErrKinds THEN ErrInners ELSE {})}

(* The skeleton is chosen initially, the userinfos and the error in a first     *)
(* step (TLC's workers share the enumeration), then the functions are called.   *)
Init == /\ \E m \in Masks : in1 = Url(m, NoUser) /\ in2 = Url(m, NoUser)
        /\ res1 = [alias |-> FALSE, val |-> in1] /\ res2 = [alias |-> FALSE, val |-> in2]
        /\ err = NilErr
        /\ phase = "mask"

Pick == /\ phase = "mask"
        /\ \/ \E a, b \in Users : in1' = [in1 EXCEPT !.user = a] /\ in2' = [in2 EXCEPT !.user = b]
           \/ UNCHANGED <<in1, in2>>                      \* both without userinfo
        /\ err' \in Errs
        /\ (err'.kind # "nil" => in2' = in1')             \* the error cases need no second copy
        /\ res1' = [alias |-> FALSE, val |-> in1'] /\ res2' = [alias |-> FALSE, val |-> in2']
        /\ phase' = "start"

Call == /\ phase = "start"
        /\ res1' = RedactPtr(in1)
        /\ res2' = RedactPtr(in2)
        /\ err' = RedactErr(err, in1)
        /\ phase' = "done"
        /\ UNCHANGED <<in1, in2>>                        \* the inputs are never written
Next == Pick \/ Call
Spec == Init /\ [][Next]_vars

----------------------------------------------------------------------------
Done == phase = "done"
SameButUser(x, y) == [x EXCEPT !.user = NoUser] = [y EXCEPT !.user = NoUser]

(* C16: nothing about the credentials can be told from the result. *)
NonInterference == (Done /\ in1.user.set /\ in2.user.set /\ SameButUser(in1, in2)) => res1.val = res2.val
(* the userinfo is the fixed mask, every other component is the input's *)
MaskOnly == Done => /\ res1.val.user = (IF in1.user.set THEN Mask ELSE NoUser)
                    /\ SameButUser(res1.val, in1)
(* a URL without userinfo is returned as is *)
AsIs == (Done /\ ~in1.user.set) => (res1.alias /\ res1.val = in1)
(* the input is never modified: a masked result is a fresh object *)
Fresh == (Done /\ in1.user.set) => ~res1.alias
InputsUntouched == [][phase = "start" => (in1' = in1 /\ in2' = in2)]_vars
(* the error: only a top-level *url.Error of a URL with userinfo changes, and only its URL text *)
ErrOnlyTopLevel == [][phase = "start" =>
                       /\ err'.kind = err.kind /\ err'.op = err.op /\ err'.inner = err.inner
                       /\ (err'.url # err.url => (err.kind = "top" /\ in1.user.set /\ err'.url = "redacted"))
                       /\ ((err.kind = "top" /\ in1.user.set) => err'.url = "redacted") ]_vars
TypeOK == in1.user.set = in2.user.set /\ SameButUser(in1, in2)
=============================================================================
