---------------------------- MODULE SignalsTrace ----------------------------
(* Trace validation: seeded random real histories (up to 8 channels, every    *)
(* signal number, hundreds of operations) logged as                           *)
(*   world                new channels and a new notifier                     *)
(*   call op obs          one operation and its observation                   *)
EXTENDS SignalsMC, Json, TLC

Trace == ndJsonDeserialize("signals_trace.ndjson")

VARIABLE l
tvars == <<svars, l>>
Ev == Trace[l]

TInit == SInit /\ l = 1
TWorld == Ev.ev = "world" /\ reg' = [c \in Chans |-> {}] /\ via' = [c \in Chans |-> {}] /\ obs' = NoObs
(* sets arrive as sequences *)
SeqSet(q) == {q[j] : j \in 1..Len(q)}
TCall == /\ Ev.ev = "call" /\ Do(Ev.op)
         /\ obs'.ans = Ev.obs.ans
         /\ obs'.got = SeqSet(Ev.obs.got)
         /\ Len(obs'.calls) = Len(Ev.obs.calls)
         /\ \A j \in 1..Len(Ev.obs.calls) :
               /\ obs'.calls[j].m = Ev.obs.calls[j].m /\ obs'.calls[j].c = Ev.obs.calls[j].c
               /\ obs'.calls[j].sigs = SeqSet(Ev.obs.calls[j].sigs)
               /\ Len(Ev.obs.calls[j].sigs) = Cardinality(obs'.calls[j].sigs)
TNext == l <= Len(Trace) /\ l' = l + 1 /\ (TWorld \/ TCall) /\ UNCHANGED nops
TSpec == TInit /\ [][TNext]_tvars
=============================================================================
