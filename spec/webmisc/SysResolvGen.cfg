SPECIFICATION GSpec
CONSTANTS
  AddrRanks = {0, 1, 2}
  ZoneRanks = {0, 1, 2}
  PortRanks = {0, 1, 65535}
  MaxOps = 3
INVARIANTS REmit RTypeOK OneHostPerLookup
CHECK_DEADLOCK FALSE
