SPECIFICATION TSpec
CONSTANTS
  NReq = 1
  NObj = 1
  Ctxs = {0}
  Methods = {"M0"}
  Vals = {"v0"}
  MaxOps = 1000000
PROPERTIES CopyIsWithContext SrcContextKept SharesObjects
CHECK_DEADLOCK FALSE
