SPECIFICATION TSpec
CONSTANTS
  NMs = {1}
  NewConnNMs = {}
  RetIds = {1}
  PanicIds = {1}
  MaxOps = 1000000
INVARIANTS TExactlyOnce NoCrossTalk
CHECK_DEADLOCK FALSE
