------------------------------ MODULE FakesGen ------------------------------
(* Generator: every sequence of field assignments and method calls of         *)
(* Fakes.tla up to MaxOps with the observation per step (all prefixes).  A    *)
(* vector for nm methods is replayed on every fake type with nm methods.      *)
EXTENDS Fakes, Json, CSV

VARIABLE fhist
fgvars == <<fvars, fhist>>

FGInit == FInit /\ fhist = <<>>
FGNext == /\ nops < Depth /\ nops' = nops + 1
          /\ \E o \in Ops : Do(o) /\ fhist' = Append(fhist, [op |-> o, obs |-> obs'])
FGSpec == FGInit /\ [][FGNext]_fgvars

FEmit == CSVWrite("%1$s", <<ToJson([nm |-> nm, ctor |-> ctor, steps |-> fhist])>>, "fakes_vectors.ndjson")
=============================================================================
