SPECIFICATION GSpec
CONSTANTS
  MaxKey = 4
  CanonAlphabet = {"a", "B", "t", "-", "1", " ", "NONASCII", "_"}
INVARIANTS TEmit CanonIdempotent TablesOK
CHECK_DEADLOCK FALSE
