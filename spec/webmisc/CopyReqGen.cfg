SPECIFICATION CGSpec
CONSTANTS
  NReq = 2
  NObj = 2
  Ctxs = {1, 2}
  Methods = {"M0", "M1"}
  Vals = {"v0", "v1"}
  MaxOps = 2
INVARIANTS CEmit CTypeOK
CHECK_DEADLOCK FALSE
