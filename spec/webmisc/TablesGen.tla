----------------------------- MODULE TablesGen -----------------------------
(* Generator for Tables.tla.                                                  *)
(*   canon:  every key over CanonAlphabet up to MaxKey characters with        *)
(*           Canon(key) - replayed against textproto.CanonicalMIMEHeaderKey   *)
(*           (the reference: a disagreement is an error of this module);      *)
(*   route:  every request (method, path) of a small family with the route    *)
(*           that must serve it when RoutePprof has filled an http.ServeMux;  *)
(*   table:  the route table and the constants themselves.                    *)
EXTENDS Tables, Json, CSV, TLC

CONSTANTS MaxKey, CanonAlphabet

VARIABLES mode, key
gvars == <<mode, key>>

Methods == {"GET", "HEAD", "POST", "PUT"}
Rests == {"", "allocs", "block", "cmdline", "goroutine", "heap", "mutex", "profile", "symbol", "threadcreate", "trace",
          "unknown", "heap/", "heap/x"}
(* "/debug/pprof" without the slash is left out: http.ServeMux answers it with *)
(* a redirect of its own.                                                     *)
OtherDirs == {"/", "/debug/", "/debug/pprofx/", "/debug/pprofx"}
RouteQueries == {<<m, PprofBasePath, x>> : m \in Methods, x \in Rests} \cup {<<m, d, "">> : m \in Methods, d \in OtherDirs}

GInit == \/ mode = "canon" /\ key = <<>>
         \/ mode = "route" /\ key \in RouteQueries
         \/ mode = "table" /\ key = <<>>
GNext == /\ mode = "canon" /\ Len(key) < MaxKey
         /\ \E c \in CanonAlphabet : key' = Append(key, c)
         /\ UNCHANGED mode
GSpec == GInit /\ [][GNext]_gvars

CanonIdempotent == mode = "canon" => Canon(Canon(key)) = Canon(key) /\ Len(Canon(key)) = Len(key)
TablesOK == mode = "table" => TableLemmas

TEmit == CSVWrite("%1$s",
    << IF mode = "canon" THEN ToJson([mode |-> mode, key |-> key, canon |-> Canon(key)])
       ELSE IF mode = "route" THEN ToJson([mode |-> mode, method |-> key[1], dir |-> key[2], rest |-> key[3],
                                           route |-> RouteFor(key[1], key[2], key[3])])
       ELSE ToJson([mode |-> mode, routes |-> PprofRoutes, consts |-> Consts]) >>,
    "tables_vectors.ndjson")
=============================================================================
