SPECIFICATION SGSpec
CONSTANTS
  Chans = {1, 2}
  SigNums <- AllSigNums
  LaterNums <- FewSigNums
  MaxOps = 2
INVARIANTS SEmit STypeOK ClassesDisjoint RegisteredIsClassified OneNotifyPerCall StopUndoes
CHECK_DEADLOCK FALSE
