SPECIFICATION TSpec
CONSTANTS
  Chans = {1, 2, 3, 4, 5, 6, 7, 8}
  SigNums <- AllSigNums
  LaterNums <- FewSigNums
  MaxOps = 1000000
INVARIANTS RegisteredIsClassified StopUndoes
CHECK_DEADLOCK FALSE
