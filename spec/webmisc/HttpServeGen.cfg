SPECIFICATION GSpec
CONSTANTS
  Handlers <- MCHandlers
  Requests <- MCRequests
  MaxMw = 2
  MaxReqs = 1
INVARIANTS HEmit Stateless
CHECK_DEADLOCK FALSE
