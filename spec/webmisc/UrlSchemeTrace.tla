-------------------------- MODULE UrlSchemeTrace --------------------------
(* Trace validation: seeded random real calls (mutated schemes: case flips,   *)
(* long s / Kelvin sign substitutions, insertions, deletions, random runes)   *)
(* logged with the abstracted scheme and the observed result; every line must *)
(* be what UrlScheme.tla says.                                                *)
(*   fn "ishttp" | "isgrpc": ok       fn "vfile" | "vhttp" | "vgrpc": ok, err *)
EXTENDS UrlScheme, Json, TLC

Trace == ndJsonDeserialize("url_trace.ndjson")

VARIABLE l
Ev == Trace[l]

KindOf == [vfile |-> "file", vhttp |-> "http", vgrpc |-> "grpc"]

LineOK(e) ==
    CASE e.fn = "ishttp" -> e.ok \in {IsHTTPScheme(e.scheme), IsKindA("http", e.scheme)}
      [] e.fn = "isgrpc" -> e.ok \in {IsGRPCScheme(e.scheme), IsKindA("grpc", e.scheme)}
      [] OTHER -> LET u == [isnil |-> e.isnil, scheme |-> e.scheme, rest |-> "any"]
                      v == Validate(KindOf[e.fn], u)
                      a == ValidateA(KindOf[e.fn], u)
                  IN  (e.ok = v.ok /\ e.err = v.err) \/ (e.ok = a.ok /\ e.err = a.err)

(* The enumeration variables of UrlScheme.tla are not used here and stay fixed. *)
TInit == l = 1 /\ s = <<>> /\ isnil = FALSE /\ rest = "any"
TNext == l <= Len(Trace) /\ LineOK(Ev) /\ l' = l + 1 /\ UNCHANGED uvars
TSpec == TInit /\ [][TNext]_<<l, uvars>>
=============================================================================
