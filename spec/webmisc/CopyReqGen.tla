----------------------------- MODULE CopyReqGen -----------------------------
(* Generator: every sequence of CopyRequestTo calls and caller writes up to   *)
(* MaxOps, with what every request struct shows after each step.  One line    *)
(* per state (all prefixes).                                                  *)
EXTENDS CopyReq, Json, CSV

VARIABLE chist
cgvars == <<cvars, chist>>

CGInit == CInit /\ chist = <<>>
CGNext == /\ nops < MaxOps /\ nops' = nops + 1
          /\ \E o \in Ops : Do(o) /\ chist' = Append(chist, [op |-> o, obs |-> Obs'])
CGSpec == CGInit /\ [][CGNext]_cgvars

CEmit == CSVWrite("%1$s", <<ToJson([nreq |-> NReq, nobj |-> NObj, init |-> [ctx |-> InitCtx, hval |-> InitVal], steps |-> chist])>>,
                  "copyreq_vectors.ndjson")
=============================================================================
