---------------------------- MODULE HttpServeGen ----------------------------
(* Generator: a handler built once and up to MaxReqs requests served by it,   *)
(* each with its own writer, header set and context; per request what the     *)
(* specification predicts (Predict is checked against the step-by-step model  *)
(* by HttpServeMC.cfg).  One line per state.                                  *)
EXTENDS HttpServeMC, Json, CSV

VARIABLE greqs
ggvars == <<hvars, greqs>>
gh == h

(* The step variables of HttpServe.tla are not used here and stay fixed. *)
GInit == /\ h \in MCHandlers /\ greqs = <<>>
         /\ r = 0 /\ pc = "gen" /\ i = 0 /\ hdr = 0 /\ events = <<>> /\ logs = <<>> /\ werr = FALSE
GNext == /\ Len(greqs) < MaxReqs
         /\ \E q \in MCRequests : greqs' = Append(greqs, q)
         /\ UNCHANGED hvars
GSpec == GInit /\ [][GNext]_ggvars

HEmit == CSVWrite("%1$s", <<ToJson([h |-> gh, reqs |-> [j \in 1..Len(greqs) |-> [r |-> greqs[j], obs |-> Predict(gh, greqs[j])]]])>>,
                  "serve_vectors.ndjson")
(* The handler has no memory: the prediction for a request does not depend on *)
(* the requests before it (true by construction; kept as the statement).      *)
Stateless == \A j \in 1..Len(greqs) : Predict(gh, greqs[j]).hdr[KeySrv] = greqs[j].hdr0[KeySrv] \o gh.mws
=============================================================================
