SPECIFICATION CSpec
CONSTANTS
  NReq = 3
  NObj = 2
  Ctxs = {1, 2}
  Methods = {"M0", "M1"}
  Vals = {"v0", "v1"}
  MaxOps = 4
INVARIANTS CTypeOK
PROPERTIES CopyIsWithContext OnlyDstWritten SrcContextKept SharesObjects SharedMapWrite StructIsCopied
CHECK_DEADLOCK FALSE
