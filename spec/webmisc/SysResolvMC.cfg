SPECIFICATION RSpec
CONSTANTS
  AddrRanks = {0, 1, 2}
  ZoneRanks = {0, 1, 2}
  PortRanks = {0, 1, 65535}
  MaxOps = 5
INVARIANTS RTypeOK OneHostPerLookup PureLemmasOnce
PROPERTIES ErrorKeepsCache SnapsAreValues
CHECK_DEADLOCK FALSE
