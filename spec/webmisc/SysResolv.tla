----------------------------- MODULE SysResolv -----------------------------
(* netutil/sysresolv/sysresolv.go (+ sysresolv_linux.go).                     *)
(*                                                                            *)
(* (1) parse: "returns the netip.AddrPort parsed from the passed address,     *)
(*     using the preconfigured default port, if address doesn't contain one.  *)
(*     It also immediately returns errFakeDial if the address is valid, but   *)
(*     useless" (Linux: Docker's embedded DNS server 127.0.0.11).  The        *)
(*     address is what the Go resolver hands to the dial function for a       *)
(*     `nameserver` line of resolv.conf: ip:port, [ip6]:port, [ip6%zone]:port *)
(*     - or, for other callers, a bare IPv4 address.                          *)
(* (2) compareAddrPorts: "compares two netip.AddrPorts.  It's used for        *)
(*     sorting": by address (netip.Addr.Compare: IPv4 before IPv6, then the   *)
(*     value, then the zone), then by port.                                   *)
(* (3) NewSystemResolvers / Refresh / Addrs: "Refresh updates the internal    *)
(*     cache of the resolvers' addresses if no error occurred"; the lookup    *)
(*     of a generated host name through a resolver whose dial function        *)
(*     collects the addresses and fails with errFakeDial: that *expected*     *)
(*     failure is success, any other error is returned ("system resolvers:    *)
(*     ..."), and a lookup that succeeds without dialling (an IP literal, a   *)
(*     name from the hosts file) yields an empty set.  "Addrs ... Caller must *)
(*     clone the returned slice before modifying it": a returned slice is a   *)
(*     value that later Refreshes do not change.                              *)
EXTENDS Integers, Sequences, FiniteSets

(* ---- (1) the address grammar -------------------------------------------- *)
(* An address is  ["["] host ["]"] [":" port [":" port2]]  with               *)
(*   host:  V4 (a dotted quad other than Docker's), DOCK (127.0.0.11),        *)
(*          V4BAD (looks like IPv4, is none: leading zero, 256, five octets,  *)
(*          IPv4 with a zone), V6 (an IPv6 address, two or more colons),      *)
(*          V6Z (IPv6 with %zone), V6BAD (colons, but no address, ":::1"),    *)
(*          NAME (no address at all), EMPTY                                   *)
(*   port:  decimal text; the token is the text itself                        *)
HostToks == {"V4", "DOCK", "V4BAD", "V6", "V6Z", "V6BAD", "NAME", "EMPTY"}
PortToks == {"53", "0", "65535", "053", "65536", "dns", ""}
ValidPorts == {"53", "0", "65535", "053"}                    \* strconv.ParseUint(port, 10, 16)
PortVal == [p \in ValidPorts |-> CASE p = "53" -> 53 [] p = "0" -> 0 [] p = "65535" -> 65535 [] p = "053" -> 53]

Shapes == {sh \in [lb : BOOLEAN, host : HostToks, rb : BOOLEAN, colon : BOOLEAN, port : PortToks, extra : BOOLEAN] :
              ~sh.colon => (sh.port = "" /\ ~sh.extra)}

HostColons(sh) == sh.host \in {"V6", "V6Z", "V6BAD"}         \* the host text itself contains (two or more) colons
AnyColon(sh) == sh.colon \/ HostColons(sh)

(* netutil.SplitHost = net.SplitHostPort, "missing port" tolerated:           *)
(*   "whole"  no port: the host is the whole text                             *)
(*   "inner"  host (brackets stripped) and port were split                    *)
(*   "err"    missing ']', too many colons, unexpected ']'                    *)
SplitKind(sh) ==
    IF ~AnyColon(sh) THEN "whole"
    ELSE IF sh.lb THEN
        IF ~sh.rb THEN "err"                                   \* missing ']' in address
        ELSE IF ~sh.colon THEN "whole"                         \* "[::1]": nothing after ']'
        ELSE IF ~sh.extra THEN "inner"
        ELSE "err"                                             \* "[h]:p:q" too many colons
    ELSE IF sh.extra THEN "err"                                \* "h:p:q" too many colons
    ELSE IF sh.colon THEN
        IF HostColons(sh) THEN "err"                           \* "::1:53" too many colons
        ELSE IF sh.rb THEN "err"                               \* "h]:p" unexpected ']'
        ELSE "inner"
    ELSE "err"                                                 \* "::1", "::1%eth0": too many colons

(* the host SplitHost returns is literally 127.0.0.11 *)
IsDocker(sh) == sh.host = "DOCK" /\ \/ SplitKind(sh) = "inner"
                                    \/ (SplitKind(sh) = "whole" /\ ~sh.lb /\ ~sh.rb)

Bad == [kind |-> "bad", host |-> "", port |-> -1]
(* sr.parse(address) with default port def; IsLinux: whether the Docker rule applies *)
Parse(sh, def, linux) ==
    LET k == SplitKind(sh) IN
    IF k = "err" THEN Bad
    ELSE IF linux /\ IsDocker(sh) THEN [kind |-> "fakedial", host |-> "", port |-> -1]
    ELSE IF k = "whole" THEN
        IF sh.host \in {"V4", "DOCK"} /\ ~sh.lb /\ ~sh.rb THEN [kind |-> "ok", host |-> sh.host, port |-> def] ELSE Bad
    ELSE IF /\ sh.port \in ValidPorts
            /\ \/ (sh.lb /\ sh.host \in {"V6", "V6Z"})
               \/ (~sh.lb /\ sh.host \in {"V4", "DOCK"})
        THEN [kind |-> "ok", host |-> sh.host, port |-> PortVal[sh.port]]
    ELSE Bad

(* What the doc comment of parse promises for an IPv6 address without a port *)
(* ("using the preconfigured default port, if address doesn't contain one"):  *)
(* the code refuses it (BareIPv6Rejected below).  Not reachable through the   *)
(* resolver; the binding accepts either behaviour.                            *)
BareIPv6(sh) == sh.host \in {"V6", "V6Z"} /\ ~sh.colon /\ ~sh.lb /\ ~sh.rb
ParseDoc(sh, def, linux) == IF BareIPv6(sh) THEN [kind |-> "ok", host |-> sh.host, port |-> def] ELSE Parse(sh, def, linux)

(* The grammar, said directly: ip4 | ip4:port | [ip6]:port | [ip6%zone]:port. *)
Plain(sh) == ~sh.lb /\ ~sh.rb /\ ~sh.extra
Accepted(sh) == \/ Plain(sh) /\ sh.host \in {"V4", "DOCK"} /\ ~sh.colon
                \/ Plain(sh) /\ sh.host \in {"V4", "DOCK"} /\ sh.colon /\ sh.port \in ValidPorts
                \/ sh.lb /\ sh.rb /\ ~sh.extra /\ sh.host \in {"V6", "V6Z"} /\ sh.colon /\ sh.port \in ValidPorts

DefPorts == {53, 5353, 0}

GrammarAgrees == \A sh \in Shapes : \A linux \in BOOLEAN :
    LET p == Parse(sh, 53, linux) IN
    /\ (p.kind = "ok") <=> (Accepted(sh) /\ ~(linux /\ sh.host = "DOCK"))
    /\ (p.kind = "fakedial") => (linux /\ sh.host = "DOCK")
DefaultPortIffNoPort == \A sh \in Shapes : \A d \in DefPorts :
    LET p == Parse(sh, d, TRUE) IN
    p.kind = "ok" => /\ (~sh.colon => p.port = d)
                     /\ (sh.colon => p.port = PortVal[sh.port])
                     /\ p.host = sh.host
NeverDocker == \A sh \in Shapes : Parse(sh, 53, TRUE).kind = "ok" => sh.host # "DOCK"
(* What the code does with an IPv6 address that has no port (not reachable    *)
(* through the resolver, which always appends one): rejected by SplitHost.    *)
BareIPv6Rejected == \A sh \in Shapes : (HostColons(sh) /\ ~sh.colon /\ ~sh.lb /\ ~sh.rb) => Parse(sh, 53, TRUE).kind = "bad"

(* ---- (2) the order ------------------------------------------------------ *)
(* An AddrPort is [fam, a, z, port]: fam 4 | 6, a the address value as a      *)
(* small rank, z the zone rank (0 = no zone; IPv4 has none).                  *)
CONSTANTS AddrRanks, ZoneRanks, PortRanks
APs == {x \in [fam : {4, 6}, a : AddrRanks, z : ZoneRanks, port : PortRanks] : x.fam = 4 => x.z = 0}

Sign(n) == IF n < 0 THEN -1 ELSE IF n > 0 THEN 1 ELSE 0
Cmp(x, y) == IF x.fam # y.fam THEN Sign(x.fam - y.fam)
             ELSE IF x.a # y.a THEN Sign(x.a - y.a)
             ELSE IF x.z # y.z THEN Sign(x.z - y.z)
             ELSE Sign(x.port - y.port)

OrderIsTotal == /\ \A x, y \in APs : Cmp(x, y) = -Cmp(y, x)
                /\ \A x, y \in APs : Cmp(x, y) = 0 <=> x = y
                /\ \A x, y, z \in APs : Cmp(x, y) <= 0 /\ Cmp(y, z) <= 0 => Cmp(x, z) <= 0
V4First == \A x, y \in APs : x.fam = 4 /\ y.fam = 6 => Cmp(x, y) = -1
PortLast == \A x, y \in APs : (x.fam = y.fam /\ x.a = y.a /\ x.z = y.z) => Cmp(x, y) = Sign(x.port - y.port)

PureLemmas == GrammarAgrees /\ DefaultPortIffNoPort /\ NeverDocker /\ BareIPv6Rejected /\ OrderIsTotal /\ V4First /\ PortLast

(* ---- (3) the cache ------------------------------------------------------ *)
(* What the host generator returns decides the lookup:                        *)
(*   "dns"      a fresh name that needs a DNS query: the dial function gets   *)
(*              every name server of the system; expected failure             *)
(*   "literal"  an IP address: LookupHost answers without dialling, no error  *)
(*   "invalid"  not a host name: LookupHost fails without dialling            *)
(* The cache is "sys" (the system's name servers, parsed, deduplicated,       *)
(* sorted), "none" (empty) or "noobj" (the constructor failed).               *)
CONSTANTS MaxOps
HostKinds == {"dns", "literal", "invalid"}

VARIABLES cache,    \* "noobj" | "sys" | "none"
          snaps,    \* values of the slices Addrs() returned so far (as they were when returned)
          ngen,     \* calls of the host generator so far
          obs, nops
rvars == <<cache, snaps, ngen, obs, nops>>

RInit == cache = "noobj" /\ snaps = <<>> /\ ngen = 0 /\ obs = [what |-> "init", ret |-> "none", addrs |-> "none", gen |-> 0] /\ nops = 0

After(k, old) == CASE k = "dns" -> "sys" [] k = "literal" -> "none" [] k = "invalid" -> old
Ret(k) == IF k = "invalid" THEN "unexpected" ELSE "nil"

(* NewSystemResolvers(gen, port): the first Refresh decides. *)
New(k) == /\ cache' = IF k = "invalid" THEN "noobj" ELSE After(k, "none")
          /\ snaps' = <<>>
          /\ ngen' = ngen + 1
          /\ obs' = [what |-> "new", ret |-> Ret(k), addrs |-> "none", gen |-> 1]
Refresh(k) == /\ cache # "noobj"
              /\ cache' = After(k, cache)
              /\ ngen' = ngen + 1
              /\ obs' = [what |-> "refresh", ret |-> Ret(k), addrs |-> "none", gen |-> 1]
              /\ UNCHANGED snaps
Addrs == /\ cache # "noobj"
         /\ snaps' = Append(snaps, cache)
         /\ obs' = [what |-> "addrs", ret |-> "none", addrs |-> cache, gen |-> 0]
         /\ UNCHANGED <<cache, ngen>>

Do(o) == CASE o[1] = "new" -> New(o[2]) [] o[1] = "refresh" -> Refresh(o[2]) [] o[1] = "addrs" -> Addrs
Ops == {<<"new", k>> : k \in HostKinds} \cup {<<"refresh", k>> : k \in HostKinds} \cup {<<"addrs">>}
RNext == nops < MaxOps /\ nops' = nops + 1 /\ \E o \in Ops : Do(o)
RSpec == RInit /\ [][RNext]_rvars

RTypeOK == cache \in {"noobj", "sys", "none"} /\ \A j \in 1..Len(snaps) : snaps[j] \in {"sys", "none"}
(* an error leaves the cache alone; a failed constructor yields no object *)
ErrorKeepsCache == /\ [][obs'.what = "refresh" /\ obs'.ret = "unexpected" => cache' = cache]_rvars
                   /\ [][obs'.what = "new" /\ obs'.ret = "unexpected" => cache' = "noobj"]_rvars
(* returned slices are values *)
SnapsAreValues == [][obs'.what # "new" => \A j \in 1..Len(snaps) : snaps'[j] = snaps[j]]_rvars
(* the generator is asked exactly once per lookup *)
OneHostPerLookup == obs.gen \in {0, 1} /\ (obs.ret # "none" <=> obs.gen = 1)
(* the stateless lemmas, evaluated once *)
PureLemmasOnce == nops = 0 => PureLemmas
=============================================================================
