----------------------------- MODULE SignalsGen -----------------------------
(* Generator: every sequence of operations of Signals.tla up to MaxOps with   *)
(* the observation predicted per step.  One line per state (all prefixes).    *)
EXTENDS SignalsMC, Json, CSV

VARIABLE shist
sgvars == <<svars, shist>>

SGInit == SInit /\ shist = <<>>
SGNext == /\ nops < MaxOps /\ nops' = nops + 1
          /\ \E o \in Ops(nops) : Do(o) /\ shist' = Append(shist, [op |-> o, obs |-> obs'])
SGSpec == SGInit /\ [][SGNext]_sgvars

SEmit == CSVWrite("%1$s", <<ToJson([steps |-> shist])>>, "signals_vectors.ndjson")
=============================================================================
