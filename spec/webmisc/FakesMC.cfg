SPECIFICATION FSpec
CONSTANTS
  NMs = {1, 2, 3}
  NewConnNMs = {3}
  RetIds = {1, 2}
  PanicIds = {1}
  MaxOps = 5
INVARIANTS FTypeOK ExactlyOnce NoCrossTalk ResultIsCallbacks UnsetPanics DefaultOnlyFromCtor
CHECK_DEADLOCK FALSE
