--------------------------- MODULE SysResolvTrace ---------------------------
(* Trace validation: seeded random real runs logged as                        *)
(*   parse shape def linux res          one sr.parse call on a random address *)
(*                                      built from the shape (many spellings) *)
(*   sort  xs sorted                    slices.SortFunc(compareAddrPorts) on  *)
(*                                      random AddrPorts (ranks logged)       *)
(*   new / refresh / addrs  op obs      the cache operations                  *)
EXTENDS SysResolv, Json, TLC

Trace == ndJsonDeserialize("sysresolv_trace.ndjson")

VARIABLE l
tvars == <<rvars, l>>
Ev == Trace[l]

TInit == RInit /\ l = 1

IsSorted(q) == \A j \in 1..(Len(q) - 1) : Cmp(q[j], q[j + 1]) <= 0
(* same multiset: every element occurs equally often *)
SameBag(p, q) == Len(p) = Len(q) /\ \A j \in 1..Len(p) :
                    Cardinality({m \in 1..Len(p) : p[m] = p[j]}) = Cardinality({m \in 1..Len(q) : q[m] = p[j]})

TParse == /\ Ev.ev = "parse"
          /\ Ev.res \in {Parse(Ev.shape, Ev.def, Ev.linux), ParseDoc(Ev.shape, Ev.def, Ev.linux)}
          /\ UNCHANGED rvars
TSort == /\ Ev.ev = "sort"
         /\ IsSorted(Ev.sorted) /\ SameBag(Ev.xs, Ev.sorted)
         /\ UNCHANGED rvars
TCache == /\ Ev.ev = "cache"
          /\ Do(Ev.op)
          /\ obs' = Ev.obs
          /\ Ev.snapsok
TNext == l <= Len(Trace) /\ l' = l + 1 /\ (TParse \/ TSort \/ (TCache /\ UNCHANGED nops))
TSpec == TInit /\ [][TNext]_tvars
=============================================================================
