------------------------------- MODULE Tables -------------------------------
(* Constant tables of the small web packages, and the rules they obey.        *)
(*                                                                            *)
(* httphdr (httphdr/httphdr.go): "Package httphdr contains the names of HTTP  *)
(*   headers.  Please keep the values in their canonical form.  TODO: Tests   *)
(*   for that."  Canonical form = textproto.CanonicalMIMEHeaderKey(v) = v     *)
(*   (what http.Header's Set/Get/Add use as the map key).  Canon below is the *)
(*   specification of that function on character tokens.                      *)
(* httputil.RoutePprof (netutil/httputil/pprofutil.go): "adds all pprof       *)
(*   handlers to r under the paths within PprofBasePath" - table PprofRoutes. *)
(* osutil.ExitCode constants, urlutil scheme constants, PprofBasePath,        *)
(*   HealthCheckHandler: table Consts.                                        *)
EXTENDS Integers, Sequences, FiniteSets

(* ---- header names ------------------------------------------------------- *)
LowerSeq == <<"a","b","c","d","e","f","g","h","i","j","k","l","m","n","o","p","q","r","s","t","u","v","w","x","y","z">>
UpperSeq == <<"A","B","C","D","E","F","G","H","I","J","K","L","M","N","O","P","Q","R","S","T","U","V","W","X","Y","Z">>
IsLower(c) == \E j \in 1..26 : LowerSeq[j] = c
IsUpper(c) == \E j \in 1..26 : UpperSeq[j] = c
ToUpper(c) == IF IsLower(c) THEN UpperSeq[CHOOSE j \in 1..26 : LowerSeq[j] = c] ELSE c
ToLower(c) == IF IsUpper(c) THEN LowerSeq[CHOOSE j \in 1..26 : UpperSeq[j] = c] ELSE c
Digits == {"0","1","2","3","4","5","6","7","8","9"}
TokenPunct == {"!", "#", "$", "%", "&", "'", "*", "+", "-", ".", "^", "_", "`", "|", "~"}
(* RFC 7230 token characters; everything else (space, ":", "(", non-ASCII    *)
(* bytes - token "NONASCII" -, ...) makes the key invalid.                   *)
IsTokenChar(c) == IsLower(c) \/ IsUpper(c) \/ c \in Digits \/ c \in TokenPunct

(* textproto.CanonicalMIMEHeaderKey: a key with an invalid character is      *)
(* returned unchanged; otherwise the first letter and every letter after a   *)
(* hyphen is upper-cased, every other letter lower-cased.                    *)
Canon(s) == IF \E j \in 1..Len(s) : ~IsTokenChar(s[j]) THEN s
            ELSE [j \in 1..Len(s) |-> IF j = 1 \/ s[j - 1] = "-" THEN ToUpper(s[j]) ELSE ToLower(s[j])]

IsCanonical(s) == Canon(s) = s

(* The judgement of one recorded constant of package httphdr: row = [name,   *)
(* value (character tokens)], table = all rows.                              *)
HdrVerdict(row, table) ==
    [name      |-> row.name,
     canon     |-> Canon(row.value),
     canonical |-> IsCanonical(row.value),
     nonempty  |-> Len(row.value) > 0,
     valid     |-> \A j \in 1..Len(row.value) : IsTokenChar(row.value[j]),
     dupvalue  |-> \E j \in 1..Len(table) : table[j].name # row.name /\ Canon(table[j].value) = Canon(row.value),
     dupname   |-> Cardinality({j \in 1..Len(table) : table[j].name = row.name}) > 1]

(* ---- pprof routes ------------------------------------------------------- *)
PprofBasePath == "/debug/pprof/"
R(m, p, hd) == [method |-> m, path |-> p, handler |-> hd]
Named(p) == R("GET", PprofBasePath \o p, "named:" \o p)     \* a named profile is served under its own name
(* handler: "index", "cmdline", "profile", "symbol", "trace" = the functions  *)
(* of net/http/pprof; "named:x" = pprof.Handler("x").                         *)
PprofRoutes == <<
    R("GET",  "/debug/pprof/",             "index"),
    Named("allocs"),
    Named("block"),
    R("GET",  "/debug/pprof/cmdline",      "cmdline"),
    Named("goroutine"),
    Named("heap"),
    Named("mutex"),
    R("GET",  "/debug/pprof/profile",      "profile"),
    R("GET",  "/debug/pprof/symbol",       "symbol"),
    R("POST", "/debug/pprof/symbol",       "symbol"),
    Named("threadcreate"),
    R("GET",  "/debug/pprof/trace",        "trace") >>
RouteSet == {PprofRoutes[j] : j \in 1..Len(PprofRoutes)}
Pattern(rt) == <<rt.method, rt.path>>              \* the mux pattern is method + " " + path

(* Which route serves a request with http.ServeMux (Go 1.22 patterns): an     *)
(* exact path beats the subtree "/debug/pprof/"; GET patterns also match      *)
(* HEAD; no route for the method -> none (405 / 404).                         *)
MethodMatches(pm, m) == pm = m \/ (pm = "GET" /\ m = "HEAD")
IsSubtree(p) == p = PprofBasePath
(* paths are given as <<dir, rest>>: dir "/debug/pprof/" + rest, or another  *)
(* dir with rest ""                                                          *)
Serves(rt, m, dir, rest) ==
    /\ MethodMatches(rt.method, m)
    /\ \/ rt.path = dir \o rest                             \* exact (the subtree pattern matches its own path too)
       \/ IsSubtree(rt.path) /\ dir = PprofBasePath          \* anything below the base path
Exact(rt, dir, rest) == rt.path = dir \o rest
RouteFor(m, dir, rest) ==
    LET c == {rt \in RouteSet : Serves(rt, m, dir, rest)}
        e == {rt \in c : Exact(rt, dir, rest)}
    IN  IF c = {} THEN R("none", "", "none")
        ELSE IF e # {} THEN CHOOSE rt \in e : TRUE
        ELSE CHOOSE rt \in c : TRUE

(* ---- other constants ---------------------------------------------------- *)
K(n, v) == [name |-> n, value |-> v]
Consts == { K("osutil.ExitCodeSuccess", "0"), K("osutil.ExitCodeFailure", "1"), K("osutil.ExitCodeArgumentError", "2"),
            K("urlutil.SchemeFile", "file"), K("urlutil.SchemeGRPC", "grpc"), K("urlutil.SchemeGRPCS", "grpcs"),
            K("urlutil.SchemeHTTP", "http"), K("urlutil.SchemeHTTPS", "https"),
            K("httputil.PprofBasePath", PprofBasePath), K("httputil.HealthCheckHandler", "OK NL") }
ConstNames == {c.name : c \in Consts}
ConstValue(n) == (CHOOSE c \in Consts : c.name = n).value

(* ---- osutil.RootDirFS --------------------------------------------------- *)
(* "returns a filesystem rooted at the system's root directory": Open(name)   *)
(* shows what the operating system has at "/" + name ("dir", "file",          *)
(* "notexist"); names that are not valid io/fs paths (rooted, "..", trailing  *)
(* slash) are refused ("invalid") as io/fs demands of every FS.               *)
RootFSExpect(valid, os) == IF valid THEN os ELSE "invalid"

----------------------------------------------------------------------------
(* Lemmas about the tables themselves (checked once, no state).              *)
RoutesDistinct == \A a, b \in 1..Len(PprofRoutes) : a # b => Pattern(PprofRoutes[a]) # Pattern(PprofRoutes[b])
RouteRests == {"", "cmdline", "profile", "symbol", "trace"} \cup {"allocs", "block", "goroutine", "heap", "mutex", "threadcreate"}
RoutesUnderBase == \A rt \in RouteSet : \E x \in RouteRests : rt.path = PprofBasePath \o x
(* every handler function of net/http/pprof and every built-in profile is routed *)
Profiles == {"allocs", "block", "goroutine", "heap", "mutex", "threadcreate"}
PprofHandlers == {"index", "cmdline", "profile", "symbol", "trace"}
              \cup {"named:" \o p : p \in Profiles}
AllHandlersRouted == {rt.handler : rt \in RouteSet} = PprofHandlers
(* a named profile is served under its own name *)
NamedUnderOwnName == \A rt \in RouteSet : \A p \in Profiles :
                         (rt.handler = "named:" \o p) <=> (rt.path = PprofBasePath \o p)
OnlySymbolTakesPost == \A rt \in RouteSet : rt.method = "POST" => rt.handler = "symbol"
RouteForUnique == \A m \in {"GET", "HEAD", "POST", "PUT"} : \A rest \in RouteRests :
                     Cardinality({x \in RouteSet : Serves(x, m, PprofBasePath, rest) /\ Exact(x, PprofBasePath, rest)}) <= 1
ConstNamesDistinct == Cardinality(ConstNames) = Cardinality(Consts)
ExitCodesDistinct == Cardinality({ConstValue(n) : n \in {"osutil.ExitCodeSuccess", "osutil.ExitCodeFailure", "osutil.ExitCodeArgumentError"}}) = 3
SuccessIsZero == ConstValue("osutil.ExitCodeSuccess") = "0"

TableLemmas == /\ RoutesDistinct /\ RoutesUnderBase /\ AllHandlersRouted /\ NamedUnderOwnName /\ OnlySymbolTakesPost
               /\ RouteForUnique /\ ConstNamesDistinct /\ ExitCodesDistinct /\ SuccessIsZero
=============================================================================
