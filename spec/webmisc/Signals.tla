------------------------------ MODULE Signals ------------------------------
(* osutil/signal.go, signal_unix.go:                                          *)
(*   "IsReconfigureSignal returns true if sig is a reconfigure signal."       *)
(*   "IsShutdownSignal returns true if sig is a shutdown signal."             *)
(*   "NotifyReconfigureSignal notifies c on receiving reconfigure signals     *)
(*    using n."  "NotifyShutdownSignal notifies c on receiving shutdown       *)
(*    signals using n."                                                       *)
(*   SignalNotifier.Notify: "If no signals are provided, all incoming signals *)
(*    are relayed to c.  Otherwise, just the provided signals are. ... each   *)
(*    call expands the set of signals sent to that channel.  The only way to  *)
(*    remove signals from the set is to call Stop."  Stop "undoes the effect  *)
(*    of all prior calls to Notify using c."                                  *)
(* On Unix the shutdown signals are SIGINT (2), SIGQUIT (3), SIGTERM (15),    *)
(* the reconfigure signal is SIGHUP (1).                                      *)
(*                                                                            *)
(* A signal value is <<kind, number>>: kind "sys" = a syscall.Signal (what    *)
(* the Go runtime delivers and what os.Interrupt / os.Kill are), kind         *)
(* "foreign" = some other implementation of os.Signal that prints the same    *)
(* (never a shutdown or reconfigure signal: the runtime does not send it).    *)
(* A world: channels, a recording SignalNotifier that follows the documented  *)
(* interface contract, and the process receiving signals.                     *)
EXTENDS Integers, Sequences, FiniteSets

CONSTANTS Chans,      \* channel ids
          SigNums,    \* signal numbers that may be delivered / asked about in the first step (all of them)
          LaterNums,  \* ... in the later steps (the interesting ones)
          MaxOps

SIGHUP == 1  SIGINT == 2  SIGQUIT == 3  SIGTERM == 15
ShutdownNums == {SIGINT, SIGQUIT, SIGTERM}
ReconfNums == {SIGHUP}

IsShutdown(sig) == sig[1] = "sys" /\ sig[2] \in ShutdownNums          \* osutil.IsShutdownSignal
IsReconfigure(sig) == sig[1] = "sys" /\ sig[2] \in ReconfNums         \* osutil.IsReconfigureSignal

VARIABLES reg,     \* reg[c]: the signal numbers relayed to channel c ("sys" signals only)
          via,     \* via[c]: which library calls have registered c since the last Stop: subset of {"shutdown", "reconf"}
          obs,     \* observation of the latest operation
          nops
svars == <<reg, via, obs, nops>>

NoObs == [calls |-> <<>>, got |-> {}, ans |-> "none"]

SInit == /\ reg = [c \in Chans |-> {}] /\ via = [c \in Chans |-> {}]
         /\ obs = NoObs /\ nops = 0

(* osutil.NotifyShutdownSignal(n, c): exactly one Notify on n, with c and     *)
(* the shutdown signals; nothing else.                                        *)
NotifyShutdown(c) ==
    /\ reg' = [reg EXCEPT ![c] = @ \cup ShutdownNums]
    /\ via' = [via EXCEPT ![c] = @ \cup {"shutdown"}]
    /\ obs' = [NoObs EXCEPT !.calls = << [m |-> "notify", c |-> c, sigs |-> ShutdownNums] >>]
NotifyReconf(c) ==
    /\ reg' = [reg EXCEPT ![c] = @ \cup ReconfNums]
    /\ via' = [via EXCEPT ![c] = @ \cup {"reconf"}]
    /\ obs' = [NoObs EXCEPT !.calls = << [m |-> "notify", c |-> c, sigs |-> ReconfNums] >>]
(* The caller stops the relay itself (n.Stop(c)). *)
Stop(c) ==
    /\ reg' = [reg EXCEPT ![c] = {}] /\ via' = [via EXCEPT ![c] = {}]
    /\ obs' = NoObs
(* The process receives signal number k: every channel it is relayed to gets  *)
(* it.                                                                        *)
Deliver(k) ==
    /\ obs' = [NoObs EXCEPT !.got = {c \in Chans : k \in reg[c]}]
    /\ UNCHANGED <<reg, via>>
(* The predicates. *)
AskShutdown(sig) == obs' = [NoObs EXCEPT !.ans = IF IsShutdown(sig) THEN "true" ELSE "false"] /\ UNCHANGED <<reg, via>>
AskReconf(sig) == obs' = [NoObs EXCEPT !.ans = IF IsReconfigure(sig) THEN "true" ELSE "false"] /\ UNCHANGED <<reg, via>>

Do(o) == CASE o[1] = "notify.shutdown" -> NotifyShutdown(o[2])
           [] o[1] = "notify.reconf"   -> NotifyReconf(o[2])
           [] o[1] = "stop"            -> Stop(o[2])
           [] o[1] = "deliver"         -> Deliver(o[2])
           [] o[1] = "is.shutdown"     -> AskShutdown(<<o[2], o[3]>>)
           [] o[1] = "is.reconf"       -> AskReconf(<<o[2], o[3]>>)

NumsAt(n) == IF n = 0 THEN SigNums ELSE LaterNums
Ops(n) == {<<t, c>> : t \in {"notify.shutdown", "notify.reconf", "stop"}, c \in Chans}
          \cup {<<"deliver", k>> : k \in NumsAt(n)}
          \cup {<<t, kd, k>> : t \in {"is.shutdown", "is.reconf"}, kd \in {"sys", "foreign"}, k \in NumsAt(n)}

SNext == nops < MaxOps /\ nops' = nops + 1 /\ \E o \in Ops(nops) : Do(o)
SSpec == SInit /\ [][SNext]_svars

----------------------------------------------------------------------------
(* Properties. *)
STypeOK == \A c \in Chans : reg[c] \subseteq (ShutdownNums \cup ReconfNums)

(* The two classes are disjoint, and only runtime signals belong to them. *)
ClassesDisjoint == \A k \in SigNums \cup LaterNums : \A kd \in {"sys", "foreign"} :
                      /\ ~(IsShutdown(<<kd, k>>) /\ IsReconfigure(<<kd, k>>))
                      /\ (kd = "foreign" => ~IsShutdown(<<kd, k>>) /\ ~IsReconfigure(<<kd, k>>))

(* What NotifyXSignal registers is exactly what IsXSignal accepts: a channel  *)
(* registered only through NotifyShutdownSignal receives signal k iff         *)
(* IsShutdownSignal(k), and so on.                                            *)
RegisteredIsClassified == \A c \in Chans : \A k \in SigNums \cup LaterNums :
    k \in reg[c] <=> \/ ("shutdown" \in via[c] /\ IsShutdown(<<"sys", k>>))
                     \/ ("reconf" \in via[c] /\ IsReconfigure(<<"sys", k>>))

(* A library call reaches the notifier exactly once and for its own channel;  *)
(* it never stops anything.                                                   *)
OneNotifyPerCall == /\ Len(obs.calls) <= 1
                    /\ \A j \in 1..Len(obs.calls) : obs.calls[j].m = "notify" /\ obs.calls[j].sigs # {}

(* Nothing is relayed to a channel after Stop until it is registered again. *)
StopUndoes == \A c \in Chans : via[c] = {} => reg[c] = {}
=============================================================================
