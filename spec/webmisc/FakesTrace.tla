----------------------------- MODULE FakesTrace -----------------------------
(* Trace validation: seeded random real histories on every fake type (long    *)
(* runs of assignments and calls) logged as                                   *)
(*   world type nm ctor      a new fake                                       *)
(*   step  op obs            one assignment or call and its observation       *)
EXTENDS Fakes, Json, TLC

Trace == ndJsonDeserialize("fakes_trace.ndjson")

VARIABLE l
tvars == <<fvars, l>>
Ev == Trace[l]

TInit == /\ l = 1 /\ nm = 0 /\ ctor = "zero" /\ script = <<>> /\ ncb = <<>> /\ ncall = <<>> /\ obs = NoObs /\ nops = 0

TWorld == /\ Ev.ev = "world"
          /\ nm' = Ev.nm /\ ctor' = Ev.ctor
          /\ script' = [m \in 1..Ev.nm |-> IF Ev.ctor = "newconn" THEN Sc("default", 0) ELSE Sc("unset", 0)]
          /\ ncb' = [m \in 1..Ev.nm |-> 0] /\ ncall' = [m \in 1..Ev.nm |-> 0]
          /\ obs' = NoObs
TStep == /\ Ev.ev = "step"
         /\ Ev.op[2] \in 1..nm
         /\ Do(Ev.op)
         /\ obs' = Ev.obs
         /\ UNCHANGED nm
TNext == l <= Len(Trace) /\ l' = l + 1 /\ (TWorld \/ TStep) /\ UNCHANGED nops
TSpec == TInit /\ [][TNext]_tvars

TExactlyOnce == \A m \in 1..nm : ncb[m] = ncall[m]
=============================================================================
