----------------------------- MODULE UrlScheme -----------------------------
(* netutil/urlutil/urlutil.go: scheme constants, IsValidHTTPURLScheme,        *)
(* IsValidGRPCURLScheme, ValidateFileURL, ValidateHTTPURL, ValidateGRPCURL.   *)
(*                                                                            *)
(*   "IsValidHTTPURLScheme returns true if s is a valid HTTP(S) URL scheme.   *)
(*    That is, SchemeHTTP or SchemeHTTPS" (same for gRPC); the package        *)
(*   example accepts "HTTP": the comparison ignores case.  The code uses      *)
(*   strings.EqualFold, i.e. Unicode simple case folding, under which the     *)
(*   letters of the five schemes have exactly one non-ASCII twin: U+017F      *)
(*   LATIN SMALL LETTER LONG S folds to "s" (token LONGS).  U+212A KELVIN     *)
(*   SIGN folds to "k", which no scheme contains (token KELVIN).  The         *)
(*   documentation is silent about such look-alikes: the specification says   *)
(*   what the code does (IsKind, Unicode folding) and also what an ASCII-only *)
(*   comparison would say (IsKindA); where the two differ the binding accepts *)
(*   either answer, but the same one from IsValidXURLScheme and ValidateXURL. *)
(*                                                                            *)
(*   "ValidateXURL returns nil if u is a valid X URL": nil for a non-nil URL  *)
(*   whose scheme is valid for X; nothing but the scheme is looked at (TODO   *)
(*   in the source: "make the validations stricter").  Errors, as data:       *)
(*     novalue   u == nil; wraps errors.ErrNoValue; "bad <label> url: no value"*)
(*     badenum   (http, grpc) wraps errors.ErrBadEnumValue;                   *)
(*               bad <label> url "<u>": scheme: bad enum value: "<scheme>";   *)
(*               want "<a>" or "<b>"         (the package example shows it)   *)
(*     badvalue  (file) a plain error: ...: scheme: bad value: "<scheme>";    *)
(*               want "file"                                                  *)
(*                                                                            *)
(* A scheme is a sequence of tokens: the eleven letters of the five schemes   *)
(* in lower and upper case, LONGS, KELVIN, "x"/"X" (any other ASCII letter),  *)
(* "1" (digit), "+" (other ASCII), "U" (any other non-ASCII rune).            *)
EXTENDS Integers, Sequences, FiniteSets

CONSTANTS MaxLen,     \* longest scheme enumerated
          Rests       \* shapes of the rest of the URL (host, userinfo, opaque, ...): must not matter

SchemeFile  == <<"f", "i", "l", "e">>
SchemeGRPC  == <<"g", "r", "p", "c">>
SchemeGRPCS == <<"g", "r", "p", "c", "s">>
SchemeHTTP  == <<"h", "t", "t", "p">>
SchemeHTTPS == <<"h", "t", "t", "p", "s">>
AllSchemes  == {SchemeFile, SchemeGRPC, SchemeGRPCS, SchemeHTTP, SchemeHTTPS}

Pairs == { <<"c", "C">>, <<"e", "E">>, <<"f", "F">>, <<"g", "G">>, <<"h", "H">>, <<"i", "I">>,
           <<"l", "L">>, <<"p", "P">>, <<"r", "R">>, <<"s", "S">>, <<"t", "T">> }
LowerLetters == {p[1] : p \in Pairs}
UpperLetters == {p[2] : p \in Pairs}
Alphabet == LowerLetters \cup UpperLetters \cup {"LONGS", "KELVIN", "x", "X", "1", "+", "U"}

(* Unicode simple case folding, restricted to what matters here. *)
FoldTok(t) == IF t \in UpperLetters THEN (CHOOSE p \in Pairs : p[2] = t)[1]
              ELSE IF t = "LONGS" THEN "s"
              ELSE IF t = "KELVIN" THEN "k"
              ELSE IF t = "X" THEN "x"
              ELSE t

(* ASCII-only case mapping (strings.ToUpper / ToLower on ASCII letters). *)
UpTok(t)  == IF t \in LowerLetters THEN (CHOOSE p \in Pairs : p[1] = t)[2] ELSE IF t = "x" THEN "X" ELSE t
LowTok(t) == IF t \in UpperLetters THEN (CHOOSE p \in Pairs : p[2] = t)[1] ELSE IF t = "X" THEN "x" ELSE t
Map(f(_), s) == [i \in 1..Len(s) |-> f(s[i])]

EqFold(s, t) == Len(s) = Len(t) /\ \A i \in 1..Len(s) : FoldTok(s[i]) = t[i]
(* ASCII-only folding: LONGS and KELVIN are just other characters. *)
EqFoldA(s, t) == Len(s) = Len(t) /\ \A i \in 1..Len(s) : LowTok(s[i]) = t[i]

IsFileScheme(s) == EqFold(s, SchemeFile)
IsHTTPScheme(s) == EqFold(s, SchemeHTTP) \/ EqFold(s, SchemeHTTPS)      \* IsValidHTTPURLScheme
IsGRPCScheme(s) == EqFold(s, SchemeGRPC) \/ EqFold(s, SchemeGRPCS)      \* IsValidGRPCURLScheme

Kinds == {"file", "http", "grpc"}
IsKind(k, s) == CASE k = "file" -> IsFileScheme(s) [] k = "http" -> IsHTTPScheme(s) [] k = "grpc" -> IsGRPCScheme(s)
IsKindA(k, s) == CASE k = "file" -> EqFoldA(s, SchemeFile)
                   [] k = "http" -> EqFoldA(s, SchemeHTTP) \/ EqFoldA(s, SchemeHTTPS)
                   [] k = "grpc" -> EqFoldA(s, SchemeGRPC) \/ EqFoldA(s, SchemeGRPCS)

(* Pieces of the error texts. *)
Label == [file |-> "file", http |-> "http(s)", grpc |-> "grpc(s)"]
Wants == [file |-> <<"file">>, http |-> <<"http", "https">>, grpc |-> <<"grpc", "grpcs">>]

(* ValidateFileURL / ValidateHTTPURL / ValidateGRPCURL on u = [isnil, scheme, rest]. *)
Validate(k, u) ==
    IF u.isnil THEN [ok |-> FALSE, err |-> "novalue", label |-> Label[k], wants |-> Wants[k]]
    ELSE IF IsKind(k, u.scheme) THEN [ok |-> TRUE, err |-> "none", label |-> Label[k], wants |-> Wants[k]]
    ELSE [ok |-> FALSE, err |-> IF k = "file" THEN "badvalue" ELSE "badenum", label |-> Label[k], wants |-> Wants[k]]
(* the same with ASCII-only folding *)
ValidateA(k, u) ==
    IF u.isnil \/ IsKindA(k, u.scheme) = IsKind(k, u.scheme) THEN Validate(k, u)
    ELSE [ok |-> FALSE, err |-> IF k = "file" THEN "badvalue" ELSE "badenum", label |-> Label[k], wants |-> Wants[k]]

----------------------------------------------------------------------------
(* Enumeration: every state is one URL.  A scheme is extended while it is a   *)
(* fold-prefix of one of the five schemes (a viable prefix), so the space is  *)
(* all viable prefixes, each with every one-token extension.                  *)
VARIABLES s, isnil, rest
uvars == <<s, isnil, rest>>

Viable(x) == \E t \in AllSchemes : Len(x) <= Len(t) /\ \A i \in 1..Len(x) : FoldTok(x[i]) = t[i]

UInit == /\ s = <<>>
         /\ \/ isnil = TRUE /\ rest = "nil"
            \/ isnil = FALSE /\ rest \in Rests
UNext == /\ ~isnil /\ Len(s) < MaxLen /\ Viable(s)
         /\ \E c \in Alphabet : s' = Append(s, c)
         /\ UNCHANGED <<isnil, rest>>
USpec == UInit /\ [][UNext]_uvars

U == [isnil |-> isnil, scheme |-> s, rest |-> rest]

----------------------------------------------------------------------------
(* Lemmas. *)
UTypeOK == s \in Seq(Alphabet) /\ Len(s) <= MaxLen

(* No scheme is valid for two kinds. *)
KindsDisjoint == Cardinality({k \in Kinds : IsKind(k, s)}) <= 1

(* The constants themselves are valid, for their own kind only. *)
ConstantsValid == /\ IsFileScheme(SchemeFile) /\ IsHTTPScheme(SchemeHTTP) /\ IsHTTPScheme(SchemeHTTPS)
                  /\ IsGRPCScheme(SchemeGRPC) /\ IsGRPCScheme(SchemeGRPCS)
                  /\ ~IsHTTPScheme(SchemeGRPC) /\ ~IsGRPCScheme(SchemeHTTP) /\ ~IsFileScheme(SchemeHTTP)

(* ASCII case does not matter (the package example: "HTTP" is valid). *)
CaseInsensitive == \A k \in Kinds : /\ IsKind(k, s) = IsKind(k, Map(UpTok, s))
                                    /\ IsKind(k, s) = IsKind(k, Map(LowTok, s))

(* Validate is nil exactly for a non-nil URL with a valid scheme, and the     *)
(* error kind is decided by nil-ness first.                                   *)
ValidateIffScheme == \A k \in Kinds :
    /\ Validate(k, U).ok <=> (~isnil /\ IsKind(k, s))
    /\ Validate(k, U).ok <=> (Validate(k, U).err = "none")
    /\ isnil <=> (Validate(k, U).err = "novalue")

(* ASCII-only folding accepts less, and differs only through LONGS. *)
AsciiIsStricter == \A k \in Kinds : /\ IsKindA(k, s) => IsKind(k, s)
                                    /\ (IsKind(k, s) /\ ~IsKindA(k, s)) => \E i \in 1..Len(s) : s[i] = "LONGS"

(* A valid scheme has the length of one of the constants: nothing is trimmed  *)
(* or ignored.                                                                *)
ExactLength == \A k \in Kinds : IsKind(k, s) => \E t \in AllSchemes : Len(t) = Len(s)
=============================================================================
