----------------------------- MODULE SignalsMC -----------------------------
(* Constants for Signals.tla: all signal numbers 1..64 plus the values around *)
(* them (0, 65) and exit-status look-alikes (128+2, 256+2).                   *)
EXTENDS Signals
AllSigNums == 0..65 \cup {130, 258}
FewSigNums == {0, 1, 2, 3, 9, 15, 64}
=============================================================================
