SPECIFICATION HSpec
CONSTANTS
  Handlers <- MCHandlers
  Requests <- MCRequests
  MaxMw = 2
  MaxReqs = 1
INVARIANTS Refines HeadersBeforeStatus OnceEach LogIffError LogAtMostOnce OthersUntouched
CHECK_DEADLOCK FALSE
