------------------------------ MODULE CopyReq ------------------------------
(* httputil.CopyRequestTo (netutil/httputil/httputil.go):                     *)
(*   "CopyRequestTo is an optimized version of http.Request.WithContext that  *)
(*    uses compiler optimizations to allow reducing allocations with a pool.  *)
(*    ctx, dst, and src must not be nil."                                     *)
(* i.e. afterwards *dst is what src.WithContext(ctx) returns: a shallow copy  *)
(* of *src whose context is ctx.  dst typically comes from a pool and holds   *)
(* the fields of an earlier request: nothing of that may survive.             *)
(*                                                                            *)
(* A request struct is a record of fields.  Scalar fields (method, host) are  *)
(* values; url, hdr and body are references (object ids) - the copy shares    *)
(* the objects with src (http.Request.WithContext: "a shallow copy"); ctx is  *)
(* the context id.  hc[o] is the content of header map o, so that a write     *)
(* through one request shows in every request that shares the map.  The       *)
(* caller owns all requests: between calls it may assign fields of any        *)
(* request struct and write into the maps.                                    *)
EXTENDS Integers, Sequences, FiniteSets

CONSTANTS NReq,      \* request structs 1..NReq
          NObj,      \* objects per reference field 1..NObj
          Ctxs,      \* context ids
          Methods,   \* values of the scalar fields
          Vals,      \* header map contents
          MaxOps

VARIABLES req,    \* req[q]: [method, host, url, hdr, body, ctx]
          hc,     \* hc[o]
          op,     \* the latest operation (observation variable)
          nops

cvars == <<req, hc, op, nops>>

Reqs == 1..NReq
Objs == 1..NObj

(* At the start request q has its own objects (q modulo NObj) and context. *)
Own(q) == ((q - 1) % NObj) + 1
InitCtx == CHOOSE c \in Ctxs : TRUE
InitVal == CHOOSE v \in Vals : TRUE
CInit == /\ req = [q \in Reqs |-> [method |-> "M0", host |-> "M0", url |-> Own(q), hdr |-> Own(q), body |-> Own(q),
                                   ctx |-> InitCtx]]
         /\ hc = [o \in Objs |-> InitVal]
         /\ op = <<"init">> /\ nops = 0

(* httputil.CopyRequestTo(c, &req[d], &req[s]); d = s is allowed. *)
Copy(c, d, s) ==
    /\ req' = [req EXCEPT ![d] = [req[s] EXCEPT !.ctx = c]]
    /\ op' = <<"copy", c, d, s>>
    /\ UNCHANGED hc

(* The caller assigns a field of struct q. *)
SetScalar(q, f, v) == /\ req' = [req EXCEPT ![q][f] = v] /\ op' = <<"set", q, f, v>> /\ UNCHANGED hc
SetRef(q, f, o)    == /\ req' = [req EXCEPT ![q][f] = o] /\ op' = <<"setref", q, f, o>> /\ UNCHANGED hc
(* The caller writes into the header map that q refers to. *)
WriteHdr(q, v) == /\ hc' = [hc EXCEPT ![req[q].hdr] = v] /\ op' = <<"writehdr", q, v>> /\ UNCHANGED req

Do(o) == CASE o[1] = "copy"     -> Copy(o[2], o[3], o[4])
           [] o[1] = "set"      -> SetScalar(o[2], o[3], o[4])
           [] o[1] = "setref"   -> SetRef(o[2], o[3], o[4])
           [] o[1] = "writehdr" -> WriteHdr(o[2], o[3])

Ops == {<<"copy", c, d, s>> : c \in Ctxs, d \in Reqs, s \in Reqs}
       \cup {<<"set", q, f, v>> : q \in Reqs, f \in {"method", "host"}, v \in Methods}
       \cup {<<"setref", q, f, o>> : q \in Reqs, f \in {"url", "hdr", "body"}, o \in Objs}
       \cup {<<"writehdr", q, v>> : q \in Reqs, v \in Vals}

CNext == nops < MaxOps /\ nops' = nops + 1 /\ \E o \in Ops : Do(o)
CSpec == CInit /\ [][CNext]_cvars

(* What the caller sees: every struct, and for each the content of its map. *)
Obs == [q \in Reqs |-> [method |-> req[q].method, host |-> req[q].host, url |-> req[q].url, hdr |-> req[q].hdr,
                        body |-> req[q].body, ctx |-> req[q].ctx, hval |-> hc[req[q].hdr]]]

----------------------------------------------------------------------------
(* Properties. *)
CTypeOK == /\ \A q \in Reqs : req[q].url \in Objs /\ req[q].hdr \in Objs /\ req[q].body \in Objs /\ req[q].ctx \in Ctxs
           /\ \A o \in Objs : hc[o] \in Vals

IsCopy == op'[1] = "copy"

(* Every field but the context comes from src, the context is the given one, *)
(* nothing of dst's earlier content survives.                                *)
CopyIsWithContext == [][IsCopy => LET c == op'[2] d == op'[3] s == op'[4] IN
                           /\ req'[d].ctx = c
                           /\ \A f \in {"method", "host", "url", "hdr", "body"} : req'[d][f] = req[s][f]]_cvars

(* Only dst is written: src (unless it is dst) and all other structs, and all *)
(* objects, are as before.                                                    *)
OnlyDstWritten == [][IsCopy => /\ \A q \in Reqs \ {op'[3]} : req'[q] = req[q]
                               /\ hc' = hc]_cvars

(* src keeps its own context. *)
SrcContextKept == [][IsCopy /\ op'[3] # op'[4] => req'[op'[4]].ctx = req[op'[4]].ctx]_cvars

(* Shallow: after the copy dst and src refer to the same url, header map and  *)
(* body, so a later write into the map through one is seen through the other. *)
SharesObjects == [][IsCopy => \A f \in {"url", "hdr", "body"} : req'[op'[3]][f] = req'[op'[4]][f]]_cvars
SharedMapWrite == [][op'[1] = "writehdr" =>
                        \A q \in Reqs : req[q].hdr = req[op'[2]].hdr => hc'[req'[q].hdr] = op'[3]]_cvars

(* The struct itself is copied: assigning a field of dst afterwards does not  *)
(* change src.                                                                *)
StructIsCopied == [][op'[1] \in {"set", "setref"} => \A q \in Reqs \ {op'[2]} : req'[q] = req[q]]_cvars
=============================================================================
