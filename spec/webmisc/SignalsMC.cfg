SPECIFICATION SSpec
CONSTANTS
  Chans = {1, 2}
  SigNums <- AllSigNums
  LaterNums <- FewSigNums
  MaxOps = 5
INVARIANTS STypeOK ClassesDisjoint RegisteredIsClassified OneNotifyPerCall StopUndoes
CHECK_DEADLOCK FALSE
