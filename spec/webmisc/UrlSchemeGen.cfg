SPECIFICATION USpec
CONSTANTS
  MaxLen = 6
  Rests = {"host", "userinfo"}
INVARIANTS UEmit UTypeOK KindsDisjoint ConstantsValid CaseInsensitive ValidateIffScheme AsciiIsStricter ExactLength
CHECK_DEADLOCK FALSE
