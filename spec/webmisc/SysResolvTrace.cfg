SPECIFICATION TSpec
CONSTANTS
  AddrRanks = {0}
  ZoneRanks = {0}
  PortRanks = {0}
  MaxOps = 1000000
INVARIANTS RTypeOK
CHECK_DEADLOCK FALSE
