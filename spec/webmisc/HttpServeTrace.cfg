SPECIFICATION TSpec
CONSTANTS
  Handlers <- MCHandlers
  Requests <- MCRequests
  MaxMw = 0
  MaxReqs = 0
CHECK_DEADLOCK FALSE
