----------------------------- MODULE HttpServe -----------------------------
(* netutil/httputil: PlainTextHandler (handler.go), ServerHeaderMiddleware    *)
(* (srvhdrmw.go), HealthCheckHandler.                                         *)
(*                                                                            *)
(*   PlainTextHandler "is a simple handler that returns the value of the      *)
(*   underlying string with a "text/plain" content type.  If there is an      *)
(*   error during the response writing, it gets the logger from the context,  *)
(*   if any, and writes the error there at the debug level."                  *)
(*   ServerHeaderMiddleware "adds a Server HTTP header to all responses."     *)
(*                                                                            *)
(* One request through  mw_1( mw_2( ... PlainTextHandler(text))) with a       *)
(* recording http.ResponseWriter, step by step as the code does it:           *)
(*   every middleware, outermost first: Header().Add("Server", value) - the   *)
(*      values already there stay (Add, not Set) - then the inner handler,    *)
(*      exactly once, with the same writer and request;                       *)
(*   the handler: Header().Set("Content-Type", "text/plain") - replacing      *)
(*      whatever was there -, WriteHeader(200), one write of the whole text   *)
(*      (io.WriteString: WriteString if the writer has it, else Write), and   *)
(*      if that write fails one DEBUG record "writing plain-text response"    *)
(*      with the error under "err" on the logger of the request's context,    *)
(*      with the request's context; no logger in the context: nothing.        *)
(* The headers a client sees are those at WriteHeader time, so every header   *)
(* change must happen before it.                                              *)
(*                                                                            *)
(* A header set is a function Keys -> sequence of values (empty = absent).    *)
EXTENDS Integers, Sequences, FiniteSets

Keys == {"Content-Type", "Server", "X-Other"}
KeyCT == "Content-Type"
KeySrv == "Server"
PlainText == "text/plain"
LogMsg == "writing plain-text response"
KeyError == "err"                                \* slogutil.KeyError
HealthCheckText == <<"O", "K", "NL">>            \* HealthCheckHandler = "OK\n"

(* The handler (built once): h = [mws |-> sequence of Server values, outermost *)
(* first, text |-> a text id].  The request: r = [hdr0 |-> the writer's header *)
(* set before the call, wres |-> what the writer's write returns ("ok": all,   *)
(* nil; "short": fewer bytes and an error; "err0": 0 and an error), sw |->     *)
(* whether the writer implements io.StringWriter, logger |-> "none" (no logger *)
(* in the context), "debug" (logger enabled for DEBUG), "info" (logger enabled *)
(* from INFO only)].                                                           *)

WriteFails(r) == r.wres # "ok"

(* Big step: what one request does to the writer and the logger. *)
FinalHdr(h, r) == [k \in Keys |-> IF k = KeyCT THEN <<PlainText>>
                                   ELSE IF k = KeySrv THEN r.hdr0[k] \o h.mws
                                   ELSE r.hdr0[k]]
Predict(h, r) ==
    [hdr    |-> FinalHdr(h, r),
     events |-> << [t |-> "writeheader", code |-> 200, data |-> "", hdr |-> FinalHdr(h, r)],
                   [t |-> IF r.sw THEN "writestring" ELSE "write", code |-> 0, data |-> h.text, hdr |-> FinalHdr(h, r)] >>,
     logs   |-> IF WriteFails(r) /\ r.logger = "debug"
                  THEN << [level |-> "DEBUG", msg |-> LogMsg, key |-> KeyError, err |-> "werr", ctx |-> "req"] >>
                  ELSE << >>]

----------------------------------------------------------------------------
(* Small steps. *)
CONSTANTS Handlers,   \* set of h
          Requests    \* set of r

VARIABLES h, r,       \* the configuration
          pc, i,      \* "mw" with the index of the middleware that runs next, "set", "wh", "write", "log", "done"
          hdr,        \* the writer's header set
          events,     \* what the writer has been asked to do, each with the header set at that moment
          logs,       \* records the logger has received
          werr        \* whether the write failed

hvars == <<h, r, pc, i, hdr, events, logs, werr>>

HInit == /\ h \in Handlers /\ r \in Requests
         /\ pc = "mw" /\ i = 1 /\ hdr = r.hdr0 /\ events = <<>> /\ logs = <<>> /\ werr = FALSE

MwAdd == /\ pc = "mw" /\ i <= Len(h.mws)
         /\ hdr' = [hdr EXCEPT ![KeySrv] = Append(@, h.mws[i])]
         /\ i' = i + 1
         /\ UNCHANGED <<h, r, pc, events, logs, werr>>
Enter == /\ pc = "mw" /\ i > Len(h.mws) /\ pc' = "set"
         /\ UNCHANGED <<h, r, i, hdr, events, logs, werr>>
SetCT == /\ pc = "set" /\ hdr' = [hdr EXCEPT ![KeyCT] = <<PlainText>>] /\ pc' = "wh"
         /\ UNCHANGED <<h, r, i, events, logs, werr>>
WriteHeader == /\ pc = "wh"
               /\ events' = Append(events, [t |-> "writeheader", code |-> 200, data |-> "", hdr |-> hdr])
               /\ pc' = "write"
               /\ UNCHANGED <<h, r, i, hdr, logs, werr>>
Write == /\ pc = "write"
         /\ events' = Append(events, [t |-> IF r.sw THEN "writestring" ELSE "write", code |-> 0, data |-> h.text, hdr |-> hdr])
         /\ werr' = WriteFails(r)
         /\ pc' = "log"
         /\ UNCHANGED <<h, r, i, hdr, logs>>
Log == /\ pc = "log"
       /\ logs' = IF werr /\ r.logger = "debug"
                    THEN Append(logs, [level |-> "DEBUG", msg |-> LogMsg, key |-> KeyError, err |-> "werr", ctx |-> "req"])
                    ELSE logs
       /\ pc' = "done"
       /\ UNCHANGED <<h, r, i, hdr, events, werr>>

HNext == MwAdd \/ Enter \/ SetCT \/ WriteHeader \/ Write \/ Log
HSpec == HInit /\ [][HNext]_hvars

----------------------------------------------------------------------------
(* Lemmas. *)
(* The step-by-step run ends in what the big step says. *)
Refines == pc = "done" => [hdr |-> hdr, events |-> events, logs |-> logs] = Predict(h, r)

(* What the client sees: the header set at WriteHeader time has the content   *)
(* type, every Server value in order after the earlier ones, and is final.    *)
HeadersBeforeStatus == \A e \in 1..Len(events) :
    events[e].t = "writeheader" =>
        /\ events[e].hdr[KeyCT] = <<PlainText>>
        /\ events[e].hdr[KeySrv] = r.hdr0[KeySrv] \o h.mws
        /\ events[e].code = 200
        /\ (pc = "done" => events[e].hdr = hdr)

(* One WriteHeader, then one write of the whole text. *)
OnceEach == /\ Len(events) <= 2
            /\ (Len(events) >= 1 => events[1].t = "writeheader")
            /\ (Len(events) = 2 => events[2].t \in {"write", "writestring"} /\ events[2].data = h.text)
            /\ (pc = "done" => Len(events) = 2)

(* Logging iff the write failed and the context carries a logger that is     *)
(* enabled for DEBUG.                                                        *)
LogIffError == pc = "done" => (Len(logs) = 1 <=> (WriteFails(r) /\ r.logger = "debug"))
LogAtMostOnce == Len(logs) <= 1

(* Foreign headers are not touched; earlier Server values survive. *)
OthersUntouched == /\ hdr["X-Other"] = r.hdr0["X-Other"]
                   /\ \A j \in 1..Len(r.hdr0[KeySrv]) : j <= Len(hdr[KeySrv]) /\ hdr[KeySrv][j] = r.hdr0[KeySrv][j]
=============================================================================
