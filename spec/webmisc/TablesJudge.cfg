SPECIFICATION JSpec
INVARIANTS JEmit
CHECK_DEADLOCK FALSE
