SPECIFICATION FGSpec
CONSTANTS
  NMs = {1, 2, 3, 6, 7, 8}
  NewConnNMs = {6}
  RetIds = {1, 2}
  PanicIds = {1}
  MaxOps = 3
INVARIANTS FEmit FTypeOK ExactlyOnce NoCrossTalk ResultIsCallbacks UnsetPanics DefaultOnlyFromCtor
CHECK_DEADLOCK FALSE
