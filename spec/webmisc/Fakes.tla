------------------------------- MODULE Fakes -------------------------------
(* testutil/fakefs, fakeio, fakenet, fakeredis, fakeservice, faketime: fake   *)
(* implementations of interfaces for tests.  Every fake is a struct with one  *)
(* exported field OnXxx per method Xxx of the interface, and                  *)
(*     func (f *T) Xxx(args) (results) { return f.OnXxx(args) }               *)
(* The contract a test relies on:                                             *)
(*   - a call of Xxx calls OnXxx exactly once, with the same arguments (the   *)
(*     same slice, the same pointer, the same variadic elements), calls no    *)
(*     other callback, and returns OnXxx's results as they are;               *)
(*   - a panic of the callback passes through ("fill all methods that         *)
(*     shouldn't be called with panic("not implemented")");                   *)
(*   - a method whose callback was left unset panics (call of a nil func);    *)
(*   - fakeredis.NewConn "returns a new *Conn all methods of which panic",    *)
(*     with "unexpected call to fakeredis.Conn.Xxx(args)" (pointer receiver) *)
(*   - the fields are plain fields: a test may set and reset them between     *)
(*     calls, the method uses the value of the field at the time of the call. *)
(*                                                                            *)
(* A fake with nm methods: script[m] is what field m holds.                   *)
EXTENDS Integers, Sequences, FiniteSets

CONSTANTS NMs,       \* numbers of methods of the fake types (1 .. 8 in testutil)
          NewConnNMs,\* sizes for which a constructor with panicking defaults exists (fakeredis.NewConn: 6)
          RetIds,    \* identities of result tuples a callback may return
          PanicIds,  \* identities of panic values
          MaxOps

Sc(k, v) == [k |-> k, v |-> v]
Scripts == {Sc("unset", 0)} \cup {Sc("ret", x) : x \in RetIds} \cup {Sc("panic", p) : p \in PanicIds}

VARIABLES nm,        \* number of methods of this fake
          ctor,      \* how it was made: "zero" (&T{}), "newconn" (fakeredis.NewConn())
          script,
          ncb,       \* ncb[m]: how often callback m has run
          ncall,     \* ncall[m]: how often method m has been called while its callback was set by the test
          obs, nops
fvars == <<nm, ctor, script, ncb, ncall, obs, nops>>
Methods == 1..nm
(* long histories for small fakes, one step less for the big ones *)
Depth == IF nm <= 3 THEN MaxOps ELSE MaxOps - 1

NoObs == [cbs |-> <<>>, out |-> Sc("none", 0)]

FInit == /\ nm \in NMs
         /\ ctor \in IF nm \in NewConnNMs THEN {"zero", "newconn"} ELSE {"zero"}
         /\ script = [m \in Methods |-> IF ctor = "newconn" THEN Sc("default", 0) ELSE Sc("unset", 0)]
         /\ ncb = [m \in Methods |-> 0] /\ ncall = [m \in Methods |-> 0]
         /\ obs = NoObs /\ nops = 0

(* The test assigns field m. *)
Set(m, sc) == /\ script' = [script EXCEPT ![m] = sc]
              /\ obs' = NoObs
              /\ UNCHANGED <<nm, ctor, ncb, ncall>>

(* The code under test calls method m. *)
Call(m) ==
    LET sc == script[m] IN
    /\ IF sc.k = "unset"
         THEN obs' = [cbs |-> <<>>, out |-> Sc("nilpanic", 0)] /\ UNCHANGED <<ncb, ncall>>
         ELSE IF sc.k = "default"
         THEN obs' = [cbs |-> <<>>, out |-> Sc("defpanic", m)] /\ UNCHANGED <<ncb, ncall>>
         ELSE /\ obs' = [cbs |-> <<m>>, out |-> sc]
              /\ ncb' = [ncb EXCEPT ![m] = @ + 1] /\ ncall' = [ncall EXCEPT ![m] = @ + 1]
    /\ UNCHANGED <<nm, ctor, script>>

Do(o) == CASE o[1] = "set" -> Set(o[2], Sc(o[3], o[4])) [] o[1] = "call" -> Call(o[2])
Ops == {<<"set", m, sc.k, sc.v>> : m \in Methods, sc \in Scripts} \cup {<<"call", m>> : m \in Methods}

FNext == nops < Depth /\ nops' = nops + 1 /\ \E o \in Ops : Do(o)
FSpec == FInit /\ [][FNext]_fvars

----------------------------------------------------------------------------
(* Properties. *)
FTypeOK == \A m \in Methods : script[m] \in Scripts \cup {Sc("default", 0)}

(* exactly once per call, never for another method's call *)
ExactlyOnce == \A m \in Methods : ncb[m] = ncall[m]
NoCrossTalk == Len(obs.cbs) <= 1
(* results and panics are the callback's *)
ResultIsCallbacks == obs.out.k \in {"ret", "panic"} => Len(obs.cbs) = 1 /\ script[obs.cbs[1]] = obs.out
(* an unset callback never returns normally *)
UnsetPanics == obs.out.k = "nilpanic" => obs.cbs = <<>>
(* NewConn's defaults are replaced only by the test *)
DefaultOnlyFromCtor == \A m \in Methods : script[m].k = "default" => ctor = "newconn"
=============================================================================
