--------------------------- MODULE UrlSchemeGen ---------------------------
(* Generator: one line per enumerated URL with what the specification says    *)
(* the five functions return.                                                 *)
EXTENDS UrlScheme, Json, CSV

UEmit == CSVWrite("%1$s", <<ToJson([isnil |-> isnil, scheme |-> s, rest |-> rest,
                                     ishttp |-> IsHTTPScheme(s), isgrpc |-> IsGRPCScheme(s),
                                     ishttpa |-> IsKindA("http", s), isgrpca |-> IsKindA("grpc", s),
                                     vfile |-> Validate("file", U), vhttp |-> Validate("http", U),
                                     vgrpc |-> Validate("grpc", U),
                                     vfilea |-> ValidateA("file", U), vhttpa |-> ValidateA("http", U),
                                     vgrpca |-> ValidateA("grpc", U)])>>, "url_vectors.ndjson")
=============================================================================
