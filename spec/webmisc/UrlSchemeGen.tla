--------------------------- MODULE UrlSchemeGen ---------------------------
(* Generator: one line per enumerated URL with what the specification says    *)
(* the five functions return.                                                 *)
EXTENDS UrlScheme, Json, CSV

UEmit == CSVWrite("%1$s", <<ToJson([isnil |-> isnil, scheme |-> s, rest |-> rest,
                                     ishttp |-> IsHTTPScheme(s), isgrpc |-> IsGRPCScheme(s),
                                     vfile |-> Validate("file", U), vhttp |-> Validate("http", U),
                                     vgrpc |-> Validate("grpc", U)])>>, "url_vectors.ndjson")
=============================================================================
