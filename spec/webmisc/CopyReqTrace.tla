---------------------------- MODULE CopyReqTrace ----------------------------
(* Trace validation: seeded random real histories (pools of 2..6 request      *)
(* structs, hundreds of copies and caller writes) logged as                   *)
(*   world nreq nobj ctx hval      a new set of requests                      *)
(*   step  op obs                  one operation and what every struct shows  *)
(* must be behaviours of CopyReq.tla.                                         *)
EXTENDS CopyReq, Json, TLC

Trace == ndJsonDeserialize("copyreq_trace.ndjson")

VARIABLES l, n       \* cursor; number of request structs of the current world
tvars == <<cvars, l, n>>
Ev == Trace[l]

TInit == CInit /\ l = 1 /\ n = NReq

TWorld == /\ Ev.ev = "world"
          /\ n' = Ev.nreq
          /\ req' = [q \in 1..Ev.nreq |-> [method |-> "M0", host |-> "M0", url |-> ((q - 1) % Ev.nobj) + 1,
                                            hdr |-> ((q - 1) % Ev.nobj) + 1, body |-> ((q - 1) % Ev.nobj) + 1, ctx |-> Ev.ctx]]
          /\ hc' = [o \in 1..Ev.nobj |-> Ev.hval]
          /\ op' = <<"init">>

ObsNext == [q \in 1..n |-> [method |-> req'[q].method, host |-> req'[q].host, url |-> req'[q].url, hdr |-> req'[q].hdr,
                            body |-> req'[q].body, ctx |-> req'[q].ctx, hval |-> hc'[req'[q].hdr]]]

TStep == /\ Ev.ev = "step"
         /\ Do(Ev.op)
         /\ Len(Ev.obs) = n
         /\ \A q \in 1..n : Ev.obs[q] = ObsNext[q]
         /\ UNCHANGED n

TNext == /\ l <= Len(Trace) /\ l' = l + 1 /\ (TWorld \/ TStep) /\ UNCHANGED nops
TSpec == TInit /\ [][TNext]_tvars
=============================================================================
