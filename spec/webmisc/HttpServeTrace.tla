--------------------------- MODULE HttpServeTrace ---------------------------
(* Trace validation: seeded random real requests (chains of 0..5 middlewares, *)
(* arbitrary header sets, texts up to 100 kB, writers that fail in every way) *)
(* logged as  serve h r obs ; every line must be Predict(h, r).               *)
EXTENDS HttpServeMC, Json, TLC

Trace == ndJsonDeserialize("serve_trace.ndjson")

VARIABLE l
Ev == Trace[l]

Norm(x) == [k \in Keys |-> x[k]]
NormEv(e) == [t |-> e.t, code |-> e.code, data |-> e.data, hdr |-> Norm(e.hdr)]
LineOK(e) ==
    LET rr == [hdr0 |-> Norm(e.r.hdr0), wres |-> e.r.wres, sw |-> e.r.sw, logger |-> e.r.logger]
        p == Predict(e.h, rr)
    IN  /\ Norm(e.obs.hdr) = p.hdr
        /\ e.obs.nextra = 0
        /\ Len(e.obs.events) = Len(p.events)
        /\ \A j \in 1..Len(p.events) : NormEv(e.obs.events[j]) = p.events[j]
        /\ e.obs.logs = p.logs

(* The step variables of HttpServe.tla are not used here and stay fixed. *)
TInit == /\ l = 1
         /\ h = 0 /\ r = 0 /\ pc = "trace" /\ i = 0 /\ hdr = 0 /\ events = <<>> /\ logs = <<>> /\ werr = FALSE
TNext == l <= Len(Trace) /\ LineOK(Ev) /\ l' = l + 1 /\ UNCHANGED hvars
TSpec == TInit /\ [][TNext]_<<l, hvars>>
=============================================================================
