---------------------------- MODULE TablesJudge ----------------------------
(* T for the tables: the harness records the tables of the tree under test -  *)
(* every string constant of package httphdr (read from the source of the tree *)
(* the harness was built from), the routes RoutePprof registered on a         *)
(* recording Router, the other constants - and TLC judges them row by row     *)
(* against Tables.tla, writing one verdict per row; the orchestrator turns    *)
(* every bad verdict into a mismatch keyed by the constant.                   *)
(*   hdr   name value(chars)                                                  *)
(*   route idx method path handler                                            *)
(*   const name value                                                         *)
(*   rootfs name valid os got    osutil.RootDirFS().Open(name) against the    *)
(*                               operating system's own view of "/" + name    *)
EXTENDS Tables, Json, CSV, TLC

Rows == ndJsonDeserialize("tables_trace.ndjson")
HdrRows == SelectSeq(Rows, LAMBDA x : x.kind = "hdr")
RouteRows == SelectSeq(Rows, LAMBDA x : x.kind = "route")
ConstRows == SelectSeq(Rows, LAMBDA x : x.kind = "const")

VARIABLE l
JInit == l = 1
JNext == l <= Len(Rows) /\ l' = l + 1
JSpec == JInit /\ [][JNext]_l

Verdict(row) ==
    CASE row.kind = "hdr" ->
            LET v == HdrVerdict(row, HdrRows) IN
            [kind |-> "hdr", name |-> row.name, canon |-> v.canon,
             ok |-> v.canonical /\ v.nonempty /\ v.valid /\ ~v.dupvalue /\ ~v.dupname,
             why |-> IF ~v.nonempty THEN "empty header name"
                     ELSE IF ~v.valid THEN "not a valid header field name"
                     ELSE IF ~v.canonical THEN "not in canonical MIME header form"
                     ELSE IF v.dupvalue THEN "another constant has the same header name"
                     ELSE IF v.dupname THEN "declared twice" ELSE ""]
      [] row.kind = "route" ->
            LET got == R(row.method, row.path, row.handler)
                dup == Cardinality({j \in 1..Len(RouteRows) : RouteRows[j].method = row.method /\ RouteRows[j].path = row.path}) > 1 IN
            [kind |-> "route", name |-> row.method \o " " \o row.path, canon |-> <<>>,
             ok |-> got \in RouteSet /\ ~dup,
             why |-> IF dup THEN "pattern registered twice (http.ServeMux panics)"
                     ELSE IF got \notin RouteSet THEN "not a route of the table: " \o row.method \o " " \o row.path \o " -> " \o row.handler
                     ELSE ""]
      [] row.kind = "const" ->
            [kind |-> "const", name |-> row.name, canon |-> <<>>,
             ok |-> row.name \in ConstNames /\ ConstValue(row.name) = row.value,
             why |-> IF row.name \notin ConstNames THEN "unknown constant"
                     ELSE IF ConstValue(row.name) # row.value THEN "should be " \o ConstValue(row.name) ELSE ""]
      [] row.kind = "rootfs" ->
            [kind |-> "rootfs", name |-> row.name, canon |-> <<>>,
             ok |-> row.got = RootFSExpect(row.valid, row.os),
             why |-> IF row.got # RootFSExpect(row.valid, row.os) THEN "should be " \o RootFSExpect(row.valid, row.os) \o ", is " \o row.got ELSE ""]

(* After the last row: what the tables demand but the recording lacks. *)
Missing == [kind |-> "missing",
            consts |-> ConstNames \ {ConstRows[j].name : j \in 1..Len(ConstRows)},
            routes |-> {rt \in RouteSet : ~\E j \in 1..Len(RouteRows) :
                                       R(RouteRows[j].method, RouteRows[j].path, RouteRows[j].handler) = rt}]

JEmit == CSVWrite("%1$s", <<IF l <= Len(Rows) THEN ToJson([idx |-> l, v |-> Verdict(Rows[l])]) ELSE ToJson([idx |-> 0, v |-> Missing])>>,
                  "tables_verdicts.ndjson")
=============================================================================
