SPECIFICATION TSpec
CONSTANTS
  MaxLen = 6
  Rests = {"host"}
CHECK_DEADLOCK FALSE
