---------------------------- MODULE HttpServeMC ----------------------------
(* Constants for HttpServe.tla (a .cfg file cannot hold records).             *)
EXTENDS HttpServe

CONSTANTS MaxMw,       \* longest middleware chain
          MaxReqs      \* requests per generated vector (generator only)

SrvVals == {"s1", "s2", ""}
Chains == UNION {[1..n -> SrvVals] : n \in 0..MaxMw}
Texts == {"empty", "ok", "long"}
MCHandlers == [mws : Chains, text : Texts]

Hdr(ct, srv, other) == [k \in Keys |-> IF k = KeyCT THEN ct ELSE IF k = KeySrv THEN srv ELSE other]
HdrInits == { Hdr(<<>>, <<>>, <<>>),
              Hdr(<<"application/json", "x">>, <<>>, <<"keep">>),
              Hdr(<<>>, <<"pre">>, <<"keep", "me">>),
              Hdr(<<PlainText>>, <<"pre1", "pre2">>, <<>>) }
MCRequests == [hdr0 : HdrInits, wres : {"ok", "short", "err0"}, sw : BOOLEAN, logger : {"none", "debug", "info"}]
=============================================================================
