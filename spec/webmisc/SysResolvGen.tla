---------------------------- MODULE SysResolvGen ----------------------------
(* Generator for SysResolv.tla:                                               *)
(*   parse:  every address shape x default port with the predicted result;    *)
(*   cmp:    every pair of AddrPorts of the small domain with the sign;       *)
(*   cache:  every sequence of New / Refresh / Addrs up to MaxOps with the    *)
(*           observation per step (all prefixes).                             *)
EXTENDS SysResolv, Json, CSV

VARIABLES mode, item, rhist
ggvars == <<rvars, mode, item, rhist>>

GInit == /\ RInit /\ rhist = <<>>
         /\ \/ mode = "parse" /\ item \in {<<sh, d>> : sh \in Shapes, d \in DefPorts}
            \/ mode = "cmp" /\ item \in APs \X APs
            \/ mode = "cache" /\ item = <<>>
GNext == /\ mode = "cache" /\ nops < MaxOps /\ nops' = nops + 1
         /\ \E o \in Ops : Do(o) /\ rhist' = Append(rhist, [op |-> o, obs |-> obs'])
         /\ UNCHANGED <<mode, item>>
GSpec == GInit /\ [][GNext]_ggvars

REmit == CSVWrite("%1$s",
    << IF mode = "parse" THEN ToJson([mode |-> mode, shape |-> item[1], def |-> item[2],
                                      linux |-> Parse(item[1], item[2], TRUE), other |-> Parse(item[1], item[2], FALSE),
                                      doc |-> ParseDoc(item[1], item[2], TRUE)])
       ELSE IF mode = "cmp" THEN ToJson([mode |-> mode, x |-> item[1], y |-> item[2], sign |-> Cmp(item[1], item[2])])
       ELSE ToJson([mode |-> mode, steps |-> rhist]) >>,
    "sysresolv_vectors.ndjson")
=============================================================================
