----------------------------- MODULE SignalTrace -----------------------------
(* Trace validation for service.SignalHandler: the event log of real runs     *)
(* (new / send / call / ret, recorded with up to 12 services, more kinds of   *)
(* signals and trailing signals arriving in the middle of the shutdown) must  *)
(* be a behaviour of SignalHandler.tla.  "send" is the notifier putting a     *)
(* signal into the channel, "add" is an Add call with the services passed,    *)
(* "handle" the call of Handle, "call i" is service i's Shutdown being invoked, *)
(* "ret" is Handle returning its status.  The handler taking a signal out of  *)
(* the channel is not observable: Receive is a silent step, so acceptance is  *)
(* judged by the high-water mark of the trace index (TLC register 1).         *)
EXTENDS SignalHandler, Json, TLC

Trace == ndJsonDeserialize("signal_trace.ndjson")

VARIABLE l
tvars == <<svars, l>>

Ev == Trace[l]

TInit == /\ SNew(0, <<>>, <<>>, <<>>) /\ script = <<>>
         /\ l = 1
         /\ TLCSet(1, 0)

Mark(k) == TLCSet(1, IF TLCGet(1) < k THEN k ELSE TLCGet(1))

TNewS == /\ Ev.ev = "new"
         /\ n' = Ev.n /\ outcome' = Ev.outcome
         /\ sent' = 0 /\ chan' = <<>> /\ phase' = "registering" /\ idx' = 0 /\ failed' = FALSE
         /\ calls' = [i \in 1..Ev.n |-> 0] /\ order' = <<>> /\ status' = -1
         /\ regOwn' = <<>> /\ regLen' = 0 /\ regAlias' = FALSE
         /\ stype' = Ev.stype
         /\ UNCHANGED <<script, plan, plan0, mem>>
(* Add(svcs...): ids are the services passed, as they were when Add was called. *)
TAdd == Ev.ev = "add" /\ AddGroup(Ev.ids)
THandle == Ev.ev = "handle" /\ StartHandle
TSend == Ev.ev = "send" /\ Send(Ev.sig)
TCall == Ev.ev = "call" /\ Ev.i \in 1..n /\ ShutdownOne(Ev.i)
TRet  == Ev.ev = "ret" /\ Return /\ status' = Ev.status

TLogged == /\ l <= Len(Trace)
           /\ (TNewS \/ TAdd \/ THandle \/ TSend \/ TCall \/ TRet)
           /\ l' = l + 1
           /\ Mark(l)
TSilent == Receive /\ UNCHANGED l

TNext == TLogged \/ TSilent
TSpec == TInit /\ [][TNext]_tvars

(* The properties, over the recorded behaviour. *)
TAtMostOnce == AtMostOnce
TReverseOrder == ReverseOrder
TAtReturn == AtReturn
TRegistered == (phase # "registering") => (RegValue = Ident(n))
(* ShutdownSent of SignalHandler.tla refers to the script; here: nothing is   *)
(* called while the handler still waits.                                      *)
TNothingWhileWaiting == phase = "waiting" => order = <<>>

Post == PrintT("HWM " \o ToString(TLCGet(1)))
=============================================================================
