SPECIFICATION SGSpec
CONSTANTS
  MaxServices = 3
  Outcomes = {"nil", "err", "panic"}
  PlainKinds = {"nil", "err", "panic"}
  FullUpTo = 100
  PanicKinds = {"panic", "panicerr", "panicdl", "panicnil"}
  OtherSigs = {"HUP", "USR1"}
  ShutSigs = {"INT", "QUIT", "TERM"}
  MaxPre = 2
  TrailSigs = {"HUP", "INT", "TERM"}
  MaxTrail = 1
  PanicAborts = FALSE
  RegSplits = {"each"}
  RegBufs = {"fresh"}
  RegAfters = {"keep"}
  RegEmpties = {FALSE}
  AddAliases = FALSE
  STypes = {"ptr"}
  TypesFullUpTo = 100
  DedupByValue = FALSE
INVARIANTS Registered SEmit AtReturn ReverseOrder
CHECK_DEADLOCK FALSE
