----------------------------- MODULE RefreshTrace -----------------------------
(* Trace validation for service.RefreshWorker: the abstracted event log of    *)
(* real runs (up to 40 ticks, random outcomes, Shutdown while the worker is   *)
(* parked / right after Start / while a loop refresh is still in flight) must *)
(* be a behaviour of RefreshWorker.tla.  Every event is one action of the     *)
(* spec with the logged arguments; ticks are DeliverTick (the driver hands    *)
(* them to a parked worker), so a tick taken after done was closed - a        *)
(* refresh cycle after Shutdown - has no matching action and is rejected.     *)
(* The loop observing done (SeeDone) is unobservable and never needed.        *)
EXTENDS RefreshWorker, Json, TLC

Trace == ndJsonDeserialize("refresh_trace.ndjson")

VARIABLE l
tvars == <<wvars, l>>

Ev == Trace[l]

TInit == WNewState(FALSE) /\ l = 1

TNewW == /\ Ev.ev = "new"
         /\ ros' = Ev.ros /\ sctx' = (IF Ev.canc THEN "cancelled" ELSE "live") /\ extra' = 0 /\ lp' = "ask" /\ sp' = "none" /\ done' = FALSE
         /\ nnow' = 0 /\ nd' = 0 /\ askedWith' = 0 /\ waitD' = 0
         /\ timer' = "none" /\ timerD' = 0 /\ fires' = 0 /\ ticks' = 0
         /\ refs' = <<>> /\ lerr' = 0 /\ handled' = <<>> /\ result' = -1 /\ ferr' = 0
         /\ tbd' = 0 /\ trig' = "none"

(* UntilNext: asked with the clock's current time, read after the last        *)
(* refresh; every context the loop used has been cancelled by now.            *)
TAsk == Ev.ev = "ask" /\ AskSchedule /\ Ev.fresh /\ Ev.canc /\ Ev.d = nd'
(* After: the argument is the schedule's latest answer. *)
TSleep == Ev.ev = "sleep" /\ Sleep /\ Ev.d = timerD'
TTick == Ev.ev = "tick" /\ DeliverTick
TRefresh == /\ Ev.ev = "refresh"
            /\ \/ Ev.who = "loop" /\ Refresh(Ev.out)
               \/ Ev.who = "final" /\ FinalRefresh(Ev.out)
            /\ Ev.cons /\ Ev.live = refs'[Len(refs')].live
            /\ Ev.k = Len(refs')
THandle == Ev.ev = "handle" /\ HandleError /\ Ev.err = handled'[Len(handled')]
TCancel == Ev.ev = "cancel" /\ CancelStart
TShutdown == Ev.ev = "shutdown" /\ Shutdown
(* Shutdown called again: whether it panics or returns is free ("ret2"), but  *)
(* no refresh event can follow - no action would match it.                    *)
TShutdownAgain == Ev.ev = "shutdown2" /\ ShutdownAgain
TRetAgain == Ev.ev = "ret2" /\ sp = "returned" /\ extra > 0 /\ UNCHANGED wvars
TRet == Ev.ev = "ret" /\ ShutdownReturn /\ Ev.res = result' /\ Ev.canc

TNext == /\ l <= Len(Trace)
         /\ l' = l + 1
         /\ (TNewW \/ TAsk \/ TSleep \/ TTick \/ TRefresh \/ THandle \/ TCancel \/ TShutdown \/ TRet \/ TShutdownAgain \/ TRetAgain)
TSpec == TInit /\ [][TNext]_tvars
=============================================================================
