SPECIFICATION WGSpec
CONSTANTS
  MaxTicks = 4
  ROSChoices = {TRUE, FALSE}
  RefOutcomes = {"nil", "err"}
  AllowTBD = FALSE
INVARIANTS WEmit OneRefreshPerTick ErrorsHandledOnce ScheduleConsulted SequentialNoRefreshAfterShutdown ShutdownResult
CHECK_DEADLOCK FALSE
