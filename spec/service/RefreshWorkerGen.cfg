SPECIFICATION WGSpec
CONSTANTS
  MaxTicks = 4
  ROSChoices = {TRUE, FALSE}
  RefOutcomes = {"nil", "err", "ctxerr", "wctxerr", "cause"}
  CtxKinds = {"ctxerr", "wctxerr", "cause"}
  CloseLate = FALSE
  ExtraRefreshes = FALSE
  MaxExtra = 2
  ExtraChoices = {0, 2}
  StopOnCancel = FALSE
  SctxInit = {"live", "cancelled"}
  CancelUpTo = 2
  AllowTBD = FALSE
INVARIANTS WEmit OneRefreshPerTick ErrorsHandledOnce ScheduleConsulted SequentialNoRefreshAfterShutdown DoneClosedFirst WindowNeverTicks StopsOnlyOnShutdown ShutdownResult
CHECK_DEADLOCK FALSE
