SPECIFICATION WGSpec
CONSTANTS
  MaxTicks = 4
  ROSChoices = {TRUE, FALSE}
  RefOutcomes = {"nil", "err"}
  CloseLate = FALSE
  AllowTBD = FALSE
INVARIANTS WEmit OneRefreshPerTick ErrorsHandledOnce ScheduleConsulted SequentialNoRefreshAfterShutdown DoneClosedFirst WindowNeverTicks ShutdownResult
CHECK_DEADLOCK FALSE
