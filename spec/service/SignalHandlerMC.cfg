SPECIFICATION SSpec
CONSTANTS
  MaxServices = 4
  Outcomes = {"nil", "err", "panic"}
  PlainKinds = {"nil", "err", "panic"}
  FullUpTo = 100
  PanicKinds = {"panic", "panicerr", "panicdl", "panicnil"}
  OtherSigs = {"HUP", "USR1"}
  ShutSigs = {"INT", "QUIT", "TERM"}
  MaxPre = 2
  TrailSigs = {"HUP", "INT", "TERM"}
  MaxTrail = 1
  PanicAborts = FALSE
  RegSplits = {"each"}
  RegBufs = {"fresh"}
  RegAfters = {"keep"}
  RegEmpties = {FALSE}
  AddAliases = FALSE
  STypes = {"ptr"}
  TypesFullUpTo = 100
  DedupByValue = FALSE
INVARIANTS Registered STypeOK AtMostOnce NothingBeforeShutdownSignal ReverseOrder AtReturn StatusOnlyAtReturn
PROPERTIES LaterSignalsChangeNothing EventuallyReturns
CHECK_DEADLOCK FALSE
