------------------------- MODULE SignalHandlerGen -------------------------
(* Generator: every complete behaviour of SignalHandler (numbers of services  *)
(* x outcome vectors x signal scripts x positions at which trailing signals   *)
(* arrive during the shutdown) with the predicted call order and status.      *)
EXTENDS SignalHandler, Json, CSV

VARIABLE shist
sgvars == <<svars, shist>>

SGInit == SInit /\ shist = <<>>
SGNext == \/ RegStep /\ UNCHANGED shist                   \* the plan itself is emitted
          \/ SendNext /\ shist' = Append(shist, <<"send", script[sent + 1]>>)
          \/ Receive /\ shist' = Append(shist, <<"recv", Head(chan)>>)
          \/ \E i \in -1..n : ShutdownOne(i) /\ shist' = Append(shist, <<"call", i>>)
          \/ Return /\ shist' = Append(shist, <<"ret", status'>>)
SGSpec == SGInit /\ [][SGNext]_sgvars

Complete == phase = "returned" /\ sent = Len(script)

SEmit == ~Complete
         \/ CSVWrite("%1$s", <<ToJson([n |-> n, outcome |-> outcome, stype |-> stype, adds |-> plan0, script |-> script, events |-> shist,
                                         order |-> order, status |-> status])>>, "signal_vectors.ndjson")
=============================================================================
