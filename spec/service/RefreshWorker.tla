--------------------------- MODULE RefreshWorker ---------------------------
(* service.RefreshWorker (service/refreshworker.go).  Two processes:          *)
(*                                                                            *)
(*  - the loop goroutine started by Start (`refreshInALoop`):                  *)
(*      waitDur := schedule.UntilNext(clock.Now())             AskSchedule    *)
(*      for { select {                                                        *)
(*        case <-done: return                                  SeeDone        *)
(*        case <-clock.After(waitDur):                         Sleep, Tick    *)
(*          err := w.refresh(ctx)                              Refresh        *)
(*          if err != nil { errHdlr.Handle(ctx, err) }         HandleError    *)
(*          waitDur = schedule.UntilNext(clock.Now())          AskSchedule    *)
(*      }}                                                                    *)
(*  - the caller of Shutdown: close(done); if RefreshOnShutdown { err =       *)
(*    w.refresh(ctx); wrap }                 Shutdown, FinalRefresh, ShutdownReturn *)
(*                                                                            *)
(* w.refresh = contextCons.New(parent); defer cancel(); refr.Refresh(ctx) is  *)
(* one action; its record says which parent the constructor was given, that   *)
(* the refresher got the constructor's context and that it was still live.    *)
(*                                                                            *)
(* Environment: clock (every Now() returns a fresh time, identified by its    *)
(* number), schedule (every UntilNext returns a fresh duration, identified by *)
(* its number), timers (Fire makes the channel returned by the last After     *)
(* ready), the refresher (outcome "nil" or a KIND of error: "err" plain,      *)
(* "ctxerr" = the refresh context's own ctx.Err() returned after that context *)
(* became done DURING the refresh - the worker's refresh timeout fired, or    *)
(* Shutdown's context expired while the final refresh ran -, "wctxerr" the    *)
(* same wrapped with %w, "cause" = context.Cause(ctx).  The kind is data the  *)
(* code might be tempted to inspect (errors.Is against the context it made);  *)
(* C18 does not depend on it: every error of a periodic refresh goes to the   *)
(* ErrorHandler, the final refresh's error is Shutdown's.  The k-th Refresh   *)
(* fails with error number k).                                                *)
(*                                                                            *)
(* Go's select picks at random when both `done` and the timer channel are     *)
(* ready: TickBeatsDone is that branch - what the code does.  Whether such a  *)
(* refresh is "after Shutdown" is not settled by C18; conformance drivers     *)
(* deliver ticks only with DeliverTick (the worker is parked in select and    *)
(* done is open), so they never provoke it.                                   *)
EXTENDS Integers, Sequences

CONSTANTS MaxTicks,     \* bound on the number of timer firings (model checking)
          ROSChoices,   \* values of RefreshOnShutdown chosen in Init
          RefOutcomes,  \* "nil" and the error kinds
          AllowTBD,     \* FALSE: the sequential driver (no Fire once done is closed)
          SctxInit,     \* initial states of the Start context: subset of {"live", "cancelled"}
          StopOnCancel, \* FALSE = the code as it is; TRUE = a loop that also returns when the Start context is
                        \* done (`case <-ctx.Done(): return`), kept to show what the Start-context scenarios are for
          MaxExtra,     \* Shutdown may be called up to this many times more after it has returned
          ExtraRefreshes, \* FALSE = requirement; TRUE = a repeated Shutdown that runs the RefreshOnShutdown branch
                        \* again (close(done) guarded by a sync.Once, the refresh not), kept for demonstration
          CloseLate     \* FALSE = the code as it is (`close(w.done)` first); TRUE = a Shutdown that closes
                        \* done only when it returns (`defer close(w.done)`), kept to show on the design
                        \* what the window check is for

VARIABLES ros,       \* Go: w.refrOnShutdown
          extra,     \* number of Shutdown calls made after the first one returned
          sctx,      \* the context passed to Start: "live" or "cancelled" (environment: a start-up timeout
                     \* context is cancelled once Start has returned; it may even be cancelled already)
          lp,        \* loop goroutine: "ask", "sleep", "waiting", "refresh", "handle", "stopped"
          sp,        \* Shutdown caller: "none", "final", "infinal" (final refresh in flight), "returning", "returned"
          done,      \* Go: w.done is closed
          nnow,      \* number of clock.Now() calls = id of the latest time
          nd,        \* number of schedule.UntilNext calls = id of the latest answer
          askedWith, \* time id passed to the latest UntilNext
          waitD,     \* Go: waitDur (a duration id)
          timer,     \* channel returned by the latest After: "none", "pending", "fired"
          timerD,    \* duration id passed to the latest After
          fires,     \* number of Fire steps
          ticks,     \* timer values received by the loop
          refs,      \* sequence of refresh records, see Ref
          lerr,      \* error (refresh number) the loop is about to hand over, 0 = none
          handled,   \* sequence of errors handed to the ErrorHandler
          result,    \* Shutdown's result: -1 not returned, 0 nil, k>0 wraps the error of refresh k
          ferr,      \* error of the final refresh, 0 = none
          tbd,       \* number of TickBeatsDone steps
          trig       \* what started the refresh in progress: "tick", "tbd", or "late" = a tick taken after
                     \* Shutdown was called with done still open ("none" when no loop refresh is starting)

wvars == <<ros, sctx, extra, lp, sp, done, nnow, nd, askedWith, waitD, timer, timerD, fires, ticks,
           refs, lerr, handled, result, ferr, tbd, trig>>

(* The loop hands the START context to the constructor for every refresh     *)
(* (`w.contextCons.New(ctx)`); Start's context plays no other role.  When the *)
(* application cancels it (a start-up timeout, say) the constructor receives  *)
(* a cancelled parent and the refresher a context that is already done        *)
(* (live = FALSE) - that is passed through; the worker itself must go on:     *)
(* one Refresh per tick until Shutdown, whatever happens to that context.     *)
(*                                                                            *)
(* who: "loop" (constructor given Start's context) or "final" (Shutdown's);   *)
(* cons: the refresher received the context the constructor returned for this *)
(* very refresh; live: not cancelled yet when Refresh was called; out: the    *)
(* refresher's outcome; afterDone: done was already closed when it started;   *)
(* afterShutdown: Shutdown had already been called; trig: what led to it      *)
(* ("none" for the final refresh).                                            *)
Ref(who, out) == [who |-> who, cons |-> TRUE, live |-> (who = "final" \/ sctx = "live"), out |-> out, afterDone |-> done,
                  afterShutdown |-> (sp # "none"),
                  trig |-> IF who = "loop" THEN trig ELSE "none"]

WNewState(r) ==
    /\ ros = r /\ sctx \in SctxInit /\ extra = 0 /\ lp = "ask" /\ sp = "none" /\ done = FALSE
    /\ nnow = 0 /\ nd = 0 /\ askedWith = 0 /\ waitD = 0
    /\ timer = "none" /\ timerD = 0 /\ fires = 0 /\ ticks = 0
    /\ refs = <<>> /\ lerr = 0 /\ handled = <<>> /\ result = -1 /\ ferr = 0 /\ tbd = 0 /\ trig = "none"

WInit == \E r \in ROSChoices : WNewState(r)

----------------------------------------------------------------------------
(* The loop goroutine. *)
(* `schedule.UntilNext(clock.Now())` *)
AskSchedule ==
    /\ lp = "ask"
    /\ nnow' = nnow + 1 /\ askedWith' = nnow + 1
    /\ nd' = nd + 1 /\ waitD' = nd + 1
    /\ lp' = "sleep"
    /\ UNCHANGED <<ros, sctx, extra, sp, done, timer, timerD, fires, ticks, refs, lerr, handled, result, ferr, tbd, trig>>

(* `clock.After(waitDur)`, evaluated on entering the select. *)
Sleep ==
    /\ lp = "sleep"
    /\ timer' = "pending" /\ timerD' = waitD
    /\ lp' = "waiting"
    /\ UNCHANGED <<ros, sctx, extra, sp, done, nnow, nd, askedWith, waitD, fires, ticks, refs, lerr, handled, result, ferr, tbd, trig>>

TickEffect ==
    /\ lp' = "refresh" /\ timer' = "none" /\ ticks' = ticks + 1
    /\ UNCHANGED <<ros, sctx, extra, sp, done, nnow, nd, askedWith, waitD, timerD, refs, lerr, handled, result, ferr>>

(* The select takes the timer branch. *)
TickKind == IF sp = "none" THEN "tick" ELSE "late"
Tick == lp = "waiting" /\ timer = "fired" /\ ~done /\ TickEffect /\ trig' = TickKind /\ UNCHANGED <<fires, tbd>>
TickBeatsDone == /\ AllowTBD
                 /\ lp = "waiting" /\ timer = "fired" /\ done /\ TickEffect
                 /\ tbd' = tbd + 1 /\ trig' = "tbd" /\ UNCHANGED fires
(* Only with StopOnCancel: the select has a branch for the Start context. *)
SeeStartCtxDone ==
    /\ StopOnCancel
    /\ lp = "waiting" /\ sctx = "cancelled"
    /\ lp' = "stopped"
    /\ UNCHANGED <<ros, sctx, extra, sp, done, nnow, nd, askedWith, waitD, timer, timerD, fires, ticks, refs, lerr, handled, result, ferr, tbd, trig>>

(* The select takes the done branch. *)
SeeDone ==
    /\ lp = "waiting" /\ done
    /\ lp' = "stopped"
    /\ UNCHANGED <<ros, sctx, extra, sp, done, nnow, nd, askedWith, waitD, timer, timerD, fires, ticks, refs, lerr, handled, result, ferr, tbd, trig>>

(* `err := w.refresh(ctx)` in the loop. *)
Refresh(out) ==
    /\ lp = "refresh" /\ out \in RefOutcomes
    /\ refs' = Append(refs, Ref("loop", out))
    /\ IF out # "nil" THEN lerr' = Len(refs) + 1 /\ lp' = "handle"
                      ELSE lerr' = 0 /\ lp' = "ask"
    /\ trig' = "none"
    /\ UNCHANGED <<ros, sctx, extra, sp, done, nnow, nd, askedWith, waitD, timer, timerD, fires, ticks, handled, result, ferr, tbd>>

(* `w.errHdlr.Handle(ctx, err)` *)
HandleError ==
    /\ lp = "handle"
    /\ handled' = Append(handled, lerr)
    /\ lerr' = 0
    /\ lp' = "ask"
    /\ UNCHANGED <<ros, sctx, extra, sp, done, nnow, nd, askedWith, waitD, timer, timerD, fires, ticks, refs, result, ferr, tbd, trig>>

----------------------------------------------------------------------------
(* The environment. *)
(* The timer created by the latest After goes off. *)
Fire ==
    /\ timer = "pending" /\ fires < MaxTicks
    /\ (AllowTBD \/ (lp = "waiting" /\ ~done))
    /\ timer' = "fired" /\ fires' = fires + 1
    /\ UNCHANGED <<ros, sctx, extra, lp, sp, done, nnow, nd, askedWith, waitD, timerD, ticks, refs, lerr, handled, result, ferr, tbd, trig>>

(* The application cancels the context it passed to Start. *)
CancelStart ==
    /\ sctx = "live"
    /\ sctx' = "cancelled"
    /\ UNCHANGED <<ros, extra, lp, sp, done, nnow, nd, askedWith, waitD, timer, timerD, fires, ticks, refs, lerr, handled, result, ferr, tbd, trig>>

(* What a conformance driver does: hand the tick to a worker that is parked   *)
(* in the select (Fire and Tick in one step).  Impossible once done is        *)
(* closed: a select cannot stay parked on a closed channel.                   *)
DeliverTick ==
    /\ lp = "waiting" /\ timer = "pending" /\ ~done
    /\ TickEffect /\ fires' = fires + 1 /\ trig' = TickKind /\ UNCHANGED tbd

----------------------------------------------------------------------------
(* The caller of Shutdown. *)
(* `close(w.done)` - first thing in Shutdown. *)
Shutdown ==
    /\ sp = "none"
    /\ done' = (IF CloseLate THEN done ELSE TRUE)
    /\ sp' = IF ros THEN "final" ELSE "returning"
    /\ UNCHANGED <<ros, sctx, extra, lp, nnow, nd, askedWith, waitD, timer, timerD, fires, ticks, refs, lerr, handled, result, ferr, tbd, trig>>

(* `err = w.refresh(ctx)` in Shutdown: the refresher is entered.  Until        *)
(* ShutdownReturn the final refresh is IN FLIGHT (sp = "infinal"): that is    *)
(* the window in which a loop that has not been told to stop could still be   *)
(* woken by its timer.                                                        *)
FinalRefresh(out) ==
    /\ sp = "final" /\ out \in RefOutcomes
    /\ refs' = Append(refs, Ref("final", out))
    /\ ferr' = IF out # "nil" THEN Len(refs) + 1 ELSE 0
    /\ sp' = "infinal"
    /\ UNCHANGED <<ros, sctx, extra, lp, done, nnow, nd, askedWith, waitD, timer, timerD, fires, ticks, lerr, handled, result, tbd, trig>>

(* `return fmt.Errorf("refresh on shutdown: %w", err)` / `return nil` *)
ShutdownReturn ==
    /\ sp \in {"infinal", "returning"}
    /\ result' = ferr
    /\ sp' = "returned"
    /\ done' = TRUE
    /\ UNCHANGED <<ros, sctx, extra, lp, nnow, nd, askedWith, waitD, timer, timerD, fires, ticks, refs, lerr, handled, ferr, tbd, trig>>

(* Shutdown is called AGAIN after it has returned (an application's deferred   *)
(* clean-up plus its signal handler, say).  C18 does not say what that call   *)
(* returns: it may panic (what the code does: close of a closed channel) or   *)
(* return; but "after Shutdown refreshes no more except for the single final  *)
(* Refresh": it must not cause any further Refresh.                           *)
ShutdownAgain ==
    /\ sp = "returned" /\ extra < MaxExtra
    /\ extra' = extra + 1
    /\ IF ExtraRefreshes /\ ros
         THEN refs' = Append(refs, Ref("final", "nil"))
         ELSE UNCHANGED refs
    /\ UNCHANGED <<ros, sctx, lp, sp, done, nnow, nd, askedWith, waitD, timer, timerD, fires, ticks, lerr, handled, result, ferr, tbd, trig>>

(* The environment offers a tick while the final refresh is in flight (the    *)
(* driver's non-blocking hand-over).  It can only be taken by a worker that   *)
(* is parked with done still open - never, when done is closed first.         *)
WindowTick == sp = "infinal" /\ DeliverTick

LoopStep == AskSchedule \/ Sleep \/ Tick \/ TickBeatsDone \/ SeeDone \/ SeeStartCtxDone
            \/ (\E o \in RefOutcomes : Refresh(o)) \/ HandleError
CallerStep == Shutdown \/ (\E o \in RefOutcomes : FinalRefresh(o)) \/ ShutdownReturn \/ ShutdownAgain
WNext == LoopStep \/ CallerStep \/ Fire \/ WindowTick \/ CancelStart

WSpec == WInit /\ [][WNext]_wvars /\ WF_wvars(LoopStep) /\ SF_wvars(SeeDone)

----------------------------------------------------------------------------
(* Property C18, refresh worker half. *)
Count(s, P(_)) == LET F[i \in 0..Len(s)] == IF i = 0 THEN 0 ELSE F[i - 1] + (IF P(s[i]) THEN 1 ELSE 0)
                  IN F[Len(s)]
IsLoop(r) == r.who = "loop"
IsFinal(r) == r.who = "final"
IsLoopAfterDone(r) == r.who = "loop" /\ r.afterDone
IsLoopAfterShutdown(r) == r.who = "loop" /\ r.afterShutdown
IsInFlight(r) == r.who = "loop" /\ r.afterShutdown /\ r.trig = "tick"
IsTBD(r) == r.trig = "tbd"
IsLate(r) == r.trig = "late"
LoopRefs == Count(refs, IsLoop)
FinalRefs == Count(refs, IsFinal)
LoopErrs == {k \in 1..Len(refs) : refs[k].who = "loop" /\ refs[k].out # "nil"}
Range(s) == {s[k] : k \in 1..Len(s)}

WTypeOK == /\ lp \in {"ask", "sleep", "waiting", "refresh", "handle", "stopped"}
           /\ sp \in {"none", "final", "infinal", "returning", "returned"}
           /\ timer \in {"none", "pending", "fired"}
           /\ ticks <= fires /\ fires <= MaxTicks

(* "calls Refresh exactly once per elapsed schedule interval" *)
OneRefreshPerTick ==
    /\ LoopRefs = IF lp = "refresh" THEN ticks - 1 ELSE ticks
    /\ ticks <= nd                                  \* every tick answers an After of its own

(* "with a context from its constructor" (live when used; cancelled by the    *)
(* deferred cancel, see the harness).                                         *)
CtxFromConstructor == \A k \in 1..Len(refs) : refs[k].cons /\ (refs[k].who = "final" => refs[k].live)

(* "calls Refresh exactly once per elapsed schedule interval ... after        *)
(* Shutdown refreshes no more": nothing but Shutdown stops the loop - in      *)
(* particular not the end of the Start context.                               *)
StopsOnlyOnShutdown == lp = "stopped" => done

(* "hands every Refresh error to the ErrorHandler exactly once" - the final   *)
(* refresh's error goes to Shutdown's caller instead.                         *)
ErrorsHandledOnce ==
    /\ \A i, j \in 1..Len(handled) : handled[i] = handled[j] => i = j
    /\ Range(handled) \subseteq LoopErrs
    /\ LoopErrs \ Range(handled) = (IF lerr # 0 THEN {lerr} ELSE {})
    /\ (lp \notin {"handle"}) => lerr = 0

(* "consults the schedule for the next delay after each refresh": between two *)
(* sleeps there is exactly one UntilNext, asked with the clock's current time *)
(* and asked after the refresh (and its error handling) completed; the        *)
(* duration slept is the answer.  (nd = ticks while refreshing: the schedule  *)
(* is not consulted before the refresh and its error handling are over.)      *)
ScheduleConsulted ==
    /\ askedWith = nnow
    /\ nd = (IF lp \in {"ask", "refresh", "handle"} THEN ticks ELSE ticks + 1)
    /\ (lp = "ask") \/ waitD = nd
    /\ (timer # "none") => timerD = nd

(* "after Shutdown refreshes no more except for the single final Refresh ...  *)
(* when RefreshOnShutdown is set".  A loop refresh that starts after Shutdown *)
(* was called is either the one whose tick had been received before (in       *)
(* flight, at most one) or was started by TickBeatsDone; never by a tick      *)
(* taken after Shutdown was called with done still open ("late": the window   *)
(* of the final refresh).  See SequentialNoRefreshAfterShutdown for what the  *)
(* conformance driver sees.                                                   *)
NoRefreshAfterShutdown ==
    /\ Count(refs, IsInFlight) <= 1
    /\ Count(refs, IsTBD) = (IF trig = "tbd" THEN tbd - 1 ELSE tbd)
    /\ Count(refs, IsLate) = 0 /\ trig # "late"
    /\ Count(refs, IsLoopAfterShutdown) = Count(refs, IsInFlight) + Count(refs, IsTBD)
    /\ (~AllowTBD => tbd = 0)
    /\ FinalRefs <= 1
    /\ (sp \in {"infinal", "returning", "returned"}) => (FinalRefs = IF ros THEN 1 ELSE 0)
    /\ (sp = "none") => FinalRefs = 0

(* done is closed before anything else Shutdown does, in particular before    *)
(* the final refresh: WindowTick is never enabled.                            *)
DoneClosedFirst == (sp # "none") => done
WindowNeverTicks == ~(sp = "infinal" /\ lp = "waiting" /\ timer = "pending" /\ ~done)

(* Under the sequential driver (Shutdown only while the worker is parked in   *)
(* the select, ticks only through DeliverTick) no loop refresh ever starts    *)
(* after Shutdown was called.                                                 *)
SequentialNoRefreshAfterShutdown == Count(refs, IsLoopAfterShutdown) = 0 /\ Count(refs, IsLoopAfterDone) = 0

(* "whose error Shutdown returns" *)
ShutdownResult ==
    /\ (sp = "returned") <=> (result # -1)
    /\ (sp = "returned") => result = ferr
    /\ (ferr # 0) => (ros /\ refs[ferr].who = "final" /\ refs[ferr].out # "nil")
    /\ (~ros) => ferr = 0

(* Once stopped the loop does nothing any more. *)
StoppedIsFinal == [][lp = "stopped" => UNCHANGED <<lp, nnow, nd, ticks, handled>>]_wvars
(* After Shutdown the loop stops (needs SeeDone to win eventually). *)
EventuallyStops == done ~> (lp = "stopped")
=============================================================================
