------------------------- MODULE RefreshWorkerGen -------------------------
(* Generator for the SEQUENTIAL conformance driver: every run of              *)
(* RefreshWorker in which ticks are handed over with DeliverTick (worker      *)
(* parked in the select, done open), Shutdown is called only while the worker *)
(* is parked, and TickBeatsDone is therefore never provoked.  Emits, per      *)
(* complete run, the sequence of observable calls with the arguments the      *)
(* specification predicts and Shutdown's result.                              *)
EXTENDS RefreshWorker, Json, CSV

CONSTANT CancelUpTo   \* the driver cancels the Start context only while at most this many ticks were delivered

CONSTANT CtxKinds   \* error kinds tied to the refresh context: used for the first two periodic refreshes (one per run)
                    \* and for the final one, in runs without further Shutdown calls / Start-context cancel

CONSTANT ExtraChoices   \* how many further Shutdown calls the driver makes (chosen per run)

VARIABLES whist,
          xtarget     \* the number of further Shutdown calls of this run
wgvars == <<wvars, whist, xtarget>>

Last(s) == s[Len(s)]
Bit(b) == IF b THEN 1 ELSE 0
RefEv(r, k) == <<"refresh", r.who, Bit(r.cons), Bit(r.live), r.out, k>>
StartEv == <<"start", Bit(sctx = "cancelled")>>

WGInit == WInit /\ whist = <<StartEv>> /\ xtarget \in ExtraChoices
WGNext ==
    \/ AskSchedule /\ whist' = Append(whist, <<"ask", Bit(askedWith' = nnow'), nd'>>)
    \/ Sleep /\ whist' = Append(whist, <<"sleep", timerD'>>)
    \/ fires < MaxTicks /\ DeliverTick /\ whist' = Append(whist, <<"tick">>)
    \/ \E o \in RefOutcomes : Refresh(o) /\ whist' = Append(whist, RefEv(Last(refs'), Len(refs')))
          /\ (o \in CtxKinds => (Len(refs) <= 1 /\ xtarget = 0 /\ sctx = "live"
                                 /\ \A k \in 1..Len(refs) : refs[k].out \notin CtxKinds))
    \/ HandleError /\ whist' = Append(whist, <<"handle", Last(handled')>>)
    \* the application cancels the Start context while the worker is parked
    \/ lp = "waiting" /\ timer = "pending" /\ sp = "none" /\ ticks <= CancelUpTo /\ xtarget = 0 /\ CancelStart
       /\ whist' = Append(whist, <<"cancel">>)
    \/ lp = "waiting" /\ timer = "pending" /\ Shutdown /\ whist' = Append(whist, <<"shutdown">>)
    \/ \E o \in RefOutcomes : FinalRefresh(o) /\ whist' = Append(whist, RefEv(Last(refs'), Len(refs')))
          /\ (o \in CtxKinds => (xtarget = 0 /\ sctx = "live"))
    \/ WindowTick /\ whist' = Append(whist, <<"tick">>)     \* offered by the driver during the final refresh; never enabled
    \/ ShutdownReturn /\ whist' = Append(whist, <<"ret", result'>>)
    \/ sp = "returned" /\ SeeDone /\ UNCHANGED whist
    \* Shutdown once more (runs without a Start-context cancel only, to keep the product small)
    \/ lp = "stopped" /\ extra < xtarget /\ ShutdownAgain
       /\ whist' = Append(whist, <<"shutdown2">>) \o <<<<"ret2">>>>
WGSpec == WGInit /\ [][WGNext /\ UNCHANGED xtarget]_wgvars

WComplete == sp = "returned" /\ lp = "stopped" /\ extra = xtarget

WEmit == ~WComplete
         \/ CSVWrite("%1$s", <<ToJson([ros |-> ros, events |-> whist, result |-> result])>>, "refresh_vectors.ndjson")
=============================================================================
