SPECIFICATION WSpec
CONSTANTS
  MaxTicks = 4
  ROSChoices = {TRUE, FALSE}
  RefOutcomes = {"nil", "err"}
  AllowTBD = TRUE
INVARIANTS WTypeOK OneRefreshPerTick CtxFromConstructor ErrorsHandledOnce ScheduleConsulted NoRefreshAfterShutdown ShutdownResult
PROPERTIES StoppedIsFinal EventuallyStops
CHECK_DEADLOCK FALSE
