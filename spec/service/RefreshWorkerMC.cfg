SPECIFICATION WSpec
CONSTANTS
  MaxTicks = 4
  ROSChoices = {TRUE, FALSE}
  RefOutcomes = {"nil", "err"}
  CloseLate = FALSE
  AllowTBD = TRUE
INVARIANTS WTypeOK OneRefreshPerTick CtxFromConstructor ErrorsHandledOnce ScheduleConsulted NoRefreshAfterShutdown DoneClosedFirst WindowNeverTicks ShutdownResult
PROPERTIES StoppedIsFinal EventuallyStops
CHECK_DEADLOCK FALSE
