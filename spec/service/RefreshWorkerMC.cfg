SPECIFICATION WSpec
CONSTANTS
  MaxTicks = 4
  ROSChoices = {TRUE, FALSE}
  RefOutcomes = {"nil", "err"}
  CloseLate = FALSE
  ExtraRefreshes = FALSE
  MaxExtra = 2
  StopOnCancel = FALSE
  SctxInit = {"live", "cancelled"}
  AllowTBD = TRUE
INVARIANTS WTypeOK OneRefreshPerTick CtxFromConstructor ErrorsHandledOnce ScheduleConsulted NoRefreshAfterShutdown DoneClosedFirst WindowNeverTicks StopsOnlyOnShutdown ShutdownResult
PROPERTIES StoppedIsFinal EventuallyStops
CHECK_DEADLOCK FALSE
