SPECIFICATION TSpec
CONSTANTS
  MaxTicks = 1000000
  ROSChoices = {TRUE, FALSE}
  RefOutcomes = {"nil", "err"}
  AllowTBD = FALSE
INVARIANTS OneRefreshPerTick CtxFromConstructor ErrorsHandledOnce ScheduleConsulted NoRefreshAfterShutdown ShutdownResult
CHECK_DEADLOCK FALSE
