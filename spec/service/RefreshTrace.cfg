SPECIFICATION TSpec
CONSTANTS
  MaxTicks = 1000000
  ROSChoices = {TRUE, FALSE}
  RefOutcomes = {"nil", "err"}
  CloseLate = FALSE
  AllowTBD = FALSE
INVARIANTS OneRefreshPerTick CtxFromConstructor ErrorsHandledOnce ScheduleConsulted NoRefreshAfterShutdown DoneClosedFirst WindowNeverTicks ShutdownResult
CHECK_DEADLOCK FALSE
