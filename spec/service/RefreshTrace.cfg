SPECIFICATION TSpec
CONSTANTS
  MaxTicks = 1000000
  ROSChoices = {TRUE, FALSE}
  RefOutcomes = {"nil", "err"}
  CloseLate = FALSE
  StopOnCancel = FALSE
  SctxInit = {"live", "cancelled"}
  AllowTBD = FALSE
INVARIANTS OneRefreshPerTick CtxFromConstructor ErrorsHandledOnce ScheduleConsulted NoRefreshAfterShutdown DoneClosedFirst WindowNeverTicks StopsOnlyOnShutdown ShutdownResult
CHECK_DEADLOCK FALSE
