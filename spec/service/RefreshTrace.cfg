SPECIFICATION TSpec
CONSTANTS
  MaxTicks = 1000000
  ROSChoices = {TRUE, FALSE}
  RefOutcomes = {"nil", "err", "ctxerr", "wctxerr", "cause"}
  CloseLate = FALSE
  ExtraRefreshes = FALSE
  MaxExtra = 1000
  StopOnCancel = FALSE
  SctxInit = {"live", "cancelled"}
  AllowTBD = FALSE
INVARIANTS OneRefreshPerTick CtxFromConstructor ErrorsHandledOnce ScheduleConsulted NoRefreshAfterShutdown DoneClosedFirst WindowNeverTicks StopsOnlyOnShutdown ShutdownResult
CHECK_DEADLOCK FALSE
