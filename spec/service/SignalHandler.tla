--------------------------- MODULE SignalHandler ---------------------------
(* service.SignalHandler (service/signal.go): NewSignalHandler registers a    *)
(* channel of capacity 1 with the osutil.SignalNotifier, Add registers        *)
(* services, Handle ranges over the channel, ignores everything that is not   *)
(* a shutdown signal (osutil.IsShutdownSignal: SIGINT, SIGQUIT, SIGTERM) and  *)
(* on the first shutdown signal shuts the services down in reverse            *)
(* registration order, aggregating the status.                                *)
(*                                                                            *)
(* Environment: the notifier puts the signals of `script` into the channel    *)
(* one by one (Send; a send waits for room), every service i has a fixed      *)
(* outcome[i] of its Shutdown call.  An outcome is a KIND: "nil", or the kind *)
(* of error returned ("err" plain, "deadline" = context.DeadlineExceeded,     *)
(* "canceled", their %w-wrapped forms, an errors.Join, io.EOF, ...), or the   *)
(* kind of value the service panics with ("panic" string, "panicerr" error    *)
(* value, "panicdl" = panic(context.DeadlineExceeded), "panicnil" =           *)
(* panic(nil)).  The kind is data the code might be tempted to inspect; what  *)
(* C18 requires does not depend on it: anything but "nil" is a failure and    *)
(* nothing stops the loop.  TLC enumerates the kinds as an environment        *)
(* choice: all vectors over Outcomes up to FullUpTo services, and for more    *)
(* services vectors over PlainKinds plus one other kind at a time.            *)
(*                                                                            *)
(* A service also has a DYNAMIC TYPE (stype[i]), which decides how its         *)
(* interface value compares and hashes: "ptr" (a pointer: distinct identity), *)
(* "val" (a comparable struct BY VALUE - all "val" services here have equal   *)
(* fields, so they are equal as interface values; two registrations of them   *)
(* are two registrations, of "the same" service or not), "func" (a func       *)
(* adapter: not comparable, not hashable), "ncval" (a struct by value with a  *)
(* func field: not comparable), "zst" (pointers to a zero-size type, which    *)
(* may all be equal).  Like the outcome kinds this is data the code might be  *)
(* tempted to use (==, map keys); C18 does not depend on it: every REGISTERED *)
(* service - every registration - is shut down exactly once, in reverse       *)
(* order.  DedupByValue = TRUE models a handler that skips a registration     *)
(* whose value it has "already seen" in a map (and dies on an unhashable one, *)
(* its blanket recover then reporting success): for demonstration.            *)
(*                                                                            *)
(* Registration is part of the behaviour: before Handle the caller executes a *)
(* `plan` of Add calls.  Each Add passes a group of services as a spread      *)
(* slice: a fresh one, or the caller's reusable buffer `mem` (filled from     *)
(* index 0, spare capacity behind); AFTER Add has returned the caller may     *)
(* keep, zero or overwrite (with a decoy service) what it passed; Add() and   *)
(* Add(nil...) may be mixed in.  Requirement: the handler's registered        *)
(* sequence is the concatenation of the groups as they were AT Add time -     *)
(* services are numbered in that order, so it must be <<1, ..., n>> whatever   *)
(* the caller does to its buffer later.  AddAliases = TRUE models a handler   *)
(* that keeps the caller's slice instead of copying (`h.services = svcs`      *)
(* when nothing is registered yet): kept to show on the design what the       *)
(* registration patterns are for.                                             *)
EXTENDS Integers, Sequences, FiniteSets

CONSTANTS MaxServices,   \* services 0..MaxServices are registered
          Outcomes,      \* outcome kinds, "nil" among them
          PlainKinds,    \* the kinds used freely for any number of services, e.g. {"nil", "err", "panic"}
          FullUpTo,      \* up to this many services every vector over Outcomes is enumerated
          PanicKinds,    \* the kinds that are panics
          OtherSigs,     \* signals that are not shutdown signals
          ShutSigs,      \* SIGINT, SIGQUIT, SIGTERM
          MaxPre,        \* at most this many non-shutdown signals before the shutdown signal
          TrailSigs,     \* signals that may follow the shutdown signal
          MaxTrail,      \* at most this many of them
          PanicAborts,   \* FALSE = the code as it is; TRUE = the defect fixed by b5e2710 (for demonstration)
          RegSplits,     \* how 1..n is split into Add calls: subset of {"each", "all", "any"}
          RegBufs,       \* what is passed: subset of {"fresh", "reuse"} (reuse = the caller's buffer from index 0)
          RegAfters,     \* what the caller does to the passed slice after Add returned: {"keep", "zero", "decoy"}
          RegEmpties,    \* subset of BOOLEAN: TRUE = Add() / Add(nil...) before every group and at the end
          STypes,        \* dynamic types of services, "ptr" among them
          TypesFullUpTo, \* up to this many services every type vector; beyond: "ptr" plus one other type at a time
          DedupByValue,  \* FALSE = every registration counts; TRUE = de-duplication through a map (demonstration)
          AddAliases     \* FALSE = Add appends (copies); TRUE = the first Add keeps the caller's slice (demonstration)

VARIABLES n,         \* number of registered services
          outcome,   \* outcome[i], i \in 1..n, in registration order
          script,    \* the signals the notifier is going to deliver
          sent,      \* how many of them have been put into the channel
          chan,      \* the channel's buffer (capacity 1)
          phase,     \* "registering", "waiting" (in `for sig := range h.signal`), "shutting", "returned"
          plan,      \* the Add calls still to be made
          plan0,     \* the whole plan (for the generator)
          regOwn,    \* Go: h.services when it has storage of its own
          regLen,    \* Go: len(h.services)
          regAlias,  \* h.services is a view of the caller's buffer mem[1..regLen] (only with AddAliases)
          stype,     \* stype[i]: dynamic type of service i
          mem,       \* the caller's reusable buffer: service numbers, 0 = nil, -1 = a decoy service
          idx,       \* Go: i+1 of the loop in shutdown(); 0 = loop finished
          failed,    \* Go: status == ExitCodeFailure
          calls,     \* calls[i] = number of Shutdown calls service i has received
          order,     \* sequence of service indices in the order they were called
          status     \* -1 until Handle returns, then 0 (success) or 1 (failure)

regvars == <<plan, plan0, regOwn, regLen, regAlias, mem, stype>>
svars == <<n, outcome, script, sent, chan, phase, idx, failed, calls, order, status, regvars>>

BufCap == MaxServices + 2
(* Go: h.services *)
RegValue == IF regAlias THEN SubSeq(mem, 1, regLen) ELSE regOwn
Ident(k) == [j \in 1..k |-> j]

(* Registration plans. *)
RECURSIVE Comps(_)
Comps(m) == IF m = 0 THEN {<<>>} ELSE UNION {{<<f>> \o c : c \in Comps(m - f)} : f \in 1..m}
Splits(k) == (IF "each" \in RegSplits THEN {[j \in 1..k |-> 1]} ELSE {})
             \cup (IF "all" \in RegSplits THEN {IF k = 0 THEN <<>> ELSE <<k>>} ELSE {})
             \cup (IF "any" \in RegSplits THEN Comps(k) ELSE {})
RECURSIVE SumTo(_, _)
SumTo(c, j) == IF j = 0 THEN 0 ELSE SumTo(c, j - 1) + c[j]
Group(c, j) == [i \in 1..c[j] |-> SumTo(c, j - 1) + i]
EmptyOp(j) == [op |-> "empty", ids |-> <<>>, buf |-> IF j % 2 = 1 THEN "none" ELSE "nilslice", after |-> "keep"]
RECURSIVE BuildPlan(_, _, _, _, _)
BuildPlan(c, j, b, a, e) ==
    IF j > Len(c) THEN (IF e THEN <<EmptyOp(j)>> ELSE <<>>)
    ELSE (IF e THEN <<EmptyOp(j)>> ELSE <<>>)
         \o <<[op |-> "add", ids |-> Group(c, j), buf |-> b, after |-> a]>>
         \o BuildPlan(c, j + 1, b, a, e)
Plans(k) == {BuildPlan(c, 1, b, a, e) : c \in Splits(k), b \in RegBufs, a \in RegAfters, e \in RegEmpties}

SeqsUpTo(S, k) == UNION {[1..m -> S] : m \in 0..k}

Scripts == {pre \o <<s>> \o post : pre \in SeqsUpTo(OtherSigs, MaxPre), s \in ShutSigs,
                                   post \in SeqsUpTo(TrailSigs, MaxTrail)}

SNew(k, oc, p, ty) ==
    /\ n = k /\ outcome = oc /\ stype = ty
    /\ sent = 0 /\ chan = <<>> /\ phase = "registering" /\ idx = 0 /\ failed = FALSE
    /\ calls = [i \in 1..k |-> 0] /\ order = <<>> /\ status = -1
    /\ plan = p /\ plan0 = p /\ regOwn = <<>> /\ regLen = 0 /\ regAlias = FALSE
    /\ mem = [i \in 1..BufCap |-> 0]

KindVectors(k) == {oc \in [1..k -> Outcomes] :
                      k <= FullUpTo \/ Cardinality({oc[i] : i \in 1..k} \ PlainKinds) <= 1}

TypeVectors(k) == {ty \in [1..k -> STypes] :
                      k <= TypesFullUpTo \/ Cardinality({ty[i] : i \in 1..k} \ {"ptr"}) <= 1}

SInit == /\ \E k \in 0..MaxServices : \E oc \in KindVectors(k) : \E p \in Plans(k) : \E ty \in TypeVectors(k) :
              SNew(k, oc, p, ty)
         /\ script \in Scripts

(* One Add call of the plan, together with what the caller does to its slice  *)
(* before (filling the reused buffer) and after it.                           *)
AddStep ==
    /\ phase = "registering" /\ plan # <<>>
    /\ plan' = Tail(plan)
    /\ LET o == Head(plan)
           g == o.ids
           m == Len(g)
           reuse == o.op = "add" /\ o.buf = "reuse"
           \* the caller fills its buffer from index 0 - an aliasing handler sees that at once
           mem1 == IF reuse THEN [i \in 1..BufCap |-> IF i <= m THEN g[i] ELSE mem[i]] ELSE mem
           cur == IF regAlias THEN SubSeq(mem1, 1, regLen) ELSE regOwn
           Clob(v) == IF o.after = "zero" THEN 0 ELSE IF o.after = "decoy" THEN -1 ELSE v
           After(mm) == IF reuse THEN [i \in 1..BufCap |-> IF i <= m THEN Clob(mm[i]) ELSE mm[i]] ELSE mm
       IN IF o.op = "empty"
            THEN UNCHANGED <<regOwn, regLen, regAlias, mem>>
          ELSE IF ~AddAliases
            THEN \* `h.services = append(h.services, svcs...)`: the handler has its own copy
                 /\ regOwn' = cur \o g /\ regLen' = Len(cur) + m /\ regAlias' = FALSE
                 /\ mem' = After(mem1)
          ELSE IF Len(cur) = 0
            THEN \* `h.services = svcs`: the caller's slice becomes the handler's storage
                 IF reuse THEN /\ regAlias' = TRUE /\ regLen' = m /\ regOwn' = <<>>
                               /\ mem' = After(mem1)
                          ELSE /\ regAlias' = FALSE /\ regLen' = m
                               /\ regOwn' = [i \in 1..m |-> Clob(g[i])]
                               /\ mem' = mem1
          ELSE IF regAlias /\ regLen + m <= BufCap
            THEN \* append in place into the spare capacity of the caller's buffer
                 /\ regAlias' = TRUE /\ regLen' = regLen + m /\ regOwn' = <<>>
                 /\ mem' = After([i \in 1..BufCap |-> IF i > regLen /\ i <= regLen + m THEN g[i - regLen] ELSE mem1[i]])
            ELSE /\ regOwn' = cur \o g /\ regLen' = Len(cur) + m /\ regAlias' = FALSE
                 /\ mem' = After(mem1)
    /\ UNCHANGED <<n, outcome, script, sent, chan, phase, idx, failed, calls, order, status, plan0, stype>>

(* Add(g) as the requirement sees it (used by trace validation). *)
AddGroup(g) ==
    /\ phase = "registering"
    /\ regOwn' = RegValue \o g /\ regLen' = regLen + Len(g) /\ regAlias' = FALSE
    /\ UNCHANGED <<n, outcome, script, sent, chan, phase, idx, failed, calls, order, status, plan, plan0, mem, stype>>

(* Handle is called. *)
StartHandle ==
    /\ phase = "registering" /\ plan = <<>>
    /\ phase' = "waiting"
    /\ UNCHANGED <<n, outcome, script, sent, chan, idx, failed, calls, order, status, regvars>>

(* The notifier relays a signal into the channel (waits for room). *)
Send(sig) ==
    /\ chan = <<>>
    /\ chan' = <<sig>>
    /\ sent' = sent + 1
    /\ UNCHANGED <<n, outcome, script, phase, idx, failed, calls, order, status, regvars>>

(* (A signal that arrives before Handle is called waits in the channel's       *)
(* buffer - no different from arriving right after; the script starts then.)  *)
SendNext == phase # "registering" /\ sent < Len(script) /\ Send(script[sent + 1])

(* `for sig := range h.signal { if IsShutdownSignal(sig) { return h.shutdown(ctx) } }` *)
Receive ==
    /\ phase = "waiting" /\ chan # <<>>
    /\ chan' = <<>>
    /\ IF Head(chan) \in ShutSigs
         THEN phase' = "shutting" /\ idx' = regLen /\ failed' = FALSE
         ELSE UNCHANGED <<phase, idx, failed>>
    /\ UNCHANGED <<n, outcome, script, sent, calls, order, status, regvars>>

(* One iteration of `for i := len(h.services) - 1; i >= 0; i--`: service      *)
(* number i = h.services[idx-1] is shut down.  (i outside 1..n - a nil entry  *)
(* or a decoy - can only be met with AddAliases.)                             *)
ShutdownOne(i) ==
    /\ phase = "shutting" /\ idx >= 1 /\ i = RegValue[idx]
    /\ order' = (IF DedupByValue /\ i \in 1..n /\ (stype[i] \in {"func", "ncval"}
                                 \/ (stype[i] \in {"val", "zst"} /\ \E j \in 1..n : j # i /\ stype[j] = stype[i] /\ calls[j] > 0))
                 THEN order ELSE Append(order, i))
    /\ IF i \notin 1..n
         THEN /\ failed' = TRUE /\ idx' = idx - 1 /\ UNCHANGED <<calls, phase, status>>
         ELSE IF DedupByValue /\ stype[i] \in {"func", "ncval"}
         THEN \* map access with an unhashable key panics outside the per-service recover
              /\ phase' = "returned" /\ status' = 0 /\ idx' = 0 /\ UNCHANGED <<calls, failed>>
         ELSE IF DedupByValue /\ stype[i] \in {"val", "zst"}
                 /\ \E j \in 1..n : j # i /\ stype[j] = stype[i] /\ calls[j] > 0
         THEN \* "already seen": skipped
              /\ idx' = idx - 1 /\ UNCHANGED <<calls, failed, phase, status>>
         ELSE /\ calls' = [calls EXCEPT ![i] = @ + 1]
              /\ IF PanicAborts /\ outcome[i] \in PanicKinds
                   THEN \* before b5e2710: the deferred recover in Handle swallows the panic
                        /\ phase' = "returned" /\ status' = 0 /\ idx' = 0 /\ UNCHANGED failed
                   ELSE /\ failed' = (failed \/ outcome[i] # "nil")
                        /\ idx' = idx - 1
                        /\ UNCHANGED <<phase, status>>
    /\ UNCHANGED <<n, outcome, script, sent, chan, regvars>>

Return ==
    /\ phase = "shutting" /\ idx = 0
    /\ phase' = "returned"
    /\ status' = IF failed THEN 1 ELSE 0
    /\ UNCHANGED <<n, outcome, script, sent, chan, idx, failed, calls, order, regvars>>

RegStep == AddStep \/ StartHandle
HandlerStep == Receive \/ (\E i \in -1..n : ShutdownOne(i)) \/ Return
SNext == RegStep \/ SendNext \/ HandlerStep

SSpec == SInit /\ [][SNext]_svars /\ WF_svars(RegStep) /\ WF_svars(SendNext) /\ WF_svars(HandlerStep)

----------------------------------------------------------------------------
(* Property C18, signal handler half. *)
Descending(k) == [j \in 1..k |-> k - j + 1]          \* <<k, k-1, ..., 1>>
IsPrefix(s, t) == Len(s) <= Len(t) /\ \A j \in 1..Len(s) : s[j] = t[j]
ShutdownSent == \E j \in 1..sent : script[j] \in ShutSigs

STypeOK == /\ n \in 0..MaxServices /\ sent \in 0..Len(script) /\ Len(chan) <= 1
           /\ idx \in 0..BufCap /\ status \in {-1, 0, 1}
           /\ phase \in {"registering", "waiting", "shutting", "returned"}
           /\ regLen = Len(RegValue)

(* The registered sequence is the concatenation of the groups as they were at *)
(* Add time - at every moment, whatever the caller does to its buffer.        *)
Registered == /\ RegValue = Ident(regLen)
              /\ (phase # "registering") => regLen = n

(* "calls Shutdown exactly once on every registered service": never twice... *)
AtMostOnce == \A i \in 1..n : calls[i] <= 1

(* "ignores non-shutdown signals": nothing is touched before a shutdown       *)
(* signal has been delivered.                                                 *)
NothingBeforeShutdownSignal == (order # <<>> \/ phase \notin {"registering", "waiting"}) => ShutdownSent

(* "in reverse registration order" - at every moment, not just at the end. *)
ReverseOrder == IsPrefix(order, Descending(n))

(* ... and at Return every service has been called, errors and panics do not  *)
(* stop the loop, and the status is success only if every Shutdown returned   *)
(* nil.                                                                       *)
AtReturn == phase = "returned" =>
    /\ \A i \in 1..n : calls[i] = 1
    /\ order = Descending(n)
    /\ (status = 0) <=> (\A i \in 1..n : outcome[i] = "nil")
    /\ status \in {0, 1}
StatusOnlyAtReturn == (phase # "returned") <=> (status = -1)

(* Later signals change nothing. *)
LaterSignalsChangeNothing ==
    [][phase = "returned" => UNCHANGED <<calls, order, status, phase>>]_svars

(* With a shutdown signal in the script Handle returns. *)
EventuallyReturns == <>(phase = "returned")
=============================================================================
