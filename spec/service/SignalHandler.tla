--------------------------- MODULE SignalHandler ---------------------------
(* service.SignalHandler (service/signal.go): NewSignalHandler registers a    *)
(* channel of capacity 1 with the osutil.SignalNotifier, Add registers        *)
(* services, Handle ranges over the channel, ignores everything that is not   *)
(* a shutdown signal (osutil.IsShutdownSignal: SIGINT, SIGQUIT, SIGTERM) and  *)
(* on the first shutdown signal shuts the services down in reverse            *)
(* registration order, aggregating the status.                                *)
(*                                                                            *)
(* Environment: the notifier puts the signals of `script` into the channel    *)
(* one by one (Send; a send waits for room), every service i has a fixed      *)
(* outcome[i] of its Shutdown call.  An outcome is a KIND: "nil", or the kind *)
(* of error returned ("err" plain, "deadline" = context.DeadlineExceeded,     *)
(* "canceled", their %w-wrapped forms, an errors.Join, io.EOF, ...), or the   *)
(* kind of value the service panics with ("panic" string, "panicerr" error    *)
(* value, "panicdl" = panic(context.DeadlineExceeded), "panicnil" =           *)
(* panic(nil)).  The kind is data the code might be tempted to inspect; what  *)
(* C18 requires does not depend on it: anything but "nil" is a failure and    *)
(* nothing stops the loop.  TLC enumerates the kinds as an environment        *)
(* choice: all vectors over Outcomes up to FullUpTo services, and for more    *)
(* services vectors over PlainKinds plus one other kind at a time.            *)
EXTENDS Integers, Sequences, FiniteSets

CONSTANTS MaxServices,   \* services 0..MaxServices are registered
          Outcomes,      \* outcome kinds, "nil" among them
          PlainKinds,    \* the kinds used freely for any number of services, e.g. {"nil", "err", "panic"}
          FullUpTo,      \* up to this many services every vector over Outcomes is enumerated
          PanicKinds,    \* the kinds that are panics
          OtherSigs,     \* signals that are not shutdown signals
          ShutSigs,      \* SIGINT, SIGQUIT, SIGTERM
          MaxPre,        \* at most this many non-shutdown signals before the shutdown signal
          TrailSigs,     \* signals that may follow the shutdown signal
          MaxTrail,      \* at most this many of them
          PanicAborts    \* FALSE = the code as it is; TRUE = the defect fixed by b5e2710 (for demonstration)

VARIABLES n,         \* number of registered services
          outcome,   \* outcome[i], i \in 1..n, in registration order
          script,    \* the signals the notifier is going to deliver
          sent,      \* how many of them have been put into the channel
          chan,      \* the channel's buffer (capacity 1)
          phase,     \* "waiting" (in `for sig := range h.signal`), "shutting", "returned"
          idx,       \* Go: i+1 of the loop in shutdown(); 0 = loop finished
          failed,    \* Go: status == ExitCodeFailure
          calls,     \* calls[i] = number of Shutdown calls service i has received
          order,     \* sequence of service indices in the order they were called
          status     \* -1 until Handle returns, then 0 (success) or 1 (failure)

svars == <<n, outcome, script, sent, chan, phase, idx, failed, calls, order, status>>

SeqsUpTo(S, k) == UNION {[1..m -> S] : m \in 0..k}

Scripts == {pre \o <<s>> \o post : pre \in SeqsUpTo(OtherSigs, MaxPre), s \in ShutSigs,
                                   post \in SeqsUpTo(TrailSigs, MaxTrail)}

SNew(k, oc) ==
    /\ n = k /\ outcome = oc
    /\ sent = 0 /\ chan = <<>> /\ phase = "waiting" /\ idx = 0 /\ failed = FALSE
    /\ calls = [i \in 1..k |-> 0] /\ order = <<>> /\ status = -1

KindVectors(k) == {oc \in [1..k -> Outcomes] :
                      k <= FullUpTo \/ Cardinality({oc[i] : i \in 1..k} \ PlainKinds) <= 1}

SInit == /\ \E k \in 0..MaxServices : \E oc \in KindVectors(k) : SNew(k, oc)
         /\ script \in Scripts

(* The notifier relays a signal into the channel (waits for room). *)
Send(sig) ==
    /\ chan = <<>>
    /\ chan' = <<sig>>
    /\ sent' = sent + 1
    /\ UNCHANGED <<n, outcome, script, phase, idx, failed, calls, order, status>>

SendNext == sent < Len(script) /\ Send(script[sent + 1])

(* `for sig := range h.signal { if IsShutdownSignal(sig) { return h.shutdown(ctx) } }` *)
Receive ==
    /\ phase = "waiting" /\ chan # <<>>
    /\ chan' = <<>>
    /\ IF Head(chan) \in ShutSigs
         THEN phase' = "shutting" /\ idx' = n /\ failed' = FALSE
         ELSE UNCHANGED <<phase, idx, failed>>
    /\ UNCHANGED <<n, outcome, script, sent, calls, order, status>>

(* One iteration of `for i := len(h.services) - 1; i >= 0; i--`. *)
ShutdownOne(i) ==
    /\ phase = "shutting" /\ idx >= 1 /\ i = idx
    /\ calls' = [calls EXCEPT ![i] = @ + 1]
    /\ order' = Append(order, i)
    /\ IF PanicAborts /\ outcome[i] \in PanicKinds
         THEN \* before b5e2710: the deferred recover in Handle swallows the panic
              /\ phase' = "returned" /\ status' = 0 /\ idx' = 0 /\ UNCHANGED failed
         ELSE /\ failed' = (failed \/ outcome[i] # "nil")
              /\ idx' = idx - 1
              /\ UNCHANGED <<phase, status>>
    /\ UNCHANGED <<n, outcome, script, sent, chan>>

Return ==
    /\ phase = "shutting" /\ idx = 0
    /\ phase' = "returned"
    /\ status' = IF failed THEN 1 ELSE 0
    /\ UNCHANGED <<n, outcome, script, sent, chan, idx, failed, calls, order>>

HandlerStep == Receive \/ (\E i \in 1..n : ShutdownOne(i)) \/ Return
SNext == SendNext \/ HandlerStep

SSpec == SInit /\ [][SNext]_svars /\ WF_svars(SendNext) /\ WF_svars(HandlerStep)

----------------------------------------------------------------------------
(* Property C18, signal handler half. *)
Descending(k) == [j \in 1..k |-> k - j + 1]          \* <<k, k-1, ..., 1>>
IsPrefix(s, t) == Len(s) <= Len(t) /\ \A j \in 1..Len(s) : s[j] = t[j]
ShutdownSent == \E j \in 1..sent : script[j] \in ShutSigs

STypeOK == /\ n \in 0..MaxServices /\ sent \in 0..Len(script) /\ Len(chan) <= 1
           /\ idx \in 0..n /\ status \in {-1, 0, 1}
           /\ phase \in {"waiting", "shutting", "returned"}

(* "calls Shutdown exactly once on every registered service": never twice... *)
AtMostOnce == \A i \in 1..n : calls[i] <= 1

(* "ignores non-shutdown signals": nothing is touched before a shutdown       *)
(* signal has been delivered.                                                 *)
NothingBeforeShutdownSignal == (order # <<>> \/ phase # "waiting") => ShutdownSent

(* "in reverse registration order" - at every moment, not just at the end. *)
ReverseOrder == IsPrefix(order, Descending(n))

(* ... and at Return every service has been called, errors and panics do not  *)
(* stop the loop, and the status is success only if every Shutdown returned   *)
(* nil.                                                                       *)
AtReturn == phase = "returned" =>
    /\ \A i \in 1..n : calls[i] = 1
    /\ order = Descending(n)
    /\ (status = 0) <=> (\A i \in 1..n : outcome[i] = "nil")
    /\ status \in {0, 1}
StatusOnlyAtReturn == (phase # "returned") <=> (status = -1)

(* Later signals change nothing. *)
LaterSignalsChangeNothing ==
    [][phase = "returned" => UNCHANGED <<calls, order, status, phase>>]_svars

(* With a shutdown signal in the script Handle returns. *)
EventuallyReturns == <>(phase = "returned")
=============================================================================
