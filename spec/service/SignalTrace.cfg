SPECIFICATION TSpec
CONSTANTS
  MaxServices = 100
  Outcomes = {"nil", "err", "panic"}
  OtherSigs = {}
  ShutSigs = {"INT", "QUIT", "TERM"}
  MaxPre = 0
  TrailSigs = {}
  MaxTrail = 0
  PanicAborts = FALSE
INVARIANTS TAtMostOnce TReverseOrder TAtReturn TNothingWhileWaiting
POSTCONDITION Post
CHECK_DEADLOCK FALSE
