SPECIFICATION TSpec
CONSTANTS
  MaxServices = 100
  Outcomes = {"nil", "err", "panic"}
  PlainKinds = {"nil", "err", "panic"}
  FullUpTo = 100
  PanicKinds = {"panic", "panicerr", "panicdl", "panicnil"}
  OtherSigs = {}
  ShutSigs = {"INT", "QUIT", "TERM"}
  MaxPre = 0
  TrailSigs = {}
  MaxTrail = 0
  PanicAborts = FALSE
  RegSplits = {"each"}
  RegBufs = {"fresh"}
  RegAfters = {"keep"}
  RegEmpties = {FALSE}
  AddAliases = FALSE
  STypes = {"ptr"}
  TypesFullUpTo = 100
  DedupByValue = FALSE
INVARIANTS TAtMostOnce TReverseOrder TAtReturn TRegistered TNothingWhileWaiting
POSTCONDITION Post
CHECK_DEADLOCK FALSE
