------------------------------- MODULE IPText -------------------------------
(* Declarative grammar of the text accepted by netip.ParseAddr and           *)
(* netip.ParseAddrPort (property C02: IsValidIPString / IsValidIPPortString  *)
(* must accept exactly this), over ABSTRACT characters:                      *)
(*                                                                           *)
(*   "0".."9"   the decimal digits themselves (octet <= 255, port <= 65535   *)
(*              and "no leading zero" depend on their values)                *)
(*   "a"        any hexadecimal letter a-f / A-F                             *)
(*   ":" "." "%" "[" "]"   themselves                                        *)
(*   "g"        any other byte (letters g-z, punctuation, space, control,    *)
(*              non-ASCII, invalid UTF-8)                                    *)
(*                                                                           *)
(* Two formulations are given and TLC checks that they agree on every        *)
(* enumerated string (IPTextMC):                                             *)
(*   1. the declarative grammar  Address / AddrPort  (what the RFCs and the  *)
(*      netip documentation say: split at separators, count fields), and     *)
(*   2. a character-level PARSER STATE MACHINE  Step / Accept  (mode, field  *)
(*      count, ellipsis seen, current field, octet count, zone), which also  *)
(*      tells which prefixes are still viable and so drives the token-level  *)
(*      generator IPTokGen.                                                  *)
EXTENDS Integers, Sequences, FiniteSets

Digits == {"0", "1", "2", "3", "4", "5", "6", "7", "8", "9"}
Chars  == Digits \cup {"a", "g", ":", ".", "%", "[", "]"}

DigitVal(c) == CASE c = "0" -> 0 [] c = "1" -> 1 [] c = "2" -> 2 [] c = "3" -> 3 [] c = "4" -> 4
                 [] c = "5" -> 5 [] c = "6" -> 6 [] c = "7" -> 7 [] c = "8" -> 8 [] c = "9" -> 9

IsDigit(c) == c \in Digits
IsHex(c)   == c \in Digits \/ c = "a"
Min(x, y)  == IF x < y THEN x ELSE y

(* s split at every occurrence of sep (k separators give k+1 pieces). *)
RECURSIVE SplitFrom(_, _, _, _)
SplitFrom(s, sep, i, cur) ==
    IF i > Len(s) THEN <<cur>>
    ELSE IF s[i] = sep THEN <<cur>> \o SplitFrom(s, sep, i + 1, <<>>)
         ELSE SplitFrom(s, sep, i + 1, Append(cur, s[i]))
Split(s, sep) == SplitFrom(s, sep, 1, <<>>)

(* Decimal value of a digit string, saturating at cap+1 (TLC has 32-bit ints) *)
SatVal(f, cap) ==
    LET F[i \in 0..Len(f)] == IF i = 0 THEN 0 ELSE Min(cap + 1, F[i - 1] * 10 + DigitVal(f[i]))
    IN F[Len(f)]

AllDigits(f) == \A i \in DOMAIN f : IsDigit(f[i])

----------------------------------------------------------------------------
(* IPv4: exactly four decimal octets 0..255 without leading zeros. *)
Octet(f) == /\ Len(f) \in 1..3
            /\ AllDigits(f)
            /\ (Len(f) > 1 => f[1] # "0")
            /\ SatVal(f, 255) <= 255

IPv4(s) == LET f == Split(s, ".") IN Len(f) = 4 /\ \A i \in 1..4 : Octet(f[i])

(* IPv6 without zone. *)
Hex16(f) == Len(f) \in 1..4 /\ \A i \in DOMAIN f : IsHex(f[i])

(* Number of 16-bit fields of a colon-separated list (-1: malformed).  The   *)
(* empty text has no fields.  With allowV4 the LAST item may be a dotted      *)
(* quad, which stands for two fields.                                         *)
Fields(s, allowV4) ==
    IF s = <<>> THEN 0
    ELSE LET g == Split(s, ":")
             n == Len(g)
         IN IF \E i \in 1..(n - 1) : ~Hex16(g[i]) THEN -1
            ELSE IF Hex16(g[n]) THEN n
            ELSE IF allowV4 /\ IPv4(g[n]) THEN n + 1
            ELSE -1

EllipsisAt(s) == {i \in 1..(Len(s) - 1) : s[i] = ":" /\ s[i + 1] = ":"}

(* Eight fields, or fewer with exactly one "::" that stands for at least one *)
(* zero field; an embedded IPv4 may only end the address.                    *)
IPv6(s) ==
    LET e == EllipsisAt(s) IN
    IF e = {} THEN Fields(s, TRUE) = 8
    ELSE IF Cardinality(e) > 1 THEN FALSE
    ELSE LET i  == CHOOSE j \in e : TRUE
             nl == Fields(SubSeq(s, 1, i - 1), FALSE)
             nr == Fields(SubSeq(s, i + 2, Len(s)), TRUE)
         IN nl >= 0 /\ nr >= 0 /\ nl + nr <= 7

FirstIdx(s, c) == IF \E i \in DOMAIN s : s[i] = c
                  THEN CHOOSE i \in DOMAIN s : s[i] = c /\ \A j \in 1..(i - 1) : s[j] # c
                  ELSE 0
LastIdx(s, c)  == IF \E i \in DOMAIN s : s[i] = c
                  THEN CHOOSE i \in DOMAIN s : s[i] = c /\ \A j \in (i + 1)..Len(s) : s[j] # c
                  ELSE 0

(* IPv6 with an optional non-empty zone after the first "%". *)
IPv6Z(s) == LET p == FirstIdx(s, "%") IN
            IF p = 0 THEN IPv6(s) ELSE p < Len(s) /\ IPv6(SubSeq(s, 1, p - 1))

(* netip.ParseAddr *)
Address(s) == IPv4(s) \/ IPv6Z(s)

(* Port: non-empty decimal digits (leading zeros allowed), value <= 65535. *)
Port(p) == Len(p) > 0 /\ AllDigits(p) /\ SatVal(p, 65535) <= 65535

(* netip.ParseAddrPort: split at the LAST colon; "[...]" if and only if IPv6. *)
AddrPort(s) ==
    LET i == LastIdx(s, ":") IN
    /\ i > 1
    /\ LET ip   == SubSeq(s, 1, i - 1)
           port == SubSeq(s, i + 1, Len(s))
       IN /\ Port(port)
          /\ IF ip[1] = "["
             THEN Len(ip) >= 2 /\ ip[Len(ip)] = "]" /\ IPv6Z(SubSeq(ip, 2, Len(ip) - 1))
             ELSE IPv4(ip)

----------------------------------------------------------------------------
(* The parser state machine.                                                 *)
(*   m    mode: "S" first field, family still unknown; "4" dotted quad;      *)
(*        "6" hex fields; "T" IPv4 tail of an IPv6 address; "Z" zone;        *)
(*        "X" dead (no continuation is an address)                           *)
(*   nf   completed 16-bit fields     no   completed octets                  *)
(*   ell  "::" seen                   zn   zone non-empty                    *)
(*   fn, dec, z0, val  current field: digits so far, all decimal, first      *)
(*        digit is 0, decimal value (saturating at 256)                      *)
(*   last "none" | "dig" | "col" (one colon after a field) | "lead" (one     *)
(*        colon at the very start) | "ell" | "dot"                           *)
Q0 == [m |-> "S", nf |-> 0, no |-> 0, ell |-> FALSE, zn |-> FALSE,
       fn |-> 0, dec |-> TRUE, z0 |-> FALSE, val |-> 0, last |-> "none"]
Dead == [Q0 EXCEPT !.m = "X"]

NewField(q, l) == [q EXCEPT !.fn = 0, !.dec = TRUE, !.z0 = FALSE, !.val = 0, !.last = l]

OctetOK(q) == q.fn >= 1 /\ q.dec /\ ~(q.z0 /\ q.fn > 1) /\ q.val <= 255

Acc6(q) == /\ q.last \in {"dig", "ell"}
           /\ LET n == q.nf + (IF q.last = "dig" THEN 1 ELSE 0)
              IN IF q.ell THEN n <= 7 ELSE n = 8
Acc4(q) == q.no = 3 /\ q.last = "dig"

Accept(q) == CASE q.m = "4" -> Acc4(q)
               [] q.m = "T" -> Acc4(q)
               [] q.m = "6" -> Acc6(q)
               [] q.m = "Z" -> q.zn
               [] OTHER -> FALSE

AddDigit(q, c) == [q EXCEPT !.fn = q.fn + 1,
                            !.dec = q.dec /\ IsDigit(c),
                            !.z0 = IF q.fn = 0 THEN c = "0" ELSE q.z0,
                            !.val = IF IsDigit(c) THEN Min(256, q.val * 10 + DigitVal(c)) ELSE q.val,
                            !.last = "dig"]

Step(q, c) ==
    IF q.m = "X" THEN Dead
    ELSE IF q.m = "Z" THEN [q EXCEPT !.zn = TRUE]      \* anything goes in a zone
    ELSE
    CASE q.m \in {"S", "6"} /\ IsHex(c) ->
            IF q.last = "lead" \/ q.fn >= 4 \/ q.nf >= 8 THEN Dead ELSE AddDigit(q, c)
      [] q.m \in {"4", "T"} /\ IsHex(c) ->
            LET r == AddDigit(q, c) IN
            IF ~IsDigit(c) \/ (q.z0 /\ q.fn >= 1) \/ r.val > 255 THEN Dead ELSE r
      [] c = ":" ->
            CASE q.m = "S" -> IF q.fn = 0 THEN [q EXCEPT !.m = "6", !.last = "lead"]
                              ELSE [NewField(q, "col") EXCEPT !.m = "6", !.nf = 1]
              [] q.m = "6" ->
                    CASE q.last = "dig" -> IF q.nf + 1 >= 8 THEN Dead
                                           ELSE [NewField(q, "col") EXCEPT !.nf = q.nf + 1]
                      [] q.last \in {"col", "lead"} -> IF q.ell THEN Dead
                                                       ELSE [q EXCEPT !.ell = TRUE, !.last = "ell"]
                      [] OTHER -> Dead
              [] OTHER -> Dead
      [] c = "." ->
            CASE q.m = "S" -> IF q.last = "dig" /\ OctetOK(q)
                              THEN [NewField(q, "dot") EXCEPT !.m = "4", !.no = 1] ELSE Dead
              [] q.m \in {"4", "T"} -> IF q.last = "dig" /\ q.no < 3
                                       THEN [NewField(q, "dot") EXCEPT !.no = q.no + 1] ELSE Dead
              [] q.m = "6" -> IF /\ q.last = "dig" /\ OctetOK(q)
                                 /\ (IF q.ell THEN q.nf <= 5 ELSE q.nf = 6)
                              THEN [NewField(q, "dot") EXCEPT !.m = "T", !.no = 1] ELSE Dead
              [] OTHER -> Dead
      [] c = "%" ->
            IF q.m \in {"6", "T"} /\ Accept(q) THEN [q EXCEPT !.m = "Z", !.zn = FALSE] ELSE Dead
      [] OTHER -> Dead

RECURSIVE Run(_, _)
Run(q, s) == IF s = <<>> THEN q ELSE Run(Step(q, Head(s)), Tail(s))

Viable(q) == q.m # "X"

----------------------------------------------------------------------------
(* Lemmas about the grammar itself (invariants of IPTextMC). *)
Count(s, c) == Cardinality({i \in DOMAIN s : s[i] = c})

Sanity(s) ==
    /\ ~(IPv4(s) /\ IPv6Z(s))
    /\ IPv4(s) => (Count(s, ".") = 3 /\ Len(s) \in 7..15 /\ \A i \in DOMAIN s : IsDigit(s[i]) \/ s[i] = ".")
    /\ IPv6(s) =>
         /\ Count(s, ":") \in 2..8
         /\ Count(s, "%") = 0
         /\ Cardinality(EllipsisAt(s)) <= 1
         /\ (EllipsisAt(s) = {}) = (Fields(s, TRUE) = 8)
         /\ Count(s, ".") \in {0, 3}
    /\ IPv6Z(s) => s[1] \in {":"} \cup {c \in Chars : IsHex(c)}
    /\ AddrPort(s) => (Count(s, ":") >= 1 /\ ~Address(s))
=============================================================================
