SPECIFICATION TokSpec
CONSTANTS
  Toks <- OctetToks
  Prefixes <- TailPrefixes
  MaxTok = 22
INVARIANTS Emit MachineAgrees
CHECK_DEADLOCK FALSE
