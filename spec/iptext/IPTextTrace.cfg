SPECIFICATION TSpec
CONSTANTS
  Stride = 16
INVARIANTS LinesOK
CHECK_DEADLOCK FALSE
