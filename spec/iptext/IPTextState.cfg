SPECIFICATION Spec
CONSTANTS
  Design = "exact"
  Procs = {1, 2}
  MaxCalls = 2
INVARIANTS NoHiddenState InputsAsIntended
PROPERTIES ResultsStable
CHECK_DEADLOCK FALSE
