---------------------------- MODULE IPTextTrace ----------------------------
(* Binding T: every line is an arbitrary (random / mutated) input the real   *)
(* code was run on, abstracted character by character, with what             *)
(* IsValidIPString (ip) and IsValidIPPortString (ipp) returned.  The         *)
(* declarative grammar re-judges each line; the parser state machine must    *)
(* agree with it as well.                                                    *)
EXTENDS IPText, Json, TLC

Trace == ndJsonDeserialize("ip_trace.ndjson")

CONSTANT Stride
VARIABLE l
Ev == Trace[l]

LineOK(e) == /\ e.ip  = Address(e.s)
             /\ e.ipp = AddrPort(e.s)
             /\ Accept(Run(Q0, e.s)) = e.ip

(* Lines are independent: Stride interleaved chains, one TLC worker each. *)
TInit == l \in 1..Stride
TNext == l <= Len(Trace) /\ l' = l + Stride
TSpec == TInit /\ [][TNext]_l

LinesOK == l <= Len(Trace) => LineOK(Ev)
=============================================================================
