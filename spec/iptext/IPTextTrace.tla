---------------------------- MODULE IPTextTrace ----------------------------
(* Binding T: every line is an arbitrary (random / mutated) input the real   *)
(* code was run on, abstracted character by character, with what             *)
(* IsValidIPString (ip) and IsValidIPPortString (ipp) returned.  The         *)
(* declarative grammar re-judges each line; the parser state machine must    *)
(* agree with it as well.                                                    *)
EXTENDS IPText, Json, TLC

Trace == ndJsonDeserialize("ip_trace.ndjson")

CONSTANTS Stride,
          NLines     \* the number of lines the orchestrator wrote into the file

(* The log TLC sees must be the log that was written (a short read would make *)
(* the judgement vacuous): checked, and printed, before anything else.       *)
ASSUME TraceComplete == PrintT(<<"TRACE-LINES", Len(Trace), NLines>>) /\ Len(Trace) = NLines

VARIABLE l
Ev == Trace[l]

LineOK(e) == /\ e.ip  = Address(e.s)
             /\ e.ipp = AddrPort(e.s)
             /\ Accept(Run(Q0, e.s)) = e.ip

(* Lines are independent: Stride interleaved chains, one TLC worker each. *)
(* TLC evaluates initial states (and their invariants) in its main thread,    *)
(* whose stack is small: a long line (hundreds of runs, deep recursion) as    *)
(* one of the first lines of a chunk overflowed it, now and then, depending    *)
(* on how much had been compiled yet.  So the chains start one step BEFORE     *)
(* the log, on indices <= 0 that stand for no line; every real line is judged  *)
(* in a successor state, i.e. by a worker thread (stack size set by -Xss).     *)
TInit == l \in (1 - Stride)..0
TNext == l <= Len(Trace) /\ l' = l + Stride
TSpec == TInit /\ [][TNext]_l

LinesOK == (l >= 1 /\ l <= Len(Trace)) => LineOK(Ev)
=============================================================================
