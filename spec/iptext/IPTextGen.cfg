SPECIFICATION Spec
CONSTANTS
  Alphabet = {"0", "1", "2", "5", "6", "a", "g", ":", ".", "%"}
  MaxLen = 6
INVARIANTS Emit MachineAgrees
CHECK_DEADLOCK FALSE
