SPECIFICATION PortSpec
CONSTANTS
  Toks <- V6Toks
  Prefixes <- NoPrefix
  MaxTok = 0
INVARIANTS Emit
CHECK_DEADLOCK FALSE
