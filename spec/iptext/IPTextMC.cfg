SPECIFICATION Spec
CONSTANTS
  Alphabet = {"0", "1", "2", "5", "6", "a", "g", ":", ".", "%"}
  MaxLen = 5
INVARIANTS TypeOK RunInv MachineAgrees DeadIsDead SanityInv
CHECK_DEADLOCK FALSE
