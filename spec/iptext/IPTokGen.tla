------------------------------ MODULE IPTokGen ------------------------------
(* Binding G, token level.  A token stands for a CLASS of character strings  *)
(* the grammar cannot tell apart in its position (a one-digit field, a       *)
(* 4-digit hex field, a valid dotted quad, a non-empty zone ...); Expand      *)
(* gives the canonical member, the Go concretiser draws others.  Field-like   *)
(* tokens are never adjacent, so every token keeps its role.                  *)
(*                                                                            *)
(*  TokSpec  : every VIABLE prefix (the parser state machine is not dead)     *)
(*             that starts with one of Prefixes, up to MaxTok tokens, followed*)
(*             by every one-token extension -- one vector per transition of   *)
(*             the parser from every reachable parser configuration: 6/7/8/9  *)
(*             fields with the ellipsis at every position, IPv4 tails after   *)
(*             every field count, zones, junk.                                *)
(*  PortSpec : address shapes x bracket forms x port tokens.                  *)
EXTENDS IPText, Json, CSV, TLC

CONSTANTS Toks, Prefixes, MaxTok

VARIABLES ts,   \* the input: sequence of tokens
          q     \* parser state after the expansion of ts
vars == <<ts, q>>

Expand(t) ==
    CASE t = "D1"  -> <<"1">>                       \* one decimal digit 1..9
      [] t = "Z"   -> <<"0">>
      [] t = "A1"  -> <<"a">>                       \* one hex letter
      [] t = "D2"  -> <<"2", "5">>                  \* 10..99
      [] t = "D3"  -> <<"2", "5", "5">>             \* 100..255
      [] t = "D3B" -> <<"2", "5", "6">>             \* 256..999
      [] t = "Z2"  -> <<"0", "1">>                  \* leading zero, 2..3 digits
      [] t = "A4"  -> <<"1", "a", "2", "a">>        \* 4 hex digits, at least one letter
      [] t = "D4"  -> <<"1", "2", "3", "4">>        \* 1000..9999
      [] t = "H5"  -> <<"1", "2", "3", "4", "5">>   \* 5 hex digits
      [] t = "V4"  -> <<"1", ".", "2", ".", "3", ".", "4">>
      [] t = "V4S" -> <<"1", ".", "2", ".", "3">>
      [] t = "V4L" -> <<"1", ".", "2", ".", "3", ".", "4", ".", "5">>
      [] t = "V4B" -> <<"1", ".", "2", ".", "3", ".", "2", "5", "6">>
      [] t = "V4Z" -> <<"1", ".", "2", ".", "3", ".", "0", "4">>
      [] t = "%z"  -> <<"%", "g">>                  \* non-empty zone
      [] t = "J"   -> <<"g">>                       \* junk byte
      [] t = "P0"    -> <<"0">>
      [] t = "P00"   -> <<"0", "0">>
      [] t = "P80"   -> <<"8", "0">>                \* 1..65535, no leading zero
      [] t = "PMAX"  -> <<"6", "5", "5", "3", "5">>
      [] t = "POVER" -> <<"6", "5", "5", "3", "6">> \* 65536..99999
      [] t = "PLZ"   -> <<"0", "0", "6", "5", "5", "3", "5">>   \* zeros + value <= 65535
      [] t = "PLZO"  -> <<"0", "6", "5", "5", "3", "6">>        \* zeros + value > 65535
      [] t = "PBIG"  -> [i \in 1..20 |-> "9"]       \* beyond 64 bits
      [] t = "PPLUS" -> <<"g", "1">>                \* sign
      [] t = "PHEX"  -> <<"8", "a">>
      [] t = "PJ"    -> <<"8", "g">>
      [] OTHER -> <<t>>                             \* ":" "." "%" "[" "]"

FieldLike == {"D1", "Z", "A1", "D2", "D3", "D3B", "Z2", "A4", "D4", "H5",
              "V4", "V4S", "V4L", "V4B", "V4Z",
              "P0", "P00", "P80", "PMAX", "POVER", "PLZ", "PLZO", "PBIG", "PPLUS", "PHEX", "PJ"}

RECURSIVE ExpandAll(_)
ExpandAll(t) == IF t = <<>> THEN <<>> ELSE Expand(Head(t)) \o ExpandAll(Tail(t))

X == ExpandAll(ts)

MayFollow(t) == ~(Len(ts) > 0 /\ ts[Len(ts)] \in FieldLike /\ t \in FieldLike)

TokInit == \E p \in Prefixes : ts = p /\ q = Run(Q0, ExpandAll(p))
TokNext == /\ Viable(q)
           /\ ~(q.m = "Z" /\ q.zn)          \* a non-empty zone swallows everything: stop
           /\ Len(ts) < MaxTok
           /\ \E t \in Toks : MayFollow(t) /\ ts' = Append(ts, t) /\ q' = Run(q, Expand(t))
TokSpec == TokInit /\ [][TokNext]_vars

MachineAgrees == Accept(q) = Address(X)

Port80 == <<":", "8", "0">>
Emit == CSVWrite("%1$s", <<ToJson([t |-> ts, a |-> Address(X), p |-> AddrPort(X),
                                   pb |-> AddrPort(<<"[">> \o X \o <<"]">> \o Port80),
                                   pn |-> AddrPort(X \o Port80)])>>,
                 "ip_tok_vectors.ndjson")

----------------------------------------------------------------------------
(* Prefix / token tables (cfg files cannot hold tuples). *)
NoPrefix == {<<>>}
V6Toks == {"D1", "A4", "H5", ":", "V4", "V4B", "%z", "%", "J"}
V6ToksThorough == V6Toks \cup {"Z2", "V4S", "V4L", "V4Z"}
OctetToks == {"D1", "Z", "A1", "D2", "D3", "D3B", "Z2", "D4", ".", "%z", "J"}
(* contexts in which a dotted quad is read *)
TailPrefixes == {<<>>, <<":", ":">>, <<":", ":", "A4", ":">>,
                 <<"D1", ":", "D1", ":", "D1", ":", "D1", ":", "D1", ":", "D1", ":">>,
                 <<"D1", ":", "D1", ":", "D1", ":", "D1", ":", "D1", ":", "D1", ":", "D1", ":">>,
                 <<"D1", ":", ":", "D1", ":", "D1", ":", "D1", ":", "D1", ":">>,
                 <<"D1", ":", ":", "D1", ":", "D1", ":", "D1", ":", "D1", ":", "D1", ":">>}

----------------------------------------------------------------------------
(* Ports *)
AddrShapes == {<<"V4">>, <<"V4B">>, <<"D1">>, <<>>, <<":", ":">>, <<":", ":", "D1">>, <<"A4", ":", ":">>,
               <<":", ":", "V4">>, <<"D1", ":", "D1">>,
               <<"D1", ":", "D1", ":", "D1", ":", "D1", ":", "D1", ":", "D1", ":", "D1", ":", "A4">>,
               <<":", ":", "D1", "%z">>, <<":", ":", "%z">>, <<":", ":", "%">>, <<"V4", "%z">>}
PortToks == {"P0", "P00", "P80", "PMAX", "POVER", "PLZ", "PLZO", "PBIG", "PPLUS", "PHEX", "PJ"}
Ports == {<<p>> : p \in PortToks} \cup {<<>>}
Wrap(b, a, p) ==
    CASE b = "plain"   -> a \o <<":">> \o p
      [] b = "br"      -> <<"[">> \o a \o <<"]", ":">> \o p
      [] b = "noclose" -> <<"[">> \o a \o <<":">> \o p
      [] b = "noopen"  -> a \o <<"]", ":">> \o p
      [] b = "double"  -> <<"[", "[">> \o a \o <<"]", "]", ":">> \o p
      [] b = "nocolon" -> <<"[">> \o a \o <<"]">> \o p
      [] b = "zoneout" -> <<"[">> \o a \o <<"]", "%z", ":">> \o p
      [] b = "junkmid" -> <<"[">> \o a \o <<"]", "J", ":">> \o p
      [] b = "twoport" -> <<"[">> \o a \o <<"]", ":">> \o p \o <<":">> \o p
Wraps == {"plain", "br", "noclose", "noopen", "double", "nocolon", "zoneout", "junkmid", "twoport"}
PortCases == {Wrap(b, a, p) : b \in Wraps, a \in AddrShapes, p \in Ports}

PortInit == ts \in PortCases /\ q = Q0
PortSpec == PortInit /\ [][FALSE]_vars
=============================================================================
