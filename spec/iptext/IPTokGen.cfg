SPECIFICATION TokSpec
CONSTANTS
  Toks <- V6Toks
  Prefixes <- NoPrefix
  MaxTok = 17
INVARIANTS Emit MachineAgrees
CHECK_DEADLOCK FALSE
