---------------------------- MODULE IPTextState ----------------------------
(* "IsValidIPString and IsValidIPPortString are functions of their argument:  *)
(* no hidden state."  C02 defines both verdicts in terms of the argument      *)
(* alone (what netip.ParseAddr / ParseAddrPort say about it), so a verdict    *)
(* may not depend on earlier or concurrent calls.  Designs of "a validator    *)
(* with a one-entry memo of the last text" (kinds "ip" and "ipp"):            *)
(*                                                                            *)
(*   "none"    no state (what /repo does);                                    *)
(*   "exact"   one memo per kind holding the last accepted text;              *)
(*   "shared"  one memo for both kinds (IsValidIPPortString validates its     *)
(*             address part with IsValidIPString, so it is tempting to share);*)
(*   "unsync"  per-kind memo of two words (key, verdict) written and read in  *)
(*             separate steps without synchronisation.                        *)
(*                                                                            *)
(* Obligation: NoHiddenState - every completed call of kind k on text s       *)
(* returned Address(s) resp. AddrPort(s).  TLC proves it for "none" and       *)
(* "exact" and must refute it for "shared" (ip on "::1:80", then ipp on the   *)
(* same text) and for "unsync" (two processes).  The harness replays those    *)
(* histories: every text through both validators in both orders and twice,    *)
(* interleaved with near-miss texts, a shuffled second pass, goroutines under *)
(* -race.                                                                     *)
EXTENDS IPText

CONSTANTS Design, Procs, MaxCalls

Kinds == {"ip", "ipp"}
Texts == {"v6", "v6port", "v6p", "v4", "v4port", "near"}
Text(id) == CASE id = "v6"     -> <<":", ":", "1">>
              [] id = "v6port" -> <<":", ":", "1", ":", "8", "0">>                 \* an ADDRESS (::1:80), not address:port
              [] id = "v6p"    -> <<"[", ":", ":", "1", "]", ":", "8", "0">>
              [] id = "v4"     -> <<"1", ".", "2", ".", "3", ".", "4">>
              [] id = "v4port" -> <<"1", ".", "2", ".", "3", ".", "4", ":", "8", "0">>
              [] id = "near"   -> <<":", ":", "1", ":">>

Grammar(k, id) == IF k = "ip" THEN Address(Text(id)) ELSE AddrPort(Text(id))

VARIABLES memo, pc, cur, done, calls
svars == <<memo, pc, cur, done, calls>>

Slots == Kinds \cup {"all"}
Slot(k) == IF Design = "shared" THEN "all" ELSE k
NoMemo == [valid |-> FALSE, key |-> "v6", ok |-> FALSE]

Init == /\ memo = [s \in Slots |-> NoMemo]
        /\ pc = [p \in Procs |-> "idle"]
        /\ cur = [p \in Procs |-> [k |-> "ip", n |-> "v6"]]
        /\ done = {}
        /\ calls = [p \in Procs |-> 0]

Hit(k, n) == memo[Slot(k)].valid /\ memo[Slot(k)].key = n
Completed(k, n, res) == done' = done \cup {[k |-> k, n |-> n, res |-> res]}

AtomicCall(p) ==
    /\ Design \in {"none", "exact", "shared"}
    /\ pc[p] = "idle" /\ calls[p] < MaxCalls
    /\ calls' = [calls EXCEPT ![p] = @ + 1]
    /\ \E k \in Kinds, n \in Texts :
         IF Design = "none" THEN
              Completed(k, n, Grammar(k, n)) /\ UNCHANGED memo
         ELSE IF Hit(k, n) THEN
              Completed(k, n, TRUE) /\ UNCHANGED memo
         ELSE /\ Completed(k, n, Grammar(k, n))
              /\ memo' = IF Grammar(k, n) THEN [memo EXCEPT ![Slot(k)] = [valid |-> TRUE, key |-> n, ok |-> TRUE]] ELSE memo
    /\ UNCHANGED <<pc, cur>>

Lookup(p) == /\ Design = "unsync"
             /\ pc[p] = "idle" /\ calls[p] < MaxCalls
             /\ calls' = [calls EXCEPT ![p] = @ + 1]
             /\ \E k \in Kinds, n \in Texts :
                  /\ cur' = [cur EXCEPT ![p] = [k |-> k, n |-> n]]
                  /\ pc' = [pc EXCEPT ![p] = IF Hit(k, n) THEN "hit" ELSE "miss"]
             /\ UNCHANGED <<memo, done>>
ReadVerdict(p) == /\ pc[p] = "hit"
                  /\ Completed(cur[p].k, cur[p].n, memo[Slot(cur[p].k)].ok)
                  /\ pc' = [pc EXCEPT ![p] = "idle"]
                  /\ UNCHANGED <<memo, cur, calls>>
StoreKey(p) == /\ pc[p] = "miss"
               /\ memo' = [memo EXCEPT ![Slot(cur[p].k)].valid = TRUE, ![Slot(cur[p].k)].key = cur[p].n]
               /\ pc' = [pc EXCEPT ![p] = "stored"]
               /\ UNCHANGED <<cur, done, calls>>
StoreVerdict(p) == /\ pc[p] = "stored"
                   /\ memo' = [memo EXCEPT ![Slot(cur[p].k)].ok = Grammar(cur[p].k, cur[p].n)]
                   /\ Completed(cur[p].k, cur[p].n, Grammar(cur[p].k, cur[p].n))
                   /\ pc' = [pc EXCEPT ![p] = "idle"]
                   /\ UNCHANGED <<cur, calls>>

Next == \E p \in Procs : AtomicCall(p) \/ Lookup(p) \/ ReadVerdict(p) \/ StoreKey(p) \/ StoreVerdict(p)
Spec == Init /\ [][Next]_svars

NoHiddenState == \A r \in done : r.res = Grammar(r.k, r.n)
ResultsStable == [][done \subseteq done']_svars

InputsAsIntended ==
    /\ Grammar("ip", "v6") /\ ~Grammar("ipp", "v6")
    /\ Grammar("ip", "v6port") /\ ~Grammar("ipp", "v6port")
    /\ ~Grammar("ip", "v6p") /\ Grammar("ipp", "v6p")
    /\ Grammar("ip", "v4") /\ ~Grammar("ip", "v4port") /\ Grammar("ipp", "v4port")
    /\ ~Grammar("ip", "near") /\ ~Grammar("ipp", "near")

ASSUME Design \in {"none", "exact", "shared", "unsync"}
=============================================================================
