----------------------------- MODULE IPTextMC -----------------------------
(* Every string over Alphabet up to MaxLen characters is one state; the     *)
(* parser state machine is carried along.  Invariants: the two formulations *)
(* of the grammar agree, dead states are really dead, and the sanity lemmas *)
(* of IPText hold.                                                          *)
EXTENDS IPText

CONSTANTS Alphabet, MaxLen

VARIABLES cs,   \* the input
          q     \* parser state after reading cs
vars == <<cs, q>>

Init == cs = <<>> /\ q = Q0
Next == /\ Len(cs) < MaxLen
        /\ \E c \in Alphabet : cs' = Append(cs, c) /\ q' = Step(q, c)
Spec == Init /\ [][Next]_vars

TypeOK == /\ q.m \in {"S", "4", "6", "T", "Z", "X"}
          /\ q.nf \in 0..8 /\ q.no \in 0..3 /\ q.fn \in 0..4 /\ q.val \in 0..256
RunInv == q = Run(Q0, cs)      \* the incremental state is the state of a fresh run
MachineAgrees == Accept(q) = Address(cs)
DeadIsDead    == ~Viable(q) => ~Address(cs)   \* and every extension stays dead (Step)
SanityInv     == Sanity(cs)
=============================================================================
