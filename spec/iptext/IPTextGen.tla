----------------------------- MODULE IPTextGen -----------------------------
(* Binding G, character level: every string over Alphabet up to MaxLen with *)
(* the verdicts the grammar predicts for netip.ParseAddr (a) and            *)
(* netip.ParseAddrPort (p).  One line per state.                            *)
EXTENDS IPTextMC, Json, CSV

Emit == CSVWrite("%1$s", <<ToJson([s |-> cs, a |-> Address(cs), p |-> AddrPort(cs)])>>,
                 "ip_char_vectors.ndjson")
=============================================================================
