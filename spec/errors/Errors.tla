------------------------------- MODULE Errors -------------------------------
(* golibs/errors: the error algebra.                                          *)
(*                                                                            *)
(* An error VALUE (what a Go `error` interface holds) is a finite tree:       *)
(*                                                                            *)
(*   Nil                the nil interface                                     *)
(*   Leaf(id)           errors.Error(<text of id>)   - comparable BY VALUE    *)
(*   Wrap(m, s)         *fmt.wrapError of fmt.Errorf("<m>: %w", s) - pointer  *)
(*   Opq(t)             an error without Unwrap whose text is t   - pointer   *)
(*   Def(s)             errors.deferredError{error: s} - a struct, compared   *)
(*                      BY VALUE (equal iff the wrapped interfaces are ==)    *)
(*   Pair(r, d)         *errors.Pair{Returned: r, Deferred: d}    - pointer   *)
(*   JoinN(ss)          the std-lib join error over ss (non-nil)  - pointer   *)
(*                                                                            *)
(* An EXPRESSION is a term over the library's constructors (Annotate,         *)
(* WithDeferred, Join, FromRecovered, &Pair{}) - what a caller writes; Val    *)
(* evaluates an expression to the value the documentation promises.           *)
(*                                                                            *)
(* Is / As / Unwrap follow the Go std lib (errors.Is is the reference the     *)
(* harness also calls): pre-order walk along Unwrap() error and               *)
(* Unwrap() []error; `==` on the interface values at every node.  Pointer     *)
(* identity is modelled by the node's PATH in the value tree (the harness     *)
(* never builds the same pointer twice), value comparison by the rules above. *)
(*                                                                            *)
(* Text is a sequence of tokens: literal fragments and the symbolic tokens    *)
(* "<Q>" (double quote), "<BS>" (backslash), "<NL>" (newline), "<U>" (a       *)
(* printable non-ASCII rune).  Quote is Go's %q on those tokens.              *)
EXTENDS Integers, Sequences, FiniteSets

----------------------------------------------------------------------------
(* Design switch, FALSE for the real library.  TRUE models the alternative    *)
(* "a Pair exposes both errors to Is/As" (Unwrap() []error); the check runs   *)
(* it once and TLC must refute WithDeferredLemma - the documented             *)
(* Unwrap ("returns the Returned error") makes Is blind to the deferred side. *)
CONSTANT PairUnwrapsBoth

(* Values *)
Nil         == [k |-> "nil"]
Leaf(id)    == [k |-> "leaf", id |-> id]
Wrap(m, s)  == [k |-> "wrap", m |-> m, s |-> s]
Opq(t)      == [k |-> "opq", t |-> t]
Def(s)      == [k |-> "def", s |-> s]
Pair(r, d)  == [k |-> "pair", r |-> r, d |-> d]
JoinN(ss)   == [k |-> "join", ss |-> ss]

IsNil(v) == v.k = "nil"

(* All children (structure) and the children Unwrap exposes (what Is/As walk). *)
Kids(v) == CASE v.k \in {"wrap", "def"} -> <<v.s>>
             [] v.k = "pair" -> <<v.r, v.d>>
             [] v.k = "join" -> v.ss
             [] OTHER -> <<>>
(* Pair.Unwrap    "returns the Returned error": the deferred side is not      *)
(* exposed.  A nil result of Unwrap ends the walk.                            *)
UnwrapKids(v) == CASE v.k \in {"wrap", "def"} -> IF IsNil(v.s) THEN <<>> ELSE <<v.s>>
                   [] v.k = "pair" -> IF PairUnwrapsBoth THEN SelectSeq(<<v.r, v.d>>, LAMBDA c : c.k # "nil")
                                      ELSE IF IsNil(v.r) THEN <<>> ELSE <<v.r>>
                   [] v.k = "join" -> v.ss
                   [] OTHER -> <<>>

(* errors.Unwrap: only Unwrap() error counts; a join error yields nil. *)
Unwrap1(v) == CASE v.k \in {"wrap", "def"} -> v.s
                [] v.k = "pair" -> v.r
                [] OTHER -> Nil

----------------------------------------------------------------------------
(* Text *)
LeafText(id) == CASE id = "A" -> <<"not found">>
                  [] id = "B" -> <<"b", "<Q>", "q", "<BS>", "z">>
                  [] id = "C" -> <<"<U>", "<NL>", "2">>
                  [] OTHER -> <<id>>

Esc(tok) == CASE tok = "<Q>"  -> <<"<BS>", "<Q>">>
              [] tok = "<BS>" -> <<"<BS>", "<BS>">>
              [] tok = "<NL>" -> <<"<BS>", "n">>
              [] OTHER -> <<tok>>
RECURSIVE EscAll(_)
EscAll(t) == IF t = <<>> THEN <<>> ELSE Esc(Head(t)) \o EscAll(Tail(t))
Quote(t) == <<"<Q>">> \o EscAll(t) \o <<"<Q>">>

(* The inverse (used only by the lemma QuoteRoundTrip). *)
RECURSIVE UnescAll(_)
UnescAll(t) ==
    IF t = <<>> THEN <<>>
    ELSE IF Head(t) = "<BS>" /\ Len(t) >= 2
         THEN LET c == t[2]
                  d == CASE c = "<Q>" -> "<Q>" [] c = "<BS>" -> "<BS>" [] c = "n" -> "<NL>" [] OTHER -> "?"
              IN <<d>> \o UnescAll(SubSeq(t, 3, Len(t)))
         ELSE <<Head(t)>> \o UnescAll(Tail(t))
Unquote(t) == UnescAll(SubSeq(t, 2, Len(t) - 1))

RECURSIVE SepJoin(_, _)
SepJoin(ts, sep) == IF Len(ts) = 0 THEN <<>>
                    ELSE IF Len(ts) = 1 THEN ts[1]
                    ELSE ts[1] \o sep \o SepJoin(Tail(ts), sep)

RECURSIVE Text(_)
(* %q of an error operand: a nil operand prints fmt's bad-verb marker. *)
QuoteErr(v) == IF IsNil(v) THEN <<"%!q(<nil>)">> ELSE Quote(Text(v))
Text(v) ==
    CASE v.k = "leaf" -> LeafText(v.id)
      [] v.k = "wrap" -> <<v.m, ": ">> \o Text(v.s)
      [] v.k = "opq"  -> v.t
      (* deferredError.Error: "deferred: %s" *)
      [] v.k = "def"  -> <<"deferred: ">> \o Text(v.s)
      (* Pair.Error:    `returned: %q, deferred: %q` of Returned and Unwrap(Deferred) *)
      [] v.k = "pair" -> <<"returned: ">> \o QuoteErr(v.r) \o <<", deferred: ">> \o QuoteErr(Unwrap1(v.d))
      (* Join: "the concatenation of the strings ... with a newline between" *)
      [] v.k = "join" -> SepJoin([i \in 1..Len(v.ss) |-> Text(v.ss[i])], <<"<NL>">>)
      [] OTHER -> <<"<nil>">>

----------------------------------------------------------------------------
(* The library's operations on values *)

(* Annotate "annotates the error with the message, unless the error is nil";  *)
(* with %w the result wraps err.                                              *)
Annotate(v, m) == IF IsNil(v) THEN Nil ELSE Wrap(m, v)
(* The same with a verb that only prints (%v): fmt.Errorf returns an error    *)
(* without Unwrap.                                                            *)
AnnotateV(v, m) == IF IsNil(v) THEN Nil ELSE Opq(<<m, ": ">> \o Text(v))

(* WithDeferred truth table (doc comment + ExampleWithDeferred). *)
WithDeferred(r, d) == IF IsNil(d) THEN r
                      ELSE IF IsNil(r) THEN Def(d)
                      ELSE Pair(r, Def(d))

(* Join: "Any nil error values are discarded.  Join returns nil if errs       *)
(* contains no non-nil values"; it "wraps the given errors" - no flattening.  *)
Join(vs) == LET nn == SelectSeq(vs, LAMBDA v : ~IsNil(v))
            IN IF nn = <<>> THEN Nil ELSE JoinN(nn)

(* Panic / recover payloads: [p |-> "nil"], [p |-> "err", e |-> value],       *)
(* [p |-> "val", tok |-> token].  RecText is fmt's %v of the token's Go value *)
(* (harness: "S" -> "boom", "I" -> 42, "P" -> a nil pointer).                 *)
RecText(tok) == CASE tok = "S" -> "boom" [] tok = "I" -> "42" [] tok = "P" -> "<nil>" [] OTHER -> tok
FromRecovered(p) == CASE p.p = "nil" -> Nil
                      [] p.p = "err" -> p.e
                      [] OTHER -> Opq(<<"recovered: ", RecText(p.tok)>>)

(* Check(err) / Must(v, err) panic iff err # nil - with err itself. *)
CheckPanics(v) == ~IsNil(v)

----------------------------------------------------------------------------
(* Expressions and their evaluation *)
XNil            == [o |-> "nil"]
XLeaf(id)       == [o |-> "leaf", id |-> id]
XAnn(f, m, a)   == [o |-> "ann", f |-> f, m |-> m, a |-> a]   \* f: "w" (%w) or "v" (%v)
XWd(r, d)       == [o |-> "wd", r |-> r, d |-> d]
XJoin(as)       == [o |-> "join", as |-> as]
XRecVal(tok)    == [o |-> "recval", tok |-> tok]              \* FromRecovered(<non-error value>)
XRecNil         == [o |-> "recnil"]                           \* FromRecovered(nil)
XRecErr(a)      == [o |-> "recerr", a |-> a]                  \* FromRecovered(<error>)
XMkPair(r, d)   == [o |-> "mkpair", r |-> r, d |-> d]         \* &errors.Pair{Returned: r, Deferred: d}

RECURSIVE Val(_)
Val(x) ==
    CASE x.o = "nil"    -> Nil
      [] x.o = "leaf"   -> Leaf(x.id)
      [] x.o = "ann"    -> IF x.f = "w" THEN Annotate(Val(x.a), x.m) ELSE AnnotateV(Val(x.a), x.m)
      [] x.o = "wd"     -> WithDeferred(Val(x.r), Val(x.d))
      [] x.o = "join"   -> Join([i \in 1..Len(x.as) |-> Val(x.as[i])])
      [] x.o = "recval" -> FromRecovered([p |-> "val", tok |-> x.tok])
      [] x.o = "recnil" -> FromRecovered([p |-> "nil"])
      [] x.o = "recerr" -> LET v == Val(x.a) IN
                           \* recover() of panic(nil error) is not an error value: the
                           \* harness passes the error interface, nil stays nil.
                           IF IsNil(v) THEN FromRecovered([p |-> "nil"]) ELSE FromRecovered([p |-> "err", e |-> v])
      [] x.o = "mkpair" -> Pair(Val(x.r), Val(x.d))

----------------------------------------------------------------------------
(* Paths: a node of a value tree is named by the child indices leading to it. *)
RECURSIVE At(_, _)
At(v, p) == IF p = <<>> THEN v ELSE At(Kids(v)[Head(p)], Tail(p))

RECURSIVE ConcatAll(_)
ConcatAll(ss) == IF ss = <<>> THEN <<>> ELSE Head(ss) \o ConcatAll(Tail(ss))

(* All nodes, pre-order. *)
RECURSIVE PathsFrom(_, _)
PathsFrom(v, p) == <<p>> \o ConcatAll([i \in 1..Len(Kids(v)) |-> PathsFrom(Kids(v)[i], Append(p, i))])
AllPaths(v) == PathsFrom(v, <<>>)

(* The nodes Is/As visit, in visiting order.  (UnwrapKids is a prefix-        *)
(* compatible sub-sequence of Kids: child i of the walk is child i of the     *)
(* structure.)                                                                *)
RECURSIVE ReachFrom(_, _)
ReachFrom(v, p) == <<p>> \o ConcatAll([i \in 1..Len(UnwrapKids(v)) |-> ReachFrom(UnwrapKids(v)[i], Append(p, i))])
ReachPaths(v) == IF IsNil(v) THEN <<>> ELSE ReachFrom(v, <<>>)

(* Shape: pre-order list of node kinds with what identifies them. *)
Digit(n) == CASE n = 0 -> "0" [] n = 1 -> "1" [] n = 2 -> "2" [] n = 3 -> "3" [] n = 4 -> "4"
              [] n = 5 -> "5" [] n = 6 -> "6" [] n = 7 -> "7" [] n = 8 -> "8" [] OTHER -> "9+"
KindOf(v) == CASE v.k = "leaf" -> "leaf:" \o v.id
               [] v.k = "join" -> "join:" \o Digit(Len(v.ss))
               [] OTHER -> v.k
Shape(v) == LET ps == AllPaths(v) IN [i \in 1..Len(ps) |-> KindOf(At(v, ps[i]))]

----------------------------------------------------------------------------
(* `==` on two interface values.                                              *)
(* (a) against a FRESH external value t (built separately): only the          *)
(*     value-compared kinds can be equal.                                     *)
RECURSIVE VEq(_, _)
VEq(a, b) == \/ IsNil(a) /\ IsNil(b)
             \/ a.k = "leaf" /\ b.k = "leaf" /\ a.id = b.id
             \/ a.k = "def" /\ b.k = "def" /\ VEq(a.s, b.s)
(* (b) between two nodes of the same tree v, given by their paths. *)
RECURSIVE PEq(_, _, _)
PEq(v, q, p) ==
    \/ q = p
    \/ LET a == At(v, q)
           b == At(v, p)
       IN \/ a.k = "leaf" /\ b.k = "leaf" /\ a.id = b.id
          \/ a.k = "nil" /\ b.k = "nil"
          \/ a.k = "def" /\ b.k = "def" /\ PEq(v, Append(q, 1), Append(p, 1))

(* errors.Is - the recursive definition of the std lib. *)
RECURSIVE IsIn(_, _)
IsIn(v, t) == \/ VEq(v, t)
              \/ \E i \in 1..Len(UnwrapKids(v)) : IsIn(UnwrapKids(v)[i], t)
Is(v, t) == IF IsNil(v) \/ IsNil(t) THEN IsNil(v) /\ IsNil(t) ELSE IsIn(v, t)

(* errors.Is(v, <the node of v at path p>) *)
IsSub(v, p) == LET t == At(v, p)
                   rp == ReachPaths(v)
               IN IF IsNil(v) \/ IsNil(t) THEN IsNil(v) /\ IsNil(t)
                  ELSE \E i \in 1..Len(rp) : PEq(v, rp[i], p)

(* The same, declaratively: the set of values reachable through Unwrap. *)
ReachSet(v) == LET rp == ReachPaths(v) IN {At(v, rp[i]) : i \in 1..Len(rp)}
IsDecl(v, t) == IF IsNil(v) \/ IsNil(t) THEN IsNil(v) /\ IsNil(t)
                ELSE \E n \in ReachSet(v) : VEq(n, t)

(* errors.As: the first visited node of one of the kinds K.  Result: <<0>> =  *)
(* not found, <<1>> \o path = found.                                          *)
AsFirst(v, K) == LET ps == ReachPaths(v)
                     hit == {i \in 1..Len(ps) : At(v, ps[i]).k \in K}
                 IN IF hit = {} THEN <<0>>
                    ELSE <<1>> \o ps[CHOOSE i \in hit : \A j \in hit : i <= j]
AsError(v)    == AsFirst(v, {"leaf"})   \* var e errors.Error;   errors.As(err, &e)
AsPair(v)     == AsFirst(v, {"pair"})   \* var e *errors.Pair;   errors.As(err, &e)
AsDeferred(v) == AsFirst(v, {"def"})    \* var e errors.Deferred; errors.As(err, &e)

(* External Is-targets, in the order the harness uses (x02.extTargets). *)
ExtTargets == << Nil, Leaf("A"), Leaf("B"), Leaf("C"),
                 Def(Leaf("A")), Def(Leaf("C")), Def(Def(Leaf("B"))),
                 Wrap("m1", Leaf("A")), JoinN(<<Leaf("A")>>) >>

B01(b) == IF b THEN 1 ELSE 0

(* Everything the harness observes on one value. *)
Observe(v) ==
    LET ap == IF IsNil(v) THEN <<>> ELSE AllPaths(v) IN
    [ nil   |-> B01(IsNil(v)),
      shape |-> [i \in 1..Len(ap) |-> KindOf(At(v, ap[i]))],
      text  |-> IF IsNil(v) THEN <<>> ELSE Text(v),
      is    |-> [i \in 1..Len(ExtTargets) |-> B01(Is(v, ExtTargets[i]))],
      isSub |-> IF IsNil(v) THEN <<>> ELSE [i \in 1..Len(ap) |-> B01(IsSub(v, ap[i]))],
      asE   |-> AsError(v),
      asP   |-> AsPair(v),
      asD   |-> AsDeferred(v),
      uw    |-> B01(~IsNil(Unwrap1(v))),
      panics |-> B01(CheckPanics(v)) ]

----------------------------------------------------------------------------
(* Enumeration of expressions: the state is one expression.                   *)
CONSTANTS LeafIds,    \* e.g. {"A", "B", "C"}
          Msgs,       \* annotation messages
          AnnKinds,   \* subset of {"w", "v"}
          RecToks,    \* subset of {"S", "I", "P"}
          MaxLvl,     \* number of constructor applications on the spine
          SmallSel    \* SmallSel[l] \in {"atoms", "few", "depth1"}: the other operand at level l

VARIABLES x, lvl
evars == <<x, lvl>>

Atoms == {XNil} \cup {XLeaf(id) : id \in LeafIds}
RecAtoms == {XRecVal(t) : t \in RecToks} \cup (IF RecToks = {} THEN {} ELSE {XRecNil})

(* All expressions with exactly one constructor over atoms. *)
Unary(a) == {XAnn(f, m, a) : f \in AnnKinds, m \in Msgs} \cup {XJoin(<<a>>), XRecErr(a)}
Depth1 == Atoms \cup RecAtoms
          \cup UNION {Unary(a) : a \in Atoms}
          \cup {XWd(r, d) : r \in Atoms, d \in Atoms}
          \cup {XJoin(<<a, b>>) : a \in Atoms, b \in Atoms}
Few == Atoms \cup {XWd(XNil, XLeaf("B")), XJoin(<<XLeaf("A")>>), XAnn("w", "m1", XLeaf("C")),
                   XWd(XLeaf("A"), XLeaf("C"))}
Small(l) == CASE SmallSel[l] = "depth1" -> Depth1
              [] SmallSel[l] = "few" -> Few
              [] OTHER -> Atoms

Grow(a, l) == Unary(a)
              \cup {XWd(a, s) : s \in Small(l)} \cup {XWd(s, a) : s \in Small(l)}
              \cup {XJoin(<<a, s>>) : s \in Small(l)} \cup {XJoin(<<s, a>>) : s \in Small(l)}
              \cup {XJoin(<<XNil, a, XNil>>)}

EInit == x \in Atoms \cup RecAtoms /\ lvl = 0
ENext == /\ lvl < MaxLvl
         /\ lvl' = lvl + 1
         /\ x' \in Grow(x, lvl + 1)
ESpec == EInit /\ [][ENext]_evars

----------------------------------------------------------------------------
(* Lemmas (checked as invariants on every enumerated expression).  The binary  *)
(* lemmas take the enumerated expression as one operand and every expression  *)
(* of LemmaOperands as the other.                                             *)
LemmaOperands == {XNil, XLeaf("A"), XLeaf("B"), XWd(XNil, XLeaf("B")), XJoin(<<XLeaf("A")>>),
                  XWd(XWd(XNil, XLeaf("A")), XLeaf("C")), XRecVal("S")}
V == Val(x)
Targets == {Nil, Leaf("A"), Leaf("B"), Def(Leaf("A")), Def(Def(Leaf("B")))}

TypeOK == /\ V.k \in {"nil", "leaf", "wrap", "opq", "def", "pair", "join"}
          /\ \A i \in 1..Len(AllPaths(V)) : i > 1 => ~IsNil(At(V, AllPaths(V)[i]))   \* no nil inside
          /\ V.k = "pair" => V.d.k = "def"    \* "the Deferred error always implements Deferred"
          /\ V.k = "join" => Len(V.ss) >= 1

(* The recursive Is of the std lib is "some node reachable via Unwrap equals  *)
(* the target".                                                               *)
IsIsReach == \A t \in Targets : Is(V, t) = IsDecl(V, t)

(* Annotate(nil, ...) = nil; otherwise non-nil, text "<msg>: <text>", Unwrap  *)
(* gives the argument back and Is is preserved exactly.                       *)
AnnotateLemma ==
    \A m \in Msgs :
        LET a == Annotate(V, m) IN
        /\ IsNil(a) = IsNil(V)
        /\ ~IsNil(V) => /\ Text(a) = <<m, ": ">> \o Text(V)
                        /\ Unwrap1(a) = V
                        /\ \A t \in Targets : Is(a, t) = Is(V, t)
                        /\ AsError(a)[1] = AsError(V)[1]
                        /\ AsDeferred(a)[1] = AsDeferred(V)[1]
(* The %v form keeps the text and loses the chain. *)
AnnotateVLemma ==
    \A m \in Msgs :
        LET a == AnnotateV(V, m) IN
        /\ IsNil(a) = IsNil(V)
        /\ ~IsNil(V) => /\ Text(a) = Text(Annotate(V, m))
                        /\ IsNil(Unwrap1(a))
                        /\ \A t \in Targets : ~IsNil(t) => ~Is(a, t)

(* WithDeferred against every small operand, both sides. *)
WithDeferredLemma ==
    \A sx \in LemmaOperands :
        LET s == Val(sx) IN
        /\ LET w == WithDeferred(V, s) IN          \* V returned, s deferred
           /\ IsNil(w) = (IsNil(V) /\ IsNil(s))
           /\ IsNil(s) => w = V
           /\ (IsNil(V) /\ ~IsNil(s)) =>
                 /\ w.k = "def" /\ Unwrap1(w) = s
                 /\ AsDeferred(w) = <<1>>          \* w itself is the Deferred
                 /\ Text(w) = <<"deferred: ">> \o Text(s)
                 /\ \A t \in Targets : Is(s, t) => Is(w, t)
           /\ (~IsNil(V) /\ ~IsNil(s)) =>
                 /\ w.k = "pair" /\ AsPair(w) = <<1>>
                 /\ Unwrap1(w) = V
                 /\ Text(w) = <<"returned: ">> \o Quote(Text(V)) \o <<", deferred: ">> \o Quote(Text(s))
                 \* Is sees the returned error - and only it.
                 /\ \A t \in Targets : Is(w, t) = Is(V, t)
                 /\ AsDeferred(w) = (IF AsDeferred(V)[1] = 1 THEN <<1, 1>> \o Tail(AsDeferred(V)) ELSE <<0>>)
        /\ LET w == WithDeferred(s, V) IN          \* s returned, V deferred
           /\ IsNil(w) = (IsNil(V) /\ IsNil(s))
           /\ IsNil(V) => w = s
           /\ (~IsNil(V) /\ ~IsNil(s)) => /\ w.d = Def(V)
                                         /\ \A t \in Targets : Is(w, t) = Is(s, t)

(* Join *)
JoinLemma ==
    /\ Join(<<>>) = Nil /\ Join(<<Nil>>) = Nil /\ Join(<<Nil, Nil>>) = Nil
    /\ \A sx \in LemmaOperands :
        LET s == Val(sx)
            j == Join(<<V, s>>)
            n == B01(~IsNil(V)) + B01(~IsNil(s))
        IN /\ IsNil(j) = (n = 0)
           /\ n > 0 => /\ j.k = "join" /\ Len(j.ss) = n      \* no flattening, nils dropped
                       /\ IsNil(Unwrap1(j))                  \* no Unwrap() error
                       /\ \A t \in Targets : ~IsNil(t) => (Is(j, t) = (Is(V, t) \/ Is(s, t)))
                       /\ Text(j) = (IF n = 2 THEN Text(V) \o <<"<NL>">> \o Text(s)
                                     ELSE IF IsNil(s) THEN Text(V) ELSE Text(s))
                       /\ Join(<<s, V>>) = (IF n = 2 THEN JoinN(<<s, V>>) ELSE j)
           /\ Join(<<Nil, V, Nil, s>>) = j

(* FromRecovered *)
FromRecoveredLemma ==
    /\ FromRecovered([p |-> "nil"]) = Nil
    /\ ~IsNil(V) => FromRecovered([p |-> "err", e |-> V]) = V
    /\ \A t \in {"S", "I", "P"} :
          LET r == FromRecovered([p |-> "val", tok |-> t]) IN
          /\ r.k = "opq" /\ Text(r) = <<"recovered: ", RecText(t)>>
          /\ IsNil(Unwrap1(r))

CheckLemma == CheckPanics(V) = ~IsNil(V)

(* %q is invertible (so the Pair text determines both operand texts) and      *)
(* never contains an unescaped quote or newline inside.                       *)
QuoteRoundTrip ==
    ~IsNil(V) =>
        LET t == Text(V)
            q == Quote(t)
        IN /\ Unquote(q) = t
           /\ Len(q) >= Len(t) + 2
           /\ \A i \in 2..(Len(q) - 1) : q[i] # "<NL>"

(* Whatever As finds is a node Is also reaches. *)
AsWithinReach ==
    /\ (AsError(V)[1] = 1) = (\E n \in ReachSet(V) : n.k = "leaf")
    /\ (AsDeferred(V)[1] = 1) = (\E n \in ReachSet(V) : n.k = "def")
    /\ AsError(V)[1] = 1 => IsSub(V, Tail(AsError(V)))
    /\ AsPair(V)[1] = 1 => IsSub(V, Tail(AsPair(V)))
    /\ AsDeferred(V)[1] = 1 => IsSub(V, Tail(AsDeferred(V)))
    /\ ~IsNil(V) => IsSub(V, <<>>)

Lemmas == /\ TypeOK /\ IsIsReach /\ AnnotateLemma /\ AnnotateVLemma /\ WithDeferredLemma
          /\ JoinLemma /\ FromRecoveredLemma /\ CheckLemma /\ QuoteRoundTrip /\ AsWithinReach
=============================================================================
