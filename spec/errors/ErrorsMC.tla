------------------------------ MODULE ErrorsMC ------------------------------
(* Model-checking wrapper of Errors.tla: structured constants for the .cfg    *)
(* files (cfg files cannot contain tuples).                                   *)
EXTENDS Errors

(* SmallSel[l] = the set the OTHER operand of the l-th constructor on the      *)
(* spine is taken from.  Level 1 against "depth1" = all expressions whose two *)
(* operands have at most one constructor each.                                *)
SelDepth1      == <<"depth1", "depth1", "depth1">>
SelDepth1Few   == <<"depth1", "few", "few">>
SelDepth1Atoms == <<"depth1", "atoms", "atoms">>
SelAtoms       == <<"atoms", "atoms", "atoms", "atoms", "atoms">>
=============================================================================
