SPECIFICATION TSpec
CONSTANTS
  Span = 0
  Ids = {}
  MaxList = 0
  Stride = 4
INVARIANTS LinesOK
CHECK_DEADLOCK FALSE
