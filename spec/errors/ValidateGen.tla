----------------------------- MODULE ValidateGen -----------------------------
(* Generator (binding G) for Validate.tla: every enumerated call with the     *)
(* result the specification predicts.                                         *)
EXTENDS Validate, Json, CSV

Emit == CSVWrite("%1$s", <<ToJson([c |-> c, want |-> IF c.f \in ListFns THEN ApplyList(c) ELSE Apply(c)])>>,
                 "validate_vectors.ndjson")
=============================================================================
