----------------------------- MODULE ErrorsTrace -----------------------------
(* Binding T for Errors.tla: every line of the log is one seeded random       *)
(* expression (deeper and wider than the enumerated ones: depth up to 6,      *)
(* joins of up to 4, five leaf constants, user-built Pairs with nil or        *)
(* unmarked sides) that the harness built with the real library, together     *)
(* with everything it observed on the real value.  The operators of           *)
(* Errors.tla re-judge it: Observe(Val(x)) must equal the observation.        *)
EXTENDS ErrorsMC, Json, TLC

Trace == ndJsonDeserialize("errors_trace.ndjson")

VARIABLE l
Ev == Trace[l]

(* Tokens to characters.  (The harness writes the non-ASCII rune of leaf C as *)
(* the literal "<U>".)                                                        *)
Chr(tok) == CASE tok = "<Q>" -> "\"" [] tok = "<BS>" -> "\\" [] tok = "<NL>" -> "\n" [] OTHER -> tok
RECURSIVE Flat(_)
Flat(t) == IF Len(t) = 0 THEN "" ELSE Chr(t[1]) \o Flat(Tail(t))

(* errors.As: the harness logs found (0/1) and the paths of all nodes that    *)
(* are == to what As stored in the target (equal leaves / equal deferred      *)
(* values at several places cannot be told apart by ==).                      *)
AsOK(pred, got) == /\ pred[1] = got.found
                   /\ pred[1] = 1 => \E i \in 1..Len(got.at) : got.at[i] = Tail(pred)

LineOK(e) ==
    LET v == Val(e.x)
        o == Observe(v)
        g == e.got
    IN /\ o.nil = g.nil
       /\ Len(o.shape) = Len(g.shape) /\ \A i \in 1..Len(g.shape) : o.shape[i] = g.shape[i]
       /\ Flat(o.text) = g.text
       /\ Len(o.is) = Len(g.is) /\ \A i \in 1..Len(g.is) : o.is[i] = g.is[i]
       /\ Len(o.isSub) = Len(g.isSub) /\ \A i \in 1..Len(g.isSub) : o.isSub[i] = g.isSub[i]
       /\ AsOK(o.asE, g.asE) /\ AsOK(o.asP, g.asP) /\ AsOK(o.asD, g.asD)
       /\ o.uw = g.uw
       /\ o.panics = g.panics

(* Independent lines, judged in Stride interleaved chains (one TLC worker     *)
(* each); a rejected line violates LinesOK and TLC prints its index l.        *)
CONSTANT Stride
(* line-less start indices: initial states are evaluated on TLC's small main-thread stack *)
TInit == l \in (1 - Stride)..0
TNext == l <= Len(Trace) /\ l' = l + Stride /\ UNCHANGED <<x, lvl>>
TSpec == TInit /\ x = XNil /\ lvl = 0 /\ [][TNext]_<<l, x, lvl>>

LinesOK == (l >= 1 /\ l <= Len(Trace)) => LineOK(Ev)
=============================================================================
