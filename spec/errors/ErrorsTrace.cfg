SPECIFICATION TSpec
CONSTANTS
  PairUnwrapsBoth = FALSE
  LeafIds = {"A"}
  Msgs = {"m1"}
  AnnKinds = {"w"}
  RecToks = {}
  MaxLvl = 0
  SmallSel <- SelAtoms
  Stride = 4
INVARIANTS LinesOK
CHECK_DEADLOCK FALSE
