SPECIFICATION ESpec
CONSTANTS
  PairUnwrapsBoth = FALSE
  LeafIds = {"A", "B", "C"}
  Msgs = {"m1"}
  AnnKinds = {"w", "v"}
  RecToks = {"S", "I", "P"}
  MaxLvl = 2
  SmallSel <- SelDepth1Atoms
INVARIANTS Emit GenOK
CHECK_DEADLOCK FALSE
