SPECIFICATION ESpec
CONSTANTS
  PairUnwrapsBoth = FALSE
  LeafIds = {"A", "B", "C"}
  Msgs = {"m1"}
  AnnKinds = {"w", "v"}
  RecToks = {"S", "I", "P"}
  MaxLvl = 1
  SmallSel <- SelDepth1
INVARIANTS Lemmas
CHECK_DEADLOCK FALSE
