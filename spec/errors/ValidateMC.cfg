SPECIFICATION VSpec
CONSTANTS
  Span = 3
  Ids = {"", "A", "B"}
  MaxList = 3
INVARIANTS AllLemmas
CHECK_DEADLOCK FALSE
