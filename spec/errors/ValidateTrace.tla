---------------------------- MODULE ValidateTrace ----------------------------
(* Binding T for Validate.tla: seeded random calls of the real validators on  *)
(* values far outside the enumerated domain (|v| up to 2^30, fractions, NaN,  *)
(* infinities, random strings, long entity lists).  The harness logs          *)
(*   f   the function,  a  the order-preserving integer codes of the          *)
(*       arguments (0 = zero value),  r  the arguments printed with %v,       *)
(*   vs  the entity ids for the Append family,                                *)
(*   got what the real call returned (nil, matching sentinel, Error() text,   *)
(*       direct = errors.Unwrap(err) is the sentinel; list abstraction).      *)
EXTENDS Validate, Json, TLC

Trace == ndJsonDeserialize("validate_trace.ndjson")

VARIABLE l
Ev == Trace[l]

IsArg(tok) == tok \in {"@1", "@2", "@3"}
ArgNo(tok) == CASE tok = "@1" -> 1 [] tok = "@2" -> 2 [] tok = "@3" -> 3
RECURSIVE FlatV(_, _)
FlatV(t, r) == IF Len(t) = 0 THEN ""
               ELSE (IF IsArg(t[1]) THEN r[ArgNo(t[1])] ELSE t[1]) \o FlatV(Tail(t), r)

LineOK(e) ==
    IF e.f \in ListFns
    THEN LET p == ApplyList([f |-> e.f, a |-> e.a, vs |-> e.vs])
             g == e.got
         IN /\ p.nil = g.nil /\ p.pre = g.pre /\ p.n = g.n
            /\ Len(p.items) = Len(g.items)
            /\ \A i \in 1..Len(g.items) : p.items[i][1] = g.items[i][1] /\ p.items[i][2] = g.items[i][2]
    ELSE LET p == Apply([f |-> e.f, a |-> e.a])
             g == e.got
         IN /\ p.nil = g.nil
            /\ p.cls = g.cls
            /\ FlatV(p.text, e.r) = g.text
            /\ p.nil = 0 => g.direct = 1

CONSTANT Stride
(* line-less start indices: initial states are evaluated on TLC's small main-thread stack *)
TInit == l \in (1 - Stride)..0
TNext == l <= Len(Trace) /\ l' = l + Stride /\ UNCHANGED c
TSpec == TInit /\ c = [f |-> "none"] /\ [][TNext]_<<l, c>>

LinesOK == (l >= 1 /\ l <= Len(Trace)) => LineOK(Ev)
=============================================================================
