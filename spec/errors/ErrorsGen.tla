------------------------------ MODULE ErrorsGen ------------------------------
(* Generator (binding G): every enumerated expression of Errors.tla is        *)
(* emitted with everything the specification predicts for the value it        *)
(* denotes; the harness builds the real value with the real library calls     *)
(* and compares.                                                              *)
EXTENDS ErrorsMC, Json, CSV

Emit == CSVWrite("%1$s", <<ToJson([x |-> x, want |-> Observe(Val(x))])>>, "errors_vectors.ndjson")

(* Cheap lemmas kept on during generation. *)
GenOK == TypeOK /\ CheckLemma /\ QuoteRoundTrip
=============================================================================
