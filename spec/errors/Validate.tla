------------------------------ MODULE Validate ------------------------------
(* golibs/validate: the comparison validators as predicates over a small      *)
(* ordered domain, with the error each returns, and the lattice between them. *)
(*                                                                            *)
(* Ordered values (cmp.Ordered) are integer CODES; the order of the codes is  *)
(* the order cmp.Compare defines on the Go values the harness maps them to:   *)
(*     NaN = -99  <  -Inf = -98  <  ... -2 < -1 < 0 < 1 < 2 ...  <  +Inf = 98 *)
(* ("NaN is also considered less than anything, since cmp.Compare sorts it    *)
(* below -Infinity").  Code 0 is the zero value of the type.  For integer     *)
(* types -98 / 98 are the minimum / maximum of the type and NaN does not      *)
(* exist; for unsigned types and strings negative codes do not exist.         *)
(*                                                                            *)
(* A result is [nil, cls, text]: nil = 1 iff the validator returned nil;      *)
(* cls = the sentinel of golibs/errors that is "the underlying error of err"  *)
(* (errors.Is and errors.Unwrap both find it, no other sentinel matches);     *)
(* text = err.Error() as tokens: literal fragments and "@i" = the i-th        *)
(* argument printed with %v.  The name argument is always "N".                *)
EXTENDS Integers, Sequences

NaN    == -99
NegInf == -98
PosInf == 98

Cmp(a, b) == IF a < b THEN -1 ELSE IF a > b THEN 1 ELSE 0

Ok == [nil |-> 1, cls |-> "", text |-> <<>>]
Err(cls, text) == [nil |-> 0, cls |-> cls, text |-> text]
IsOk(r) == r.nil = 1

SentText(cls) == CASE cls = "ErrBadEnumValue"    -> "bad enum value"
                   [] cls = "ErrDuplicated"      -> "duplicated value"
                   [] cls = "ErrEmptyValue"      -> "empty value"
                   [] cls = "ErrNegative"        -> "negative value"
                   [] cls = "ErrNoValue"         -> "no value"
                   [] cls = "ErrNotEmpty"        -> "not empty"
                   [] cls = "ErrNotPositive"     -> "not positive"
                   [] cls = "ErrOutOfRange"      -> "out of range"
                   [] cls = "ErrUnexpectedValue" -> "unexpected value"
Sentinels == {"ErrBadEnumValue", "ErrDuplicated", "ErrEmptyValue", "ErrNegative", "ErrNoValue",
              "ErrNotEmpty", "ErrNotPositive", "ErrOutOfRange", "ErrUnexpectedValue"}

(* "%s: %w" *)
Plain(cls) == Err(cls, <<"N: ", SentText(cls)>>)
(* "%s: %w: must be <rel> %v, got %v" with the bound at argument position bi  *)
(* and the value at position 1.                                               *)
Range(rel, bi) == Err("ErrOutOfRange", <<"N: ", SentText("ErrOutOfRange"), ": must be ", rel, " ", bi, ", got ", "@1">>)

----------------------------------------------------------------------------
(* cmp.Ordered validators.  Positions: v/a = @1, min/b/max = @2, max = @3.    *)
Positive(v)       == IF Cmp(v, 0) <= 0 THEN Err("ErrNotPositive", <<"N: ", SentText("ErrNotPositive"), ": ", "@1">>) ELSE Ok
NotNegative(v)    == IF Cmp(v, 0) < 0 THEN Err("ErrNegative", <<"N: ", SentText("ErrNegative"), ": ", "@1">>) ELSE Ok
GreaterThan(a, b) == IF Cmp(a, b) <= 0 THEN Range("greater than", "@2") ELSE Ok
LessThan(a, b)    == IF Cmp(a, b) >= 0 THEN Range("less than", "@2") ELSE Ok
NoGreaterThanAt(v, max, bi) == IF Cmp(v, max) > 0 THEN Range("no greater than", bi) ELSE Ok
NoLessThanAt(v, min, bi)    == IF Cmp(v, min) < 0 THEN Range("no less than", bi) ELSE Ok
NoGreaterThan(v, max) == NoGreaterThanAt(v, max, "@2")
NoLessThan(v, min)    == NoLessThanAt(v, min, "@2")
(* "InRange returns an error if v is less than min or greater than max": the  *)
(* lower bound is reported first (the errors are NoLessThan's and             *)
(* NoGreaterThan's own, "informative enough as is").                          *)
InRange(v, min, max) == IF ~IsOk(NoLessThanAt(v, min, "@2")) THEN NoLessThanAt(v, min, "@2")
                        ELSE NoGreaterThanAt(v, max, "@3")

(* comparable validators: code 0 is the zero value.  (For floats NaN # NaN,   *)
(* which agrees with "code # 0".)                                             *)
Empty(v)    == IF v # 0 THEN Plain("ErrNotEmpty") ELSE Ok
NotEmpty(v) == IF v = 0 THEN Plain("ErrEmptyValue") ELSE Ok

(* slices: -1 = nil slice, n >= 0 = a non-nil slice of length n *)
EmptySlice(n)    == IF n > 0 THEN Plain("ErrNotEmpty") ELSE Ok
NotEmptySlice(n) == IF n = -1 THEN Plain("ErrNoValue")
                    ELSE IF n = 0 THEN Plain("ErrEmptyValue") ELSE Ok

(* pointers: 0 = nil pointer, 1 = non-nil *)
NilPtr(p) == IF p # 0 THEN Plain("ErrUnexpectedValue") ELSE Ok
NotNil(p) == IF p = 0 THEN Plain("ErrNoValue") ELSE Ok
(* interfaces: 0 = nil interface, 1 = typed nil pointer in an interface,      *)
(* 2 = ordinary value.  "returns an error only if v is a nil interface value" *)
NotNilInterface(i) == IF i = 0 THEN Plain("ErrNoValue") ELSE Ok

----------------------------------------------------------------------------
(* Append / AppendSlice / Slice.  A validated entity is the id of the leaf    *)
(* error its Validate method returns, "" for nil.  The result is described    *)
(* by: n = length of the returned list, pre = how many leading elements are   *)
(* the caller's own, items = <<index, id>> of every appended error (text      *)
(* "N: <leaf>" resp. "N: at index <i>: <leaf>", wrapping the leaf), and for   *)
(* Slice nil = 1 iff there is nothing to join.                                *)
RECURSIVE Bad(_, _)
Bad(vs, i) == IF i > Len(vs) THEN <<>>
              ELSE (IF vs[i] = "" THEN <<>> ELSE << <<i - 1, vs[i]>> >>) \o Bad(vs, i + 1)

AppendOne(pre, id)    == [nil |-> 0, pre |-> pre, n |-> pre + (IF id = "" THEN 0 ELSE 1),
                          items |-> IF id = "" THEN <<>> ELSE << <<-1, id>> >>]
AppendSlice(pre, vs)  == [nil |-> 0, pre |-> pre, n |-> pre + Len(Bad(vs, 1)), items |-> Bad(vs, 1)]
Slice(vs)             == [nil |-> IF Bad(vs, 1) = <<>> THEN 1 ELSE 0, pre |-> 0, n |-> Len(Bad(vs, 1)), items |-> Bad(vs, 1)]

----------------------------------------------------------------------------
(* One call.  f = function name, a = integer arguments, vs = entity ids.      *)
Apply(c) ==
    CASE c.f = "Positive"        -> Positive(c.a[1])
      [] c.f = "NotNegative"     -> NotNegative(c.a[1])
      [] c.f = "GreaterThan"     -> GreaterThan(c.a[1], c.a[2])
      [] c.f = "LessThan"        -> LessThan(c.a[1], c.a[2])
      [] c.f = "NoGreaterThan"   -> NoGreaterThan(c.a[1], c.a[2])
      [] c.f = "NoLessThan"      -> NoLessThan(c.a[1], c.a[2])
      [] c.f = "InRange"         -> InRange(c.a[1], c.a[2], c.a[3])
      [] c.f = "Empty"           -> Empty(c.a[1])
      [] c.f = "NotEmpty"        -> NotEmpty(c.a[1])
      [] c.f = "EmptySlice"      -> EmptySlice(c.a[1])
      [] c.f = "NotEmptySlice"   -> NotEmptySlice(c.a[1])
      [] c.f = "Nil"             -> NilPtr(c.a[1])
      [] c.f = "NotNil"          -> NotNil(c.a[1])
      [] c.f = "NotNilInterface" -> NotNilInterface(c.a[1])
ApplyList(c) ==
    CASE c.f = "Append"      -> AppendOne(c.a[1], c.vs[1])
      [] c.f = "AppendSlice" -> AppendSlice(c.a[1], c.vs)
      [] c.f = "Slice"       -> Slice(c.vs)
ListFns == {"Append", "AppendSlice", "Slice"}

----------------------------------------------------------------------------
(* Enumeration: the state is one call. *)
CONSTANTS Span,     \* ordered codes -Span..Span plus NaN, -Inf, +Inf (cfg files cannot hold negative numbers)
          Ids,      \* entity results, e.g. {"", "A", "B"}
          MaxList   \* longest entity list

VARIABLE c

Vals == {NaN, NegInf, PosInf} \cup (-Span..Span)

Call(f, a) == [f |-> f, a |-> a, vs |-> <<>>]
RECURSIVE SeqsUpTo(_, _)
SeqsUpTo(S, n) == IF n = 0 THEN {<<>>}
                  ELSE SeqsUpTo(S, n - 1) \cup {Append(s, e) : s \in {t \in SeqsUpTo(S, n - 1) : Len(t) = n - 1}, e \in S}

Calls ==
    {Call(f, <<v>>) : f \in {"Positive", "NotNegative", "Empty", "NotEmpty"}, v \in Vals}
    \cup {Call(f, <<a, b>>) : f \in {"GreaterThan", "LessThan", "NoGreaterThan", "NoLessThan"}, a \in Vals, b \in Vals}
    \cup {Call("InRange", <<v, lo, hi>>) : v \in Vals, lo \in Vals, hi \in Vals}
    \cup {Call(f, <<n>>) : f \in {"EmptySlice", "NotEmptySlice"}, n \in -1..3}
    \cup {Call(f, <<p>>) : f \in {"Nil", "NotNil"}, p \in {0, 1}}
    \cup {Call("NotNilInterface", <<i>>) : i \in {0, 1, 2}}
    \cup {[f |-> "Append", a |-> <<pre>>, vs |-> <<id>>] : pre \in 0..2, id \in Ids}
    \cup {[f |-> "AppendSlice", a |-> <<pre>>, vs |-> vs] : pre \in 0..2, vs \in SeqsUpTo(Ids, MaxList)}
    \cup {[f |-> "Slice", a |-> <<0>>, vs |-> vs] : vs \in SeqsUpTo(Ids, MaxList)}

VInit == c \in Calls
VSpec == VInit /\ [][FALSE]_c

----------------------------------------------------------------------------
(* The lattice (invariants over every enumerated call).                       *)
A1 == c.a[1]
A2 == c.a[2]
A3 == c.a[3]

ResultShape ==
    c.f \notin ListFns =>
        LET r == Apply(c) IN
        /\ r.nil \in {0, 1}
        /\ IsOk(r) <=> r.cls = ""
        /\ ~IsOk(r) => r.cls \in Sentinels /\ Len(r.text) >= 2 /\ r.text[1] = "N: " /\ r.text[2] = SentText(r.cls)

(* Each validator is nil exactly on its documented predicate. *)
Predicates ==
    /\ c.f = "Positive"      => (IsOk(Apply(c)) <=> A1 > 0)
    /\ c.f = "NotNegative"   => (IsOk(Apply(c)) <=> A1 >= 0)
    /\ c.f = "GreaterThan"   => (IsOk(Apply(c)) <=> A1 > A2)
    /\ c.f = "LessThan"      => (IsOk(Apply(c)) <=> A1 < A2)
    /\ c.f = "NoGreaterThan" => (IsOk(Apply(c)) <=> A1 <= A2)
    /\ c.f = "NoLessThan"    => (IsOk(Apply(c)) <=> A1 >= A2)
    /\ c.f = "InRange"       => (IsOk(Apply(c)) <=> (A2 <= A1 /\ A1 <= A3))
    /\ c.f \in {"Positive", "NotNegative"} /\ A1 = NaN => ~IsOk(Apply(c))    \* "NaN is also considered negative"

(* Relations between the validators on the same arguments. *)
Lattice ==
    /\ c.f = "InRange" =>
          /\ IsOk(InRange(A1, A2, A3)) <=> (IsOk(NoLessThan(A1, A2)) /\ IsOk(NoGreaterThan(A1, A3)))
          /\ IsOk(InRange(A1, A2, A3)) => A2 <= A3                      \* an empty range accepts nothing
          /\ ~IsOk(InRange(A1, A2, A3)) => InRange(A1, A2, A3).cls = "ErrOutOfRange"
          /\ IsOk(InRange(A1, A1, A1))
          /\ IsOk(InRange(A1, NaN, PosInf))                             \* the whole order
          \* transitivity of the order the validators induce
          /\ (IsOk(NoLessThan(A1, A2)) /\ IsOk(NoLessThan(A2, A3))) => IsOk(NoLessThan(A1, A3))
          /\ (IsOk(GreaterThan(A1, A2)) /\ IsOk(NoLessThan(A2, A3))) => IsOk(GreaterThan(A1, A3))
    /\ c.f \in {"GreaterThan", "LessThan", "NoGreaterThan", "NoLessThan"} =>
          /\ IsOk(GreaterThan(A1, A2)) <=> ~IsOk(NoGreaterThan(A1, A2))    \* complements
          /\ IsOk(LessThan(A1, A2)) <=> ~IsOk(NoLessThan(A1, A2))
          /\ IsOk(GreaterThan(A1, A2)) <=> IsOk(LessThan(A2, A1))          \* duality
          /\ IsOk(NoLessThan(A1, A2)) <=> IsOk(NoGreaterThan(A2, A1))
          \* trichotomy: exactly one of <, >, = holds
          /\ (IF IsOk(LessThan(A1, A2)) THEN 1 ELSE 0) + (IF IsOk(GreaterThan(A1, A2)) THEN 1 ELSE 0)
             + (IF IsOk(InRange(A1, A2, A2)) THEN 1 ELSE 0) = 1
          /\ IsOk(InRange(A1, A2, A2)) <=> A1 = A2
    /\ c.f \in {"Positive", "NotNegative"} =>
          /\ IsOk(Positive(A1)) <=> IsOk(GreaterThan(A1, 0))
          /\ IsOk(NotNegative(A1)) <=> IsOk(NoLessThan(A1, 0))
          /\ IsOk(Positive(A1)) => IsOk(NotNegative(A1))
          /\ (IsOk(NotNegative(A1)) /\ ~IsOk(Positive(A1))) <=> A1 = 0
          /\ IsOk(Positive(A1)) <=> (IsOk(NotNegative(A1)) /\ IsOk(NotEmpty(A1)))
          /\ ~IsOk(Positive(A1)) => Positive(A1).cls = "ErrNotPositive"
          /\ ~IsOk(NotNegative(A1)) => NotNegative(A1).cls = "ErrNegative"
    /\ c.f \in {"Empty", "NotEmpty"} => (IsOk(Empty(A1)) <=> ~IsOk(NotEmpty(A1)))
    /\ c.f \in {"EmptySlice", "NotEmptySlice"} =>
          /\ IsOk(EmptySlice(A1)) <=> ~IsOk(NotEmptySlice(A1))
          /\ ~IsOk(NotEmptySlice(A1)) => (NotEmptySlice(A1).cls = (IF A1 = -1 THEN "ErrNoValue" ELSE "ErrEmptyValue"))
    /\ c.f \in {"Nil", "NotNil"} => (IsOk(NilPtr(A1)) <=> ~IsOk(NotNil(A1)))
    /\ c.f = "NotNilInterface" => (IsOk(NotNilInterface(A1)) <=> A1 # 0)

(* Append-family: the caller's elements stay in front, one item per invalid   *)
(* entity in order, Slice is nil iff every entity is valid, and               *)
(* AppendSlice = repeated Append up to the index in the message.              *)
ListLemmas ==
    c.f \in ListFns =>
        LET r == ApplyList(c) IN
        /\ r.n = r.pre + Len(r.items)
        /\ \A i \in 1..Len(r.items) : r.items[i][2] # ""
        /\ \A i, j \in 1..Len(r.items) : i < j => r.items[i][1] < r.items[j][1]
        /\ c.f # "Append" => Len(r.items) = Len(SelectSeq(c.vs, LAMBDA id : id # ""))
        /\ c.f = "Slice" => (r.nil = 1 <=> \A i \in 1..Len(c.vs) : c.vs[i] = "")
        /\ c.f = "Slice" => r.items = AppendSlice(0, c.vs).items

AllLemmas == ResultShape /\ Predicates /\ Lattice /\ ListLemmas
=============================================================================
