SPECIFICATION TSpec
CONSTANTS
  Procs <- TraceProcs
  MaxObjs = 1000000
  MaxOps = 1000000
  TraceFile = "pool_trace.ndjson"
INVARIANTS SingleOwner
CHECK_DEADLOCK FALSE
