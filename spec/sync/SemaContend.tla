----------------------------- MODULE SemaContend -----------------------------
(* Contention scenario family for ChanSemaphore (re-using Semaphore.tla's      *)
(* actions): K > free slots goroutines are released by a barrier and call      *)
(* Acquire with their own live contexts; nobody ever calls Release.  Once all  *)
(* of them have either returned or are blocked (the state is quiescent), every *)
(* context is cancelled.                                                       *)
(*                                                                             *)
(* Requirement (C17, "Acquire returns the context's error once the context is  *)
(* done while no slot is free"): exactly Min(N, K) Acquires succeed, and EVERY *)
(* loser returns -- with its context's error -- although no slot ever becomes  *)
(* free again.  This is where an Acquire that decides "there is a free slot"   *)
(* and then sends outside the select (check and send not atomic) goes wrong:   *)
(* the goroutine that loses the race for the LAST slot is parked in a plain    *)
(* send that ignores its context.  Schedule replay treats Acquire as one step  *)
(* and cannot see that; the un-instrumented stress command race-contend runs   *)
(* this scenario thousands of times on the real code.                          *)
EXTENDS Semaphore

Min(a, b) == IF a < b THEN a ELSE b
K == Cardinality(Procs)
AllStarted == \A p \in Procs : calls[p] = 1
Settled == AllStarted /\ Quiescent

CNext == \/ \E p \in Procs : StartAcquire(p, "live")
         \/ \E p \in Procs : Internal(p)
         \/ Settled /\ \E p \in Procs : Cancel(p)

(* goroutines run, the barrier opens for everybody, every context gets cancelled *)
CSpec == Init /\ [][CNext]_vars
         /\ \A p \in Procs : /\ WF_vars(Internal(p))
                             /\ WF_vars(StartAcquire(p, "live"))
                             /\ WF_vars(Settled /\ Cancel(p))

Finished == AllStarted /\ \A p \in Procs : st[p] = "idle"
Losers == {p \in Procs : res[p] = "err"}

(* liveness: every pending Acquire whose context is done returns, no Release needed *)
EveryoneReturns == <>[]Finished
(* safety: once settled exactly Min(N, K) hold a slot and no slot is free for the pending ones *)
SettledFull == Settled => /\ acq = Min(N, K) /\ count = acq
                          /\ \A p \in Procs : st[p] = "pending" => (count = N /\ ctx[p] = "live")
(* the losers, and only they, get the context's error *)
LosersGetErr == Finished => /\ acq = Min(N, K)
                            /\ Cardinality(Losers) = K - Min(N, K)
                            /\ \A p \in Losers : ctx[p] = "done"
=============================================================================
