---------------------------- MODULE SemaLinTrace ----------------------------
(* Linearizability-style trace validation (binding T) for ChanSemaphore.      *)
(*                                                                             *)
(* Free-running goroutines call Acquire(ctx) / Release; every call is          *)
(* bracketed by two draws from one atomic counter (invoke stamp before the     *)
(* call, return stamp after it), a cancellation draws its stamp before         *)
(* cancel() is called.  The log sorted by stamp must be explained by           *)
(* Semaphore.tla: between its invoke and its return event every call takes     *)
(* one silent step that applies the sequential action (AcquireOK /             *)
(* AcquireCancelled / Release); the return event must carry the linearised     *)
(* result.  If no placement of the silent steps explains the log -- e.g.       *)
(* N+1 successful Acquires without a Release invoked in between, an error     *)
(* before the context was cancelled -- the trace is rejected at the first      *)
(* event that cannot be matched (high-water mark of the cursor, register 1).   *)
EXTENDS Semaphore, Sequences, Json

CONSTANT TraceFile
Trace == ndJsonDeserialize(TraceFile)
TraceProcs == 0..63

VARIABLES l,      \* cursor: next event
          open,   \* open[p]: "no" | "acq" | "rel" | "reldone"
          want    \* want[p]: the result the pending Acquire is going to return (read ahead
                  \* from the log by the harness; prunes the search, never its verdict)
tvars == <<vars, l, open, want>>

Max(a, b) == IF a > b THEN a ELSE b
TInit == /\ Init /\ l = 1
         /\ open = [p \in Procs |-> "no"]
         /\ want = [p \in Procs |-> "none"]
         /\ TLCSet(1, 0)

Ev == Trace[l]
(* the cursor advances; the high-water mark is recorded only after the event matched *)
Consume(matched) == /\ l <= Len(Trace)
                    /\ l' = l + 1
                    /\ matched
                    /\ TLCSet(1, Max(TLCGet(1), l))

TInvAcq == /\ Ev.t = "inv" /\ Ev.op = "acq"
           /\ open[Ev.g] = "no"
           /\ StartAcquireK(Ev.g, Ev.c, Ev.k)
           /\ open' = [open EXCEPT ![Ev.g] = "acq"]
           /\ want' = [want EXCEPT ![Ev.g] = Ev.res]
TInvRel == /\ Ev.t = "inv" /\ Ev.op = "rel"
           /\ open[Ev.g] = "no"
           /\ open' = [open EXCEPT ![Ev.g] = "rel"]
           /\ UNCHANGED <<vars, want>>
(* cancel() is about to be called on the context of g's n-th Acquire; that     *)
(* call may already have returned (then nothing happens).                      *)
TCancel == /\ Ev.t = "cancel"
           /\ IF calls[Ev.g] = Ev.n /\ st[Ev.g] = "pending" /\ ctx[Ev.g] = "live"
                THEN Cancel(Ev.g) ELSE UNCHANGED vars
           /\ UNCHANGED <<open, want>>
TRetAcq == /\ Ev.t = "ret" /\ Ev.op = "acq"
           /\ open[Ev.g] = "acq" /\ st[Ev.g] = "idle" /\ res[Ev.g] = Ev.res
           \* the error value: exactly the context's error (never the cause where they differ)
           /\ ErrV(Ev.g) = Ev.e
           /\ open' = [open EXCEPT ![Ev.g] = "no"]
           /\ UNCHANGED <<vars, want>>
(* a fresh semaphore (next round) *)
TNew == /\ Ev.t = "new"
        /\ count' = 0
        /\ st' = [p \in Procs |-> "idle"]
        /\ ctx' = [p \in Procs |-> "live"]
        /\ calls' = [p \in Procs |-> 0]
        /\ res' = [p \in Procs |-> "none"]
        /\ acq' = 0 /\ rel' = 0
        /\ kind' = [p \in Procs |-> CHOOSE k \in Kinds : TRUE]
        /\ open' = [p \in Procs |-> "no"]
        /\ want' = [p \in Procs |-> "none"]
TRetRel == /\ Ev.t = "ret" /\ Ev.op = "rel"
           /\ open[Ev.g] = "reldone"
           /\ open' = [open EXCEPT ![Ev.g] = "no"]
           /\ UNCHANGED <<vars, want>>

(* silent linearisation points *)
LinAcq(p) == /\ open[p] = "acq"
             /\ Internal(p)
             /\ res'[p] = want[p]
             /\ UNCHANGED <<l, open, want>>
LinRel(p) == /\ open[p] = "rel"
             /\ \/ Release
                \/ \E q \in Procs : open[q] = "acq" /\ want[q] = "ok" /\ ReleaseHandoff(q)
             /\ open' = [open EXCEPT ![p] = "reldone"]
             /\ UNCHANGED <<l, want>>

TNext == \/ Consume(TNew \/ TInvAcq \/ TInvRel \/ TCancel \/ TRetAcq \/ TRetRel)
         \/ \E p \in Procs : LinAcq(p) \/ LinRel(p)
TSpec == TInit /\ [][TNext]_tvars

(* the specification's bound holds on every explanation of the log *)
BoundT == HoldersBound /\ ReturnsCtxErr

Post == PrintT("HWM " \o ToString(TLCGet(1)))
=============================================================================
