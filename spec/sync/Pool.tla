-------------------------------- MODULE Pool --------------------------------
(* syncutil.Pool[T] (syncutil/pool.go), the typed wrapper of sync.Pool:       *)
(* ownership of pooled objects.  Between Get returning an object and the Put   *)
(* of that object exactly one holder owns it; Get hands out an object from     *)
(* the pool or a fresh one from newFunc; the pool may drop idle objects at any *)
(* time (GC).                                                                  *)
EXTENDS Integers, FiniteSets

CONSTANTS Procs, MaxObjs, MaxOps

VARIABLES free,     \* objects lying in the pool
          held,     \* held[p]: objects process p owns
          nobj,     \* objects created so far (ids 1..nobj)
          ops

vars == <<free, held, nobj, ops>>

Init == free = {} /\ held = [p \in Procs |-> {}] /\ nobj = 0 /\ ops = 0

(* Get returns an idle object ... *)
GetIdle(p, o) ==
    /\ o \in free
    /\ free' = free \ {o}
    /\ held' = [held EXCEPT ![p] = @ \cup {o}]
    /\ UNCHANGED nobj
(* ... or a new one (newFunc), which it may do even when idle objects exist. *)
GetNew(p) ==
    /\ nobj < MaxObjs
    /\ nobj' = nobj + 1
    /\ held' = [held EXCEPT ![p] = @ \cup {nobj + 1}]
    /\ UNCHANGED free
(* Put gives up ownership. *)
Put(p, o) ==
    /\ o \in held[p]
    /\ held' = [held EXCEPT ![p] = @ \ {o}]
    /\ free' = free \cup {o}
    /\ UNCHANGED nobj
(* The runtime drops an idle object. *)
Drop(o) ==
    /\ o \in free
    /\ free' = free \ {o}
    /\ UNCHANGED <<held, nobj>>

Next == /\ ops < MaxOps /\ ops' = ops + 1
        /\ \/ \E p \in Procs : \E o \in free : GetIdle(p, o)
           \/ \E p \in Procs : GetNew(p)
           \/ \E p \in Procs : \E o \in held[p] : Put(p, o)
           \/ \E o \in free : Drop(o)
Spec == Init /\ [][Next]_vars

Owners(o) == {p \in Procs : o \in held[p]}
TypeOK == free \subseteq 1..nobj /\ \A p \in Procs : held[p] \subseteq 1..nobj
(* an object is owned by at most one holder between Get and Put *)
SingleOwner == \A o \in 1..nobj : Cardinality(Owners(o)) <= 1
FreeNotHeld == \A o \in free : Owners(o) = {}
=============================================================================
