SPECIFICATION GSpec
CONSTANTS
  Procs = {1, 2}
  Keys = {"a", "b"}
  KeyPlans <- SymTwoCallPlans
  OutFile = "once_sched_2.ndjson"
  OutFileP = "once_sched_2p.ndjson"
  ZeroKeySets <- AnyZeroKeys
  PanicKeySets <- OnePanicKey
  Dep <- NoDeps
  NCPU = 16
  Limiter = FALSE
INVARIANTS Emit GenOK NoStuck
CHECK_DEADLOCK FALSE
