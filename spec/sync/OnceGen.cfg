SPECIFICATION GSpec
CONSTANTS
  Procs = {1, 2}
  Keys = {"a", "b"}
  KeyPlans <- SymTwoCallPlans
  OutFile = "once_sched_2.ndjson"
  ZeroKeySets <- AnyZeroKeys
INVARIANTS Emit GenOK NoStuck
CHECK_DEADLOCK FALSE
