SPECIFICATION GSpec
CONSTANTS
  Procs = {1, 2}
  Keys = {"a", "b"}
  KeyPlans <- SymTwoCallPlans
  OutFile = "once_sched_2.ndjson"
  OutFileP = "once_sched_2p.ndjson"
  ZeroKeySets <- AnyZeroKeys
  PanicKeySets <- OnePanicKey
INVARIANTS Emit GenOK NoStuck
CHECK_DEADLOCK FALSE
