SPECIFICATION FairSpec
CONSTANTS
  Procs = {1, 2, 3}
  Keys = {"a", "b"}
  KeyPlans <- OneCallPlans
  ZeroKeySets <- AnyZeroKeys
INVARIANTS TypeOK OnceOnly ExactlyOnce SameResult WaitsOnlyOnSameKey IndependentKeys TokenConservation ClosedImpliesCached OneLoaderPerKey LoaderKeyOK
PROPERTIES MapStable Termination EveryGetReturns AbsSpec
CHECK_DEADLOCK FALSE
