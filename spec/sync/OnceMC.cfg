SPECIFICATION FairSpec
CONSTANTS
  Procs = {1, 2, 3}
  Keys = {"a", "b"}
  KeyPlans <- OneCallPlans
  ZeroKeySets <- AnyZeroKeys
  PanicKeySets <- OnePanicKey
  Dep <- NoDeps
  NCPU = 16
  Limiter = FALSE
INVARIANTS TypeOK OnceOnly ExactlyOnce NoRetryAfterPanic OnePanicPerKey NoFaultNoStuck SameResult WaitsOnlyOnSameKey IndependentKeys TokenConservation ClosedImpliesCached OneLoaderPerKey LoaderKeyOK NestedSameResult
PROPERTIES MapStable Termination EveryGetReturns AbsSpec
CHECK_DEADLOCK FALSE
