SPECIFICATION FairSpec
CONSTANTS
  Procs = {1, 2, 3}
  Keys = {"a", "b"}
  KeyPlans <- OneCallPlans
  ZeroKeySets <- AnyZeroKeys
  PanicKeySets <- OnePanicKey
INVARIANTS TypeOK OnceOnly ExactlyOnce NoRetryAfterPanic OnePanicPerKey NoFaultNoStuck SameResult WaitsOnlyOnSameKey IndependentKeys TokenConservation ClosedImpliesCached OneLoaderPerKey LoaderKeyOK
PROPERTIES MapStable Termination EveryGetReturns AbsSpec
CHECK_DEADLOCK FALSE
