SPECIFICATION Spec
CONSTANTS
  Procs = {1, 2, 3}
  MaxObjs = 3
  MaxOps = 9
INVARIANTS TypeOK SingleOwner FreeNotHeld
CHECK_DEADLOCK FALSE
