SPECIFICATION FairSpec
CONSTANTS
  Procs = {1, 2, 3}
  N = 2
  MaxCalls = 3
  MaxRel = 4
INVARIANTS TypeOK HoldersBound CancelWhenFull BlocksWhenFull ReleaseNeverBlocks ZeroCapacity
PROPERTIES ErrOnlyWhenDone OkTakesSlot DoneReturns
CHECK_DEADLOCK FALSE
