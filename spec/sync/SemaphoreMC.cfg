SPECIFICATION FairSpec
CONSTANTS
  Procs = {1, 2, 3}
  N = 2
  MaxCalls = 3
  MaxRel = 4
  Kinds = {"cancelcause"}
INVARIANTS TypeOK HoldersBound CancelWhenFull BlocksWhenFull ReleaseNeverBlocks ZeroCapacity ReturnsCtxErr
PROPERTIES ErrOnlyWhenDone OkTakesSlot DoneReturns
CHECK_DEADLOCK FALSE
