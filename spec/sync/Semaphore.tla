----------------------------- MODULE Semaphore -----------------------------
(* syncutil.ChanSemaphore (syncutil/sema.go): a buffered channel of capacity N *)
(* whose occupancy `count` is the number of outstanding successful Acquires.   *)
(*                                                                             *)
(*   Acquire(ctx):  select { case c.c <- unit{}: return nil       AcquireOK    *)
(*                           case <-ctx.Done(): return ctx.Err() } AcquireCancelled *)
(*   Release():     select { case <-c.c: default: }                Release     *)
(*                                                                             *)
(* Go's select chooses at random when both a free slot and a done context are  *)
(* present, so both actions are enabled then; the property only requires the   *)
(* context's error "once the context is done while no slot is free".           *)
(*                                                                             *)
(* Capacity 0 is an unbuffered channel: nothing can ever be stored in it, but  *)
(* the non-blocking receive of Release rendezvouses with a sender blocked in   *)
(* Acquire.  So with N = 0 a Release called while an Acquire is blocked hands  *)
(* that Acquire a "slot" (ReleaseHandoff); successes minus Release calls still *)
(* never exceeds N.  (Observed on the real code by schedule replay.)           *)
EXTENDS Integers, FiniteSets, TLC

CONSTANTS Procs,      \* goroutines calling Acquire
          N,          \* capacity (0 is legal)
          MaxCalls,   \* bound on Acquire calls per process (model checking)
          MaxRel,     \* bound on the number of Release calls (model checking)
          Kinds       \* the kinds of context an Acquire may be called with (subset of AllKinds)

VARIABLES count,      \* occupancy of the channel
          st,         \* st[p] in {"idle", "pending"}: p is inside Acquire
          ctx,        \* ctx[p] in {"live", "done"}: the context of p's current Acquire
          calls,      \* calls[p]: Acquire calls started by p
          res,        \* res[p]: result of p's last Acquire: "none", "ok", "err"
          acq,        \* total number of successful Acquires
          rel         \* total number of Release calls

VARIABLE  kind        \* kind[p]: the kind of context of p's current Acquire

vars == <<count, st, ctx, calls, res, acq, rel, kind>>

(* Context kinds.  What a done context reports is ctx.Err(): context.Canceled  *)
(* or context.DeadlineExceeded for every context of package context -- also    *)
(* for those cancelled WITH A CAUSE (WithCancelCause, WithTimeoutCause,        *)
(* WithDeadlineCause, children of such contexts, contexts decorated with       *)
(* context.AfterFunc), whose context.Cause(ctx) is the caller-supplied cause   *)
(* and differs from ctx.Err() -- or whatever a custom Context's Err returns.   *)
(* C17: Acquire returns the context's ERROR, i.e. ErrOf, never CauseOf where   *)
(* the two differ.                                                             *)
(* "timeoutcause" / "deadlinecause" are WithTimeoutCause / WithDeadlineCause   *)
(* contexts ended through their (cause-cancelled) parent before the deadline;  *)
(* the ".expired" kinds are the same contexts with the deadline passed, which  *)
(* is only possible to arrange before the call (ExpiredKinds need ctx = done). *)
ExpiredKinds == {"timeoutcause.expired", "deadlinecause.expired"}
AllKinds == {"cancel", "deadline", "sentinel", "cancelcause", "timeoutcause", "deadlinecause",
             "afterfunc", "nested"} \cup ExpiredKinds
(* ctx.Err() once the context is done *)
ErrOf(k) == CASE k \in {"deadline"} \cup ExpiredKinds -> "DeadlineExceeded"
              [] k = "sentinel" -> "Sentinel"
              [] OTHER -> "Canceled"
(* context.Cause(ctx) once the context is done *)
CauseOf(k) == IF k \in {"cancelcause", "timeoutcause", "deadlinecause", "afterfunc", "nested"} \cup ExpiredKinds
                THEN "Cause" ELSE ErrOf(k)

Init == /\ count = 0
        /\ st = [p \in Procs |-> "idle"]
        /\ ctx = [p \in Procs |-> "live"]
        /\ calls = [p \in Procs |-> 0]
        /\ res = [p \in Procs |-> "none"]
        /\ acq = 0 /\ rel = 0
        /\ kind = [p \in Procs |-> CHOOSE k \in Kinds : TRUE]

(* Acquire(ctx) is invoked with a fresh context that is live or already done. *)
StartAcquireK(p, c, k) ==
    /\ st[p] = "idle" /\ calls[p] < MaxCalls
    /\ c \in {"live", "done"}
    /\ k \in ExpiredKinds => c = "done"
    /\ kind' = [kind EXCEPT ![p] = k]
    /\ st' = [st EXCEPT ![p] = "pending"]
    /\ ctx' = [ctx EXCEPT ![p] = c]
    /\ calls' = [calls EXCEPT ![p] = @ + 1]
    /\ res' = [res EXCEPT ![p] = "none"]
    /\ UNCHANGED <<count, acq, rel>>
StartAcquire(p, c) == \E k \in Kinds : StartAcquireK(p, c, k)

CanOK(p)     == st[p] = "pending" /\ count < N
CanCancel(p) == st[p] = "pending" /\ ctx[p] = "done"

(* The send case of the select: possible iff a slot is free. *)
AcquireOK(p) ==
    /\ CanOK(p)
    /\ count' = count + 1
    /\ acq' = acq + 1
    /\ st' = [st EXCEPT ![p] = "idle"]
    /\ res' = [res EXCEPT ![p] = "ok"]
    /\ UNCHANGED <<ctx, calls, rel, kind>>

(* The ctx.Done() case: possible iff the context is done; returns ctx.Err(). *)
AcquireCancelled(p) ==
    /\ CanCancel(p)
    /\ st' = [st EXCEPT ![p] = "idle"]
    /\ res' = [res EXCEPT ![p] = "err"]
    /\ UNCHANGED <<count, ctx, calls, acq, rel, kind>>

(* Release never blocks: a non-blocking receive, a no-op on an empty channel. *)
ReleaseEffect == count' = IF count > 0 THEN count - 1 ELSE 0
Release ==
    /\ rel < MaxRel
    /\ ReleaseEffect
    /\ rel' = rel + 1
    /\ UNCHANGED <<st, ctx, calls, res, acq, kind>>

(* N = 0 only: the receive in Release meets the send of an Acquire that is     *)
(* blocked in its select; that Acquire returns nil.  (A pending Acquire that   *)
(* has not reached its select yet is not met: plain Release, a no-op.)         *)
ReleaseHandoff(p) ==
    /\ N = 0 /\ rel < MaxRel
    /\ st[p] = "pending"
    /\ st' = [st EXCEPT ![p] = "idle"]
    /\ res' = [res EXCEPT ![p] = "ok"]
    /\ acq' = acq + 1
    /\ rel' = rel + 1
    /\ UNCHANGED <<count, ctx, calls, kind>>

(* The context of a pending Acquire is cancelled / its deadline passes. *)
Cancel(p) ==
    /\ st[p] = "pending" /\ ctx[p] = "live"
    /\ ctx' = [ctx EXCEPT ![p] = "done"]
    /\ UNCHANGED <<count, st, calls, res, acq, rel, kind>>

Internal(p) == AcquireOK(p) \/ AcquireCancelled(p)

Next == \/ \E p \in Procs : \E c \in {"live", "done"} : StartAcquire(p, c)
        \/ \E p \in Procs : Internal(p)
        \/ \E p \in Procs : Cancel(p)
        \/ Release
        \/ \E p \in Procs : ReleaseHandoff(p)

Spec == Init /\ [][Next]_vars
(* goroutines inside Acquire keep running *)
FairSpec == Spec /\ \A p \in Procs : WF_vars(Internal(p))

----------------------------------------------------------------------------
TypeOK == /\ count \in 0..N
          /\ \A p \in Procs : kind[p] \in AllKinds
          /\ \A p \in Procs : st[p] \in {"idle", "pending"} /\ ctx[p] \in {"live", "done"}
                              /\ res[p] \in {"none", "ok", "err"} /\ calls[p] \in 0..MaxCalls

(* C17: never more than N successful Acquires outstanding.  Outstanding in the *)
(* arithmetic sense (successes minus Release calls) is bounded by the          *)
(* occupancy, which is bounded by the capacity.                                *)
Outstanding == acq - rel
HoldersBound == count <= N /\ Outstanding <= count

(* C17: once the context is done while no slot is free, the pending Acquire    *)
(* can only return the context's error (and it can return it).                 *)
CancelWhenFull ==
    \A p \in Procs : (st[p] = "pending" /\ count = N /\ ctx[p] = "done")
                        => (ENABLED AcquireCancelled(p)) /\ ~(ENABLED AcquireOK(p))

(* An error is returned only for a done context; nil only by taking a slot. *)
ErrOnlyWhenDone == [][\A p \in Procs : (res'[p] = "err" /\ res[p] # "err") => ctx[p] = "done"]_vars
OkTakesSlot == [][\A p \in Procs : (res'[p] = "ok" /\ res[p] # "ok") =>
                       \/ (count < N /\ count' = count + 1)
                       \/ (N = 0 /\ rel' = rel + 1)]_vars

(* C17: the error Acquire returns is exactly the context's error -- and not    *)
(* the cancellation cause where the two differ.                                *)
(* ErrV(p) is the error VALUE of p's last Acquire: ctx.Err() of its context.   *)
ErrV(p) == IF res[p] = "err" THEN ErrOf(kind[p]) ELSE "none"
ReturnsCtxErr == \A p \in Procs :
    res[p] = "err" => /\ ctx[p] = "done"
                      /\ ErrV(p) \in {"Canceled", "DeadlineExceeded", "Sentinel"}
                      /\ (CauseOf(kind[p]) = "Cause" => ErrV(p) # CauseOf(kind[p]))

(* A pending Acquire with a live context and no free slot has no enabled step: it blocks. *)
BlocksWhenFull ==
    \A p \in Procs : (st[p] = "pending" /\ count = N /\ ctx[p] = "live") => ~(ENABLED Internal(p))

(* C17: Release never blocks (it is enabled in every state, also at count 0 and N = 0). *)
ReleaseNeverBlocks == rel < MaxRel => ENABLED Release

(* N = 0 works: the channel never holds anything, an Acquire ends by            *)
(* cancellation or by meeting a Release, so successes never exceed Release     *)
(* calls; without Release calls nobody ever acquires.                          *)
ZeroCapacity == N = 0 => (count = 0 /\ acq <= rel)

(* Liveness: a pending Acquire whose context is done, or for which a slot      *)
(* stays free, returns.                                                        *)
DoneReturns == \A p \in Procs : (st[p] = "pending" /\ ctx[p] = "done") ~> (st[p] = "idle")
FreeSlotReturns == \A p \in Procs : [](st[p] = "pending" /\ count < N) => <>(st[p] = "idle")

(* Quiescent: no pending Acquire has an enabled step. *)
Quiescent == \A p \in Procs : ~CanOK(p) /\ ~CanCancel(p)
=============================================================================
