-------------------------- MODULE OnceConstructor --------------------------
(* syncutil.OnceConstructor[K, V].Get, one action per atomic step of the Go   *)
(* code (syncutil/onceconstructor.go):                                         *)
(*                                                                             *)
(*   loaderVal, inited := c.loaders.Load(key)            LoadHit / LoadMiss    *)
(*   if inited { return loaderVal.(func() V)() }         -> the loader call    *)
(*   verifGate("once.miss")                                                    *)
(*   var cached V; done := make(chan struct{}, 1); done <- struct{}{}          *)
(*   loaderVal, _ = c.loaders.LoadOrStore(key, loader)   LoadOrStore           *)
(*   verifGate("once.stored")                                                  *)
(*   return loaderVal.(func() V)()                       the loader call:      *)
(*       _, ok := <-done                                 RecvToken / RecvClosed*)
(*       if ok { cached = c.new(key)                     Construct, StoreCached*)
(*               close(done) }                           Close                 *)
(*       return cached                                   ReadCached, Return    *)
(*                                                                             *)
(* V is opaque.  Values are modelled as plain identifiers because the code must *)
(* never look into them: a constructed value may be nil, a function (even one  *)
(* of the loader's own type func() V when V = any), a channel, a map, a struct *)
(* holding a function.  In particular the entry of a key in c.loaders is its   *)
(* LOADER for ever (TypeOK: map[k] is a loader; MapStable: it is never         *)
(* replaced) -- never the constructed value itself, which could not be told    *)
(* from a loader -- and values are only stored (StoreCached) and handed back   *)
(* (ReadCached, Return).  The harness instantiates V with all those types and  *)
(* requires that no constructed function is ever invoked by the library.       *)
(*                                                                             *)
(* A loader is an object of its own (a closure with its private `done` channel *)
(* and `cached` variable); c.loaders maps keys to loaders.  A process whose    *)
(* loader's channel neither holds the token nor is closed has no enabled step: *)
(* it blocks in `<-done`.                                                      *)
EXTENDS Integers, Sequences, FiniteSets, TLC

CONSTANTS Procs,      \* process ids (integers 1..n)
          Keys,       \* keys
          KeyPlans,   \* set of functions Procs -> Seq(Keys): the keys each process Gets, in order
          ZeroKeySets,\* set of subsets of Keys: for which keys the constructor returns the ZERO value of V
          PanicKeySets,\* set of subsets of Keys: for which keys the constructor invocation PANICS
          Dep,        \* Dep[k]: the key whose value the constructor of k fetches with a NESTED Get
                      \* before it produces its own value, NoDep = none (one level, no cycles)
          NCPU,       \* the number of processors (runtime.GOMAXPROCS): a constant of the ENVIRONMENT.
                      \* The design does not mention it, and no property may depend on it.
          Limiter     \* FALSE: the design as it is.  TRUE: the rejected design alternative "at most
                      \* NCPU constructions at a time": Get takes one of NCPU slots after the
                      \* fast-track miss and gives it back when it returns -- so the slot is also
                      \* held while merely WAITING for somebody else's construction.  TLC refutes it
                      \* against IndependentKeys as soon as NCPU is smaller than the number of callers
                      \* (configuration OnceLimiter*.cfg); with NCPU large it passes, i.e. whether
                      \* the property holds would depend on the environment.
NoDep == "-"
ASSUME /\ NCPU \in Nat \ {0} /\ Limiter \in BOOLEAN
       /\ \A k \in Keys : Dep[k] \in Keys \cup {NoDep} /\ Dep[k] # k
       /\ \A k \in Keys : Dep[k] # NoDep => Dep[Dep[k]] = NoDep

VARIABLES pk,         \* the keys whose constructor panics / Goexits (chosen in Init, disjoint from zk):
                      \* the environment may fail.  The invocation then ends WITHOUT a result,
                      \* the panic surfaces in the Get that ran the constructor, and -- this is
                      \* what the code does -- the token is gone and the channel is never closed:
                      \* the constructor is never invoked again for the key, and every other
                      \* Get of the key stays blocked.  What must never happen is that some Get
                      \* returns a value although no constructor invocation returned one.
          failed,     \* the loaders whose constructor invocation panicked
          plan,       \* the key plan of this behaviour (chosen in Init)
          zk,         \* the keys whose constructed value is the zero value of V (chosen in Init):
                      \* a nil pointer / nil interface / 0 is a perfectly legal result of the
                      \* constructor, so "has been constructed" (ncons, the closed channel) is
                      \* a fact of its own and must never be inferred from the value
          calls,      \* calls[p]: number of Gets p has started
          pc,         \* pc[p]: control point of p inside Get
          map,        \* c.loaders: map[k] = loader stored under k, 0 = absent
          chan,       \* chan[l] in {"token", "empty", "closed"}: loader l's done channel
          cached,     \* cached[l]: loader l's captured variable; 0 is the zero value of V
          lkey,       \* lkey[l]: the key captured by loader l
          ldr,        \* ldr[p]: the loader p is going to call / is calling
          tmp,        \* tmp[p]: what p's constructor call returned
          val,        \* val[p]: what p read from cached
          ncons,      \* ncons[k]: number of constructor invocations for k
          conval,     \* conval[k]: set of values constructed for k
          nextv,      \* next fresh value (the constructor returns a fresh object per call)
          rets,       \* rets[p]: sequence of values returned by p's Gets
          nest,       \* nest[p]: 1 while p is inside the nested Get its constructor makes, else 0
          oldr,       \* oldr[p]: the loader of p's outer Get while nest[p] = 1
          nres,       \* nres[p]: the <<key, value>> pairs the nested Gets of p returned
          slots,      \* Limiter only: slots taken
          hold        \* Limiter only: hold[p][d]: p's Get at nesting depth d holds a slot

env == <<nest, oldr, nres, slots, hold>>
vars == <<plan, zk, pk, failed, calls, pc, map, chan, cached, lkey, ldr, tmp, val, ncons, conval, nextv, rets, env>>

Zero == 0

Init == /\ plan \in KeyPlans
        /\ zk \in ZeroKeySets
        /\ pk \in PanicKeySets /\ pk \cap zk = {}
        /\ failed = {}
        /\ ((\E k \in Keys : Dep[k] # NoDep) => pk = {})   \* faults and nesting are explored separately
        /\ nest = [p \in Procs |-> 0]
        /\ oldr = [p \in Procs |-> 0]
        /\ nres = [p \in Procs |-> <<>>]
        /\ slots = 0
        /\ hold = [p \in Procs |-> [d \in 0..1 |-> FALSE]]
        /\ calls = [p \in Procs |-> 0]
        /\ pc = [p \in Procs |-> "idle"]
        /\ map = [k \in Keys |-> 0]
        /\ chan = <<>> /\ cached = <<>> /\ lkey = <<>>
        /\ ldr = [p \in Procs |-> 0]
        /\ tmp = [p \in Procs |-> Zero]
        /\ val = [p \in Procs |-> Zero]
        /\ ncons = [k \in Keys |-> 0]
        /\ conval = [k \in Keys |-> {}]
        /\ nextv = 1
        /\ rets = [p \in Procs |-> <<>>]

OuterKey(p) == plan[p][calls[p]]
Key(p) == IF nest[p] = 1 THEN Dep[OuterKey(p)] ELSE OuterKey(p)
Goto(p, l) == pc' = [pc EXCEPT ![p] = l]

(* Get(k) is invoked. *)
Start(p) ==
    /\ pc[p] = "idle" /\ calls[p] < Len(plan[p])
    /\ calls' = [calls EXCEPT ![p] = @ + 1]
    /\ Goto(p, "load")
    /\ UNCHANGED <<env, plan, zk, pk, failed, map, chan, cached, lkey, ldr, tmp, val, ncons, conval, nextv, rets>>

(* Step 1, the fast track. *)
LoadHit(p) ==
    /\ pc[p] = "load" /\ map[Key(p)] # 0
    /\ ldr' = [ldr EXCEPT ![p] = map[Key(p)]]
    /\ Goto(p, "call")
    /\ UNCHANGED <<env, plan, zk, pk, failed, calls, map, chan, cached, lkey, tmp, val, ncons, conval, nextv, rets>>

LoadMiss(p) ==
    /\ pc[p] = "load" /\ map[Key(p)] = 0
    /\ Goto(p, IF Limiter THEN "acq" ELSE "miss")
    /\ UNCHANGED <<env, plan, zk, pk, failed, calls, map, chan, cached, lkey, ldr, tmp, val, ncons, conval, nextv, rets>>

(* Limiter design only: take one of the NCPU slots (blocks while none is free). *)
AcquireSlot(p) ==
    /\ pc[p] = "acq" /\ slots < NCPU
    /\ slots' = slots + 1
    /\ hold' = [hold EXCEPT ![p][nest[p]] = TRUE]
    /\ Goto(p, "miss")
    /\ UNCHANGED <<nest, oldr, nres, plan, zk, pk, failed, calls, map, chan, cached, lkey, ldr, tmp, val, ncons, conval, nextv, rets>>
(* ... and give it back when the Get at depth d ends (defer). *)
ReleaseSlot(p, d) ==
    /\ slots' = IF hold[p][d] THEN slots - 1 ELSE slots
    /\ hold' = [hold EXCEPT ![p][d] = FALSE]

(* Step 2.  The process allocates its own channel (holding the token) and     *)
(* closure; LoadOrStore keeps it only if the key is still absent, otherwise    *)
(* the allocation is garbage and the stored loader is used.                    *)
LoadOrStore(p) ==
    /\ pc[p] = "miss"
    /\ LET k == Key(p) IN
       IF map[k] = 0
         THEN LET l == Len(chan) + 1 IN
              /\ chan' = Append(chan, "token")
              /\ cached' = Append(cached, Zero)
              /\ lkey' = Append(lkey, k)
              /\ map' = [map EXCEPT ![k] = l]
              /\ ldr' = [ldr EXCEPT ![p] = l]
         ELSE /\ ldr' = [ldr EXCEPT ![p] = map[k]]
              /\ UNCHANGED <<chan, cached, lkey, map>>
    /\ Goto(p, "call")
    /\ UNCHANGED <<env, plan, zk, pk, failed, calls, tmp, val, ncons, conval, nextv, rets>>

(* The loader call.  `_, ok := <-done` has three outcomes. *)
HasToken(l)  == chan[l] = "token"
IsClosed(l)  == chan[l] = "closed"
Blocked(p)   == pc[p] = "call" /\ chan[ldr[p]] = "empty"

RecvToken(p) ==
    /\ pc[p] = "call" /\ HasToken(ldr[p])
    /\ chan' = [chan EXCEPT ![ldr[p]] = "empty"]
    /\ Goto(p, "construct")
    /\ UNCHANGED <<env, plan, zk, pk, failed, calls, map, cached, lkey, ldr, tmp, val, ncons, conval, nextv, rets>>

RecvClosed(p) ==
    /\ pc[p] = "call" /\ IsClosed(ldr[p])
    /\ Goto(p, "read")
    /\ UNCHANGED <<env, plan, zk, pk, failed, calls, map, chan, cached, lkey, ldr, tmp, val, ncons, conval, nextv, rets>>

(* The user's constructor runs (c.new(key) with the key the loader captured)   *)
(* and returns a fresh object -- or, for the keys in zk, the zero value of V.   *)
(* Schedule replay parks goroutines here.                                      *)
NeedsDep(p) == pc[p] = "construct" /\ nest[p] = 0 /\ Dep[lkey[ldr[p]]] # NoDep
(* The constructor of k first fetches the value of Dep[k] with a nested Get:   *)
(* the same goroutine runs a whole Get (of another key) while it holds k's     *)
(* token.  Nothing in the design may make that wait for k.                     *)
CallDep(p) ==
    /\ NeedsDep(p) /\ lkey[ldr[p]] \notin pk
    /\ nest' = [nest EXCEPT ![p] = 1]
    /\ oldr' = [oldr EXCEPT ![p] = ldr[p]]
    /\ Goto(p, "load")
    /\ UNCHANGED <<nres, slots, hold, plan, zk, pk, failed, calls, map, chan, cached, lkey, ldr, tmp, val, ncons, conval, nextv, rets>>

Construct(p) ==
    /\ \/ pc[p] = "construct" /\ ~NeedsDep(p)
       \/ pc[p] = "construct2"
    /\ lkey[ldr[p]] \notin pk
    /\ LET k == lkey[ldr[p]]
           v == IF k \in zk THEN Zero ELSE nextv IN
       /\ ncons' = [ncons EXCEPT ![k] = @ + 1]
       /\ conval' = [conval EXCEPT ![k] = @ \cup {v}]
       /\ tmp' = [tmp EXCEPT ![p] = v]
    /\ nextv' = nextv + 1
    /\ Goto(p, "assign")
    /\ UNCHANGED <<env, plan, zk, pk, failed, calls, map, chan, cached, lkey, ldr, val, rets>>

(* The constructor invocation panics (or calls runtime.Goexit): it counts as   *)
(* an invocation, yields no value, and unwinds the loader and Get of p -- the  *)
(* cached variable is not assigned, the channel is not closed, the token is    *)
(* lost.  p's Get ends with the panic (recorded as Panicked in rets).          *)
Panicked == -1
ConstructPanics(p) ==
    /\ pc[p] = "construct" /\ lkey[ldr[p]] \in pk
    /\ ncons' = [ncons EXCEPT ![lkey[ldr[p]]] = @ + 1]
    /\ nextv' = nextv + 1
    /\ failed' = failed \cup {ldr[p]}
    /\ rets' = [rets EXCEPT ![p] = Append(@, Panicked)]
    /\ Goto(p, "idle")
    /\ ReleaseSlot(p, 0)
    /\ UNCHANGED <<nest, oldr, nres, plan, zk, pk, calls, map, chan, cached, lkey, ldr, tmp, val, conval>>

StoreCached(p) ==
    /\ pc[p] = "assign"
    /\ cached' = [cached EXCEPT ![ldr[p]] = tmp[p]]
    /\ Goto(p, "close")
    /\ UNCHANGED <<env, plan, zk, pk, failed, calls, map, chan, lkey, ldr, tmp, val, ncons, conval, nextv, rets>>

Close(p) ==
    /\ pc[p] = "close"
    /\ chan' = [chan EXCEPT ![ldr[p]] = "closed"]
    /\ Goto(p, "read")
    /\ UNCHANGED <<env, plan, zk, pk, failed, calls, map, cached, lkey, ldr, tmp, val, ncons, conval, nextv, rets>>

ReadCached(p) ==
    /\ pc[p] = "read"
    /\ val' = [val EXCEPT ![p] = cached[ldr[p]]]
    /\ Goto(p, "ret")
    /\ UNCHANGED <<env, plan, zk, pk, failed, calls, map, chan, cached, lkey, ldr, tmp, ncons, conval, nextv, rets>>

Return(p) ==
    /\ pc[p] = "ret" /\ nest[p] = 0
    /\ rets' = [rets EXCEPT ![p] = Append(@, val[p])]
    /\ Goto(p, "idle")
    /\ ReleaseSlot(p, 0)
    /\ UNCHANGED <<nest, oldr, nres, plan, zk, pk, failed, calls, map, chan, cached, lkey, ldr, tmp, val, ncons, conval, nextv>>

(* The nested Get returns into the constructor of the outer key, which goes on. *)
ReturnDep(p) ==
    /\ pc[p] = "ret" /\ nest[p] = 1
    /\ nres' = [nres EXCEPT ![p] = Append(@, <<Key(p), val[p]>>)]
    /\ nest' = [nest EXCEPT ![p] = 0]
    /\ ldr' = [ldr EXCEPT ![p] = oldr[p]]
    /\ oldr' = [oldr EXCEPT ![p] = 0]
    /\ Goto(p, "construct2")
    /\ ReleaseSlot(p, 1)
    /\ UNCHANGED <<plan, zk, pk, failed, calls, map, chan, cached, lkey, tmp, val, ncons, conval, nextv, rets>>

Step(p) == \/ Start(p) \/ LoadHit(p) \/ LoadMiss(p) \/ AcquireSlot(p) \/ LoadOrStore(p)
           \/ CallDep(p) \/ ReturnDep(p)
           \/ RecvToken(p) \/ RecvClosed(p) \/ Construct(p) \/ ConstructPanics(p) \/ StoreCached(p)
           \/ Close(p) \/ ReadCached(p) \/ Return(p)

Next == \E p \in Procs : Step(p)

(* Weak fairness per process: goroutines keep running and constructors return. *)
Fairness == \A p \in Procs : WF_vars(Step(p))
Spec == Init /\ [][Next]_vars
FairSpec == Spec /\ Fairness

----------------------------------------------------------------------------
Loaders == 1..Len(chan)
InGet(p) == pc[p] # "idle"
Finished(p) == pc[p] = "idle" /\ calls[p] = Len(plan[p])
AllFinished == \A p \in Procs : Finished(p)
Holder(l) == {p \in Procs : \/ pc[p] \in {"construct", "construct2", "assign", "close"} /\ ldr[p] = l
                            \/ nest[p] = 1 /\ oldr[p] = l}

TypeOK ==
    /\ plan \in KeyPlans /\ zk \in ZeroKeySets /\ pk \in PanicKeySets /\ failed \subseteq 1..Len(chan)
    /\ \A p \in Procs : calls[p] \in 0..Len(plan[p])
    /\ \A p \in Procs : pc[p] \in {"idle", "load", "acq", "miss", "call", "construct", "construct2", "assign", "close", "read", "ret"}
    /\ \A p \in Procs : nest[p] \in 0..1 /\ oldr[p] \in 0..Len(chan)
    /\ slots \in 0..NCPU /\ (~Limiter => slots = 0)
    /\ \A k \in Keys : map[k] \in 0..Len(chan)
    /\ Len(cached) = Len(chan) /\ Len(lkey) = Len(chan)
    /\ \A l \in Loaders : chan[l] \in {"token", "empty", "closed"} /\ lkey[l] \in Keys
    /\ \A p \in Procs : ldr[p] \in 0..Len(chan)

(* C17, clause 1: the constructor is invoked at most once per key ... *)
OnceOnly == \A k \in Keys : ncons[k] <= 1

(* ... also after a panic: a failed construction is never retried. *)
NoRetryAfterPanic == \A l \in failed : ncons[lkey[l]] = 1 /\ conval[lkey[l]] = {} /\ ~IsClosed(l) /\ ~HasToken(l)

(* ... and exactly once as soon as some Get(k) has ended (returned or panicked). *)
ExactlyOnce == \A p \in Procs : \A i \in 1..Len(rets[p]) : ncons[plan[p][i]] = 1

(* C17, clause 2: every caller receives that single result: the zero value     *)
(* exactly for the keys whose constructor returned it, never the result of     *)
(* another construction.                                                       *)
(* In particular every value returned by Get(k) was returned by an invocation  *)
(* of the constructor for k: if that invocation panicked there is no such      *)
(* value (conval[k] = {}), so no Get(k) may return at all; the Get that ran    *)
(* the constructor ends with the panic.                                        *)
SameResult == \A p \in Procs : \A i \in 1..Len(rets[p]) :
                  IF rets[p][i] = Panicked
                    THEN plan[p][i] \in pk /\ conval[plan[p][i]] = {}
                    ELSE /\ (rets[p][i] = Zero) <=> (plan[p][i] \in zk)
                         /\ conval[plan[p][i]] = {rets[p][i]}
(* at most one Get per key ends with the constructor's panic *)
OnePanicPerKey == \A k \in Keys :
    Cardinality({<<p, i>> \in Procs \X (1..8) : i <= Len(rets[p]) /\ rets[p][i] = Panicked /\ plan[p][i] = k}) <= 1

(* C17, clause 3: a slow construction of one key does not block Get of         *)
(* another.  (a) structural: whoever a blocked process waits for is a process  *)
(* working on the same key, and that process is itself never blocked;          *)
(* (b) literally: a Get(k2) in progress has an enabled step whenever all       *)
(* constructions in progress (parked in Construct .. Close) are for keys       *)
(* other than k2.                                                              *)
(* A Get of a key whose construction panicked is blocked for good (Stuck): the *)
(* code does that, the property accepts it.                                    *)
Stuck(q) == Blocked(q) /\ ldr[q] \in failed
WaitsOnlyOnSameKey ==
    \A q \in Procs : Blocked(q) =>
        \/ \E r \in Procs \ {q} : r \in Holder(ldr[q]) /\ lkey[ldr[q]] = Key(q)
        \/ Stuck(q) /\ Key(q) \in pk

IndependentKeys ==
    \A q \in Procs :
        (/\ InGet(q) /\ ~Stuck(q)
         /\ \A l \in Loaders : lkey[l] = Key(q) => Holder(l) \ {q} = {})
        => ENABLED Step(q)

(* Design lemmas. *)
TokenConservation ==
    \A l \in Loaders :
        Cardinality(Holder(l)) + (IF HasToken(l) THEN 1 ELSE 0) + (IF IsClosed(l) THEN 1 ELSE 0)
            + (IF l \in failed THEN 1 ELSE 0) = 1

(* "constructed" is the closed channel together with ncons = 1, not cached # Zero *)
ClosedImpliesCached ==
    \A l \in Loaders : IsClosed(l) => ncons[lkey[l]] = 1 /\ conval[lkey[l]] = {cached[l]}

OneLoaderPerKey ==
    /\ \A l1, l2 \in Loaders : lkey[l1] = lkey[l2] => l1 = l2
    /\ \A k \in Keys : \A l \in Loaders : (map[k] = l) <=> (lkey[l] = k)

LoaderKeyOK == \A p \in Procs : /\ ((pc[p] \notin {"idle", "load", "acq", "miss"}) => (lkey[ldr[p]] = Key(p)))
                                 /\ ((nest[p] = 1) => (lkey[oldr[p]] = OuterKey(p)))
(* a nested Get returns the value of its key, like any other Get *)
NestedSameResult == \A p \in Procs : \A i \in 1..Len(nres[p]) : conval[nres[p][i][1]] = {nres[p][i][2]}

(* The stored loader of a key is never replaced. *)
MapStable == [][\A k \in Keys : map[k] # 0 => map'[k] = map[k]]_vars

(* Liveness: once constructors return or panic (fairness), every Get ends --    *)
(* except the Gets of a key whose construction panicked, which stay blocked.   *)
Termination == <>[](\A p \in Procs : Finished(p) \/ Stuck(p))
EveryGetReturns == \A p \in Procs : InGet(p) ~> (~InGet(p) \/ Stuck(p))
(* without constructor faults nobody is ever stuck *)
NoFaultNoStuck == (pk = {}) => \A p \in Procs : ~Stuck(p)
=============================================================================
