SPECIFICATION GSpec
CONSTANTS
  Procs = {1, 2, 3}
  N = 1
  MaxCalls = 3
  MaxRel = 1000
  Depth = 5
  MaxDone = 2
  OutFile = "sema_sched_1.ndjson"
  Kinds <- AllKinds
INVARIANTS Emit GenOK
CHECK_DEADLOCK FALSE
