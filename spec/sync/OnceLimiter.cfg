SPECIFICATION Spec
CONSTANTS
  Procs = {1, 2}
  Keys = {"a", "b"}
  KeyPlans <- OneCallPlans
  ZeroKeySets <- NoZeroKeys
  PanicKeySets <- NoPanicKeys
  Dep <- NoDeps
  NCPU = 1
  Limiter = TRUE
INVARIANTS TypeOK OnceOnly SameResult IndependentKeys
CHECK_DEADLOCK FALSE
