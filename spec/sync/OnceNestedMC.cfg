SPECIFICATION FairSpec
CONSTANTS
  Procs = {1, 2, 3}
  Keys = {"a", "b"}
  KeyPlans <- OneCallPlans
  ZeroKeySets <- NoZeroKeys
  PanicKeySets <- NoPanicKeys
  Dep <- ANeedsB
  NCPU = 16
  Limiter = FALSE
INVARIANTS TypeOK OnceOnly ExactlyOnce SameResult NestedSameResult WaitsOnlyOnSameKey IndependentKeys TokenConservation ClosedImpliesCached OneLoaderPerKey LoaderKeyOK
PROPERTIES MapStable Termination EveryGetReturns
CHECK_DEADLOCK FALSE
