------------------------------ MODULE OnceAbs ------------------------------
(* The abstract object C17 describes: a map from keys to values in which the  *)
(* value of a key is constructed at most once, during some Get of that key,    *)
(* and every Get of the key returns that value.  OnceConstructor.tla refines   *)
(* it (OnceMC: PROPERTY AbsSpec); recorded executions of the real code are     *)
(* validated against it (OnceTrace.tla).                                       *)
EXTENDS Integers

CONSTANTS AProcs, AKeys, NoKey,
          AVals     \* the values a constructor may return (0 = the zero value of V included)

VARIABLES store,    \* store[k]: the value of k (0, the zero value of V, is a legal value;
                    \* whether k has been constructed is cons[k], never store[k] # 0)
          pend,     \* pend[p]: the key of p's Get in progress, NoKey = none
          cons,     \* cons[k]: number of constructor invocations for k
          bad       \* bad[k]: the constructor invocation for k panicked: k has no value, for ever

avars == <<store, pend, cons, bad>>

AInit == /\ store = [k \in AKeys |-> 0]
         /\ pend = [p \in AProcs |-> NoKey]
         /\ cons = [k \in AKeys |-> 0]
         /\ bad = [k \in AKeys |-> FALSE]

AInvoke(p, k) ==
    /\ pend[p] = NoKey
    /\ pend' = [pend EXCEPT ![p] = k]
    /\ UNCHANGED <<store, cons, bad>>

(* The constructor runs for k and yields v: only inside a Get(k) in progress,  *)
(* and only if k has no value yet.                                             *)
AConstruct(k, v) ==
    /\ cons[k] = 0
    /\ \E p \in AProcs : pend[p] = k
    /\ store' = [store EXCEPT ![k] = v]
    /\ cons' = [cons EXCEPT ![k] = 1]
    /\ UNCHANGED <<pend, bad>>

(* The constructor, run by p's Get(k), panics: the invocation is spent, k gets *)
(* no value, p's Get ends with the panic.  Every other Get(k) can only wait.   *)
APanic(p, k) ==
    /\ pend[p] = k /\ cons[k] = 0
    /\ cons' = [cons EXCEPT ![k] = 1]
    /\ bad' = [bad EXCEPT ![k] = TRUE]
    /\ pend' = [pend EXCEPT ![p] = NoKey]
    /\ UNCHANGED store

(* Get returns v: the value a constructor invocation for the key returned,     *)
(* which must exist (never for a key whose construction panicked).             *)
AReturn(p, v) ==
    /\ pend[p] # NoKey
    /\ cons[pend[p]] = 1 /\ ~bad[pend[p]] /\ store[pend[p]] = v
    /\ pend' = [pend EXCEPT ![p] = NoKey]
    /\ UNCHANGED <<store, cons, bad>>

ANext == \/ \E p \in AProcs, k \in AKeys : AInvoke(p, k)
         \/ \E k \in AKeys, v \in AVals : AConstruct(k, v)
         \/ \E p \in AProcs, k \in AKeys : APanic(p, k)
         \/ \E p \in AProcs, v \in AVals : AReturn(p, v)

ASpec == AInit /\ [][ANext]_avars
=============================================================================
