------------------------------- MODULE OnceMC -------------------------------
(* Model-checking instances of OnceConstructor: key plans. *)
EXTENDS OnceConstructor

(* every process performs one Get of an arbitrary key *)
OneCallPlans == [Procs -> {<<k>> : k \in Keys}]
(* every process performs two Gets (the second one may take the fast track) *)
TwoCallPlans == [Procs -> {<<k1, k2>> : k1 \in Keys, k2 \in Keys}]
(* the same, up to renaming of keys: the first Get of process 1 is for a fixed key *)
K0 == CHOOSE k \in Keys : TRUE
P0 == CHOOSE p \in Procs : \A q \in Procs : p <= q
SymOneCallPlans == {f \in OneCallPlans : f[P0][1] = K0}
SymTwoCallPlans == {f \in TwoCallPlans : f[P0][1] = K0}
(* sequential call sequences of up to 4 Gets per process (binding G) *)
SeqPlans == [Procs -> UNION {[1..n -> Keys] : n \in 1..4}]
(* which keys get the zero value of V from the constructor *)
NoZeroKeys == {{}}
AnyZeroKeys == SUBSET Keys
SomeZeroKeys == {{}, {K0}}
(* which keys' constructor invocation panics (at most one faulty key per behaviour) *)
NoPanicKeys == {{}}
OnePanicKey == {{}} \cup {{k} : k \in Keys}
K0PanicKey == {{}, {K0}}
(* nested Gets: which key's constructor fetches which other key first *)
NoDeps == [k \in Keys |-> NoDep]
ANeedsB == [k \in Keys |-> IF k = "a" THEN "b" ELSE NoDep]
(* one or two Gets *)
MixedPlans == [Procs -> {<<k>> : k \in Keys} \cup {<<k1, k2>> : k1 \in Keys, k2 \in Keys}]

(* Refinement: the fine-grained Get implements the abstract once-map. *)
AbsStore == [k \in Keys |-> IF conval[k] = {} THEN 0 ELSE CHOOSE v \in conval[k] : TRUE]
AbsBad   == [k \in Keys |-> \E l \in failed : lkey[l] = k]
AbsPend  == [p \in Procs |-> IF InGet(p) THEN Key(p) ELSE "-"]
Abs == INSTANCE OnceAbs WITH AProcs <- Procs, AKeys <- Keys, NoKey <- "-", AVals <- 0..16,
                             store <- AbsStore, pend <- AbsPend, cons <- ncons, bad <- AbsBad
AbsSpec == Abs!ASpec
=============================================================================
