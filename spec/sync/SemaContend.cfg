SPECIFICATION CSpec
CONSTANTS
  Procs = {1, 2, 3, 4}
  N = 2
  MaxCalls = 1
  MaxRel = 0
  Kinds <- AllKinds
INVARIANTS TypeOK HoldersBound CancelWhenFull SettledFull LosersGetErr ReturnsCtxErr
PROPERTIES EveryoneReturns ErrOnlyWhenDone
CHECK_DEADLOCK FALSE
