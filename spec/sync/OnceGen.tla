------------------------------ MODULE OnceGen ------------------------------
(* Schedule generator for binding S (schedule replay) of OnceConstructor.     *)
(*                                                                             *)
(* The harness can park a goroutine only at its gates: before a Get ("start"), *)
(* at the two guarded hooks "once.miss" and "once.stored", and inside the      *)
(* constructor.  A *coarse step* is therefore the run of fine actions of       *)
(* OnceConstructor.tla that one goroutine performs from one gate to the next   *)
(* gate, to the end of its Get, or until it blocks in `<-done`.  This module   *)
(* re-uses the fine actions unchanged, groups them into coarse steps with the  *)
(* variable `run`, and records every complete schedule in `hist` together      *)
(* with what the specification predicts after each coarse step: where the      *)
(* goroutine stops, the constructor-call counts, who is blocked, and the value *)
(* a finished Get returns.  A goroutine blocked in `<-done` cannot be held     *)
(* back once the channel is closed, so its wake-up (RecvClosed, ReadCached,    *)
(* Return) is scheduled as soon as it is enabled.                              *)
EXTENDS OnceMC, Json, CSV, TLCExt

CONSTANTS OutFile,   \* schedules without constructor faults
          OutFileP   \* schedules in which a constructor panics (they leave goroutines blocked
                     \* for good, so the harness replays them in small separate batches)

VARIABLES hist,      \* sequence of coarse steps so far
          run,       \* process in the middle of a coarse step, 0 = none
          acts,      \* fine actions of the coarse step in progress
          waiting    \* processes blocked in `<-done`

gvars == <<vars, hist, run, acts, waiting>>

GInit == Init /\ hist = <<>> /\ run = 0 /\ acts = <<>> /\ waiting = {}

Fine(p, a) ==
    \/ a = "Start" /\ Start(p)
    \/ a = "LoadHit" /\ LoadHit(p)
    \/ a = "LoadMiss" /\ LoadMiss(p)
    \/ a = "LoadOrStore" /\ LoadOrStore(p)
    \/ a = "RecvToken" /\ RecvToken(p)
    \/ a = "RecvClosed" /\ RecvClosed(p)
    \/ a = "Construct" /\ Construct(p)
    \/ a = "ConstructPanics" /\ ConstructPanics(p)
    \/ a = "CallDep" /\ CallDep(p)
    \/ a = "ReturnDep" /\ ReturnDep(p)
    \/ a = "AcquireSlot" /\ AcquireSlot(p)
    \/ a = "StoreCached" /\ StoreCached(p)
    \/ a = "Close" /\ Close(p)
    \/ a = "ReadCached" /\ ReadCached(p)
    \/ a = "Return" /\ Return(p)

Names == {"Start", "LoadHit", "LoadMiss", "LoadOrStore", "RecvToken", "RecvClosed",
          "Construct", "ConstructPanics", "CallDep", "ReturnDep", "AcquireSlot", "StoreCached", "Close", "ReadCached", "Return"}

(* Where p stops after fine action a ("" = it keeps running).  Evaluated on    *)
(* the successor state.                                                        *)
StopAfter(p, a) ==
    IF a = "LoadMiss" THEN "once.miss"
    ELSE IF a = "LoadOrStore" THEN "once.stored"
    ELSE IF a = "RecvToken" THEN "construct"
    ELSE IF a = "ReturnDep" THEN "construct2"   \* the second gate inside the constructor, after its nested Get
    ELSE IF a \in {"Return", "ConstructPanics"} THEN "done"   \* a panicked Get has ended, too (val = -1)
    ELSE IF pc'[p] = "call" /\ chan'[ldr'[p]] = "empty" THEN "blocked"
    ELSE ""

Last(s) == s[Len(s)]
SetToSeq(S) == LET RECURSIVE f(_)
                   f(T) == IF T = {} THEN <<>> ELSE LET x == CHOOSE y \in T : \A z \in T : y <= z
                                                    IN <<x>> \o f(T \ {x})
               IN f(S)

Rec(p, as, to, blk, wake) ==
    [p |-> p, acts |-> as, to |-> to, wake |-> wake,
     cons |-> ncons',
     \* processes that must still be blocked after this step (their channel is not closed)
     blk |-> SetToSeq({q \in blk : chan'[ldr'[q]] # "closed"}),
     val |-> IF to = "done" THEN Last(rets'[p]) ELSE 0]

GStep(p) ==
    \E a \in Names :
        /\ Fine(p, a)
        /\ LET to == StopAfter(p, a) IN
           IF to = ""
             THEN /\ run' = p /\ acts' = Append(acts, a)
                  /\ UNCHANGED <<hist, waiting>>
             ELSE LET blk == IF to = "blocked" THEN waiting \cup {p} ELSE waiting \ {p} IN
                  /\ run' = 0 /\ acts' = <<>>
                  /\ waiting' = blk
                  /\ hist' = Append(hist, Rec(p, Append(acts, a), to, blk, p \in waiting))

(* p, parked at "once.stored", is released and blocks at once in `<-done`. *)
BlockStep(p) ==
    /\ Blocked(p)
    /\ waiting' = waiting \cup {p}
    /\ hist' = Append(hist, [p |-> p, acts |-> <<>>, to |-> "blocked", wake |-> FALSE,
                             cons |-> ncons, blk |-> SetToSeq(waiting \cup {p}), val |-> 0])
    /\ UNCHANGED <<vars, run, acts>>

Wakeable == {p \in waiting : IsClosed(ldr[p])}

GNext ==
    IF run # 0 THEN GStep(run)
    ELSE IF Wakeable # {} THEN GStep(CHOOSE p \in Wakeable : \A q \in Wakeable : p <= q)
    ELSE \E p \in Procs \ waiting : GStep(p) \/ BlockStep(p)

GSpec == GInit /\ [][GNext]_gvars

(* A schedule is complete when every process has finished or is blocked for   *)
(* good in a Get of a key whose construction panicked.                        *)
StuckSet == {p \in waiting : ldr[p] \in failed}
Complete == run = 0 /\ \A p \in Procs : Finished(p) \/ p \in StuckSet

Emit == Complete =>
          CSVWrite("%1$s", <<ToJson([np |-> Cardinality(Procs), plan |-> plan, zero |-> zk, panic |-> pk, dep |-> Dep,
                                     stuck |-> SetToSeq(StuckSet), steps |-> hist])>>,
                   IF pk = {} THEN OutFile ELSE OutFileP)

(* Sanity of the generator itself. *)
GenOK == /\ OnceOnly /\ SameResult
         /\ (run = 0 => \A p \in waiting : pc[p] = "call")
         /\ (Complete => waiting = StuckSet)
(* every schedule can be completed: no state without successor except the complete ones *)
NoStuck == Complete \/ ENABLED GNext
=============================================================================
