SPECIFICATION FairSpec
CONSTANTS
  Procs = {1, 2}
  N = 1
  MaxCalls = 2
  MaxRel = 2
  Kinds <- AllKinds
INVARIANTS TypeOK HoldersBound CancelWhenFull ReturnsCtxErr
PROPERTIES ErrOnlyWhenDone DoneReturns
CHECK_DEADLOCK FALSE
