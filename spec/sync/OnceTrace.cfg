SPECIFICATION TSpec
CONSTANTS
  AProcs <- TraceProcs
  AKeys = {"k0", "k1", "k2", "k3"}
  NoKey = "-"
  AVals = {}
  TraceFile = "once_trace.ndjson"
INVARIANTS OnceOnlyT
CHECK_DEADLOCK FALSE
