SPECIFICATION TSpec
CONSTANTS
  AProcs <- TraceProcs
  AKeys = {"a", "b", "c", "d"}
  NoKey = "-"
  AVals = {}
  TraceFile = "once_trace.ndjson"
INVARIANTS OnceOnlyT
CHECK_DEADLOCK FALSE
