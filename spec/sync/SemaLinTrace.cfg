SPECIFICATION TSpec
CONSTANTS
  Procs <- TraceProcs
  N = 1
  MaxCalls = 1000000
  MaxRel = 1000000
  TraceFile = "sema_trace_1.ndjson"
  Kinds <- AllKinds
INVARIANTS BoundT
POSTCONDITION Post
CHECK_DEADLOCK FALSE
