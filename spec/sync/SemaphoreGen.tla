---------------------------- MODULE SemaphoreGen ----------------------------
(* Event-sequence generator for the schedule replay of ChanSemaphore.         *)
(*                                                                             *)
(* The harness controls the *input events* -- a goroutine starts              *)
(* Acquire(ctx) with a live or already-done context, somebody calls Release,   *)
(* the context of a pending Acquire is cancelled -- but not which ready case   *)
(* Go's select takes nor which blocked sender the runtime wakes.  A coarse     *)
(* step is one input event followed by the internal actions of Semaphore.tla   *)
(* (AcquireOK / AcquireCancelled) until no pending Acquire has an enabled      *)
(* step.  TLC branches over every internal choice; each emitted line is one    *)
(* complete event sequence of length Depth with, per event, the response this  *)
(* branch predicts (`ret`) and the set of all responses the specification      *)
(* allows at that point (`may`), so the harness can tell a legal alternative   *)
(* (follow another line) from a violation.                                     *)
EXTENDS Semaphore, Sequences, Json, CSV, TLCExt

CONSTANTS Depth, OutFile,
          MaxDone    \* at most this many Acquires with an already-done context per sequence

VARIABLE hist
gvars == <<vars, hist>>

GInit == Init /\ hist = <<>>

SetToSeq(S) == LET RECURSIVE f(_)
                   f(T) == IF T = {} THEN <<>> ELSE LET x == CHOOSE y \in T : \A z \in T : y <= z
                                                    IN <<x>> \o f(T \ {x})
               IN f(S)

(* Responses allowed right after an input event (evaluated on the successor state). *)
OKSet  == {q \in Procs : CanOK(q)}
ErrSet == {q \in Procs : CanCancel(q)}
Pend   == {q \in Procs : st[q] = "pending"}

(* The kind of context is not an input the semaphore's behaviour depends on;  *)
(* the generator walks through all kinds deterministically (by position and   *)
(* process) and emits, with every Acquire, the kind and the error value the   *)
(* specification says Acquire has to return if it ends by the context.        *)
KindSeq == <<"cancel", "cancelcause", "deadline", "timeoutcause", "sentinel", "deadlinecause",
             "afterfunc", "nested">>
KindAt(i, p, c) == LET k == KindSeq[((i + 3 * p) % Len(KindSeq)) + 1] IN
                   \* an already-done timeout / deadline context: alternately the expired one
                   IF c = "done" /\ k \in {"timeoutcause", "deadlinecause"} /\ i % 2 = 0
                     THEN IF k = "timeoutcause" THEN "timeoutcause.expired" ELSE "deadlinecause.expired"
                     ELSE k

Ev(name, p, c) ==
    [ev |-> name, p |-> p, ctx |-> c, ret |-> <<>>,
     kind |-> IF name = "start" THEN kind'[p] ELSE "",
     want |-> IF name = "start" THEN ErrOf(kind'[p]) ELSE "",
     cause |-> IF name = "start" THEN CauseOf(kind'[p]) ELSE "",
     mayok |-> SetToSeq(OKSet'), mayerr |-> SetToSeq(ErrSet'),
     count |-> count', pend |-> SetToSeq(Pend')]

(* An Acquire with a done context and a free slot is answered at random by     *)
(* Go's select; the harness has to retry until the runtime follows the line,   *)
(* so the number of such points per sequence is bounded.                       *)
DoneStarts == Cardinality({i \in 1..Len(hist) : hist[i].ev = "start" /\ hist[i].ctx = "done"})

(* at most one back-to-back event (cancelrelease / release2) per sequence *)
Compounds == Cardinality({i \in 1..Len(hist) : hist[i].ev \in {"cancelrelease", "release2"}})

(* symmetry breaking: processes make their first call in the order 1, 2, 3 *)
InOrder(p) == calls[p] > 0 \/ \A q \in Procs : q < p => calls[q] > 0

Input ==
    /\ Len(hist) < Depth
    /\ \/ \E p \in Procs : \E c \in {"live", "done"} :
            /\ InOrder(p) /\ (c = "done" => DoneStarts < MaxDone)
            /\ StartAcquireK(p, c, KindAt(Len(hist), p, c))
            /\ hist' = Append(hist, Ev("start", p, c))
       \/ /\ (N > 0 \/ Pend = {})
          /\ ReleaseEffect /\ rel' = rel + 1 /\ UNCHANGED <<st, ctx, calls, res, acq, kind>>
          /\ hist' = Append(hist, Ev("release", 0, ""))
       \* N = 0 at a quiescent state: every pending Acquire is blocked in its select, so
       \* the receive of Release meets one of them (which one is up to the runtime)
       \/ \E p \in Pend :
            /\ ReleaseHandoff(p)
            /\ hist' = Append(hist, [ev |-> "release", p |-> 0, ctx |-> "", ret |-> << <<p, "ok">> >>,
                                     kind |-> "", want |-> "", cause |-> "",
                                     mayok |-> SetToSeq(Pend), mayerr |-> <<>>,
                                     count |-> count', pend |-> SetToSeq(Pend')])
       \/ \E p \in Procs :
            /\ Cancel(p)
            /\ hist' = Append(hist, Ev("cancel", p, ""))
       \* Back-to-back events, NOT separated by waiting for quiescence.  In Semaphore.tla these are
       \* ordinary interleavings (Release is enabled in every state and never waits for anybody);
       \* here they are single input events so that the harness fires the calls without a pause:
       \* (1) cancel(p) immediately followed by Release, p being the only pending Acquire: Release
       \*     must return whether p has already left Acquire or not; p ends with its context's error
       \*     (or, legally, takes the slot that has just been freed);
       \/ \E p \in Procs :
            /\ Compounds < 1
            /\ Pend = {p} /\ ctx[p] = "live"
            /\ ctx' = [ctx EXCEPT ![p] = "done"]
            /\ st' = [st EXCEPT ![p] = "idle"]
            /\ res' = [res EXCEPT ![p] = "err"]
            /\ ReleaseEffect /\ rel' = rel + 1
            /\ UNCHANGED <<calls, acq, kind>>
            /\ hist' = Append(hist, [ev |-> "cancelrelease", p |-> p, ctx |-> "", ret |-> << <<p, "err">> >>,
                                     kind |-> "", want |-> "", cause |-> "",
                                     mayok |-> <<p>>, mayerr |-> <<p>>,
                                     count |-> count', pend |-> <<>>])
       \* (2) two Releases racing for the one pending Acquire: both must return, the pending
       \*     Acquire gets a slot.
       \/ /\ Compounds < 1
          /\ Cardinality(Pend) = 1
          \* with N = 1 the outcome depends on who wins the race (Release, AcquireOK, Release leaves
          \* the slot free; Release, Release, AcquireOK leaves it taken): not a deterministic input event
          /\ N # 1
          /\ rel' = rel + 2
          /\ LET c2 == IF count > 2 THEN count - 2 ELSE 0
                 p == CHOOSE q \in Pend : TRUE IN
             /\ count' = IF N = 0 THEN 0 ELSE c2 + 1
             /\ st' = [st EXCEPT ![p] = "idle"]
             /\ res' = [res EXCEPT ![p] = "ok"]
             /\ acq' = acq + 1
             /\ hist' = Append(hist, [ev |-> "release2", p |-> 0, ctx |-> "", ret |-> << <<p, "ok">> >>,
                                      kind |-> "", want |-> "", cause |-> "", mayok |-> <<p>>, mayerr |-> <<>>,
                                      count |-> count', pend |-> <<>>])
          /\ UNCHANGED <<ctx, calls, kind>>

Respond ==
    \E p \in Procs :
        \/ /\ AcquireOK(p)
           /\ hist' = [hist EXCEPT ![Len(hist)].ret = Append(@, <<p, "ok">>),
                                   ![Len(hist)].count = count',
                                   ![Len(hist)].pend = SetToSeq(Pend')]
        \/ /\ AcquireCancelled(p)
           /\ hist' = [hist EXCEPT ![Len(hist)].ret = Append(@, <<p, "err">>),
                                   ![Len(hist)].count = count',
                                   ![Len(hist)].pend = SetToSeq(Pend')]

GNext == IF Quiescent THEN Input ELSE Respond
GSpec == GInit /\ [][GNext]_gvars

Complete == Quiescent /\ Len(hist) = Depth
Emit == Complete => CSVWrite("%1$s", <<ToJson([n |-> N, steps |-> hist])>>, OutFile)

(* Generator lemmas: an input event at a quiescent state triggers at most one  *)
(* response, and exactly one whenever some response is allowed; so the number  *)
(* of returns the harness has to wait for is determined by the event.          *)
OneResponse ==
    \A i \in 1..Len(hist) :
        LET h == hist[i] IN
        /\ Len(h.ret) <= 1
        /\ ((i < Len(hist) \/ Quiescent) =>
              (Len(h.ret) = 1) = (Len(h.mayok) + Len(h.mayerr) > 0))
GenOK == HoldersBound /\ OneResponse /\ ReturnsCtxErr
=============================================================================
