------------------------------ MODULE PoolTrace ------------------------------
(* Trace validation for syncutil.Pool: the log of free-running goroutines.     *)
(* A "get" event is stamped after Get returned, a "put" event before Put is    *)
(* called, so the logged ownership intervals lie inside the real ones: two     *)
(* overlapping logged intervals of one object are a real double ownership.     *)
(* Object ids are assigned by the harness per distinct pointer.                *)
EXTENDS Pool, Sequences, Json, TLC

CONSTANT TraceFile
Trace == ndJsonDeserialize(TraceFile)
TraceProcs == 0..63

VARIABLE l
tvars == <<vars, l>>
TInit == Init /\ l = 1
Ev == Trace[l]

TNew == Ev.t = "new" /\ free' = {} /\ held' = [p \in Procs |-> {}] /\ nobj' = 0
(* a known object must be idle (the pool may also have dropped and must then   *)
(* never hand it out again: dropped objects are not in `free`)                 *)
TGet == /\ Ev.t = "get"
        /\ IF Ev.o <= nobj THEN GetIdle(Ev.g, Ev.o)
           ELSE /\ Ev.o = nobj + 1 /\ GetNew(Ev.g)
TPut == Ev.t = "put" /\ Put(Ev.g, Ev.o)

TNext == /\ l <= Len(Trace)
         /\ l' = l + 1
         /\ (TNew \/ TGet \/ TPut)
         /\ UNCHANGED ops
TSpec == TInit /\ [][TNext]_tvars
=============================================================================
