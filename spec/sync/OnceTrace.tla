----------------------------- MODULE OnceTrace -----------------------------
(* Trace validation (binding T) for OnceConstructor: the invoke / construct / *)
(* return log of free-running goroutines (race-enabled stress, 32 goroutines,  *)
(* overlapping keys, barrier start) must be a behaviour of OnceAbs.  Events    *)
(* are ordered by stamps drawn from one atomic counter: the invoke stamp       *)
(* before calling Get, the construct stamp inside the constructor, the return  *)
(* stamp after Get returned, so in every execution of a correct implementation *)
(* inv(p,k) < cons(k) < ret(q,k) for all q.  The specification is              *)
(* deterministic on such a log (no silent steps): the search depth is the      *)
(* number of accepted events + 1.                                              *)
EXTENDS OnceAbs, Sequences, Json, TLC

CONSTANT TraceFile
Trace == ndJsonDeserialize(TraceFile)
TraceProcs == 0..63

VARIABLE l
tvars == <<avars, l>>

TInit == AInit /\ l = 1
Ev == Trace[l]

(* a fresh OnceConstructor (next round) *)
TNew == /\ Ev.t = "new"
        /\ store' = [k \in AKeys |-> 0]
        /\ pend' = [p \in AProcs |-> NoKey]
        /\ cons' = [k \in AKeys |-> 0]
        /\ bad' = [k \in AKeys |-> FALSE]
TInv  == Ev.t = "inv" /\ AInvoke(Ev.g, Ev.k)
TCons == Ev.t = "cons" /\ AConstruct(Ev.k, Ev.v)
(* the Get of g that ran the constructor ended with the constructor's panic *)
TPanic == Ev.t = "panic" /\ APanic(Ev.g, Ev.k)
TRet  == Ev.t = "ret" /\ pend[Ev.g] = Ev.k /\ AReturn(Ev.g, Ev.v)

TNext == /\ l <= Len(Trace)
         /\ l' = l + 1
         /\ (TNew \/ TInv \/ TCons \/ TPanic \/ TRet)
TSpec == TInit /\ [][TNext]_tvars

OnceOnlyT == \A k \in AKeys : cons[k] <= 1
=============================================================================
