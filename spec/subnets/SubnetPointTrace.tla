-------------------------- MODULE SubnetPointTrace --------------------------
(* Re-judgement of single addresses recorded from the real functions: every   *)
(* line [fam, b, zone, local, special] (fam "none" = the zero Addr) must      *)
(* carry the verdicts the specification computes from the documented lists.   *)
EXTENDS SubnetSets, Json

Trace == ndJsonDeserialize("point_trace.ndjson")
VARIABLE l
Ev == Trace[l]

ShapeOK == \/ Ev.fam = "none" /\ Ev.b = <<>>
           \/ Ev.fam \in Fams /\ Len(Ev.b) = FamLen(Ev.fam) /\ \A k \in DOMAIN Ev.b : Ev.b[k] \in 0..255
PointOK == LET a == Addr(Ev.fam, Ev.b, Ev.zone) IN
           /\ Ev.local = InList(a, "local")
           /\ Ev.special = InList(a, "special")

TInit == l = 1
TNext == /\ l <= Len(Trace)
         /\ ShapeOK /\ PointOK
         /\ l' = l + 1
TSpec == TInit /\ [][TNext]_l
=============================================================================
