------------------------------ MODULE SubnetGen ------------------------------
(* Generator: boundary probes for every network of both documented lists,    *)
(* each emitted with the verdicts the specification computes for both         *)
(* functions.  One TLC state per probe.                                        *)
(*                                                                            *)
(* For a listed network p (family f, width W = 8 * bytes):                    *)
(*   net, last           first and last address of p                          *)
(*   before, after       Pred(net), Succ(last) (when they exist)              *)
(*   flip1(i)            net with bit i flipped, every i < W                  *)
(*                       (i >= Bits(p): inside p;  i < Bits(p): outside p,    *)
(*                        the verdict may still be TRUE through another entry)*)
(*   flipl(i)            last with bit i flipped (every i < W, or near the    *)
(*                       boundary only)                                        *)
(*   flip2(i, j)         net with two bits flipped, both within NearW bits of *)
(*                       the network boundary                                  *)
(* Misplaced images of the network (position and alignment of the prefix      *)
(* bytes matter; an implementation that trims or skips zero bytes loses them): *)
(*   shb(d, f)           all bytes of net moved right (d > 0) or left (d < 0) *)
(*                       by |d| <= 13 bytes, vacated bytes filled with f      *)
(*   shn(d, dir)         the same with zero fill, then moved by 4 bits right  *)
(*                       or left (d = 0: the nibble shift alone, also with a  *)
(*                       non-zero nibble fill)                                *)
(*   sht(d)              shb(d, 0) with the last four bytes set to 1.2.3.4    *)
(*   swap                the leading and the trailing zero bytes of the       *)
(*                       significant prefix bytes exchanged                   *)
(* and for IPv4 networks the 16-byte image ::ffff:a.b.c.d of net and last     *)
(* moved by 1..13 bytes, ::a.b.c.d and ::ffff:0:a.b.c.d.  None of these is    *)
(* derived from a boundary: the verdict is whatever the documented lists say. *)
(* IPv6 probes are also emitted with a zone; every IPv4 probe is also emitted *)
(* as ::ffff:a.b.c.d with and without zone (an IPv6 address: IPv6 lists);     *)
(* plus the zero Addr.                                                         *)
EXTENDS SubnetSets, Json, CSV

CONSTANTS NearW,     \* two-bit flips within NearW bits of the network boundary
          AllLast    \* TRUE: flip every bit of the last address, FALSE: only bits near the boundary

FlipBit(b, i) == LET k == (i \div 8) + 1
                     w == Pow2(7 - (i % 8))
                 IN [b EXCEPT ![k] = IF (@ \div w) % 2 = 1 THEN @ - w ELSE @ + w]

Keys == Fns \X Fams
Near(p, W, d) == {i \in 0..(W - 1) : i >= Bits(p) - d /\ i <= Bits(p) + d - 1}

(* Bytes moved by d positions (d > 0 right, d < 0 left), vacated bytes = f.   *)
ShiftBytes(b, d, f) == [k \in 1..Len(b) |-> IF k - d >= 1 /\ k - d <= Len(b) THEN b[k - d] ELSE f]
(* Moved by four bits; f is the nibble shifted in.                            *)
ShiftNibble(b, right, f) ==
    IF right THEN [k \in 1..Len(b) |-> (b[k] \div 16) + 16 * (IF k = 1 THEN f ELSE b[k - 1] % 16)]
    ELSE [k \in 1..Len(b) |-> (b[k] % 16) * 16 + (IF k = Len(b) THEN f ELSE b[k + 1] \div 16)]
Shifts(n) == {d \in (-13)..13 : d # 0 /\ d > -n /\ d < n}
ZeroRun(n) == [i \in 1..n |-> 0]
(* Leading and trailing zero bytes of the significant prefix bytes exchanged. *)
SwapZeros(p) ==
    LET net == Net(p)
        sig == (Bits(p) + 7) \div 8
        lz  == Cardinality({k \in 1..sig : \A j \in 1..k : net[j] = 0})
        tz  == Cardinality({k \in 1..sig : \A j \in k..sig : net[j] = 0})
    IN IF lz = sig THEN net
       ELSE ZeroRun(tz) \o SubSeq(net, lz + 1, sig - tz) \o ZeroRun(lz) \o SubSeq(net, sig + 1, Len(net))
ShiftKinds == {"shb", "shn", "sht", "swap"}
Misplaced(p) ==
    LET n == Len(Net(p))
        net == Net(p)
        R(kind, i, j, b) == [kind |-> kind, i |-> i, j |-> j, b |-> b]
    IN {R("shb", d + 100, f, ShiftBytes(net, d, f)) : d \in Shifts(n), f \in {0, 165}}
       \cup {R("shn", d + 100, dir, ShiftNibble(ShiftBytes(net, d, 0), dir = 0, 0)) :
                 d \in Shifts(n) \cup {0}, dir \in {0, 1}}
       \cup {R("shn", 100, 2 + dir, ShiftNibble(net, dir = 0, 10)) : dir \in {0, 1}}
       \cup (IF n = 16
             THEN {R("sht", d + 100, 0, [ShiftBytes(net, d, 0) EXCEPT ![13] = 1, ![14] = 2, ![15] = 3, ![16] = 4]) :
                      d \in Shifts(n)}
             ELSE {})
       \cup {R("swap", 0, 0, SwapZeros(p))}

(* Raw probes of one network: [kind, i, j, b].                                *)
Raw(p) == Misplaced(p) \cup
    LET n == Len(Net(p))
        W == 8 * n
        R(kind, i, j, b) == [kind |-> kind, i |-> i, j |-> j, b |-> b]
    IN {R("net", 0, 0, First(p)), R("last", 0, 0, Last(p))}
       \cup (IF First(p) # AllZero(n) THEN {R("before", 0, 0, Pred(First(p)))} ELSE {})
       \cup (IF Last(p) # AllMax(n) THEN {R("after", 0, 0, Succ(Last(p)))} ELSE {})
       \cup {R("flip1", i, 0, FlipBit(Net(p), i)) : i \in 0..(W - 1)}
       \cup {R("flipl", i, 0, FlipBit(Last(p), i)) : i \in IF AllLast THEN 0..(W - 1) ELSE Near(p, W, 8)}
       \cup {R("flip2", q[1], q[2], FlipBit(FlipBit(Net(p), q[1]), q[2])) :
                q \in {r \in Near(p, W, NearW) \X Near(p, W, NearW) : r[1] < r[2]}}

Map4in6(b) == <<0, 0, 0, 0, 0, 0, 0, 0, 0, 0, 255, 255>> \o b
Zones == {"", "eth0"}

(* A probe: the address, where it comes from, and how it was derived.         *)
Probe(fn, fam, k, r, form, a) ==
    [stage |-> 2, fn |-> fn, pfam |-> fam, k |-> k, kind |-> r.kind, i |-> r.i, j |-> r.j,
     form |-> form, addr |-> a]

(* Misplaced images are emitted without zone variants.                         *)
ZonesOf(r) == IF r.kind \in ShiftKinds THEN {""} ELSE Zones
Forms(fn, fam, k, r) ==
    IF fam = "v4"
    THEN {Probe(fn, fam, k, r, "plain", Addr("v4", r.b, ""))}
         \cup {Probe(fn, fam, k, r, "4in6", Addr("v6", Map4in6(r.b), z)) : z \in ZonesOf(r)}
         \cup (IF r.kind \in {"net", "last"}
               THEN {Probe(fn, fam, k, [r EXCEPT !.i = d + 100], "4in6sh",
                           Addr("v6", ShiftBytes(Map4in6(r.b), d, 0), "")) : d \in Shifts(16)}
                    \cup {Probe(fn, fam, k, r, "4compat", Addr("v6", ZeroRun(12) \o r.b, "")),
                          Probe(fn, fam, k, r, "4translated",
                                Addr("v6", ZeroRun(8) \o <<255, 255, 0, 0>> \o r.b, ""))}
               ELSE {})
    ELSE {Probe(fn, fam, k, r, "plain", Addr("v6", r.b, z)) : z \in ZonesOf(r)}

ZeroProbe == [stage |-> 2, fn |-> "local", pfam |-> "none", k |-> 0, kind |-> "zero", i |-> 0, j |-> 0,
              form |-> "plain", addr |-> ZeroAddr]

(* Three levels so that TLC's workers share the enumeration: a listed         *)
(* network (stage 0), one raw probe of it (stage 1), one concrete address      *)
(* form of that probe (stage 2, emitted and checked).                         *)
VARIABLE probe
Init == \/ probe = ZeroProbe
        \/ \E q \in Keys : \E k \in DOMAIN List(q[1], q[2]) :
               probe = [stage |-> 0, fn |-> q[1], pfam |-> q[2], k |-> k]
Next == \/ /\ probe.stage = 0
           /\ \E r \in Raw(List(probe.fn, probe.pfam)[probe.k]) :
                 probe' = [stage |-> 1, fn |-> probe.fn, pfam |-> probe.pfam, k |-> probe.k, r |-> r]
        \/ /\ probe.stage = 1
           /\ probe' \in Forms(probe.fn, probe.pfam, probe.k, probe.r)
Spec == Init /\ [][Next]_probe

Final == probe.stage = 2
Src == List(probe.fn, probe.pfam)[probe.k]
(* What the derivation promises about the probe's relation to its own source  *)
(* network (plain forms only; a 4in6 form is not in any IPv4 network).        *)
DerivationOK ==
    (Final /\ probe.form = "plain" /\ probe.kind # "zero") =>
        LET in == Contains(probe.addr.b, Src) IN
        /\ probe.kind \in {"net", "last"} => in
        /\ probe.kind \in {"before", "after"} => ~in
        /\ probe.kind \in {"flip1", "flipl"} => (in = (probe.i >= Bits(Src)))
        /\ probe.kind = "flip2" => (in = (probe.i >= Bits(Src)))       \* i < j
        /\ in => InList(probe.addr, probe.fn)
(* Bit-level definition, byte-wise form and interval form agree on every      *)
(* probe against every network of its family.                                 *)
FormsAgree ==
    (Final /\ probe.addr.fam \in Fams) =>
        \A fn \in Fns : \A k \in DOMAIN List(fn, probe.addr.fam) :
            LET p == List(fn, probe.addr.fam)[k] IN
            /\ Contains(probe.addr.b, p) = ContainsB(probe.addr.b, p)
            /\ Contains(probe.addr.b, p) = InRange(probe.addr.b, p)
(* The derived interval table gives the same verdict.                         *)
TableAgrees ==
    (Final /\ probe.addr.fam \in Fams) =>
        \A fn \in Fns :
            \E r \in DOMAIN TableOf(fn, probe.addr.fam) :
                LET row == TableOf(fn, probe.addr.fam)[r] IN
                /\ LexLeq(row.lo, probe.addr.b) /\ LexLeq(probe.addr.b, row.hi)
                /\ row.in = InList(probe.addr, fn)

Out == [fam |-> probe.addr.fam, b |-> probe.addr.b, zone |-> probe.addr.zone,
        local |-> InList(probe.addr, "local"), special |-> InList(probe.addr, "special"),
        src |-> [fn |-> probe.fn, fam |-> probe.pfam, k |-> probe.k, kind |-> probe.kind,
                 i |-> probe.i, j |-> probe.j, form |-> probe.form]]
Emit == Final => CSVWrite("%1$s", <<ToJson(Out)>>, "subnet_vectors.ndjson")
=============================================================================
