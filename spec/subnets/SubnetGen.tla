------------------------------ MODULE SubnetGen ------------------------------
(* Generator: boundary probes for every network of both documented lists,    *)
(* each emitted with the verdicts the specification computes for both         *)
(* functions.  One TLC state per probe.                                        *)
(*                                                                            *)
(* For a listed network p (family f, width W = 8 * bytes):                    *)
(*   net, last           first and last address of p                          *)
(*   before, after       Pred(net), Succ(last) (when they exist)              *)
(*   flip1(i)            net with bit i flipped, every i < W                  *)
(*                       (i >= Bits(p): inside p;  i < Bits(p): outside p,    *)
(*                        the verdict may still be TRUE through another entry)*)
(*   flipl(i)            last with bit i flipped (every i < W, or near the    *)
(*                       boundary only)                                        *)
(*   flip2(i, j)         net with two bits flipped, both within NearW bits of *)
(*                       the network boundary                                  *)
(* IPv6 probes are also emitted with a zone; every IPv4 probe is also emitted *)
(* as ::ffff:a.b.c.d with and without zone (an IPv6 address: IPv6 lists);     *)
(* plus the zero Addr.                                                         *)
EXTENDS SubnetSets, Json, CSV

CONSTANTS NearW,     \* two-bit flips within NearW bits of the network boundary
          AllLast    \* TRUE: flip every bit of the last address, FALSE: only bits near the boundary

FlipBit(b, i) == LET k == (i \div 8) + 1
                     w == Pow2(7 - (i % 8))
                 IN [b EXCEPT ![k] = IF (@ \div w) % 2 = 1 THEN @ - w ELSE @ + w]

Keys == Fns \X Fams
Near(p, W, d) == {i \in 0..(W - 1) : i >= Bits(p) - d /\ i <= Bits(p) + d - 1}

(* Raw probes of one network: [kind, i, j, b].                                *)
Raw(p) ==
    LET n == Len(Net(p))
        W == 8 * n
        R(kind, i, j, b) == [kind |-> kind, i |-> i, j |-> j, b |-> b]
    IN {R("net", 0, 0, First(p)), R("last", 0, 0, Last(p))}
       \cup (IF First(p) # AllZero(n) THEN {R("before", 0, 0, Pred(First(p)))} ELSE {})
       \cup (IF Last(p) # AllMax(n) THEN {R("after", 0, 0, Succ(Last(p)))} ELSE {})
       \cup {R("flip1", i, 0, FlipBit(Net(p), i)) : i \in 0..(W - 1)}
       \cup {R("flipl", i, 0, FlipBit(Last(p), i)) : i \in IF AllLast THEN 0..(W - 1) ELSE Near(p, W, 8)}
       \cup {R("flip2", q[1], q[2], FlipBit(FlipBit(Net(p), q[1]), q[2])) :
                q \in {r \in Near(p, W, NearW) \X Near(p, W, NearW) : r[1] < r[2]}}

Map4in6(b) == <<0, 0, 0, 0, 0, 0, 0, 0, 0, 0, 255, 255>> \o b
Zones == {"", "eth0"}

(* A probe: the address, where it comes from, and how it was derived.         *)
Probe(fn, fam, k, r, form, a) ==
    [stage |-> 2, fn |-> fn, pfam |-> fam, k |-> k, kind |-> r.kind, i |-> r.i, j |-> r.j,
     form |-> form, addr |-> a]

Forms(fn, fam, k, r) ==
    IF fam = "v4"
    THEN {Probe(fn, fam, k, r, "plain", Addr("v4", r.b, ""))}
         \cup {Probe(fn, fam, k, r, "4in6", Addr("v6", Map4in6(r.b), z)) : z \in Zones}
    ELSE {Probe(fn, fam, k, r, "plain", Addr("v6", r.b, z)) : z \in Zones}

ZeroProbe == [stage |-> 2, fn |-> "local", pfam |-> "none", k |-> 0, kind |-> "zero", i |-> 0, j |-> 0,
              form |-> "plain", addr |-> ZeroAddr]

(* Three levels so that TLC's workers share the enumeration: a listed         *)
(* network (stage 0), one raw probe of it (stage 1), one concrete address      *)
(* form of that probe (stage 2, emitted and checked).                         *)
VARIABLE probe
Init == \/ probe = ZeroProbe
        \/ \E q \in Keys : \E k \in DOMAIN List(q[1], q[2]) :
               probe = [stage |-> 0, fn |-> q[1], pfam |-> q[2], k |-> k]
Next == \/ /\ probe.stage = 0
           /\ \E r \in Raw(List(probe.fn, probe.pfam)[probe.k]) :
                 probe' = [stage |-> 1, fn |-> probe.fn, pfam |-> probe.pfam, k |-> probe.k, r |-> r]
        \/ /\ probe.stage = 1
           /\ probe' \in Forms(probe.fn, probe.pfam, probe.k, probe.r)
Spec == Init /\ [][Next]_probe

Final == probe.stage = 2
Src == List(probe.fn, probe.pfam)[probe.k]
(* What the derivation promises about the probe's relation to its own source  *)
(* network (plain forms only; a 4in6 form is not in any IPv4 network).        *)
DerivationOK ==
    (Final /\ probe.form = "plain" /\ probe.kind # "zero") =>
        LET in == Contains(probe.addr.b, Src) IN
        /\ probe.kind \in {"net", "last"} => in
        /\ probe.kind \in {"before", "after"} => ~in
        /\ probe.kind \in {"flip1", "flipl"} => (in = (probe.i >= Bits(Src)))
        /\ probe.kind = "flip2" => (in = (probe.i >= Bits(Src)))       \* i < j
        /\ in => InList(probe.addr, probe.fn)
(* Bit-level definition, byte-wise form and interval form agree on every      *)
(* probe against every network of its family.                                 *)
FormsAgree ==
    (Final /\ probe.addr.fam \in Fams) =>
        \A fn \in Fns : \A k \in DOMAIN List(fn, probe.addr.fam) :
            LET p == List(fn, probe.addr.fam)[k] IN
            /\ Contains(probe.addr.b, p) = ContainsB(probe.addr.b, p)
            /\ Contains(probe.addr.b, p) = InRange(probe.addr.b, p)
(* The derived interval table gives the same verdict.                         *)
TableAgrees ==
    (Final /\ probe.addr.fam \in Fams) =>
        \A fn \in Fns :
            \E r \in DOMAIN TableOf(fn, probe.addr.fam) :
                LET row == TableOf(fn, probe.addr.fam)[r] IN
                /\ LexLeq(row.lo, probe.addr.b) /\ LexLeq(probe.addr.b, row.hi)
                /\ row.in = InList(probe.addr, fn)

Out == [fam |-> probe.addr.fam, b |-> probe.addr.b, zone |-> probe.addr.zone,
        local |-> InList(probe.addr, "local"), special |-> InList(probe.addr, "special"),
        src |-> [fn |-> probe.fn, fam |-> probe.pfam, k |-> probe.k, kind |-> probe.kind,
                 i |-> probe.i, j |-> probe.j, form |-> probe.form]]
Emit == Final => CSVWrite("%1$s", <<ToJson(Out)>>, "subnet_vectors.ndjson")
=============================================================================
