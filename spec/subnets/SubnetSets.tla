----------------------------- MODULE SubnetSets -----------------------------
(* netutil.IsLocallyServed / netutil.IsSpecialPurpose against the network     *)
(* lists of their documentation comments (netutil/subnetset.go).              *)
(*                                                                            *)
(* The two lists are constant data, transcribed line by line: a network is    *)
(* the tuple <<bytes, bits>>.  TLC integers are 32-bit, so an address is its  *)
(* byte tuple (4 or 16 bytes) and order is lexicographic on bytes.            *)
(*                                                                            *)
(* An address is [fam, b, zone] with fam "v4" | "v6" | "none" ("none" is the  *)
(* zero netip.Addr).  ::ffff:a.b.c.d is an IPv6 address (netip.Addr.Is4 is    *)
(* false for it) and therefore judged by the IPv6 lists.  The zone is part of *)
(* the address but does not take part in the verdict.                         *)
EXTENDS Integers, Sequences, FiniteSets, TLC
LOCAL SX == INSTANCE SequencesExt

(* ------------------------------------------------------------------ data *)
V4(a, b, c, d) == <<a, b, c, d>>
(* An IPv6 address from its eight 16-bit groups (as written in the docs).    *)
V6(h) == [i \in 1..16 |-> IF i % 2 = 1 THEN h[(i + 1) \div 2] \div 256 ELSE h[i \div 2] % 256]
Z6 == <<0, 0, 0, 0, 0, 0, 0, 0>>
G6(g1, g2, g3) == V6(<<g1, g2, g3, 0, 0, 0, 0, 0>>)      \* g1:g2:g3::

(* IsLocallyServed: RFC 6303, as enumerated in the doc comment.               *)
LocalV4 == <<
    <<V4(10, 0, 0, 0), 8>>,
    <<V4(127, 0, 0, 0), 8>>,
    <<V4(169, 254, 0, 0), 16>>,
    <<V4(172, 16, 0, 0), 12>>,
    <<V4(192, 0, 2, 0), 24>>,
    <<V4(192, 168, 0, 0), 16>>,
    <<V4(198, 51, 100, 0), 24>>,
    <<V4(203, 0, 113, 0), 24>>,
    <<V4(255, 255, 255, 255), 32>> >>

LocalV6 == <<
    <<V6(Z6), 128>>,                                     \* ::/128
    <<V6(<<0, 0, 0, 0, 0, 0, 0, 1>>), 128>>,             \* ::1/128
    <<G6(\h2001, \h0db8, 0), 32>>,                       \* 2001:db8::/32
    <<G6(\hfd00, 0, 0), 8>>,                             \* fd00::/8
    <<G6(\hfe80, 0, 0), 10>> >>                          \* fe80::/10

(* IsSpecialPurpose: IANA special-purpose registries, as enumerated in the    *)
(* doc comment.                                                               *)
SpecialV4 == <<
    <<V4(0, 0, 0, 0), 8>>,
    <<V4(10, 0, 0, 0), 8>>,
    <<V4(100, 64, 0, 0), 10>>,
    <<V4(127, 0, 0, 0), 8>>,
    <<V4(169, 254, 0, 0), 16>>,
    <<V4(172, 16, 0, 0), 12>>,
    <<V4(192, 0, 0, 0), 24>>,
    <<V4(192, 0, 0, 0), 29>>,
    <<V4(192, 0, 2, 0), 24>>,
    <<V4(192, 88, 99, 0), 24>>,
    <<V4(192, 168, 0, 0), 16>>,
    <<V4(198, 18, 0, 0), 15>>,
    <<V4(198, 51, 100, 0), 24>>,
    <<V4(203, 0, 113, 0), 24>>,
    <<V4(240, 0, 0, 0), 4>>,
    <<V4(255, 255, 255, 255), 32>> >>

SpecialV6 == <<
    <<V6(Z6), 128>>,                                     \* ::/128
    <<V6(<<0, 0, 0, 0, 0, 0, 0, 1>>), 128>>,             \* ::1/128
    <<G6(\h0064, \hff9b, 0), 96>>,                       \* 64:ff9b::/96
    <<G6(\h0064, \hff9b, 1), 48>>,                       \* 64:ff9b:1::/48
    <<G6(\h0100, 0, 0), 64>>,                            \* 100::/64
    <<G6(\h2001, 0, 0), 23>>,                            \* 2001::/23
    <<G6(\h2001, 0, 0), 32>>,                            \* 2001::/32
    <<V6(<<\h2001, 1, 0, 0, 0, 0, 0, 1>>), 128>>,        \* 2001:1::1/128
    <<V6(<<\h2001, 1, 0, 0, 0, 0, 0, 2>>), 128>>,        \* 2001:1::2/128
    <<G6(\h2001, 2, 0), 48>>,                            \* 2001:2::/48
    <<G6(\h2001, 3, 0), 32>>,                            \* 2001:3::/32
    <<G6(\h2001, 4, \h0112), 48>>,                       \* 2001:4:112::/48
    <<G6(\h2001, \h0010, 0), 28>>,                       \* 2001:10::/28
    <<G6(\h2001, \h0020, 0), 28>>,                       \* 2001:20::/28
    <<G6(\h2001, \h0db8, 0), 32>>,                       \* 2001:db8::/32
    <<G6(\h2002, 0, 0), 16>>,                            \* 2002::/16
    <<G6(\h2620, \h004f, \h8000), 48>>,                  \* 2620:4f:8000::/48
    <<G6(\hfc00, 0, 0), 7>>,                             \* fc00::/7
    <<G6(\hfe80, 0, 0), 10>> >>                          \* fe80::/10

Fns == {"local", "special"}
Fams == {"v4", "v6"}
List(fn, fam) == CASE fn = "local"   /\ fam = "v4" -> LocalV4
                   [] fn = "local"   /\ fam = "v6" -> LocalV6
                   [] fn = "special" /\ fam = "v4" -> SpecialV4
                   [] fn = "special" /\ fam = "v6" -> SpecialV6
FamLen(fam) == IF fam = "v4" THEN 4 ELSE 16
Net(p)  == p[1]
Bits(p) == p[2]

(* -------------------------------------------------------- bits and bytes *)
Pow2(n) == 2 ^ n
(* Bit i (0 = most significant bit of the first byte) of a byte tuple.       *)
Bit(b, i) == (b[(i \div 8) + 1] \div Pow2(7 - (i % 8))) % 2

(* The definition: an address lies in a network iff it has the network's     *)
(* length and agrees with it on the first Bits(p) bits.                       *)
Contains(b, p) == /\ Len(b) = Len(Net(p))
                  /\ \A i \in 0..(Bits(p) - 1) : Bit(b, i) = Bit(Net(p), i)

(* The same, byte-wise (what the validators evaluate; Agree is a checked     *)
(* lemma).                                                                    *)
ContainsB(b, p) ==
    LET full == Bits(p) \div 8
        rem  == Bits(p) % 8
    IN /\ Len(b) = Len(Net(p))
       /\ \A k \in 1..full : b[k] = Net(p)[k]
       /\ rem = 0 \/ (b[full + 1] \div Pow2(8 - rem)) = (Net(p)[full + 1] \div Pow2(8 - rem))

Addr(fam, b, zone) == [fam |-> fam, b |-> b, zone |-> zone]
ZeroAddr == Addr("none", <<>>, "")

InList(a, fn) == /\ a.fam \in Fams
                 /\ \E k \in DOMAIN List(fn, a.fam) : ContainsB(a.b, List(fn, a.fam)[k])
(* Reference form on the bit-level definition, for the lemmas.               *)
InListDef(a, fn) == /\ a.fam \in Fams
                    /\ \E k \in DOMAIN List(fn, a.fam) : Contains(a.b, List(fn, a.fam)[k])
Verdict(a) == [local |-> InList(a, "local"), special |-> InList(a, "special")]

(* ------------------------------------------------- lexicographic order *)
RECURSIVE LexLessFrom(_, _, _)
LexLessFrom(x, y, k) == IF k > Len(x) THEN FALSE
                        ELSE IF x[k] # y[k] THEN x[k] < y[k]
                        ELSE LexLessFrom(x, y, k + 1)
LexLess(x, y) == LexLessFrom(x, y, 1)          \* same length assumed
LexLeq(x, y)  == x = y \/ LexLess(x, y)

AllZero(n) == [i \in 1..n |-> 0]
AllMax(n)  == [i \in 1..n |-> 255]

(* Successor / predecessor of a byte tuple (callers exclude max / zero).     *)
RECURSIVE SuccFrom(_, _)
SuccFrom(b, k) == IF k = 0 THEN b
                  ELSE IF b[k] < 255 THEN [b EXCEPT ![k] = @ + 1]
                  ELSE SuccFrom([b EXCEPT ![k] = 0], k - 1)
Succ(b) == SuccFrom(b, Len(b))
RECURSIVE PredFrom(_, _)
PredFrom(b, k) == IF k = 0 THEN b
                  ELSE IF b[k] > 0 THEN [b EXCEPT ![k] = @ - 1]
                  ELSE PredFrom([b EXCEPT ![k] = 255], k - 1)
Pred(b) == PredFrom(b, Len(b))

(* A network as an interval of addresses.                                    *)
HostMask(bits, k) ==         \* host bits of byte k (1-based) for a /bits network
    LET lo == 8 * (k - 1) IN
    IF bits >= lo + 8 THEN 0 ELSE IF bits <= lo THEN 255 ELSE Pow2(8 - (bits - lo)) - 1
First(p) == Net(p)
Last(p)  == [k \in 1..Len(Net(p)) |-> Net(p)[k] + HostMask(Bits(p), k)]
Canonical(p) == /\ \A k \in 1..Len(Net(p)) : Net(p)[k] \in 0..255
                /\ Bits(p) \in 0..(8 * Len(Net(p)))
                /\ \A k \in 1..Len(Net(p)) : (Net(p)[k] % (HostMask(Bits(p), k) + 1)) = 0
InRange(b, p) == LexLeq(First(p), b) /\ LexLeq(b, Last(p))

(* --------------------------------------------------------- interval table *)
(* Sorted maximal ranges of constant membership of one list, derived from the *)
(* list only: cut points are every First(p) and every Succ(Last(p)).          *)
CutPoints(L, n) == {AllZero(n)} \cup {First(L[k]) : k \in DOMAIN L}
                   \cup {Succ(Last(L[k])) : k \in {j \in DOMAIN L : Last(L[j]) # AllMax(n)}}
Cuts(L, n) == SX!SetToSortSeq(CutPoints(L, n), LexLess)
Member(b, L) == \E k \in DOMAIN L : ContainsB(b, L[k])
(* Elementary intervals: between two consecutive cut points.                 *)
Elem(L, n) == LET c == Cuts(L, n) IN
    [i \in 1..Len(c) |-> [lo |-> c[i],
                          hi |-> IF i = Len(c) THEN AllMax(n) ELSE Pred(c[i + 1]),
                          in |-> Member(c[i], L)]]
(* Merge neighbours with the same verdict.                                   *)
RECURSIVE Merge(_, _, _)
Merge(e, i, acc) ==
    IF i > Len(e) THEN acc
    ELSE IF acc # <<>> /\ acc[Len(acc)].in = e[i].in
         THEN Merge(e, i + 1, [acc EXCEPT ![Len(acc)].hi = e[i].hi])
         ELSE Merge(e, i + 1, Append(acc, e[i]))
Table(L, n) == Merge(Elem(L, n), 1, <<>>)
(* Zero-arity so that TLC evaluates each table once.                         *)
TableLocalV4   == Table(LocalV4, 4)
TableLocalV6   == Table(LocalV6, 16)
TableSpecialV4 == Table(SpecialV4, 4)
TableSpecialV6 == Table(SpecialV6, 16)
TableOf(fn, fam) == CASE fn = "local"   /\ fam = "v4" -> TableLocalV4
                      [] fn = "local"   /\ fam = "v6" -> TableLocalV6
                      [] fn = "special" /\ fam = "v4" -> TableSpecialV4
                      [] fn = "special" /\ fam = "v6" -> TableSpecialV6

(* Lemmas about a table t for list L over n-byte addresses.                  *)
Partitions(t, n) == /\ Len(t) >= 1
                    /\ t[1].lo = AllZero(n)
                    /\ t[Len(t)].hi = AllMax(n)
                    /\ \A i \in 1..Len(t) : LexLeq(t[i].lo, t[i].hi)
                    /\ \A i \in 1..(Len(t) - 1) : t[i].hi # AllMax(n) /\ t[i + 1].lo = Succ(t[i].hi)
Alternates(t) == \A i \in 1..(Len(t) - 1) : t[i].in # t[i + 1].in
(* No listed network straddles an interval border, so membership is constant  *)
(* inside every interval and equal to the verdict at its ends.                *)
ConstantInside(t, L) == \A i \in DOMAIN t :
    /\ Member(t[i].lo, L) = t[i].in
    /\ Member(t[i].hi, L) = t[i].in
    /\ \A k \in DOMAIN L :
         \/ LexLess(Last(L[k]), t[i].lo)                       \* network below
         \/ LexLess(t[i].hi, First(L[k]))                      \* network above
         \/ (t[i].in /\ LexLeq(t[i].lo, First(L[k])) /\ LexLeq(Last(L[k]), t[i].hi))  \* inside a TRUE range

(* ----------------------------------------------------- interval validation *)
(* Used on intervals reported by the exhaustive sweep of the real functions:  *)
(* a TRUE interval must be covered by the union of the listed networks, a     *)
(* FALSE interval must be disjoint from every one of them.                    *)
RECURSIVE Covered(_, _, _)
Covered(lo, hi, L) ==
    \E k \in DOMAIN L :
        /\ InRange(lo, L[k])
        /\ \/ LexLeq(hi, Last(L[k]))
           \/ Covered(Succ(Last(L[k])), hi, L)     \* Last < hi <= max, so Succ is defined
Disjoint(lo, hi, L) == \A k \in DOMAIN L : LexLess(Last(L[k]), lo) \/ LexLess(hi, First(L[k]))
IntervalOK(lo, hi, v, L) == IF v THEN Covered(lo, hi, L) ELSE Disjoint(lo, hi, L)
=============================================================================
