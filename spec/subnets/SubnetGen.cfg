SPECIFICATION Spec
CONSTANTS
  NearW = 4
  AllLast = FALSE
INVARIANTS Emit DerivationOK FormsAgree TableAgrees
CHECK_DEADLOCK FALSE
