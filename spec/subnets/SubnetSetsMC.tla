---------------------------- MODULE SubnetSetsMC ----------------------------
(* Design lemmas about the documented lists, checked exhaustively by TLC:     *)
(* one state per listed network and one per row of the derived interval       *)
(* tables.  The run also exports the lists (the single source of truth) and   *)
(* the tables as JSON for the Go drivers.                                     *)
EXTENDS SubnetSets, Json

VARIABLE cur
Keys == Fns \X Fams
PrefixStates == UNION {{[kind |-> "prefix", fn |-> q[1], fam |-> q[2], i |-> k] :
                        k \in DOMAIN List(q[1], q[2])} : q \in Keys}
TableStates == UNION {{[kind |-> "row", fn |-> q[1], fam |-> q[2], i |-> k] :
                       k \in DOMAIN TableOf(q[1], q[2])} : q \in Keys}

Init == cur \in PrefixStates \cup TableStates
Next == UNCHANGED cur
Spec == Init /\ [][Next]_cur

P == List(cur.fn, cur.fam)[cur.i]
N == FamLen(cur.fam)

(* Every listed network is canonical (no host bits), so it is the interval    *)
(* First..Last.                                                               *)
CanonicalOK == cur.kind = "prefix" => Canonical(P) /\ Len(Net(P)) = N
(* The bit-level definition, the byte-wise form and the interval form agree   *)
(* at both ends of the network and just outside of it, and on every single-   *)
(* bit flip of the network address.                                           *)
FlipBit(b, i) == LET k == (i \div 8) + 1
                     w == Pow2(7 - (i % 8))
                 IN [b EXCEPT ![k] = IF (@ \div w) % 2 = 1 THEN @ - w ELSE @ + w]
Agree(b, p) == Contains(b, p) = ContainsB(b, p) /\ Contains(b, p) = InRange(b, p)
EndsOK == cur.kind = "prefix" =>
    /\ Contains(First(P), P) /\ Contains(Last(P), P)
    /\ Agree(First(P), P) /\ Agree(Last(P), P)
    /\ First(P) # AllZero(N) => ~Contains(Pred(First(P)), P) /\ Agree(Pred(First(P)), P)
    /\ Last(P) # AllMax(N) => ~Contains(Succ(Last(P)), P) /\ Agree(Succ(Last(P)), P)
FlipsOK == cur.kind = "prefix" =>
    \A i \in 0..(8 * N - 1) :
        /\ Contains(FlipBit(Net(P), i), P) = (i >= Bits(P))
        /\ Agree(FlipBit(Net(P), i), P)
(* Every network of the RFC 6303 list is inside the special-purpose list      *)
(* (the implementation relies on it: isSpecialPurpose falls back on           *)
(* isLocallyServed).                                                          *)
LocalInSpecial == (cur.kind = "prefix" /\ cur.fn = "local") =>
    /\ InList(Addr(cur.fam, First(P), ""), "special")
    /\ InList(Addr(cur.fam, Last(P), ""), "special")
    /\ Covered(First(P), Last(P), List("special", cur.fam))

(* The interval tables partition the address space into maximal ranges of     *)
(* constant membership.                                                       *)
Row == TableOf(cur.fn, cur.fam)[cur.i]
RowOK == cur.kind = "row" =>
    /\ IntervalOK(Row.lo, Row.hi, Row.in, List(cur.fn, cur.fam))
    /\ InListDef(Addr(cur.fam, Row.lo, ""), cur.fn) = Row.in
    /\ InListDef(Addr(cur.fam, Row.hi, ""), cur.fn) = Row.in
    /\ InList(Addr(cur.fam, Row.lo, "zone"), cur.fn) = Row.in     \* zone plays no part
TablesOK == \A q \in Keys :
    LET t == TableOf(q[1], q[2]) IN
    /\ Partitions(t, FamLen(q[2]))
    /\ Alternates(t)
    /\ ConstantInside(t, List(q[1], q[2]))
ASSUME TablesOK
(* The zero Addr is in neither list; 4in6 addresses are IPv6 addresses.       *)
ASSUME ~InList(ZeroAddr, "local") /\ ~InList(ZeroAddr, "special")
Map4in6(b) == <<0, 0, 0, 0, 0, 0, 0, 0, 0, 0, 255, 255>> \o b
ASSUME \A fn \in Fns : \A k \in DOMAIN List(fn, "v4") :
           ~InList(Addr("v6", Map4in6(Net(List(fn, "v4")[k])), ""), fn)

Export == [local4 |-> LocalV4, local6 |-> LocalV6, special4 |-> SpecialV4, special6 |-> SpecialV6,
           tlocal4 |-> TableOf("local", "v4"), tspecial4 |-> TableOf("special", "v4"),
           tlocal6 |-> TableOf("local", "v6"), tspecial6 |-> TableOf("special", "v6")]
ASSUME JsonSerialize("subnet_lists.json", Export)
=============================================================================
