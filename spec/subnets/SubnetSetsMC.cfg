SPECIFICATION Spec
INVARIANTS CanonicalOK EndsOK FlipsOK LocalInSpecial RowOK
CHECK_DEADLOCK FALSE
