-------------------------- MODULE SubnetSweepTrace --------------------------
(* Validation of exhaustive sweeps of the real IsLocallyServed and            *)
(* IsSpecialPurpose.  The Go driver evaluates both functions on EVERY address *)
(* of a range and run-length-compresses the verdict pairs; every line of the  *)
(* log is one maximal run                                                     *)
(*     [fam, lo, hi, local, special, full]                                    *)
(* meaning: for all x with lo <= x <= hi the functions returned local and     *)
(* special.  The specification accepts a line iff                             *)
(*   - a TRUE run is covered by the union of the documented networks,         *)
(*   - a FALSE run is disjoint from every documented network,                 *)
(* for each of the two lists, and the runs are ascending and disjoint.  With  *)
(* full = TRUE (thorough tier, IPv4) the runs must tile the whole address     *)
(* space 0.0.0.0 .. 255.255.255.255, which discharges the quantifier over     *)
(* all 2^32 IPv4 addresses.                                                   *)
EXTENDS SubnetSets, Json

Trace == ndJsonDeserialize("sweep_trace.ndjson")
VARIABLE l
Ev == Trace[l]
N == Len(Ev.lo)

ShapeOK == /\ Ev.fam \in Fams
           /\ Len(Ev.lo) = FamLen(Ev.fam) /\ Len(Ev.hi) = FamLen(Ev.fam)
           /\ LexLeq(Ev.lo, Ev.hi)
SameSeries == l > 1 /\ Trace[l - 1].fam = Ev.fam /\ Trace[l - 1].full = Ev.full
OrderOK == IF SameSeries
           THEN IF Ev.full
                THEN Trace[l - 1].hi # AllMax(N) /\ Ev.lo = Succ(Trace[l - 1].hi)
                ELSE LexLess(Trace[l - 1].hi, Ev.lo)
           ELSE Ev.full => Ev.lo = AllZero(N)
LastOfSeries == l = Len(Trace) \/ Trace[l + 1].fam # Ev.fam \/ Trace[l + 1].full # Ev.full
EndOK == (Ev.full /\ LastOfSeries) => Ev.hi = AllMax(N)
RunOK == /\ IntervalOK(Ev.lo, Ev.hi, Ev.local, List("local", Ev.fam))
         /\ IntervalOK(Ev.lo, Ev.hi, Ev.special, List("special", Ev.fam))

TInit == l = 1
TNext == /\ l <= Len(Trace)
         /\ ShapeOK /\ OrderOK /\ EndOK /\ RunOK
         /\ l' = l + 1
TSpec == TInit /\ [][TNext]_l
=============================================================================
