--------------------------- MODULE SubnetDocTrace ---------------------------
(* Drift check between this specification and the documentation comments of  *)
(* netutil/subnetset.go: the harness extracts the CIDR lines of the comments  *)
(* of IsLocallyServed and IsSpecialPurpose and logs them as                   *)
(*     [fn, fam, list]     list = sequence of <<bytes, bits>>                 *)
(* A line is accepted iff it names the same set of networks as the list       *)
(* transcribed in SubnetSets.tla.  A rejection is a spec/doc drift (checker   *)
(* error), not a property violation.                                          *)
EXTENDS SubnetSets, Json

Trace == ndJsonDeserialize("doc_trace.ndjson")
VARIABLE l
Ev == Trace[l]
AsSet(s) == {<<s[k][1], s[k][2]>> : k \in DOMAIN s}

TInit == l = 1
TNext == /\ l <= Len(Trace)
         /\ Ev.fn \in Fns /\ Ev.fam \in Fams
         /\ AsSet(Ev.list) = AsSet(List(Ev.fn, Ev.fam))
         /\ Len(Ev.list) = Len(List(Ev.fn, Ev.fam))
         /\ l' = l + 1
TSpec == TInit /\ [][TNext]_l
(* All four lists must have been logged.                                      *)
Complete == {<<Trace[k].fn, Trace[k].fam>> : k \in DOMAIN Trace} = Fns \X Fams
ASSUME Complete
=============================================================================
