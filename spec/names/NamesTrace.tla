----------------------------- MODULE NamesTrace -----------------------------
(* Binding T: every line of the log was produced by the real code on an      *)
(* arbitrary input (IDN, invalid UTF-8, over-long, mutated...).  The harness *)
(* records  t = abstract(idna.ToASCII(input)),  e = "ToASCII failed"  and    *)
(* what the validators returned; the grammar of Names.tla re-judges it.      *)
(*                                                                           *)
(*  k = "name"  : ValidateHostname / ValidateSRVDomainName /                 *)
(*                ValidateDomainName: nil-ness, dynamic error type, Addr     *)
(*  k = "host"  : IsValidHostname (C02 twin), v = returned value             *)
(*  k = "label" : IsValidHostnameLabel (C02 twin) on the raw bytes t         *)
EXTENDS Names, Json, TLC

Trace == ndJsonDeserialize("names_trace.ndjson")

VARIABLE l
Ev == Trace[l]

Dec(r) == [i \in DOMAIN r |-> Run(r[i][1], r[i][2])]

ShapeOK(o, accepted) ==
    LET sh == ErrorShape(accepted) IN
    /\ o.nil = accepted
    /\ o.type = sh.type
    /\ o.addrIsInput = sh.addrIsInput

NameOK(e) == LET t == Dec(e.t)
                 v == Verdicts(t, e.e)
             IN /\ ShapeOK(e.host, v.host)
                /\ ShapeOK(e.srv, v.srv)
                /\ ShapeOK(e.dom, v.dom)
                \* the hierarchy on what the real functions returned
                /\ (e.host.nil => e.srv.nil) /\ (e.srv.nil => e.dom.nil)

HostOK(e)  == e.v = Verdicts(Dec(e.t), e.e).host
LabelOK(e) == e.v = SingleHostLabel(Dec(e.t))

LineOK(e) == CASE e.k = "name"  -> NameOK(e)
               [] e.k = "host"  -> HostOK(e)
               [] e.k = "label" -> LabelOK(e)

(* The lines are independent, so they are judged in Stride interleaved chains *)
(* (one TLC worker each): chain w visits lines w, w+Stride, w+2*Stride, ...    *)
(* A line the grammar does not allow violates the invariant LinesOK; TLC then  *)
(* prints the offending index l.                                               *)
CONSTANTS Stride,
          NLines     \* the number of lines the orchestrator wrote into the file

(* The log TLC sees must be the log that was written (a short read would make *)
(* the judgement vacuous): checked, and printed, before anything else.       *)
ASSUME TraceComplete == PrintT(<<"TRACE-LINES", Len(Trace), NLines>>) /\ Len(Trace) = NLines


(* TLC evaluates initial states (and their invariants) in its main thread,    *)
(* whose stack is small: a long line (hundreds of runs, deep recursion) as    *)
(* one of the first lines of a chunk overflowed it, now and then, depending    *)
(* on how much had been compiled yet.  So the chains start one step BEFORE     *)
(* the log, on indices <= 0 that stand for no line; every real line is judged  *)
(* in a successor state, i.e. by a worker thread (stack size set by -Xss).     *)
TInit == l \in (1 - Stride)..0
TNext == l <= Len(Trace) /\ l' = l + Stride
TSpec == TInit /\ [][TNext]_l

LinesOK == (l >= 1 /\ l <= Len(Trace)) => LineOK(Ev)
=============================================================================
