------------------------------ MODULE LazyInit ------------------------------
(* "The validators are functions of their argument" - the cold-start part.    *)
(*                                                                            *)
(* Lazily initialised package state (a lookup table, a compiled pattern, a    *)
(* cache built on first use) is hidden state whose first-use window exists    *)
(* ONCE PER PROCESS: the calls that overlap with the very first call.  The    *)
(* model: a validator that classifies bytes through a table of the host       *)
(* classes (entries "L", "D", "-" valid, everything else stays zero =         *)
(* invalid) which is built on first use.  Designs:                            *)
(*                                                                            *)
(*   "eager"  no lazy state: the table is a constant / the code computes the  *)
(*            class from the byte (what /repo does);                          *)
(*   "once"   sync.Once: the first caller fills the table, everybody else     *)
(*            waits until it is complete;                                     *)
(*   "late"   lock-free: fill a PRIVATE table, then publish it with one       *)
(*            compare-and-swap; losers use the winner's complete table;       *)
(*   "early"  lock-free gone wrong: publish the zeroed table with the         *)
(*            compare-and-swap FIRST, fill it afterwards; callers that load   *)
(*            the pointer during the fill read zero (= invalid) entries.      *)
(*                                                                            *)
(* Obligation: NoHiddenState - every completed call on input n returned       *)
(* Grammar(n).  TLC proves it for "eager", "once", "late" and must refute it  *)
(* for "early" (two processes, both in their first call).  The refuting       *)
(* history cannot be produced in a process that has already validated         *)
(* anything, so the harness replays it in FRESH processes: N goroutines       *)
(* released by one barrier make the first calls of every validator, each on   *)
(* its own generated inputs (plain, many times; and under -race).             *)
EXTENDS Names

CONSTANTS Design,     \* "eager" | "once" | "late" | "early"
          Procs,
          MaxCalls,
          Inputs      \* subset of InputIds

L(n) == Run("L", n)
InputIds == {"ld", "hy", "host", "bad", "dig"}
Text(id) == CASE id = "ld"   -> <<L(2), Run("D", 1)>>                          \* ab1      valid label
              [] id = "hy"   -> <<L(1), Run("-", 1), L(1)>>                    \* a-b      valid label
              [] id = "host" -> <<L(1), Run("D", 1), Run(".", 1), L(2)>>       \* a1.bc    valid hostname
              [] id = "bad"  -> <<L(1), Run("_", 1)>>                          \* a_       invalid
              [] id = "dig"  -> <<Run("D", 2)>>                                \* 12       valid label, invalid hostname
IsName(id) == id = "host"
Grammar(id) == IF IsName(id) THEN Hostname(Text(id)) ELSE SingleHostLabel(Text(id))

Entries == {"L", "D", "-"}
Needed(id) == {Text(id)[i].c : i \in DOMAIN Text(id)} \cap Entries
(* What the table-driven code answers when only the entries in T are filled:  *)
(* a zero entry reads as "invalid byte".                                      *)
WithTable(id, T) == Grammar(id) /\ Needed(id) \subseteq T

VARIABLES pub,     \* the pointer to the shared table has been published
          tab,     \* entries of the shared table filled so far
          priv,    \* priv[p]: entries of p's private table ("late")
          owner,   \* the process inside the once-section (0: nobody)
          pc,      \* "idle" | "filling" | "waiting"
          cur, done, calls
lvars == <<pub, tab, priv, owner, pc, cur, done, calls>>

Init == /\ pub = (Design = "eager")
        /\ tab = IF Design = "eager" THEN Entries ELSE {}
        /\ priv = [p \in Procs |-> {}]
        /\ owner = 0
        /\ pc = [p \in Procs |-> "idle"]
        /\ cur = [p \in Procs |-> CHOOSE n \in Inputs : TRUE]
        /\ done = {}
        /\ calls = [p \in Procs |-> 0]

Completed(n, res) == done' = done \cup {[n |-> n, res |-> res]}

(* A call begins: load the pointer. *)
Begin(p) ==
    /\ pc[p] = "idle" /\ calls[p] < MaxCalls
    /\ calls' = [calls EXCEPT ![p] = @ + 1]
    /\ \E n \in Inputs :
         /\ cur' = [cur EXCEPT ![p] = n]
         /\ IF pub THEN        \* somebody's table is there: use it as it is NOW
               /\ Completed(n, WithTable(n, tab))
               /\ UNCHANGED <<pub, tab, priv, owner, pc>>
            ELSE CASE Design = "early" ->        \* CAS(nil, zeroed table) wins, fill afterwards
                        /\ pub' = TRUE /\ tab' = {}
                        /\ pc' = [pc EXCEPT ![p] = "filling"]
                        /\ UNCHANGED <<priv, owner, done>>
                   [] Design = "late" ->         \* fill a private table first
                        /\ priv' = [priv EXCEPT ![p] = {}]
                        /\ pc' = [pc EXCEPT ![p] = "filling"]
                        /\ UNCHANGED <<pub, tab, owner, done>>
                   [] Design = "once" ->
                        IF owner = 0
                        THEN /\ owner' = p /\ pc' = [pc EXCEPT ![p] = "filling"]
                             /\ UNCHANGED <<pub, tab, priv, done>>
                        ELSE /\ pc' = [pc EXCEPT ![p] = "waiting"]
                             /\ UNCHANGED <<pub, tab, priv, owner, done>>

(* One entry is written. *)
Fill(p) ==
    /\ pc[p] = "filling"
    /\ IF Design = "late"
       THEN \E e \in Entries \ priv[p] : priv' = [priv EXCEPT ![p] = @ \cup {e}] /\ UNCHANGED tab
       ELSE \E e \in Entries \ tab : tab' = tab \cup {e} /\ UNCHANGED priv
    /\ UNCHANGED <<pub, owner, pc, cur, done, calls>>

(* The table is complete: publish (late, once) and answer. *)
Finish(p) ==
    /\ pc[p] = "filling"
    /\ (IF Design = "late" THEN priv[p] ELSE tab) = Entries
    /\ pc' = [pc EXCEPT ![p] = "idle"]
    /\ IF Design = "late" /\ ~pub THEN pub' = TRUE /\ tab' = priv[p] ELSE pub' = TRUE /\ UNCHANGED tab
    /\ Completed(cur[p], WithTable(cur[p], Entries))
    /\ UNCHANGED <<priv, owner, cur, calls>>

(* sync.Once lets the waiters go when the first caller is done. *)
Wake(p) ==
    /\ pc[p] = "waiting" /\ pub
    /\ pc' = [pc EXCEPT ![p] = "idle"]
    /\ Completed(cur[p], WithTable(cur[p], tab))
    /\ UNCHANGED <<pub, tab, priv, owner, cur, calls>>

Next == \E p \in Procs : Begin(p) \/ Fill(p) \/ Finish(p) \/ Wake(p)
Spec == Init /\ [][Next]_lvars

NoHiddenState == \A r \in done : r.res = Grammar(r.n)
ResultsStable == [][done \subseteq done']_lvars
(* a published table of the sound designs is complete *)
PublishedIsComplete == (Design # "early" /\ pub) => tab = Entries

InputsAsIntended == /\ Grammar("ld") /\ Grammar("hy") /\ Grammar("host") /\ ~Grammar("bad") /\ Grammar("dig")
                    /\ ~Hostname(Text("dig"))

ASSUME Design \in {"eager", "once", "late", "early"}
=============================================================================
