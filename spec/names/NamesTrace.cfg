SPECIFICATION TSpec
CONSTANTS
  Stride = 16
  NLines = 1
INVARIANTS LinesOK
CHECK_DEADLOCK FALSE
