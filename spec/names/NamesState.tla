----------------------------- MODULE NamesState -----------------------------
(* "The validators are functions of their argument: no hidden state."         *)
(*                                                                            *)
(* C03 says WHEN ValidateHostname / ValidateSRVDomainName / ValidateDomainName*)
(* return nil in terms of the argument alone, and C02 says the same of        *)
(* IsValidHostname.  So the verdict of a call may not depend on earlier calls *)
(* (of the same or of another validator) nor on calls running concurrently.   *)
(* Five designs of "a validator with a one-entry memo of the last name" are   *)
(* modelled; the validators are the kinds "host", "srv", "dom" (and "ishost", *)
(* the boolean twin, which uses the host grammar):                            *)
(*                                                                            *)
(*   "none"    no state: the verdict is computed from the argument (/repo);   *)
(*   "exact"   one memo PER KIND holding the last accepted argument, compared *)
(*             byte for byte;                                                 *)
(*   "fold"    one memo per kind, compared with Unicode simple case folding   *)
(*             (strings.EqualFold): U+212A KELVIN SIGN folds to k, U+017F     *)
(*             LONG S to s, so a look-alike of the last accepted name hits    *)
(*             the memo although its ToASCII form (an xn-- label, longer) has *)
(*             a different verdict.  The fold class stands for ANY lossy key: *)
(*             lower-casing, normalisation, a truncated prefix, a 32-bit      *)
(*             checksum of the name (two names with the same checksum are     *)
(*             "equal" for a memo that keeps only the checksum) - the harness *)
(*             finds such pairs of different validity by birthday search;     *)
(*   "shared"  ONE memo for all kinds ("hostname-valid => SRV-valid =>        *)
(*             domain-valid", so a hit in a stricter validator's memo is fine *)
(*             for a more lenient one - but the lenient ones write it too);   *)
(*   "convfold" ONE cache, for all kinds, of the idna.ToASCII form of the last  *)
(*             successfully converted name, keyed by the lower-cased / folded  *)
(*             name ("domain names are case-insensitive"): the next name in    *)
(*             the same fold class is judged on the FIRST spelling's ASCII     *)
(*             form - but "XN--0" is a plain label and "xn--0" broken          *)
(*             punycode, and 60 x "i" is a label while 60 x U+0130 (which      *)
(*             strings.ToLower maps to i) converts to a 66-byte xn-- label;    *)
(*   "unsync"  one memo per kind made of two words, key and verdict (also     *)
(*             rejections are remembered), written and read in separate       *)
(*             steps without synchronisation.                                 *)
(*                                                                            *)
(* Inputs are a handful of concrete shapes around the limits, each with the   *)
(* abstract text of its idna.ToASCII form (judged by Names.tla) and its fold  *)
(* class (inputs in one class are EqualFold-equal).                           *)
(*                                                                            *)
(* Obligation (invariant):                                                    *)
(*   NoHiddenState  every completed call of kind k on input n returned        *)
(*                  Grammar(k, n), whatever happened before or meanwhile      *)
(* TLC proves it for "none" and "exact" and must refute it for "fold" (host   *)
(* on the 63-byte k-label, then host on its Kelvin look-alike), "shared" (dom *)
(* then srv on "_x_.a": one process, two calls), "convfold" (host on          *)
(* XN--0.<idn> then on xn--0.<idn>; the 60-byte i-label and its U+0130        *)
(* spelling in either order) and "unsync" (two processes).                    *)
(* The orchestrators run the last three expecting the violation; the harness  *)
(* replays the refuting histories on the real functions: every input through  *)
(* all validators strict->lenient and lenient->strict, fold look-alike pairs  *)
(* in both orders, a second shuffled pass, and goroutines under -race.        *)
EXTENDS Names

CONSTANTS Design,     \* "none" | "exact" | "fold" | "shared" | "unsync"
          Procs,      \* process ids
          MaxCalls,   \* calls per process
          Kinds,      \* subset of {"host", "srv", "dom", "ishost"}
          Inputs      \* subset of InputIds

L(n) == Run("L", n)
Dot == Run(".", 1)

(* id -> [t: abstract ToASCII form, fold: fold class]                          *)
InputIds == {"k63", "K63", "kelvin63", "k64", "srvish", "svc", "s253", "longs253",
             "ACEup", "acelow", "i60", "doti60"}
Idn == <<L(2), Run("-", 2), L(1), Run("D", 1), L(3)>>                            \* xn--p1ai, the ASCII form of a non-ASCII label
Input(id) ==
    CASE id = "k63"      -> [t |-> <<L(63), Dot, L(1)>>, fold |-> 1]            \* kkk...k.a
      [] id = "K63"      -> [t |-> <<L(63), Dot, L(1)>>, fold |-> 1]            \* KKK...K.A : ASCII case flip
      [] id = "kelvin63" -> [t |-> <<L(2), Run("-", 2), L(62), Run("-", 1), L(3), Dot, L(1)>>, fold |-> 1]
                                                                                \* one k -> U+212A: xn--kkk...-xyz, 70 bytes
      [] id = "k64"      -> [t |-> <<L(64), Dot, L(1)>>, fold |-> 2]
      [] id = "srvish"   -> [t |-> <<Run("_", 1), L(1), Run("_", 1), Dot, L(1)>>, fold |-> 3]   \* _x_.a : domain name only
      [] id = "svc"      -> [t |-> <<Run("_", 1), L(3), Dot, L(1)>>, fold |-> 4]               \* _tcp.a : SRV and domain
      [] id = "s253"     -> [t |-> <<L(63), Dot, L(63), Dot, L(63), Dot, L(61)>>, fold |-> 5]  \* 253 bytes with an s
      [] id = "ACEup"    -> [t |-> <<L(2), Run("-", 2), Run("D", 1), Dot>> \o Idn, fold |-> 6]   \* XN--0.<idn>: a plain label
      [] id = "acelow"   -> [t |-> <<>>, fold |-> 6]                                              \* xn--0.<idn>: ToASCII fails
      [] id = "i60"      -> [t |-> <<L(60), Dot>> \o Idn, fold |-> 7]                             \* iii...i.<idn>
      [] id = "doti60"   -> [t |-> <<L(2), Run("-", 2), L(62), Dot>> \o Idn, fold |-> 7]          \* 60 x U+0130: xn--bfaaa...a, 66 bytes
      [] id = "longs253" -> [t |-> <<L(63), Dot, L(63), Dot, L(63), Dot, L(2), Run("-", 2), L(60), Run("-", 1), L(3)>>, fold |-> 5]
                                                                                \* one s -> U+017F: last label xn--..., 261 bytes

ToASCIIFails(id) == id = "acelow"
Grammar(k, id) == LET v == Verdicts(Input(id).t, ToASCIIFails(id)) IN
                  CASE k = "host" -> v.host [] k = "ishost" -> v.host [] k = "srv" -> v.srv [] k = "dom" -> v.dom

VARIABLES memo,   \* memo[slot]: [valid, key, ok]; slot = kind, or "all" for the shared design
          pc,     \* pc[p]: "idle" | "hit" | "miss" | "stored"  (the last three only in "unsync")
          cur,    \* cur[p]: the call in progress [k, n]
          done,   \* completed calls [k, n, res]
          calls
svars == <<memo, pc, cur, done, calls>>

Slots == Kinds \cup {"all"}
Slot(k) == IF Design \in {"shared", "convfold"} THEN "all" ELSE k
NoMemo == [valid |-> FALSE, key |-> "k63", ok |-> FALSE]

Init == /\ memo = [s \in Slots |-> NoMemo]
        /\ pc = [p \in Procs |-> "idle"]
        /\ cur = [p \in Procs |-> [k |-> CHOOSE k \in Kinds : TRUE, n |-> CHOOSE n \in Inputs : TRUE]]
        /\ done = {}
        /\ calls = [p \in Procs |-> 0]

SameKey(a, b) == IF Design \in {"fold", "convfold"} THEN Input(a).fold = Input(b).fold ELSE a = b
Hit(k, n) == memo[Slot(k)].valid /\ SameKey(memo[Slot(k)].key, n)

Completed(k, n, res) == done' = done \cup {[k |-> k, n |-> n, res |-> res]}

(* One atomic call (a lock or an atomic pointer makes it so): all designs but "unsync". *)
AtomicCall(p) ==
    /\ Design \in {"none", "exact", "fold", "shared", "convfold"}
    /\ pc[p] = "idle" /\ calls[p] < MaxCalls
    /\ calls' = [calls EXCEPT ![p] = @ + 1]
    /\ \E k \in Kinds, n \in Inputs :
         IF Design = "none" THEN
              Completed(k, n, Grammar(k, n)) /\ UNCHANGED memo
         ELSE IF Design = "convfold" THEN
              \* the cached ASCII form of the first spelling is what gets validated
              IF Hit(k, n) THEN Completed(k, n, Grammar(k, memo["all"].key)) /\ UNCHANGED memo
              ELSE /\ Completed(k, n, Grammar(k, n))
                   /\ memo' = IF ToASCIIFails(n) THEN memo
                              ELSE [memo EXCEPT !["all"] = [valid |-> TRUE, key |-> n, ok |-> TRUE]]
         ELSE IF Hit(k, n) THEN
              Completed(k, n, TRUE) /\ UNCHANGED memo           \* only accepted names are remembered
         ELSE /\ Completed(k, n, Grammar(k, n))
              /\ memo' = IF Grammar(k, n) THEN [memo EXCEPT ![Slot(k)] = [valid |-> TRUE, key |-> n, ok |-> TRUE]] ELSE memo
    /\ UNCHANGED <<pc, cur>>

(* "unsync": compare the key, then read the verdict; or store the key, then the verdict. *)
Lookup(p) == /\ Design = "unsync"
             /\ pc[p] = "idle" /\ calls[p] < MaxCalls
             /\ calls' = [calls EXCEPT ![p] = @ + 1]
             /\ \E k \in Kinds, n \in Inputs :
                  /\ cur' = [cur EXCEPT ![p] = [k |-> k, n |-> n]]
                  /\ pc' = [pc EXCEPT ![p] = IF Hit(k, n) THEN "hit" ELSE "miss"]
             /\ UNCHANGED <<memo, done>>
ReadVerdict(p) == /\ pc[p] = "hit"
                  /\ Completed(cur[p].k, cur[p].n, memo[Slot(cur[p].k)].ok)
                  /\ pc' = [pc EXCEPT ![p] = "idle"]
                  /\ UNCHANGED <<memo, cur, calls>>
StoreKey(p) == /\ pc[p] = "miss"
               /\ memo' = [memo EXCEPT ![Slot(cur[p].k)].valid = TRUE, ![Slot(cur[p].k)].key = cur[p].n]
               /\ pc' = [pc EXCEPT ![p] = "stored"]
               /\ UNCHANGED <<cur, done, calls>>
StoreVerdict(p) == /\ pc[p] = "stored"
                   /\ memo' = [memo EXCEPT ![Slot(cur[p].k)].ok = Grammar(cur[p].k, cur[p].n)]
                   /\ Completed(cur[p].k, cur[p].n, Grammar(cur[p].k, cur[p].n))
                   /\ pc' = [pc EXCEPT ![p] = "idle"]
                   /\ UNCHANGED <<cur, calls>>

Next == \E p \in Procs : AtomicCall(p) \/ Lookup(p) \/ ReadVerdict(p) \/ StoreKey(p) \/ StoreVerdict(p)
Spec == Init /\ [][Next]_svars

NoHiddenState == \A r \in done : r.res = Grammar(r.k, r.n)
(* Verdicts are values: a completed call stays as it was. *)
ResultsStable == [][done \subseteq done']_svars

(* The inputs really are what the comments say (checked in every run). *)
InputsAsIntended ==
    /\ Grammar("host", "k63") /\ Grammar("host", "K63") /\ ~Grammar("host", "kelvin63") /\ ~Grammar("dom", "kelvin63")
    /\ ~Grammar("dom", "k64")
    /\ Grammar("dom", "srvish") /\ ~Grammar("srv", "srvish") /\ ~Grammar("host", "srvish")
    /\ Grammar("srv", "svc") /\ Grammar("dom", "svc") /\ ~Grammar("host", "svc")
    /\ Grammar("host", "ACEup") /\ ~Grammar("dom", "acelow")
    /\ Grammar("host", "i60") /\ ~Grammar("dom", "doti60")
    /\ ByteLen(Input("s253").t) = 253 /\ Grammar("host", "s253") /\ ~Grammar("dom", "longs253")

AllKinds == {"host", "srv", "dom", "ishost"}
ASSUME Design \in {"none", "exact", "fold", "shared", "convfold", "unsync"}
=============================================================================
