SPECIFICATION Spec
CONSTANTS
  Design = "exact"
  Procs = {1, 2}
  MaxCalls = 2
  Kinds = {"host", "srv", "dom"}
  Inputs = {"k63", "kelvin63", "srvish", "svc"}
INVARIANTS NoHiddenState InputsAsIntended
PROPERTIES ResultsStable
CHECK_DEADLOCK FALSE
