SPECIFICATION LabelSpec
CONSTANTS
  Alphabet = {"L", "D", "-", "_", ".", "X"}
  MaxLen = 6
  Shapes <- ShapesQuick
  Lens = {0, 1, 2, 16, 17, 63, 64}
  MaxLabels = 3
  LongLens = {63}
  LongShapes <- LongShapesAll
  NLong = 0
  TailShapes <- TailShapesAll
  TailLens = {0, 1, 2, 16, 17, 63, 64}
INVARIANTS Emit HierInv
CHECK_DEADLOCK FALSE
