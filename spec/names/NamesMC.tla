------------------------------ MODULE NamesMC ------------------------------
(* Exhaustive check of the Names grammar itself: every string over Alphabet  *)
(* up to MaxLen bytes is one state.  Besides the lemmas of Names.tla the      *)
(* declarative grammar is cross-checked against an independent left-to-right  *)
(* SCANNER (the shape of the Go loops: one pass, per-label summary, strict    *)
(* rule for the final label), carried along incrementally in `q`.             *)
EXTENDS Names

CONSTANTS Alphabet,   \* subset of Classes
          MaxLen      \* bound on the number of bytes

VARIABLES cs,         \* the input: sequence of class names (one per byte)
          q           \* scanner state after reading cs

vars == <<cs, q>>

NoClass == "none"

(* Summary of the label being read + what is known about the finished ones. *)
Q0 == [total |-> 0,
       len |-> 0, first |-> NoClass, second |-> NoClass, last |-> NoClass,
       allHost |-> TRUE, restHost |-> TRUE, nonDigit |-> FALSE,
       okHost |-> TRUE, okSrv |-> TRUE, okDom |-> TRUE]

CurHost(p) == p.len \in 1..MaxLabelLen /\ p.allHost /\ p.first # "-" /\ p.last # "-"
CurDom(p)  == p.len \in 1..MaxLabelLen
CurSrv(p)  == /\ p.first = "_" /\ p.len \in 2..MaxSrvLen
              /\ p.restHost /\ p.second # "-" /\ p.last # "-"
CurTLD(p)  == CurHost(p) /\ p.nonDigit

Step(p, c) ==
    IF c = "."
    THEN [Q0 EXCEPT !.total = p.total + 1,
                    !.okHost = p.okHost /\ CurHost(p),
                    !.okSrv  = p.okSrv /\ (CurHost(p) \/ CurSrv(p)),
                    !.okDom  = p.okDom /\ CurDom(p)]
    ELSE [p EXCEPT !.total = p.total + 1,
                   !.len = p.len + 1,
                   !.first = IF p.len = 0 THEN c ELSE p.first,
                   !.second = IF p.len = 1 THEN c ELSE p.second,
                   !.last = c,
                   !.allHost = p.allHost /\ HostClass(c),
                   !.restHost = p.restHost /\ (p.len = 0 \/ HostClass(c)),
                   !.nonDigit = p.nonDigit \/ c # "D"]

ScanOK(p)   == p.total \in 1..MaxNameLen /\ CurTLD(p)
ScanHost(p) == ScanOK(p) /\ p.okHost
ScanSrv(p)  == ScanOK(p) /\ p.okSrv
ScanDom(p)  == ScanOK(p) /\ p.okDom

Init == cs = <<>> /\ q = Q0
Next == /\ Len(cs) < MaxLen
        /\ \E c \in Alphabet : cs' = Append(cs, c) /\ q' = Step(q, c)
Spec == Init /\ [][Next]_vars

S == Str(cs)

TypeOK == cs \in Seq(Alphabet) /\ q.total = Len(cs)
HierInv == Hier(S)
LabelHierInv == LabelHier(S)
SanityInv == Sanity(S)
NotationInv == NotationFree(S)
ScanAgrees == /\ ScanHost(q) = Hostname(S)
              /\ ScanSrv(q) = SrvName(S)
              /\ ScanDom(q) = DomainName(S)
(* the single-label validator: a name without dots that is a host label *)
LabelInv == SingleHostLabel(S) = (Len(cs) > 0 /\ CurHost(q) /\ q.total = q.len)
=============================================================================
