SPECIFICATION Spec
CONSTANTS
  Design = "late"
  Procs = {1, 2}
  MaxCalls = 2
  Inputs = {"ld", "hy", "host", "bad"}
INVARIANTS NoHiddenState PublishedIsComplete InputsAsIntended
PROPERTIES ResultsStable
CHECK_DEADLOCK FALSE
