SPECIFICATION ManySpec
CONSTANTS
  Alphabet = {"L"}
  MaxLen = 0
  Shapes <- ShapesQuick
  Lens = {1}
  MaxLabels = 0
  LongLens = {63}
  LongShapes <- LongShapesAll
  NLong = 0
  TailShapes <- TailShapesAll
  TailLens = {1}
INVARIANTS Emit ManyInv HierInv
CHECK_DEADLOCK FALSE
