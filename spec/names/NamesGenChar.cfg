SPECIFICATION CharSpec
CONSTANTS
  Alphabet = {"L", "D", "-", "_", ".", "X"}
  MaxLen = 6
  Shapes <- ShapesQuick
  Lens = {1}
  MaxLabels = 0
  LongLens = {63}
  LongShapes <- LongShapesAll
  NLong = 0
  TailShapes <- TailShapesAll
  TailLens = {1}
INVARIANTS Emit
CHECK_DEADLOCK FALSE
