SPECIFICATION Spec
CONSTANTS
  Alphabet = {"L", "D", "-", "_", ".", "X"}
  MaxLen = 6
INVARIANTS TypeOK HierInv LabelHierInv SanityInv NotationInv ScanAgrees LabelInv
CHECK_DEADLOCK FALSE
