SPECIFICATION LongSpec
CONSTANTS
  Alphabet = {"L", "D", "-", "_", ".", "X"}
  MaxLen = 6
  Shapes <- ShapesQuick
  Lens = {1}
  MaxLabels = 0
  LongLens = {61, 62, 63, 64}
  LongShapes <- LongShapesAll
  NLong = 3
  TailShapes <- TailShapesAll
  TailLens = {1, 2, 58, 59, 60, 61, 62, 63, 64}
INVARIANTS Emit HierInv
CHECK_DEADLOCK FALSE
