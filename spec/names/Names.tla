------------------------------- MODULE Names -------------------------------
(* Grammar of host names, domain names and SRV domain names as documented   *)
(* for netutil.ValidateHostname / ValidateDomainName / ValidateSRVDomainName *)
(* (property C03), over ABSTRACT text.                                       *)
(*                                                                           *)
(* Abstract text.  The grammar only distinguishes six classes of bytes:      *)
(*   "L" ASCII letter   "D" ASCII digit   "-"   "_"   "."   "X" other byte   *)
(* A name is a sequence of RUNS  [c |-> class, n |-> length >= 1] ; a run    *)
(* stands for n bytes of that class, so label lengths around 16/63 and name  *)
(* lengths around 253 are reachable with a handful of tokens.  The grammar   *)
(* is about the text AFTER idna.ToASCII (the reference function named in the *)
(* property); the harness applies the real idna.ToASCII and abstracts its    *)
(* output, see NamesTrace.tla.                                               *)
EXTENDS Integers, Sequences, FiniteSets

Classes == {"L", "D", "-", "_", ".", "X"}

MaxLabelLen == 63      \* RFC 1035
MaxNameLen  == 253     \* RFC 1035
MaxSrvLen   == 16      \* RFC 6335, including the leading underscore

Run(c, n) == [c |-> c, n |-> n]

(* Char-level strings (sequences of class names) as runs of length 1. *)
Str(cs) == [i \in DOMAIN cs |-> Run(cs[i], 1)]

RECURSIVE SumN(_)
SumN(s) == IF s = <<>> THEN 0 ELSE s[1].n + SumN(Tail(s))

(* Number of bytes of an abstract string. *)
ByteLen(s) == SumN(s)

----------------------------------------------------------------------------
(* Labels: non-empty sequences of runs without "." *)

HostClass(c) == c \in {"L", "D", "-"}

(* 1..63 letters, digits or INNER hyphens. *)
HostLabel(l) ==
    /\ Len(l) > 0
    /\ ByteLen(l) \in 1..MaxLabelLen
    /\ \A i \in DOMAIN l : HostClass(l[i].c)
    /\ l[1].c # "-"
    /\ l[Len(l)].c # "-"

(* any 1..63 bytes *)
DomainLabel(l) == Len(l) > 0 /\ ByteLen(l) \in 1..MaxLabelLen

(* a host label that contains a non-digit *)
TLDLabel(l) == HostLabel(l) /\ \E i \in DOMAIN l : l[i].c # "D"

(* l without its first byte *)
DropFirst(l) == IF l[1].n = 1 THEN Tail(l) ELSE [l EXCEPT ![1].n = @ - 1]

(* '_' + host label, at most 16 bytes in total *)
SrvLabel(l) ==
    /\ Len(l) > 0
    /\ l[1].c = "_"
    /\ ByteLen(l) <= MaxSrvLen
    /\ HostLabel(DropFirst(l))

----------------------------------------------------------------------------
(* Names: labels separated by single dots. *)

IsDot(t) == t.c = "."

(* The labels of s: what stands between the dots.  A run of n dots separates *)
(* n+1 labels, n-1 of them empty; the empty string has one (empty) label.    *)
RECURSIVE LabelsFrom(_, _, _)
LabelsFrom(s, i, cur) ==
    IF i > Len(s) THEN <<cur>>
    ELSE IF IsDot(s[i])
         THEN <<cur>> \o [k \in 1..(s[i].n - 1) |-> <<>>] \o LabelsFrom(s, i + 1, <<>>)
         ELSE LabelsFrom(s, i + 1, Append(cur, s[i]))
Labels(s) == LabelsFrom(s, 1, <<>>)

(* The common skeleton: 1..nbytes..253 bytes, every non-final label satisfies *)
(* Inner, the final label obeys the strict TLD rule.  (All label predicates   *)
(* reject the empty label.)                                                   *)
NameOfL(ls, nbytes, Inner(_)) ==
    /\ nbytes \in 1..MaxNameLen
    /\ \A i \in 1..(Len(ls) - 1) : Inner(ls[i])
    /\ TLDLabel(ls[Len(ls)])

SrvOrHostLabel(l) == HostLabel(l) \/ SrvLabel(l)

Hostname(s)   == NameOfL(Labels(s), ByteLen(s), HostLabel)
DomainName(s) == NameOfL(Labels(s), ByteLen(s), DomainLabel)
SrvName(s)    == NameOfL(Labels(s), ByteLen(s), SrvOrHostLabel)

(* ValidateHostnameLabel / IsValidHostnameLabel take ONE label: a dot is just *)
(* another forbidden byte there.                                             *)
SingleHostLabel(s) == HostLabel(s)

----------------------------------------------------------------------------
(* What the three validators must return for input text whose ToASCII form   *)
(* abstracts to t (toAsciiFailed = idna.ToASCII returned an error).          *)
Verdicts(t, toAsciiFailed) ==
    LET ls == Labels(t)
        n  == ByteLen(t)
    IN [host |-> ~toAsciiFailed /\ NameOfL(ls, n, HostLabel),
        srv  |-> ~toAsciiFailed /\ NameOfL(ls, n, SrvOrHostLabel),
        dom  |-> ~toAsciiFailed /\ NameOfL(ls, n, DomainLabel)]

(* Error shape: nil when accepted, otherwise *AddrError carrying the         *)
(* ORIGINAL input.                                                           *)
ErrorShape(accepted) ==
    [type |-> IF accepted THEN "nil" ELSE "*netutil.AddrError", addrIsInput |-> ~accepted]

----------------------------------------------------------------------------
(* Lemmas (checked by TLC as invariants over every enumerated string).       *)

(* C03: Hostname \subseteq SrvName \subseteq DomainName *)
Hier(s) == (Hostname(s) => SrvName(s)) /\ (SrvName(s) => DomainName(s))

LabelHier(l) == /\ TLDLabel(l) => HostLabel(l)
                /\ HostLabel(l) => DomainLabel(l)
                /\ SrvLabel(l) => (DomainLabel(l) /\ ~HostLabel(l))

(* A valid name never has a label over 63 bytes nor more than 253 bytes, and *)
(* its last label is a host label with a non-digit.                          *)
Sanity(s) ==
    DomainName(s) =>
       LET ls == Labels(s) IN
       /\ ByteLen(s) <= MaxNameLen
       /\ ByteLen(s) = SumN([i \in DOMAIN ls |-> [n |-> ByteLen(ls[i])]]) + Len(ls) - 1
       /\ \A i \in DOMAIN ls : ByteLen(ls[i]) \in 1..MaxLabelLen
       /\ TLDLabel(ls[Len(ls)])

(* Merging adjacent runs of one class / splitting a run does not change any  *)
(* verdict (the run encoding is only a notation).                            *)
RECURSIVE Normalize(_)
Normalize(s) ==
    IF Len(s) < 2 THEN s
    ELSE IF s[1].c = s[2].c
         THEN Normalize(<<Run(s[1].c, s[1].n + s[2].n)>> \o SubSeq(s, 3, Len(s)))
         ELSE <<s[1]>> \o Normalize(Tail(s))
NotationFree(s) == LET t == Normalize(s) IN
    /\ Hostname(s) = Hostname(t)
    /\ SrvName(s) = SrvName(t)
    /\ DomainName(s) = DomainName(t)
=============================================================================
