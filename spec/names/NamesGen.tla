------------------------------ MODULE NamesGen ------------------------------
(* Generators (binding G) for the Names grammar.  Every state is one abstract *)
(* input; the always-true invariant Emit writes it together with the verdicts *)
(* the grammar predicts.                                                      *)
(*                                                                            *)
(*  CharSpec  : all byte strings over Alphabet up to MaxLen bytes             *)
(*  LabelSpec : all names of up to MaxLabels labels drawn from LabelSet — a   *)
(*              label is a shape <<first, inner, last>> of classes stretched  *)
(*              to a length in Lens (0, 1, 2, 15, 16, 17, 62, 63, 64 ...)     *)
(*  LongSpec  : names of NLong labels with lengths in LongLens (61..64), to   *)
(*              put the total length on 250..256 with legal and illegal       *)
(*              labels, followed by one label from TailSet                    *)
EXTENDS Names, Json, CSV, TLC

CONSTANTS Alphabet, MaxLen,
          Shapes, Lens, MaxLabels,
          LongLens, LongShapes, NLong, TailShapes, TailLens

VARIABLES s,     \* the abstract input: sequence of runs
          nl     \* number of labels appended so far (label-level generators)
vars == <<s, nl>>

Dot == Run(".", 1)

(* A label of shape <<f, m, e>> stretched to n bytes (n = 0: the empty label) *)
Label(sh, n) ==
    CASE n = 0 -> <<>>
      [] n = 1 -> <<Run(sh[1], 1)>>
      [] n = 2 -> <<Run(sh[1], 1), Run(sh[3], 1)>>
      [] OTHER -> <<Run(sh[1], 1), Run(sh[2], n - 2), Run(sh[3], 1)>>

LabelSet == {Label(sh, n) : sh \in Shapes, n \in Lens}
LongSet  == {Label(sh, n) : sh \in LongShapes, n \in LongLens}
TailSet  == {Label(sh, n) : sh \in TailShapes, n \in TailLens}

AppendLabel(l) == s' = (IF nl = 0 THEN l ELSE s \o <<Dot>> \o l) /\ nl' = nl + 1

CharInit == s = <<>> /\ nl = 0
CharNext == /\ ByteLen(s) < MaxLen
            /\ \E c \in Alphabet : s' = Append(s, Run(c, 1))
            /\ UNCHANGED nl
CharSpec == CharInit /\ [][CharNext]_vars

LabelNext == nl < MaxLabels /\ \E l \in LabelSet : AppendLabel(l)
LabelSpec == CharInit /\ [][LabelNext]_vars

LongNext == \/ nl < NLong /\ \E l \in LongSet : AppendLabel(l)
            \/ nl = NLong /\ \E l \in TailSet : AppendLabel(l)
LongSpec == CharInit /\ [][LongNext]_vars

(* compact encoding of the runs: [["L",1],["-",61],...] *)
Enc(t) == [i \in DOMAIN t |-> <<t[i].c, t[i].n>>]

Vec == LET v == Verdicts(s, FALSE) IN
       [r |-> Enc(s), host |-> v.host, srv |-> v.srv, dom |-> v.dom,
        label |-> SingleHostLabel(s), len |-> ByteLen(s)]

Emit == CSVWrite("%1$s", <<ToJson(Vec)>>, "names_vectors.ndjson")

HierInv == Hier(s)
SanityInv == Sanity(s)

(* Shape tables (cfg files cannot hold tuples). *)
ShapesQuick == {<<"L","L","L">>, <<"D","D","D">>, <<"L","-","L">>, <<"-","L","L">>, <<"L","L","-">>,
                <<"_","L","L">>, <<"_","L","-">>, <<"L","X","L">>, <<"L","_","D">>, <<"D","L","D">>}
ShapesThorough == ShapesQuick \cup
               {<<"_","-","L">>, <<"_","_","L">>, <<"_","D","D">>, <<"X","L","L">>, <<"L","L","X">>,
                <<"D","-","D">>, <<"L","D","D">>, <<"_","X","L">>, <<"_","L","_">>}
LongShapesAll == {<<"L","L","L">>, <<"D","D","D">>, <<"L","X","L">>, <<"_","L","L">>}
TailShapesAll == {<<"L","L","L">>, <<"D","D","D">>, <<"L","-","D">>, <<"D","L","D">>, <<"L","L","-">>}
=============================================================================
