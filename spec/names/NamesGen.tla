------------------------------ MODULE NamesGen ------------------------------
(* Generators (binding G) for the Names grammar.  Every state is one abstract *)
(* input; the always-true invariant Emit writes it together with the verdicts *)
(* the grammar predicts.                                                      *)
(*                                                                            *)
(*  CharSpec  : all byte strings over Alphabet up to MaxLen bytes             *)
(*  LabelSpec : all names of up to MaxLabels labels drawn from LabelSet — a   *)
(*              label is a shape <<first, inner, last>> of classes stretched  *)
(*              to a length in Lens (0, 1, 2, 15, 16, 17, 62, 63, 64 ...)     *)
(*  LongSpec  : names of NLong labels with lengths in LongLens (61..64), to   *)
(*              put the total length on 250..256 with legal and illegal       *)
(*              labels, followed by one label from TailSet                    *)
EXTENDS Names, Json, CSV, TLC

CONSTANTS Alphabet, MaxLen,
          Shapes, Lens, MaxLabels,
          LongLens, LongShapes, NLong, TailShapes, TailLens

VARIABLES s,     \* the abstract input: sequence of runs
          nl     \* number of labels appended so far (label-level generators)
vars == <<s, nl>>

Dot == Run(".", 1)

(* A label of shape <<f, m, e>> stretched to n bytes (n = 0: the empty label) *)
Label(sh, n) ==
    CASE n = 0 -> <<>>
      [] n = 1 -> <<Run(sh[1], 1)>>
      [] n = 2 -> <<Run(sh[1], 1), Run(sh[3], 1)>>
      [] OTHER -> <<Run(sh[1], 1), Run(sh[2], n - 2), Run(sh[3], 1)>>

LabelSet == {Label(sh, n) : sh \in Shapes, n \in Lens}
LongSet  == {Label(sh, n) : sh \in LongShapes, n \in LongLens}
TailSet  == {Label(sh, n) : sh \in TailShapes, n \in TailLens}

AppendLabel(l) == s' = (IF nl = 0 THEN l ELSE s \o <<Dot>> \o l) /\ nl' = nl + 1

CharInit == s = <<>> /\ nl = 0
CharNext == /\ ByteLen(s) < MaxLen
            /\ \E c \in Alphabet : s' = Append(s, Run(c, 1))
            /\ UNCHANGED nl
CharSpec == CharInit /\ [][CharNext]_vars

LabelNext == nl < MaxLabels /\ \E l \in LabelSet : AppendLabel(l)
LabelSpec == CharInit /\ [][LabelNext]_vars

LongNext == \/ nl < NLong /\ \E l \in LongSet : AppendLabel(l)
            \/ nl = NLong /\ \E l \in TailSet : AppendLabel(l)
LongSpec == CharInit /\ [][LongNext]_vars

(* --- many minimal labels --- *)
(* k labels of n bytes of class c (the last one always letters), `extra` more *)
(* one-byte labels in front, optional trailing dot                            *)
ManyName(k, n, c, extra, dot) ==
    LET lab(i) == IF i = k THEN Run("L", n) ELSE Run(c, n)
        body == [i \in 1..(2 * k - 1) |-> IF i % 2 = 1 THEN lab((i + 1) \div 2) ELSE Dot]
        front == [i \in 1..(2 * extra) |-> IF i % 2 = 1 THEN Run("L", 1) ELSE Dot]
    IN front \o body \o (IF dot THEN <<Dot>> ELSE <<>>)
ManyCounts == {<<k, 1>> : k \in 118..128} \cup {<<k, 2>> : k \in 80..86} \cup {<<k, 3>> : k \in 60..65}
ManySet == {ManyName(kn[1], kn[2], c, e, d) : kn \in ManyCounts, c \in {"L", "D"}, e \in {0, 1, 2}, d \in BOOLEAN}
ManyNext == nl = 0 /\ \E m \in ManySet : s' = m /\ nl' = 1
ManySpec == CharInit /\ [][ManyNext]_vars
(* a name of minimal letter labels is valid exactly up to 253 bytes (127 one-byte labels) *)
ManyInv == nl = 1 =>
    /\ (s[Len(s)].c # "." /\ ByteLen(s) <= 253) => DomainName(s)
    /\ (s[Len(s)].c = "." \/ ByteLen(s) > 253) => ~DomainName(s)
    /\ Hostname(ManyName(127, 1, "L", 0, FALSE)) /\ ~DomainName(ManyName(128, 1, "L", 0, FALSE))

(* --- huge rejected inputs --- *)
HugeTotals == {1023, 1024, 1025, 1500, 5000, 70000}
HugeKinds  == {"labelL", "labelD", "labelX", "label-", "label_", "labelL.tld", "labelX.tld",
               "name", "name-bad-start", "name-bad-middle", "name-bad-end", "name_start", "name-end"}
(* n blocks "63 letters + dot" *)
Blocks(n) == [i \in 1..(2 * n) |-> IF i % 2 = 1 THEN Run("L", 63) ELSE Dot]
(* a name of exactly T bytes: 63-byte labels and a last label of 1..64 bytes; the     *)
(* block `at` (0: none) has its 32nd byte replaced by class c                          *)
LongName(T, at, c) ==
    LET n == (T - 1) \div 64
        r == T - 64 * n
        b == Blocks(n)
    IN (IF at = 0 THEN b
        ELSE SubSeq(b, 1, 2 * at - 2) \o <<Run("L", 31), Run(c, 1), Run("L", 31)>> \o SubSeq(b, 2 * at, 2 * n))
       \o <<Run("L", r)>>
Huge(kind, T) ==
    CASE kind = "labelL" -> <<Run("L", T)>>
      [] kind = "labelD" -> <<Run("D", T)>>
      [] kind = "labelX" -> <<Run("X", T)>>
      [] kind = "label-" -> <<Run("-", T)>>
      [] kind = "label_" -> <<Run("_", T)>>
      [] kind = "labelL.tld" -> <<Run("L", T - 4), Dot, Run("L", 3)>>
      [] kind = "labelX.tld" -> <<Run("L", 1), Run("X", T - 6), Run("L", 1), Dot, Run("L", 3)>>
      [] kind = "name" -> LongName(T, 0, "L")
      [] kind = "name-bad-start" -> <<Run("X", 1)>> \o LongName(T - 1, 0, "L")
      [] kind = "name_start" -> <<Run("_", 1)>> \o LongName(T - 1, 0, "L")
      [] kind = "name-bad-middle" -> LongName(T, ((T - 1) \div 64) \div 2 + 1, "X")
      [] kind = "name-bad-end" -> LongName(T - 1, 0, "L") \o <<Run("X", 1)>>
      [] kind = "name-end" -> LongName(T - 1, 0, "L") \o <<Run("-", 1)>>
HugeSet == {Huge(k, T) : k \in HugeKinds, T \in HugeTotals}
(* one step from the empty input to each huge one (evaluated by TLC's worker threads, *)
(* whose stack is large enough for the recursion over ~2200 runs)                      *)
HugeNext == nl = 0 /\ \E h \in HugeSet : s' = h /\ nl' = 1
HugeSpec == CharInit /\ [][HugeNext]_vars
(* all of them are rejected by every validator, and have the intended size *)
HugeInv == nl = 1 => /\ ByteLen(s) \in HugeTotals
                     /\ ~DomainName(s) /\ ~SrvName(s) /\ ~Hostname(s)

(* compact encoding of the runs: [["L",1],["-",61],...] *)
Enc(t) == [i \in DOMAIN t |-> <<t[i].c, t[i].n>>]

Vec == LET v == Verdicts(s, FALSE) IN
       [r |-> Enc(s), host |-> v.host, srv |-> v.srv, dom |-> v.dom,
        label |-> SingleHostLabel(s), len |-> ByteLen(s)]

Emit == CSVWrite("%1$s", <<ToJson(Vec)>>, "names_vectors.ndjson")

HierInv == Hier(s)
SanityInv == Sanity(s)

(* Shape tables (cfg files cannot hold tuples). *)
ShapesQuick == {<<"L","L","L">>, <<"D","D","D">>, <<"L","-","L">>, <<"-","L","L">>, <<"L","L","-">>,
                <<"_","L","L">>, <<"_","L","-">>, <<"L","X","L">>, <<"L","_","D">>, <<"D","L","D">>}
ShapesThorough == ShapesQuick \cup
               {<<"_","-","L">>, <<"_","_","L">>, <<"_","D","D">>, <<"X","L","L">>, <<"L","L","X">>,
                <<"D","-","D">>, <<"L","D","D">>, <<"_","X","L">>, <<"_","L","_">>}
LongShapesAll == {<<"L","L","L">>, <<"D","D","D">>, <<"L","X","L">>, <<"_","L","L">>}
TailShapesAll == {<<"L","L","L">>, <<"D","D","D">>, <<"L","-","D">>, <<"D","L","D">>, <<"L","L","-">>}
=============================================================================
